#!/bin/sh
# runs every quick (or thorough) check once and prints one line per check; exit 1 if any is not 0
tier=${1:-quick}; bad=0
for c in C01 C02 C03 C04 C05 C06 C07 C08 C09 C10 C11 C12 C13 C14 C15 C16 C17 C18 C19 C20 EXT; do
  s=$(date +%s); /verif/check $c $tier > /var/tmp/runall_$c.txt 2>&1; rc=$?
  echo "$c $tier rc=$rc $(( $(date +%s)-s ))s $(grep -E 'VIOLATION|INFRA|NONCONF' /var/tmp/runall_$c.txt | head -1 | cut -c1-160)"
  [ $rc -ne 0 ] && bad=1
done
exit $bad
