#!/bin/sh
# Offline setup after a fresh restore: check the tools and warm the Go build cache by
# building the harness once against /repo (every check rebuilds it anyway).
set -e
cd "$(dirname "$0")"
export GOFLAGS=-mod=mod GOPROXY=off GOSUMDB=off GOTOOLCHAIN=local
command -v tlc >/dev/null || { echo "tlc not found" >&2; exit 1; }
command -v go >/dev/null || { echo "go not found" >&2; exit 1; }
command -v python3 >/dev/null || { echo "python3 not found" >&2; exit 1; }
mkdir -p .work evidence
(cd harness && go build -tags verif -o ../.work/vh-setup . && go build -race -tags verif -o ../.work/vh-setup-race .) 
rm -f .work/vh-setup .work/vh-setup-race
rmdir .work 2>/dev/null || true
echo "setup ok"
