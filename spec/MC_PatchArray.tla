--------------------------- MODULE MC_PatchArray ---------------------------
EXTENDS PatchArray, Json
DumpCase == (list' # <<>>) => PrintT(<<"CASE", ToJson([arr |-> arr, x |-> x, list |-> list', ok |-> res'.ok, post |-> res'.st])>>)
View == <<arr, x, list>>
=============================================================================
