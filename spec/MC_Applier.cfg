\* Exhaustive exploration of the applier model; constants are overridden per tier by the driver
\* (quick: MaxLen = 3, MaxDev = 1; thorough: MaxLen = 5 / MaxDev = 1 and MaxLen = 2 / MaxDev = 2).
CONSTANTS
  KeyIds = {1, 2}
  Mems = {1}
  MaxLen = 3
  MaxDev = 1
  TD = 1
  KTs = {"ed", "p256", "p384", "p521", "k1"}
  DefKT = "p256"
  Cube = FALSE
INIT Init
NEXT Next
VIEW View
ACTION_CONSTRAINT DumpEdge
INVARIANTS DeactivatedShape NilUntilCreate UpdNeedsRec
PROPERTIES CreatedImmutable RecOnlyByRecoveryOps UnauthorizedIsStutter DocNeedsBoundDelta OutOfWindowKeepsDoc OpListsCarried
CHECK_DEADLOCK FALSE
