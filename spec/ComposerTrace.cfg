CONSTANTS
  KIds = {1, 2, 3, 4}
  KVers = {1, 2, 3}
  SIds = {1, 2, 3}
  SVers = {1, 2, 3}
  URIs = {1, 2, 3, 4}
  ONames = {1, 2}
  MaxAdd = 3
  MaxLen = 100
  ListLens = {1}
  WithJP = TRUE
  WithBroken = FALSE
  TraceFile = "composer_trace.ndjson"
SPECIFICATION TraceSpec
CONSTRAINT HighWater
POSTCONDITION TraceAccepted
INVARIANTS UniqueIds
CHECK_DEADLOCK FALSE
