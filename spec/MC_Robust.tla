----------------------------- MODULE MC_Robust -----------------------------
EXTENDS Robust, Json
\* one PLAN line per plan (the outcome is for the real code to choose)
DumpPlan == (plan' # NoPlan /\ outcome' = "ok") => PrintT(<<"PLAN", ToJson(plan')>>)
\* the outcome is not the model's to choose: explore one of the two letters, the trace decides
OneOutcome == outcome' = "ok"
=============================================================================
