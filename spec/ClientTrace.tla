---------------------------- MODULE ClientTrace ----------------------------
(***************************************************************************)
(* Trace validation of the request builders / the Sidetree client (C08):   *)
(* random lifecycles of up to 24 steps - far longer than the lifecycles    *)
(* TLC enumerates - are run on the real builders, parser and applier; each *)
(* step is logged with what the caller asked for and the state that was    *)
(* resolved afterwards, and TLC checks step by step that Client.tla takes  *)
(* the same step to the same state.                                        *)
(***************************************************************************)
EXTENDS Client, Json, TLCExt

CONSTANT TraceFile
TraceLog == ndJsonDeserialize(TraceFile)

VARIABLE l
tvars == <<cvars, l>>

TraceInit == TLCSet(1, 0) /\ l = 1 /\ CInit

IsEvent(e) == l <= Len(TraceLog) /\ TraceLog[l].event = e /\ l' = l + 1

DocOf(j) == [keys |-> j.keys, svcs |-> j.svcs, aka |-> j.aka, other |-> EmptyDoc.other]

\* the state resolved by the real code after the step is the specification's
Post(e) ==
    /\ e.bad = ""                                     \* no builder problem, both entry levels agree
    /\ doc' = DocOf(e.post.doc)
    /\ upd' = e.post.upd /\ rec' = e.post.rec /\ deact' = e.post.deact /\ ao' = e.post.ao
    /\ (upd' # NoKey => updAlg' = e.post.updAlg)
    /\ (rec' # NoKey => recAlg' = e.post.recAlg)

TraceReset ==
    /\ IsEvent("Reset")
    /\ doc' = EmptyDoc /\ len' = 0 /\ hist' = <<>>
    /\ upd' = NoKey /\ rec' = NoKey /\ deact' = FALSE /\ ao' = 0 /\ nk' = 0 /\ phase' = "start"
    /\ updAlg' = "same" /\ recAlg' = "same"

TraceCreate  == IsEvent("create")     /\ LET e == TraceLog[l] IN Create(DocOf(e.req.doc), e.ao, e.ty) /\ Post(e)
TraceUpdate  == IsEvent("update")     /\ LET e == TraceLog[l] IN Update(e.req.upd, e.win, e.alg) /\ Post(e)
TraceRecover == IsEvent("recover")    /\ LET e == TraceLog[l] IN Recover(DocOf(e.req.doc), e.ao, e.win, e.alg) /\ Post(e)
TraceDeact   == IsEvent("deactivate") /\ LET e == TraceLog[l] IN Deactivate /\ Post(e)
\* an input the builders must refuse: refused at both levels, the state stays
TraceRefuse  == IsEvent("refuse")     /\ LET e == TraceLog[l] IN Refuse(<<e.op, e.refused>>) /\ Post(e)

TraceNext == TraceReset \/ TraceCreate \/ TraceUpdate \/ TraceRecover \/ TraceDeact \/ TraceRefuse
TraceSpec == TraceInit /\ [][TraceNext]_tvars

HighWater == TLCSet(1, IF l > TLCGet(1) THEN l ELSE TLCGet(1))
TraceAccepted ==
    IF TLCGet(1) = Len(TraceLog) + 1 THEN TRUE
    ELSE PrintT(<<"TRACE-REJECTED-AT-LINE", TLCGet(1)>>) /\ FALSE
=============================================================================
