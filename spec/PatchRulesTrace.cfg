CONSTANTS
  MaxMut = 0
  TraceFile = "rules_trace.ndjson"
SPECIFICATION TraceSpec
CONSTRAINT HighWater
POSTCONDITION TraceAccepted
CHECK_DEADLOCK FALSE
