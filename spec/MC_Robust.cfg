CONSTANTS
  MaxPos = 23
INIT Init
NEXT Next
ACTION_CONSTRAINT OneOutcome DumpPlan
INVARIANTS Answered
CHECK_DEADLOCK FALSE
