CONSTANTS
  MaxPos = 23
  MaxChain = 2
INIT Init
NEXT Next
ACTION_CONSTRAINT OneOutcome DumpPlan
INVARIANTS Answered
CHECK_DEADLOCK FALSE
