-------------------------------- MODULE Chain --------------------------------
(***************************************************************************)
(* C04: the commitment / reveal-value algebra and the linkage of           *)
(* consecutive operations.  A DID has a pending update commitment and a    *)
(* pending recovery commitment; an update reveals the key behind the       *)
(* former, a recover or deactivate the key behind the latter; each commits *)
(* to fresh keys.  Keys are integers; hashes are the ideal terms of Hash.  *)
(***************************************************************************)
EXTENDS Hash

CONSTANTS MaxLen, Alg

VARIABLES pu, pr, nkeys, ops, done
vars == <<pu, pr, nkeys, ops, done>>

None == 0

\* who committed to the key an operation reveals: index of the operation, and where that
\* operation carries the commitment
Op(type, signer, nu, nr, from, where) ==
    [type |-> type, signer |-> signer, nu |-> nu, nr |-> nr, from |-> from, where |-> where]

LastSetting(field) ==
    CHOOSE i \in 1..Len(ops) :
        /\ ops[i][field] # None
        /\ \A j \in (i + 1)..Len(ops) : ops[j][field] = None

Where(i, field) ==
    CASE ops[i].type = "create" /\ field = "nu" -> "delta.updateCommitment"
      [] ops[i].type = "create" /\ field = "nr" -> "suffixData.recoveryCommitment"
      [] ops[i].type = "update" -> "GetCommitment"
      [] ops[i].type = "recover" /\ field = "nr" -> "GetCommitment"
      [] ops[i].type = "recover" /\ field = "nu" -> "delta.updateCommitment"

Init == /\ pu = 1 /\ pr = 2 /\ nkeys = 2 /\ done = FALSE
        /\ ops = <<Op("create", None, 1, 2, 0, "")>>

Update ==
    /\ ~done /\ Len(ops) < MaxLen
    /\ LET j == LastSetting("nu") IN
       ops' = Append(ops, Op("update", pu, nkeys + 1, None, j, Where(j, "nu")))
    /\ pu' = nkeys + 1 /\ nkeys' = nkeys + 1 /\ UNCHANGED <<pr, done>>

Recover ==
    /\ ~done /\ Len(ops) < MaxLen
    /\ LET j == LastSetting("nr") IN
       ops' = Append(ops, Op("recover", pr, nkeys + 1, nkeys + 2, j, Where(j, "nr")))
    /\ pu' = nkeys + 1 /\ pr' = nkeys + 2 /\ nkeys' = nkeys + 2 /\ UNCHANGED done

Deactivate ==
    /\ ~done /\ Len(ops) < MaxLen
    /\ LET j == LastSetting("nr") IN
       ops' = Append(ops, Op("deactivate", pr, None, None, j, Where(j, "nr")))
    /\ pu' = None /\ pr' = None /\ done' = TRUE /\ UNCHANGED nkeys

Next == Update \/ Recover \/ Deactivate
Spec == Init /\ [][Next]_vars

-----------------------------------------------------------------------------
\* the algebra (ideal hash)
Keys == 1..(2 * MaxLen + 2)
Algebra ==
    /\ \A k \in Keys : CommitFromReveal(Reveal(k, Alg)) = Commit(k, Alg)
    /\ \A k \in Keys : Commit(k, Alg) # Reveal(k, Alg)
    /\ \A k1, k2 \in Keys : k1 # k2 => Commit(k1, Alg) # Commit(k2, Alg) /\ Reveal(k1, Alg) # Reveal(k2, Alg)

\* linkage: the key an operation reveals is the one its predecessor on the same chain committed to
Linked ==
    \A i \in 2..Len(ops) :
        LET o == ops[i]
            field == IF o.type = "update" THEN "nu" ELSE "nr"
        IN CommitFromReveal(Reveal(o.signer, Alg)) = Commit(ops[o.from][field], Alg)

\* a deactivate reports no next commitment and ends the chain
DeactivateEnds == done => ops[Len(ops)].type = "deactivate" /\ ops[Len(ops)].nu = None /\ ops[Len(ops)].nr = None

Complete == done \/ Len(ops) = MaxLen
=============================================================================
