CONSTANTS
  Depth = 1
INIT Init
NEXT Next
CONSTRAINT DumpCase
INVARIANTS OrderInsensitive AllWellFormed Utf16Order LayoutBoundaries
CHECK_DEADLOCK FALSE
