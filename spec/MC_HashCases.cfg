CONSTANTS
  NValues = 15
INIT Init
NEXT Next
CONSTRAINT DumpCase
INVARIANTS ContentAddress AlgorithmInPrefix
CHECK_DEADLOCK FALSE
