INIT Init
NEXT Next
ACTION_CONSTRAINT DumpStep
INVARIANTS ShortFormNotAccepted OnlyOwnMethod HintDecides
CHECK_DEADLOCK FALSE
