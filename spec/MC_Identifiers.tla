--------------------------- MODULE MC_Identifiers ---------------------------
EXTENDS Identifiers, Json
DumpCase == PrintT(<<"CASE", ToJson([c |-> cs, expected |-> Expected(cs)])>>)
=============================================================================
