CONSTANTS
  KIds = {1, 2, 3}
  KVers = {1, 2, 3}
  SIds = {1, 2}
  SVers = {1, 2}
  URIs = {1, 2}
  ONames = {1}
  MaxAdd = 2
  MaxLen = 100
  ListLens = {1}
  WithJP = FALSE
  WithBroken = FALSE
  RepeatRecover = TRUE
  TraceFile = "client_trace.ndjson"
SPECIFICATION TraceSpec
CONSTRAINT HighWater
POSTCONDITION TraceAccepted
INVARIANTS FreshCommitments DeactivatedShape UniqueDocIds
CHECK_DEADLOCK FALSE
