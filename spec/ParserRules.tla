----------------------------- MODULE ParserRules -----------------------------
(***************************************************************************)
(* C07 (and the acceptance part of C03): outside batch mode the parser     *)
(* accepts a request if and only if it obeys the configured protocol, and  *)
(* reports it faithfully.                                                  *)
(*                                                                         *)
(* A case is a request (an operation of the shared vocabulary, Ops.tla)    *)
(* together with a protocol configuration described RELATIVE to that       *)
(* request: each size limit at (actual size - 1, actual size, actual size  *)
(* + 1), the algorithm lists with / without the one the request uses, the  *)
(* enabled-patch list with / without the actions the request uses.         *)
(* ParseAccept is the conjunction of the property statement.  The request  *)
(* and the configuration together deviate from their defaults in at most   *)
(* MaxDev places.                                                          *)
(***************************************************************************)
EXTENDS Ops

VARIABLE cs

BaseCfg == [opSize |-> 0, deltaSize |-> 0, hashLen |-> 0, algs |-> "both", patchEnabled |-> TRUE,
            sigAlg |-> TRUE, keyAlg |-> TRUE, nonce |-> "none", ns |-> "did:sidetree"]

CfgVals ==
    [opSize       |-> {-1, 0, 1},                   \* MaxOperationSize = request size + x
     deltaSize    |-> {-1, 0, 1},                   \* MaxDeltaSize = canonical delta size + x
     hashLen      |-> {-1, 0, 1},                   \* MaxOperationHashLength = length of a regular hash + x
     algs         |-> {"both", "both_rev", "only_used", "only_other"},
     patchEnabled |-> BOOLEAN,                      \* the actions the delta uses are in the enabled list
     sigAlg       |-> BOOLEAN,                      \* the JWS algorithm is in the allowed list
     keyAlg       |-> BOOLEAN,                      \* the key's curve is in the allowed list
     \* signing key nonce vs the configured nonce size (wrongsize: configured 17; zero: configured 0 - a nonce of 16 bytes is not
     \* one of 0 bytes)
     nonce        |-> {"none", "ok", "wrongsize", "zero"},
     ns           |-> {"did:sidetree", "did:ion:test"}]

CfgDev1(c) == UNION { {[c EXCEPT ![f] = v] : v \in CfgVals[f] \ {c[f]}} : f \in DOMAIN CfgVals }

\* what the parser cannot see (it does not verify the signature, does not compare the signed
\* delta hash of update / recover with the delta, does not look at the anchoring metadata)
\* stays in the alphabet: those requests must be ACCEPTED.
ParserOp(a) ==
    /\ a.sig \in {"ok", "bitflip", "otherkey"}
    /\ a.dv # "toolarge"             \* the delta size limit is varied through the configuration

\* the update rule "next commitment differs from the current key's" needs its own deviations: the
\* signing key's commitment under the algorithm of the request, or under the other configured one
ReuseSigning == {[Default("update") EXCEPT !.nuv = v] : v \in {"reuse_signing", "reuse_signing_other_alg"}}

RequestDevs(n) == {a \in DevN({Default(ty) : ty \in OpTypes}, n) : ParserOp(a)}
                     \cup {[Default("create") EXCEPT !.type = "bogus"]}
                     \cup (IF n >= 1 THEN ReuseSigning ELSE {})

Cases ==
    {[o |-> Resolve(a, 1), c |-> BaseCfg] : a \in RequestDevs(MaxDev)}
    \cup (IF MaxDev >= 1
          THEN {[o |-> Resolve(a, 1), c |-> c1] : a \in RequestDevs(MaxDev - 1), c1 \in CfgDev1(BaseCfg)}
          ELSE {})
    \cup (IF MaxDev >= 2
          THEN {[o |-> Resolve(Default(ty), 1), c |-> c2] : ty \in OpTypes, c2 \in UNION {CfgDev1(c1) : c1 \in CfgDev1(BaseCfg)}}
          ELSE {})

-----------------------------------------------------------------------------
Known(o) == o.type \in OpTypes

ConfigAccepts(o, c) ==
    /\ c.opSize >= 0
    /\ c.hashLen >= 0
    /\ c.algs # "only_other"
    /\ HasDelta(o.type) /\ o.dv # "nodelta" => c.deltaSize >= 0
    /\ HasDelta(o.type) => c.patchEnabled
    /\ HasSig(o.type) => c.sigAlg /\ c.keyAlg /\ c.nonce \notin {"wrongsize", "zero"}

\* next commitments differ from each other (create, recover) and from the commitment of the key
\* that signs this very operation (update: nuv = "reuse_signing"; recover: wf = "reuse")
CommitmentsDistinct(o) ==
    CASE o.type \in {"create", "recover"} -> o.nu # o.nr
      [] o.type = "update" -> o.nuv \notin {"reuse_signing", "reuse_signing_other_alg"}
      [] OTHER -> TRUE

ParseAccept(o, c) ==
    /\ Known(o)
    /\ o.wf = "ok"
    /\ HasSig(o.type) => o.reveal = "ok"
    /\ HasDelta(o.type) => o.dv = "ok"
    /\ o.type = "create" => o.dhash
    /\ o.type = "deactivate" => o.sfx
    /\ CommitmentsDistinct(o)
    /\ ConfigAccepts(o, c)

\* what the returned operation carries: its type, where its suffix comes from, its anchor origin
Returned(o, c) ==
    [type |-> o.type,
     suffix |-> IF o.type = "create" THEN "modelhash(suffixData, first configured algorithm)" ELSE "didSuffix of the request",
     ao |-> IF o.type \in {"create", "recover"} THEN o.ao ELSE 0]

Init == cs \in Cases
Next == UNCHANGED cs

\* the defaults are accepted under the base configuration and every limit is inclusive
DefaultsAccepted == \A ty \in OpTypes : ParseAccept(Resolve(Default(ty), 1), BaseCfg)
BoundariesInclusive ==
    \A ty \in OpTypes : \A f \in {"opSize", "deltaSize", "hashLen"} :
        /\ ParseAccept(Resolve(Default(ty), 1), [BaseCfg EXCEPT ![f] = 1])
        /\ (f # "deltaSize" \/ HasDelta(ty)) => ~ParseAccept(Resolve(Default(ty), 1), [BaseCfg EXCEPT ![f] = -1])
=============================================================================
