CONSTANTS
  Docs = {1, 2, 3, 4, 5}
  Repeats = 3
INIT Init
NEXT Next
VIEW View
ACTION_CONSTRAINT DumpStep
INVARIANTS Injective OnlyOwnNamespace ProcessedResolves
PROPERTIES Deterministic
CHECK_DEADLOCK FALSE
