CONSTANTS
  KeyIds = {1, 2, 3}
  Mems = {1, 2}
  MaxLen = 100
  MaxDev = 0
  TD = 1
  KTs = {"ed", "p256", "p384", "p521", "k1"}
  DefKT = "p256"
  Cube = FALSE
  TraceFile = "applier_trace.ndjson"
SPECIFICATION TraceSpec
CONSTRAINT HighWater
POSTCONDITION TraceAccepted
INVARIANTS DeactivatedShape NilUntilCreate
PROPERTIES TCreatedImmutable TRecOnlyByRecoveryOps TUnauthorizedIsStutter TDocNeedsBoundDelta TOutOfWindowKeepsDoc TOpListsCarried
CHECK_DEADLOCK FALSE
