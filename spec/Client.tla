------------------------------- MODULE Client -------------------------------
(***************************************************************************)
(* C08: requests built by the request builders and by the Sidetree client  *)
(* from valid inputs are accepted and yield what the caller asked for.     *)
(*                                                                         *)
(* A lifecycle create -> (update | recover)* -> deactivate with            *)
(* key rotation.  The state is what the caller expects the resolved state  *)
(* to be: the document (Composer's abstract documents and per-action       *)
(* semantics), the keys behind the pending update / recovery commitments,  *)
(* the anchor origin and the deactivated flag.  One action per builder     *)
(* call; the refusals the builders owe the caller are actions too.         *)
(***************************************************************************)
EXTENDS Composer

CONSTANT RepeatRecover     \* a DID may be recovered more than once (FALSE bounds the enumerated lifecycles)

VARIABLES upd, rec, deact, ao, nk, phase, updAlg, recAlg
cvars == <<doc, len, hist, upd, rec, deact, ao, nk, phase, updAlg, recAlg>>

NoKey == 0

\* ---- what a caller may ask for -------------------------------------------------------------
K(i, v) == [id |-> i, ver |-> v]

DocOpts ==
    {[keys |-> ks, svcs |-> ss, aka |-> as, other |-> EmptyDoc.other] :
        ks \in {<<>>, <<K(1, 1)>>, <<K(2, 1), K(1, 2), K(3, 3)>>},
        ss \in {<<>>, <<K(1, 2), K(2, 1)>>},
        as \in {<<>>, <<2, 1>>}} \ {EmptyDoc}

U(ak, rk, as, rs, au, ru) == [addKeys |-> ak, remKeys |-> rk, addSvcs |-> as, remSvcs |-> rs, addAka |-> au, remAka |-> ru]
UpdOpts ==
    {U(<<K(3, 1)>>, <<>>, <<>>, <<>>, <<>>, <<>>),            \* add a key
     U(<<K(1, 2)>>, <<>>, <<>>, <<>>, <<>>, <<>>),            \* replace a key by id
     U(<<>>, <<1>>, <<>>, <<>>, <<>>, <<>>),                  \* remove a key
     U(<<>>, <<>>, <<K(2, 2)>>, <<>>, <<>>, <<>>),            \* add / replace a service
     U(<<>>, <<>>, <<>>, <<1>>, <<>>, <<>>),                  \* remove a service
     U(<<>>, <<>>, <<>>, <<>>, <<2>>, <<>>),                  \* add a URI
     U(<<>>, <<>>, <<>>, <<>>, <<>>, <<1>>),                  \* remove a URI
     U(<<K(3, 2), K(2, 1)>>, <<1>>, <<K(1, 1)>>, <<2>>, <<1>>, <<2>>),   \* everything at once, disjoint ids
     U(<<K(1, 3)>>, <<1>>, <<K(2, 2)>>, <<2>>, <<>>, <<>>),   \* rotation keeping the id: removed, then added anew
     \* one removal naming several entries that stand next to each other in the document (in and against document order)
     U(<<>>, <<1, 3>>, <<>>, <<2, 1>>, <<>>, <<1, 2>>)}

\* the document after an update: removals, then additions (an id both removed and added is added anew, at the end)
ApplyUpdate(d, u) ==
    [d EXCEPT !.aka  = AddURIs(RemoveURIs(@, u.remAka), u.addAka),
              !.keys = AddEntries(RemoveIds(@, u.remKeys), u.addKeys),
              !.svcs = AddEntries(RemoveIds(@, u.remSvcs), u.addSvcs)]

Windows == {"none", "in", "from_only", "late"}
Effective(w) == w # "late"

AOs == {0, 1}

\* alg: the hash algorithm the caller asks for in this step: the one the DID was created with, or the
\* other configured one (a DID may migrate); ty: an entity type in the create request
Algs2 == {"same", "other"}
Step(op, signer, nu, nr, a, w, req, refused, alg, ty) ==
    [op |-> op, signer |-> signer, nu |-> nu, nr |-> nr, ao |-> a, win |-> w, req |-> req, refused |-> refused,
     alg |-> alg, ty |-> ty]

NoReq == [doc |-> EmptyDoc, upd |-> U(<<>>, <<>>, <<>>, <<>>, <<>>, <<>>)]

-----------------------------------------------------------------------------
CInit == /\ doc = EmptyDoc /\ len = 0 /\ hist = <<>>
         /\ upd = NoKey /\ rec = NoKey /\ deact = FALSE /\ ao = 0 /\ nk = 0 /\ phase = "start"
         /\ updAlg = "same" /\ recAlg = "same"

Create(d, a, ty) ==
    /\ phase = "start" /\ len < MaxLen
    /\ doc' = d /\ upd' = nk + 1 /\ rec' = nk + 2 /\ nk' = nk + 2 /\ ao' = a /\ deact' = FALSE
    /\ phase' = "created" /\ updAlg' = "same" /\ recAlg' = "same"
    /\ hist' = Append(hist, Step("create", NoKey, nk + 1, nk + 2, a, "none", [NoReq EXCEPT !.doc = d], "", "same", ty))
    /\ len' = len + 1

Update(u, w, alg) ==
    /\ phase \in {"created", "recovered"} /\ len < MaxLen
    /\ doc' = IF Effective(w) THEN ApplyUpdate(doc, u) ELSE doc
    /\ upd' = nk + 1 /\ nk' = nk + 1 /\ updAlg' = alg
    /\ hist' = Append(hist, Step("update", upd, nk + 1, NoKey, 0, w, [NoReq EXCEPT !.upd = u], "", alg, 0))
    /\ len' = len + 1
    /\ UNCHANGED <<rec, deact, ao, phase, recAlg>>

\* (a DID may be recovered more than once)
Recover(d, a, w, alg) ==
    /\ (phase = "created" \/ (RepeatRecover /\ phase = "recovered")) /\ len < MaxLen
    /\ doc' = IF Effective(w) THEN d ELSE EmptyDoc
    /\ upd' = nk + 1 /\ rec' = nk + 2 /\ nk' = nk + 2 /\ ao' = a
    /\ phase' = "recovered" /\ updAlg' = alg /\ recAlg' = alg
    /\ hist' = Append(hist, Step("recover", rec, nk + 1, nk + 2, a, w, [NoReq EXCEPT !.doc = d], "", alg, 0))
    /\ len' = len + 1
    /\ UNCHANGED deact

Deactivate ==
    /\ phase \in {"created", "recovered"} /\ len < MaxLen
    /\ doc' = EmptyDoc /\ upd' = NoKey /\ rec' = NoKey /\ deact' = TRUE /\ phase' = "done"
    /\ hist' = Append(hist, Step("deactivate", rec, NoKey, NoKey, 0, "none", NoReq, "", "same", 0))
    /\ len' = len + 1
    /\ UNCHANGED <<ao, nk, updAlg, recAlg>>

\* inputs the builders must refuse; the state stays as it is
Refusals == {<<"create", "equal_commitments">>, <<"create", "wrong_algorithm">>,
             <<"update", "reused_key">>, <<"recover", "reused_key">>, <<"recover", "equal_commitments">>}

Refuse(r) ==
    /\ len < MaxLen
    /\ (r[1] = "create" /\ phase = "start") \/ (r[1] # "create" /\ phase \in {"created", "recovered"})
    /\ hist' = Append(hist, Step(r[1], IF r[1] = "update" THEN upd ELSE rec, nk + 1, nk + 2, 0, "none",
                                 [NoReq EXCEPT !.doc = [EmptyDoc EXCEPT !.keys = <<K(1, 1)>>],
                                               !.upd = U(<<K(3, 1)>>, <<>>, <<>>, <<>>, <<>>, <<>>)], r[2], "same", 0))
    /\ len' = len + 1
    /\ UNCHANGED <<doc, upd, rec, deact, ao, nk, phase, updAlg, recAlg>>

CNext ==
    \/ \E d \in DocOpts, a \in AOs, ty \in {0, 1} : Create(d, a, ty)
    \/ \E u \in UpdOpts, w \in Windows, alg \in Algs2 : (alg = "same" \/ w = "none") /\ Update(u, w, alg)
    \/ \E d \in DocOpts, a \in AOs, w \in Windows, alg \in Algs2 : (alg = "same" \/ w = "none") /\ Recover(d, a, w, alg)
    \/ Deactivate
    \/ \E r \in Refusals : Refuse(r)

-----------------------------------------------------------------------------
\* the pending commitments always belong to keys nobody has revealed yet
FreshCommitments == ~deact /\ phase # "start" => upd # rec /\ upd <= nk /\ rec <= nk
DeactivatedShape == deact => doc = EmptyDoc /\ upd = NoKey /\ rec = NoKey
UniqueDocIds == UniqueIds
=============================================================================
