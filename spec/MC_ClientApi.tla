---------------------------- MODULE MC_ClientApi ----------------------------
EXTENDS ClientApi, Json
SetSeq(S, order) == SelectSeq(order, LAMBDA x : x \in S)
AllOpts == <<"recovery_key", "update_key", "signer", "next_update_key", "next_recovery_key", "commitment">>
DumpDone == (phase' = "done") =>
    PrintT(<<"CASE", ToJson([call |-> [call' EXCEPT !.has = SetSeq(call'.has, AllOpts), !.groups = SetSeq(call'.groups, GroupOrder)],
                             req |-> req', sends |-> sends', res |-> res'])>>)
=============================================================================
