------------------------------- MODULE VdrApi -------------------------------
(***************************************************************************)
(* The remaining surface of the long-form VDR (beyond Create / Read, which *)
(* LongForm.tla covers): which requests a VDR registry may route to it.    *)
(*   Accept(method, options): the method must be the VDR's own; then an    *)
(*   explicit "vdr accept" hint decides when it is a string (only          *)
(*   "long-form" is accepted); otherwise the DID handed over by the        *)
(*   registry decides: it must have MORE than three colon-separated parts  *)
(*   (did : method : suffix : initial state); with neither, no.            *)
(*   Update and Deactivate are not supported (always an error), Close      *)
(*   always succeeds and the VDR stays usable.                             *)
(***************************************************************************)
EXTENDS Integers, Sequences, TLC

VARIABLES call, closed
vars == <<call, closed>>

Methods  == {"own", "other", "own_upper", "empty"}
\* the hint option: absent, the accepted string, other strings, a non-string value
Hints    == {"absent", "long-form", "short-form", "Long-Form", "empty", "nonstring"}
\* the DID option: absent, DIDs with 2..5 parts, a non-string value
DidParts == {"absent", "nonstring", "1", "2", "3", "4", "5"}
NParts(d) == CASE d = "1" -> 1 [] d = "2" -> 2 [] d = "3" -> 3 [] d = "4" -> 4 [] d = "5" -> 5 [] OTHER -> 0

Accepts(m, h, d) ==
    /\ m = "own"
    /\ IF h \notin {"absent", "nonstring"} THEN h = "long-form"
       ELSE IF d \notin {"absent", "nonstring"} THEN NParts(d) > 3
       ELSE FALSE

NoCall == [kind |-> "none", m |-> "own", h |-> "absent", d |-> "absent", ok |-> FALSE]

Init == call = NoCall /\ closed = FALSE

Accept(m, h, d) == /\ call' = [kind |-> "accept", m |-> m, h |-> h, d |-> d, ok |-> Accepts(m, h, d)]
                   /\ UNCHANGED closed
Update     == call' = [NoCall EXCEPT !.kind = "update", !.ok = FALSE] /\ UNCHANGED closed
Deactivate == call' = [NoCall EXCEPT !.kind = "deactivate", !.ok = FALSE] /\ UNCHANGED closed
Close      == call' = [NoCall EXCEPT !.kind = "close", !.ok = TRUE] /\ closed' = TRUE

\* (calls do not influence each other: they are explored from the fresh and from the closed VDR only)
Next == /\ call.kind \in {"none", "close"}
        /\ \/ \E m \in Methods, h \in Hints, d \in DidParts : Accept(m, h, d)
           \/ Update \/ Deactivate \/ (closed = FALSE /\ Close)

\* a short-form DID (three parts) is never accepted on the DID's own account
ShortFormNotAccepted ==
    (call.kind = "accept" /\ call.ok /\ call.h \in {"absent", "nonstring"}) => call.d \in {"4", "5"}
\* another method is never accepted, whatever the options say
OnlyOwnMethod == (call.kind = "accept" /\ call.ok) => call.m = "own"
\* an explicit hint overrides the DID
HintDecides == (call.kind = "accept" /\ call.h \notin {"absent", "nonstring"}) => (call.ok <=> (call.m = "own" /\ call.h = "long-form"))
=============================================================================
