----------------------------- MODULE CompactJws -----------------------------
(***************************************************************************)
(* Extension specification (beyond the listed properties; C15 speaks of    *)
(* signatures and their verification): the compact JWS surface of          *)
(* pkg/jwsutil as four steps -                                             *)
(*                                                                         *)
(*   Make      NewJWS(protected headers, payload, signer): the headers of  *)
(*             the JWS are the signer's, overridden member by member by    *)
(*             the protected headers handed in; refused unless they hold   *)
(*             alg and, if b64 is there, b64 is a boolean;                 *)
(*   Serialize SerializeCompact(detached): three segments, the payload     *)
(*             segment empty when detached;                                *)
(*   Parse     ParseJWS(text, detached payload option): a non-empty option *)
(*             IS the payload (the segment is not looked at); otherwise    *)
(*             the segment must decode to a non-empty payload;             *)
(*   Verify    VerifyJWS: the signing input is rebuilt from the parsed     *)
(*             headers and payload (raw payload when b64 is false).        *)
(*                                                                         *)
(* Signatures are ideal terms over (headers, payload as signed).           *)
(***************************************************************************)
EXTENDS Integers, Sequences, FiniteSets, TLC

VARIABLES call, phase, jws, text, parsed, res
vars == <<call, phase, jws, text, parsed, res>>

\* what the caller hands in as protected headers, and what the signer brings
Protected == {"none", "alg_same", "alg_other", "kid_other", "b64_false", "b64_true", "b64_text"}
SignerHdr == {"alg", "alg_kid", "kid_only"}
Payloads  == {"text", "dots", "empty"}
Options   == {"none", "same", "other", "empty"}     \* the detached payload option of the parser

Calls == [prot : Protected, signer : SignerHdr, payload : Payloads, detached : BOOLEAN, opt : Options]

\* merged headers as a function member -> value ("" = absent)
Merged(c) ==
    [alg |-> CASE c.prot = "alg_same" -> "signer-alg" [] c.prot = "alg_other" -> "other-alg"
               [] c.signer \in {"alg", "alg_kid"} -> "signer-alg" [] OTHER -> "",
     kid |-> CASE c.prot = "kid_other" -> "other-kid" [] c.signer \in {"alg_kid", "kid_only"} -> "signer-kid" [] OTHER -> "",
     b64 |-> CASE c.prot = "b64_false" -> "false" [] c.prot = "b64_true" -> "true" [] c.prot = "b64_text" -> "text" [] OTHER -> ""]

MakeRefused(c) == Merged(c).alg = "" \/ Merged(c).b64 = "text"

NoCall == [prot |-> "none", signer |-> "alg", payload |-> "text", detached |-> FALSE, opt |-> "none"]
NoJws == [headers |-> [alg |-> "", kid |-> "", b64 |-> ""], payload |-> "none", sig |-> <<>>]

Init == call = NoCall /\ phase = "idle" /\ jws = NoJws /\ text = <<>> /\ parsed = NoJws /\ res = "none"

Start(c) == phase = "idle" /\ call' = c /\ phase' = "make" /\ UNCHANGED <<jws, text, parsed, res>>

Sig(h, p) == <<"sig", h, p>>

Make == /\ phase = "make"
        /\ IF MakeRefused(call)
           THEN phase' = "done" /\ res' = "make-refused" /\ UNCHANGED <<call, jws, text, parsed>>
           ELSE /\ jws' = [headers |-> Merged(call), payload |-> call.payload, sig |-> Sig(Merged(call), call.payload)]
                /\ phase' = "serialize" /\ UNCHANGED <<call, text, parsed, res>>

\* the three segments: headers, payload segment ("" when detached or when there is no payload), signature
Serialize == /\ phase = "serialize"
             /\ text' = <<jws.headers, IF call.detached \/ jws.payload = "empty" THEN "" ELSE jws.payload, jws.sig>>
             /\ phase' = "parse" /\ UNCHANGED <<call, jws, parsed, res>>

OptPayload(c) == CASE c.opt = "same" -> c.payload [] c.opt = "other" -> "other" [] OTHER -> "empty"

Parse == /\ phase = "parse"
         /\ LET op == OptPayload(call)
                payload == IF op # "empty" THEN op ELSE text[2]
            IN IF payload = ""
               THEN phase' = "done" /\ res' = "parse-refused" /\ UNCHANGED <<call, jws, text, parsed>>
               ELSE /\ parsed' = [headers |-> text[1], payload |-> payload, sig |-> text[3]]
                    /\ phase' = "verify" /\ UNCHANGED <<call, jws, text, res>>

Verify == /\ phase = "verify"
          /\ res' = IF parsed.sig = Sig(parsed.headers, parsed.payload) THEN "verified" ELSE "verify-refused"
          /\ phase' = "done" /\ UNCHANGED <<call, jws, text, parsed>>

Next == (\E c \in Calls : Start(c)) \/ Make \/ Serialize \/ Parse \/ Verify
Spec == Init /\ [][Next]_vars

-----------------------------------------------------------------------------
Done == phase = "done"
\* what is verified is what was signed
VerifiedIsSigned == (Done /\ res = "verified") => parsed.payload = jws.payload /\ parsed.headers = jws.headers
\* a JWS that was serialized with its payload, parsed without the option, always comes back and verifies
RoundTrip == (Done /\ ~call.detached /\ call.opt \in {"none", "empty"} /\ call.payload # "empty" /\ ~MakeRefused(call)) => res = "verified"
\* a detached JWS needs the payload handed over - the right one
DetachedNeedsPayload == (Done /\ call.detached /\ ~MakeRefused(call)) =>
                            /\ (call.opt \in {"none", "empty"} => res = "parse-refused")
                            /\ (call.opt = "other" => res = "verify-refused")
                            /\ (call.opt = "same" /\ call.payload # "empty" => res = "verified")
\* a protected header handed in wins over the signer's header of the same name
ProtectedWins == (phase \notin {"idle", "make"} /\ res # "make-refused") =>
                    /\ (call.prot = "alg_other" => jws.headers.alg = "other-alg")
                    /\ (call.prot = "kid_other" => jws.headers.kid = "other-kid")
=============================================================================
