----------------------------- MODULE PatchCodec -----------------------------
(***************************************************************************)
(* C14, byte encodings: which JSON objects are accepted as a patch.  A     *)
(* shape is the value of the "action" member and the set of value members  *)
(* present; it is a patch iff the action is supported and that action's    *)
(* own value member is present.                                            *)
(***************************************************************************)
EXTENDS Integers, FiniteSets, TLC

VARIABLE shape

Actions == {"replace", "add-public-keys", "remove-public-keys", "add-services", "remove-services",
            "ietf-json-patch", "add-also-known-as", "remove-also-known-as"}

ValueKey(a) ==
    CASE a = "replace" -> "document"
      [] a = "add-public-keys" -> "publicKeys"
      [] a = "remove-public-keys" -> "ids"
      [] a = "add-services" -> "services"
      [] a = "remove-services" -> "ids"
      [] a = "ietf-json-patch" -> "patches"
      [] a = "add-also-known-as" -> "uris"
      [] a = "remove-also-known-as" -> "uris"

ValueKeys == {ValueKey(a) : a \in Actions}

\* "missing": no action member; "unknown": an action nobody supports; "number": not a string
ActionVals == Actions \cup {"missing", "unknown", "number"}

\* how the names of the action member and of the value members are spelled: member names are case sensitive
\* ("Action" is not the action member, "Document" is not the value member of replace)
Spellings == {"exact", "capitalized", "upper"}

Accept(s) == s.aname = "exact" /\ s.kname = "exact" /\ s.action \in Actions /\ ValueKey(s.action) \in s.keys

Init == shape \in {sh \in [action : ActionVals, keys : {k \in SUBSET ValueKeys : Cardinality(k) <= 2}, aname : Spellings, kname : Spellings] :
                     sh.aname = "exact" \/ sh.kname = "exact"}
Next == UNCHANGED shape

\* every supported action is accepted with its own value member and with no other alone
OwnKeyNecessary == \A a \in Actions : \A k \in ValueKeys :
                      Accept([action |-> a, keys |-> {k}, aname |-> "exact", kname |-> "exact"]) <=> (k = ValueKey(a))
=============================================================================
