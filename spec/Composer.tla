------------------------------ MODULE Composer ------------------------------
(***************************************************************************)
(* The document composer: doccomposer.ApplyPatches(doc, patches) as a      *)
(* state machine over abstract documents.  One action = one public call    *)
(* with a list of validated patches; its effect is the left fold of the    *)
(* per-action semantics of the Sidetree specification, and a failing list  *)
(* leaves no partial document.                                             *)
(*                                                                         *)
(* Serves C10 (semantics, unique ids), C12 (atomicity), C14 (round trip).  *)
(***************************************************************************)
EXTENDS Integers, Sequences, FiniteSets, TLC

CONSTANTS
    KIds, KVers,    \* public key ids and versions (a version = distinguishable content)
    SIds, SVers,    \* service ids and versions
    URIs,           \* also-known-as URIs
    ONames,         \* names of further document members (ietf-json-patch targets)
    MaxAdd,         \* entries per add list / ids per remove list
    MaxLen,         \* patch applications per history
    ListLens,       \* lengths of the patch lists handed to one ApplyPatches call
    WithJP,         \* include ietf-json-patch patches in the alphabet
    WithBroken      \* include patch objects that are no patches (no / unknown action, the action's value member missing)

VARIABLES doc, len, hist
vars == <<doc, len, hist>>

Unknown == 0        \* an id / URI that no document contains

-----------------------------------------------------------------------------
(* Values of further members: absent, an integer, or an object {} / {"n": i} *)
Abs     == [t |-> "abs", v |-> 0]
IntV(i)  == [t |-> "int", v |-> i]
ObjV(n)  == [t |-> "obj", v |-> n]
\* a member whose value is null is a member: it exists, can be tested, copied, moved, replaced and removed
NullV    == [t |-> "null", v |-> 0]

EmptyDoc == [keys |-> <<>>, svcs |-> <<>>, aka |-> <<>>, other |-> [n \in ONames |-> Abs]]

Ids(l) == {l[i].id : i \in 1..Len(l)}
ToSet(l) == {l[i] : i \in 1..Len(l)}
UniqueIdList(l) == \A i, j \in 1..Len(l) : l[i].id = l[j].id => i = j
UniqueList(l) == \A i, j \in 1..Len(l) : l[i] = l[j] => i = j

-----------------------------------------------------------------------------
(* Per-action semantics *)

\* insert-or-replace by id: an entry whose id exists replaces it in place, a new one is appended
RECURSIVE AddEntries(_, _)
AddEntries(l, adds) ==
    IF adds = <<>> THEN l
    ELSE LET a == Head(adds)
             l2 == IF a.id \in Ids(l)
                   THEN [i \in 1..Len(l) |-> IF l[i].id = a.id THEN a ELSE l[i]]
                   ELSE Append(l, a)
         IN AddEntries(l2, Tail(adds))

\* delete by id, unknown ids ignored
RemoveIds(l, ids) == SelectSeq(l, LAMBDA e : e.id \notin ToSet(ids))

\* ordered set union / difference
RECURSIVE AddURIs(_, _)
AddURIs(l, us) ==
    IF us = <<>> THEN l
    ELSE AddURIs(IF Head(us) \in ToSet(l) THEN l ELSE Append(l, Head(us)), Tail(us))

RemoveURIs(l, us) == SelectSeq(l, LAMBDA u : u \notin ToSet(us))

-----------------------------------------------------------------------------
(* RFC 6902 over the further members.  A path is a member name, optionally *)
(* followed by the nested member "n".                                      *)

Exists(o, p)   == IF ~p.sub THEN o[p.name].t # "abs" ELSE o[p.name].t = "obj" /\ o[p.name].v # 0
ParentOk(o, p) == IF ~p.sub THEN TRUE ELSE o[p.name].t = "obj"
Get(o, p)      == IF ~p.sub THEN o[p.name] ELSE IntV(o[p.name].v)
Del(o, p)      == IF ~p.sub THEN [o EXCEPT ![p.name] = Abs] ELSE [o EXCEPT ![p.name] = ObjV(0)]
Put(o, p, val) == IF ~p.sub THEN [o EXCEPT ![p.name] = val] ELSE [o EXCEPT ![p.name] = ObjV(val.v)]

Fail(o, why) == [ok |-> FALSE, o |-> o, why |-> why]
Ok(o)        == [ok |-> TRUE, o |-> o, why |-> ""]

ApplyJOp(o, j) ==
    CASE j.op = "add"     -> IF ParentOk(o, j.path) THEN Ok(Put(o, j.path, j.val)) ELSE Fail(o, "add:missing-parent")
      [] j.op = "remove"  -> IF Exists(o, j.path) THEN Ok(Del(o, j.path)) ELSE Fail(o, "remove:missing-target")
      [] j.op = "replace" -> IF Exists(o, j.path) THEN Ok(Put(o, j.path, j.val)) ELSE Fail(o, "replace:missing-target")
      [] j.op = "move"    -> IF Exists(o, j.from)
                             THEN LET v == Get(o, j.from)
                                      o1 == Del(o, j.from)
                                  IN IF ParentOk(o1, j.path) THEN Ok(Put(o1, j.path, v))
                                     ELSE Fail(o, "move:missing-parent")
                             ELSE Fail(o, "move:missing-from")
      [] j.op = "copy"    -> IF ~Exists(o, j.from) THEN Fail(o, "copy:missing-from")
                             ELSE IF ~ParentOk(o, j.path) THEN Fail(o, "copy:missing-parent")
                             ELSE Ok(Put(o, j.path, Get(o, j.from)))
      [] j.op = "test"    -> IF ~Exists(o, j.path)
                             \* (named separately: a known deviation of the pinned json-patch library - a missing member tests equal to null)
                             THEN (IF j.val = NullV THEN Fail(o, "test:missing-target:value-is-null") ELSE Fail(o, "test:missing-target"))
                             ELSE IF Get(o, j.path) = j.val THEN Ok(o)
                             \* (named separately: a known deviation of the pinned json-patch library)
                             ELSE IF Get(o, j.path) = ObjV(0) /\ j.val.t = "obj"
                                  THEN Fail(o, "test:not-equal:document-object-is-subset-of-value")
                             ELSE Fail(o, "test:not-equal")

RECURSIVE ApplyJOps(_, _)
ApplyJOps(o, js) ==
    IF js = <<>> THEN Ok(o)
    ELSE LET r == ApplyJOp(o, Head(js)) IN
         IF r.ok THEN LET r2 == ApplyJOps(r.o, Tail(js)) IN
                      IF r2.ok THEN r2 ELSE Fail(o, r2.why)
         ELSE Fail(o, r.why)

-----------------------------------------------------------------------------
(* One patch; result [ok, d, why] *)
Applied(d) == [ok |-> TRUE, d |-> d, why |-> ""]
ApplyPatch(d, p) ==
    CASE p.a = "add-public-keys"      -> Applied([d EXCEPT !.keys = AddEntries(@, p.ents)])
      [] p.a = "remove-public-keys"   -> Applied([d EXCEPT !.keys = RemoveIds(@, p.ids)])
      [] p.a = "add-services"         -> Applied([d EXCEPT !.svcs = AddEntries(@, p.ents)])
      [] p.a = "remove-services"      -> Applied([d EXCEPT !.svcs = RemoveIds(@, p.ids)])
      [] p.a = "add-also-known-as"    -> Applied([d EXCEPT !.aka = AddURIs(@, p.ids)])
      [] p.a = "remove-also-known-as" -> Applied([d EXCEPT !.aka = RemoveURIs(@, p.ids)])
      \* replace discards the whole document and installs exactly the given keys and services
      [] p.a = "replace"              -> Applied([EmptyDoc EXCEPT !.keys = p.ents, !.svcs = p.ents2])
      \* an object that is no patch (it cannot come out of patch.FromBytes, but a caller can build it): the list fails
      [] p.a = "broken"               -> [ok |-> FALSE, d |-> d, why |-> "broken-patch"]
      [] p.a = "ietf-json-patch"      -> LET r == ApplyJOps(d.other, p.ops) IN
                                         [ok |-> r.ok, d |-> [d EXCEPT !.other = r.o], why |-> r.why]

\* the left fold; an error yields no document (ok = FALSE, d = the untouched input)
RECURSIVE ApplyList(_, _)
ApplyList(d, ps) ==
    IF ps = <<>> THEN Applied(d)
    ELSE LET r == ApplyPatch(d, Head(ps)) IN
         IF r.ok THEN LET r2 == ApplyList(r.d, Tail(ps)) IN
                      IF r2.ok THEN r2 ELSE [ok |-> FALSE, d |-> d, why |-> r2.why]
         ELSE [ok |-> FALSE, d |-> d, why |-> r.why]

-----------------------------------------------------------------------------
(* The alphabet of validated patches *)

\* sequences of length 1..n over S without repeated ids (what patch validation admits)
SeqsUpTo(S, n) == UNION {[1..k -> S] : k \in 1..n}

KeyEnts == [id : KIds, ver : KVers]
SvcEnts == [id : SIds, ver : SVers]

P(a, ents, ents2, ids, ops) == [a |-> a, ents |-> ents, ents2 |-> ents2, ids |-> ids, ops |-> ops]

AddKeyPatches == {P("add-public-keys", l, <<>>, <<>>, <<>>) : l \in {x \in SeqsUpTo(KeyEnts, MaxAdd) : UniqueIdList(x)}}
RemKeyPatches == {P("remove-public-keys", <<>>, <<>>, l, <<>>) : l \in {x \in SeqsUpTo(KIds \cup {Unknown}, MaxAdd) : UniqueList(x)}}
AddSvcPatches == {P("add-services", l, <<>>, <<>>, <<>>) : l \in {x \in SeqsUpTo(SvcEnts, MaxAdd) : UniqueIdList(x)}}
RemSvcPatches == {P("remove-services", <<>>, <<>>, l, <<>>) : l \in {x \in SeqsUpTo(SIds \cup {Unknown}, MaxAdd) : UniqueList(x)}}
AddAkaPatches == {P("add-also-known-as", <<>>, <<>>, l, <<>>) : l \in {x \in SeqsUpTo(URIs, MaxAdd) : UniqueList(x)}}
RemAkaPatches == {P("remove-also-known-as", <<>>, <<>>, l, <<>>) : l \in {x \in SeqsUpTo(URIs \cup {Unknown}, MaxAdd) : UniqueList(x)}}

MinK == CHOOSE i \in KIds : \A j \in KIds : i <= j
MinS == CHOOSE i \in SIds : \A j \in SIds : i <= j
ReplacePatches ==
    {P("replace", ks, ss, <<>>, <<>>) :
        ks \in {<<>>} \cup {x \in SeqsUpTo([id : KIds, ver : {1}], 2) : UniqueIdList(x)},
        ss \in {<<>>, <<[id |-> MinS, ver |-> 1]>>}}

Paths == [name : ONames, sub : BOOLEAN]
Vals  == {IntV(1), IntV(2), ObjV(0), ObjV(1), NullV}
J(op, path, from, val) == [op |-> op, path |-> path, from |-> from, val |-> val]
JOps ==
    {J("add", p, p, v) : p \in Paths, v \in Vals}
    \cup {J("replace", p, p, v) : p \in Paths, v \in {IntV(2), ObjV(0)}}
    \cup {J("remove", p, p, IntV(0)) : p \in Paths}
    \cup {J("test", p, p, v) : p \in Paths, v \in {IntV(1), ObjV(0), ObjV(1), NullV}}
    \cup {J(o, p, f, IntV(0)) : o \in {"move", "copy"}, p \in Paths, f \in Paths}
\* nested members hold integers only: a value is put under /name/n only if it is an integer,
\* and values move / copy between paths of the same depth (keeps the universe finite)
WellTyped(j) ==
    /\ j.op \in {"add", "replace"} => (j.path.sub => j.val.t = "int")
    /\ j.op = "test" => (j.path.sub => j.val.t = "int")
    /\ j.op \in {"move", "copy"} => j.path.sub = j.from.sub
JPatches ==
    IF WithJP
    THEN {P("ietf-json-patch", <<>>, <<>>, <<>>, <<j>>) : j \in {x \in JOps : WellTyped(x)}}
         \* two-operation lists: the second operation can fail after the first succeeded
         \cup {P("ietf-json-patch", <<>>, <<>>, <<>>, <<j1, j2>>) :
                 j1 \in {x \in JOps : WellTyped(x) /\ x.op = "add" /\ ~x.path.sub},
                 j2 \in {x \in JOps : WellTyped(x) /\ x.op \in {"remove", "test"}}}
    ELSE {}

\* (the variant number rides in ids: 1 no action, 2 unknown action, 3 replace / 4 add-public-keys / 5 ietf-json-patch
\* without their value member - 4 with another action's member instead -, 6 remove-services with uris instead of ids)
BrokenPatches == IF WithBroken THEN {P("broken", <<>>, <<>>, <<v>>, <<>>) : v \in 1..6} ELSE {}

Patches == BrokenPatches \cup AddKeyPatches \cup RemKeyPatches \cup AddSvcPatches \cup RemSvcPatches
             \cup AddAkaPatches \cup RemAkaPatches \cup ReplacePatches \cup JPatches

\* single patches, plus (when ListLens allows) two-patch lists whose second patch may fail or
\* interact with the first: remove-then-re-add, replace-then-add, add-then-remove, ...
FirstOfTwo  == {p \in Patches : Len(p.ents) + Len(p.ids) + Len(p.ops) <= 1 /\ Len(p.ents2) = 0}
PatchLists ==
    (IF 1 \in ListLens THEN {<<p>> : p \in Patches} ELSE {})
    \cup (IF 2 \in ListLens THEN {<<p, q>> : p \in FirstOfTwo, q \in FirstOfTwo} ELSE {})

-----------------------------------------------------------------------------
Init == doc = EmptyDoc /\ len = 0 /\ hist = <<>>

Apply(ps) ==
    /\ len < MaxLen
    /\ LET r == ApplyList(doc, ps) IN
         /\ doc' = IF r.ok THEN r.d ELSE doc
         /\ hist' = Append(hist, [ps |-> ps, ok |-> r.ok])
    /\ len' = len + 1

Next == \E ps \in PatchLists : Apply(ps)

Spec == Init /\ [][Next]_vars

-----------------------------------------------------------------------------
(* C10: unique ids are preserved *)
UniqueIds == UniqueIdList(doc.keys) /\ UniqueIdList(doc.svcs) /\ UniqueList(doc.aka)

\* replace is idempotent and forgets everything else
ReplaceForgets ==
    \A p \in ReplacePatches :
        LET r == ApplyPatch(doc, p).d IN
        /\ r.aka = <<>> /\ r.other = EmptyDoc.other /\ r.keys = p.ents /\ r.svcs = p.ents2
        /\ ApplyPatch(r, p).d = r

\* C14 (design level): a document is reproduced by the patches derived from it
DocToPatches(d) ==
    (IF d.keys # <<>> THEN <<P("add-public-keys", d.keys, <<>>, <<>>, <<>>)>> ELSE <<>>)
    \o (IF d.svcs # <<>> THEN <<P("add-services", d.svcs, <<>>, <<>>, <<>>)>> ELSE <<>>)
    \o (IF d.aka # <<>> THEN <<P("add-also-known-as", <<>>, <<>>, d.aka, <<>>)>> ELSE <<>>)
    \o (LET present == {n \in ONames : d.other[n].t # "abs"} IN
        IF present # {} /\ WithJP
        THEN <<P("ietf-json-patch", <<>>, <<>>, <<>>,
                 [i \in 1..Cardinality(present) |->
                    LET n == CHOOSE x \in present : Cardinality({y \in present : y < x}) = i - 1
                    IN J("add", [name |-> n, sub |-> FALSE], [name |-> n, sub |-> FALSE], d.other[n])])>>
        ELSE <<>>)

RoundTrip == WithJP => ApplyList(EmptyDoc, DocToPatches(doc)).d = doc

=============================================================================
