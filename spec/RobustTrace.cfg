CONSTANTS
  MaxPos = 0
  MaxChain = 0
  TraceFile = "robust_trace.ndjson"
SPECIFICATION TraceSpec
CONSTRAINT HighWater
POSTCONDITION TraceAccepted
INVARIANTS Answered
CHECK_DEADLOCK FALSE
