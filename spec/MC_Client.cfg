\* C08: client lifecycles create -> update* -> recover -> update* -> deactivate
CONSTANTS
  KIds = {1, 2, 3}
  KVers = {1, 2, 3}
  SIds = {1, 2}
  SVers = {1, 2}
  URIs = {1, 2}
  ONames = {1}
  MaxAdd = 2
  MaxLen = 4
  ListLens = {1}
  WithJP = FALSE
  WithBroken = FALSE
  RepeatRecover = FALSE
INIT CInit
NEXT CNext
VIEW View
ACTION_CONSTRAINT DumpEdge
INVARIANTS FreshCommitments DeactivatedShape UniqueDocIds
CHECK_DEADLOCK FALSE
