----------------------------- MODULE PatchRules -----------------------------
(***************************************************************************)
(* Patch validation as a decision table (C13).  A case is a feature record *)
(* of one patch (or original document); Valid(c) is the documented         *)
(* conjunction of constraints.  TLC explores labelled mutations of valid   *)
(* bases: every field of a base is set, one at a time (MaxMut = 1) or in   *)
(* pairs (MaxMut = 2), to each of its other values - boundary lengths      *)
(* 0/1/50/51 and 0/1/30/31, every key type x purpose subset, every         *)
(* forbidden extra member - and prints each case with the verdict the      *)
(* specification gives.  The harness builds the real patch for the record  *)
(* and compares patchvalidator.Validate's verdict.                         *)
(***************************************************************************)
EXTENDS Integers, Sequences, FiniteSets, TLC

CONSTANT MaxMut

VARIABLES c, muts
vars == <<c, muts>>

Purposes == {"authentication", "assertionMethod", "keyAgreement", "capabilityDelegation", "capabilityInvocation"}

KeyTypes == {"Bls12381G2Key2020", "JsonWebKey2020", "EcdsaSecp256k1VerificationKey2019",
             "X25519KeyAgreementKey2019", "Ed25519VerificationKey2018", "Ed25519VerificationKey2020"}

VerificationTypes == KeyTypes \ {"X25519KeyAgreementKey2019"}
AgreementTypes == {"Bls12381G2Key2020", "JsonWebKey2020", "EcdsaSecp256k1VerificationKey2019", "X25519KeyAgreementKey2019"}

\* the key type x purpose table of the Sidetree DID method
Permitted(type, purpose) ==
    IF purpose = "keyAgreement" THEN type \in AgreementTypes ELSE type \in VerificationTypes

-----------------------------------------------------------------------------
(* ids: 1-50 characters of [A-Za-z0-9_-] *)
IdOk(id) == id.present /\ id.len >= 1 /\ id.len <= 50 /\ id.chars = "ok"

\* (256 and 306: lengths that are 0 and 50 modulo 256)
IdVals == [present : {TRUE}, len : {0, 1, 50, 51, 256, 306}, chars : {"ok"}]
            \cup [present : {TRUE}, len : {1, 50}, chars : {"space", "dot", "nonascii", "slash", "kelvin", "longs", "linefeed",
                                                                     \* (a '#' in front - the relative form of an id in resolved documents; a blank at the end)
                                                                     "hash_first", "space_last"}]
            \cup {[present |-> FALSE, len |-> 0, chars |-> "ok"]}

-----------------------------------------------------------------------------
(* public keys *)
JwkOk(j) == j \in {"ec", "okp", "okp_x25519", "rsa"}
\* (the members a JWK needs go with its kty - but every key type other than RSA needs crv and x: an OKP key as much as an EC key)
JwkVals == {"ec", "okp", "okp_x25519", "rsa", "nokty", "nocrv", "nox", "rsa_non", "rsa_noe", "notobject",
            "okp_nocrv", "okp_nox", "okp_crv_empty", "ec_crv_empty"}

\* pp: purposes member: present?, the known purposes listed, an unknown purpose listed?, a sixth
\* entry (a repeated known purpose)?
PurposesOk(type, pp) ==
    IF ~pp.present THEN type \in KeyTypes
    ELSE /\ pp.set # {} \/ pp.unknown \/ pp.sixth          \* non-empty
         /\ ~pp.unknown                                      \* known
         /\ ~(pp.sixth /\ Cardinality(pp.set) = 5)           \* at most five
         /\ \A p \in pp.set : Permitted(type, p)             \* permitted for the key type

\* a well-formed JWK is required unless base58 material is given for a non-JWK key type
JwkRequired(k) == k.material \in {"jwk", "both"} \/ k.type = "JsonWebKey2020"

KeyOk(k) ==
    /\ IdOk(k.id)
    /\ k.type \notin {"missing", "empty", "number", "null"}     \* a type: a non-empty string
    /\ k.material \in {"jwk", "b58"}                         \* exactly one of JWK / base58
    /\ k.extra = "none"                                      \* no unknown members
    /\ PurposesOk(k.type, k.pp)
    /\ JwkRequired(k) => (k.material = "jwk" /\ JwkOk(k.jwk))

BaseKey == [id |-> [present |-> TRUE, len |-> 1, chars |-> "ok"], type |-> "JsonWebKey2020", material |-> "jwk",
            jwk |-> "ec", pp |-> [present |-> TRUE, set |-> {"authentication"}, unknown |-> FALSE, sixth |-> FALSE],
            extra |-> "none"]

PPVals == [present : {TRUE}, set : SUBSET Purposes, unknown : {FALSE}, sixth : {FALSE}]
            \cup {[present |-> TRUE, set |-> {"authentication"}, unknown |-> TRUE, sixth |-> FALSE],
                  [present |-> TRUE, set |-> {}, unknown |-> TRUE, sixth |-> FALSE],
                  [present |-> TRUE, set |-> Purposes, unknown |-> FALSE, sixth |-> TRUE],
                  [present |-> TRUE, set |-> {"authentication", "assertionMethod"}, unknown |-> FALSE, sixth |-> TRUE],
                  [present |-> FALSE, set |-> {}, unknown |-> FALSE, sixth |-> FALSE]}

KeyFieldVals ==
    [id       |-> IdVals,
     type     |-> KeyTypes \cup {"Unknown2099", "missing", "empty", "number", "null"},
     material |-> {"jwk", "b58", "both", "none"},
     jwk      |-> JwkVals,
     pp       |-> PPVals,
     \* (*_null: the member is there and its value is null - a member all the same)
     extra    |-> {"none", "controller", "foo", "publicKeyMultibase", "foo_null", "controller_null", "other_material_null", "purposes_null"}]

-----------------------------------------------------------------------------
(* services *)
EndpointOk(e) == e \in {"str_ok", "str_did", "list_ok", "list_one", "obj", "list_objs", "list_mixed_ok"}
EndpointVals == {"str_ok", "str_did", "list_ok", "list_one", "obj", "list_objs", "list_mixed_ok",
                 "absent", "null", "str_empty", "str_bad", "list_bad_first", "list_bad_second",
                 "list_bad_last", "list_empty_second", "list_mixed_bad_after_obj",
                 \* a valid URI with white space around it is not that URI (nothing is trimmed before the check)
                 "str_blank_front", "str_newline_end", "list_blank_front_second"}

SvcOk(s) ==
    /\ IdOk(s.id)
    /\ s.type.present /\ s.type.len >= 1 /\ s.type.len <= 30
    /\ EndpointOk(s.endpoint)

BaseSvc == [id |-> [present |-> TRUE, len |-> 1, chars |-> "ok"], type |-> [present |-> TRUE, len |-> 1],
            endpoint |-> "str_ok", extra |-> "none"]

SvcFieldVals ==
    [id       |-> IdVals,
     type     |-> [present : {TRUE}, len : {0, 1, 30, 31, 256, 286}] \cup {[present |-> FALSE, len |-> 0]},
     endpoint |-> EndpointVals,
     extra    |-> {"none", "priority", "routingKeys"}]        \* further service members are allowed

-----------------------------------------------------------------------------
(* the cases *)

\* wrap: which patch carries the entry; dup: a second entry with the same id in the same patch
KeyCase(k, wrap, dup) == [kind |-> "key", k |-> k, wrap |-> wrap, dup |-> dup]
SvcCase(s, wrap, dup) == [kind |-> "svc", s |-> s, wrap |-> wrap, dup |-> dup]

\* list-valued patches: remove-public-keys / remove-services ids, also-known-as uris, json patches
\* dup_respelled: two entries that differ as strings only - for URIs the same URI once parsed (scheme in another
\* letter case), for ids two different ids
\* ok_many: five further entries of other spellings (URIs: relative references - "parse" is all that is asked of them;
\* ids: the other characters and the longest length)
\* empty_entry_last: the empty string behind a valid entry (an entry like any other: it is not dropped before the check)
ListVals == {"ok_one", "ok_two", "ok_many", "empty", "not_array", "missing_value", "bad_entry_first", "bad_entry_last", "dup", "dup_respelled",
             "empty_entry_last", "empty_entry_only"}
ListOk(action, v) ==
    CASE v \in {"ok_one", "ok_two", "ok_many"} -> TRUE
      [] v \in {"dup", "dup_respelled"} -> action \in {"remove-public-keys", "remove-services"}  \* only also-known-as URIs must be unique
      \* (the empty string is no id; as a URI reference it parses - all that is asked of an also-known-as URI)
      [] v \in {"empty_entry_last", "empty_entry_only"} -> action \in {"add-also-known-as", "remove-also-known-as"}
      [] OTHER -> FALSE
ListActions == {"remove-public-keys", "remove-services", "add-also-known-as", "remove-also-known-as"}
ListCase(a, v) == [kind |-> "list", action |-> a, v |-> v]

\* replace documents: members besides publicKeys / services are refused
ReplaceVals == {"empty", "keys_only", "services_only", "both", "extra_member", "extra_id", "not_object", "missing_value"}
ReplaceOk(v) == v \in {"empty", "keys_only", "services_only", "both"}
ReplaceCase(v) == [kind |-> "replace", v |-> v]

\* ietf-json-patch envelope (what the patches may touch is C11)
JPVals == {"ok", "empty", "not_array", "missing_value", "no_path", "path_not_string"}
JPOk(v) == v = "ok"
JPCase(v) == [kind |-> "jsonpatch", v |-> v]

\* original documents
OrigVals == [validator : {"doc", "did"}, id : BOOLEAN, context : BOOLEAN, badjson : BOOLEAN]
OrigOk(o) == ~o.badjson /\ ~o.id /\ (o.validator = "did" => ~o.context)
OrigCase(o) == [kind |-> "origdoc", o |-> o]

Valid(x) ==
    CASE x.kind = "key"       -> KeyOk(x.k) /\ ~x.dup
      [] x.kind = "svc"       -> SvcOk(x.s) /\ ~x.dup
      [] x.kind = "list"      -> ListOk(x.action, x.v)
      [] x.kind = "replace"   -> ReplaceOk(x.v)
      [] x.kind = "jsonpatch" -> JPOk(x.v)
      [] x.kind = "origdoc"   -> OrigOk(x.o)

-----------------------------------------------------------------------------
Wraps == {"add", "replace"}

\* the full key type x purpose subset matrix (not all of it valid: it is a table, not a base)
Matrix == {KeyCase([BaseKey EXCEPT !.type = t, !.pp.set = S], "add", FALSE) :
             t \in KeyTypes \cup {"Unknown2099"}, S \in SUBSET Purposes}

Bases ==
    {KeyCase(BaseKey, w, FALSE) : w \in Wraps}
         \cup {KeyCase([BaseKey EXCEPT !.id.len = 50], "add", FALSE)}
         \cup {SvcCase(BaseSvc, w, FALSE) : w \in Wraps}
         \cup {SvcCase([BaseSvc EXCEPT !.id.len = 50, !.type.len = 30], "add", FALSE)}
         \cup {ListCase(a, "ok_one") : a \in ListActions}
         \cup {ReplaceCase("both"), JPCase("ok")}
         \cup {OrigCase([validator |-> v, id |-> FALSE, context |-> FALSE, badjson |-> FALSE]) : v \in {"doc", "did"}}

Init ==
    \/ muts = <<"type", "pp">> /\ c \in Matrix
    \/ muts = <<>> /\ c \in Bases

Mutated(f) == \E i \in 1..Len(muts) : muts[i] = f

MutateKey ==
    /\ c.kind = "key"
    /\ \/ \E f \in DOMAIN KeyFieldVals : \E v \in KeyFieldVals[f] :
            /\ ~Mutated(f) /\ c.k[f] # v
            /\ c' = [c EXCEPT !.k[f] = v]
            /\ muts' = Append(muts, f)
       \/ /\ ~Mutated("dup") /\ ~c.dup
          /\ c' = [c EXCEPT !.dup = TRUE]
          /\ muts' = Append(muts, "dup")

MutateSvc ==
    /\ c.kind = "svc"
    /\ \/ \E f \in DOMAIN SvcFieldVals : \E v \in SvcFieldVals[f] :
            /\ ~Mutated(f) /\ c.s[f] # v
            /\ c' = [c EXCEPT !.s[f] = v]
            /\ muts' = Append(muts, f)
       \/ /\ ~Mutated("dup") /\ ~c.dup
          /\ c' = [c EXCEPT !.dup = TRUE]
          /\ muts' = Append(muts, "dup")

MutateOther ==
    /\ ~Mutated("v")
    /\ \/ c.kind = "list" /\ \E v \in ListVals : c.v # v /\ c' = [c EXCEPT !.v = v]
       \/ c.kind = "replace" /\ \E v \in ReplaceVals : c.v # v /\ c' = [c EXCEPT !.v = v]
       \/ c.kind = "jsonpatch" /\ \E v \in JPVals : c.v # v /\ c' = [c EXCEPT !.v = v]
       \/ c.kind = "origdoc" /\ \E o \in OrigVals : o.validator = c.o.validator /\ c.o # o /\ c' = [c EXCEPT !.o = o]
    /\ muts' = Append(muts, "v")

Next == Len(muts) < MaxMut /\ (MutateKey \/ MutateSvc \/ MutateOther)

Spec == Init /\ [][Next]_vars

-----------------------------------------------------------------------------
BasesValid == muts = <<>> => Valid(c)

\* each single constraint is independently necessary: violating it alone makes the patch invalid
BadIdAlone       == (c.kind = "key" /\ ~IdOk(c.k.id)) \/ (c.kind = "svc" /\ ~IdOk(c.s.id)) => ~Valid(c)
BadEndpointAlone == c.kind = "svc" /\ ~EndpointOk(c.s.endpoint) => ~Valid(c)
ExtraKeyMember   == c.kind = "key" /\ c.k.extra # "none" => ~Valid(c)
SvcExtraAllowed  == c.kind = "svc" /\ muts = <<"extra">> => Valid(c)
TypePurposeTable ==
    c.kind = "key" /\ KeyOk(c.k) /\ c.k.pp.present => \A p \in c.k.pp.set : Permitted(c.k.type, p)

=============================================================================
