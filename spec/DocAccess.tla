------------------------------ MODULE DocAccess ------------------------------
(***************************************************************************)
(* Extension specification (beyond the listed properties): the readers     *)
(* through which validators, composer and transformers look at documents   *)
(* (pkg/document: Document, DIDDocument, ReplaceDocument, PublicKey,       *)
(* Service, JWK).  Every accessor reads ONE member of its object with one  *)
(* of five readers; what the other members hold does not matter.           *)
(*                                                                         *)
(*   string  : the member's value if it is a string, "" otherwise;         *)
(*   strings : the string entries of a list, in order; nothing otherwise;  *)
(*   objects : the object entries of a list, in order; nothing otherwise;  *)
(*   object  : the value if it is an object; nothing otherwise;            *)
(*   list    : the value if it is a list (whatever it holds); nothing      *)
(*             otherwise;                                                  *)
(*   any     : the value as it is.                                         *)
(***************************************************************************)
EXTENDS Integers, Sequences, TLC

VARIABLE cs
vars == <<cs>>

\* accessor -> [on: the object it belongs to, member, reader]
Accessors ==
    [DocumentID            |-> [on |-> "Document",        member |-> "id",                   reader |-> "string"],
     DocumentContext       |-> [on |-> "Document",        member |-> "@context",             reader |-> "list"],
     DocumentPublicKeys    |-> [on |-> "Document",        member |-> "publicKey",            reader |-> "objects"],
     DocumentStringValue   |-> [on |-> "Document",        member |-> "didSuffix",            reader |-> "string"],
     DidID                 |-> [on |-> "DIDDocument",     member |-> "id",                   reader |-> "string"],
     DidContext            |-> [on |-> "DIDDocument",     member |-> "@context",             reader |-> "list"],
     DidPublicKeys         |-> [on |-> "DIDDocument",     member |-> "publicKey",            reader |-> "objects"],
     DidVerificationMethods |-> [on |-> "DIDDocument",    member |-> "verificationMethod",   reader |-> "objects"],
     DidAlsoKnownAs        |-> [on |-> "DIDDocument",     member |-> "alsoKnownAs",          reader |-> "strings"],
     DidServices           |-> [on |-> "DIDDocument",     member |-> "service",              reader |-> "objects"],
     DidAuthentications    |-> [on |-> "DIDDocument",     member |-> "authentication",       reader |-> "list"],
     DidAssertionMethods   |-> [on |-> "DIDDocument",     member |-> "assertionMethod",      reader |-> "list"],
     DidAgreementKeys      |-> [on |-> "DIDDocument",     member |-> "keyAgreement",         reader |-> "list"],
     DidDelegationKeys     |-> [on |-> "DIDDocument",     member |-> "capabilityDelegation", reader |-> "list"],
     DidInvocationKeys     |-> [on |-> "DIDDocument",     member |-> "capabilityInvocation", reader |-> "list"],
     ReplacePublicKeys     |-> [on |-> "ReplaceDocument", member |-> "publicKeys",           reader |-> "objects"],
     ReplaceServices       |-> [on |-> "ReplaceDocument", member |-> "services",             reader |-> "objects"],
     KeyID                 |-> [on |-> "PublicKey",       member |-> "id",                   reader |-> "string"],
     KeyType               |-> [on |-> "PublicKey",       member |-> "type",                 reader |-> "string"],
     KeyController         |-> [on |-> "PublicKey",       member |-> "controller",           reader |-> "string"],
     KeyJwk                |-> [on |-> "PublicKey",       member |-> "publicKeyJwk",         reader |-> "object"],
     KeyBase58             |-> [on |-> "PublicKey",       member |-> "publicKeyBase58",      reader |-> "string"],
     KeyMultibase          |-> [on |-> "PublicKey",       member |-> "publicKeyMultibase",   reader |-> "string"],
     KeyPurpose            |-> [on |-> "PublicKey",       member |-> "purposes",             reader |-> "strings"],
     ServiceID             |-> [on |-> "Service",         member |-> "id",                   reader |-> "string"],
     ServiceType           |-> [on |-> "Service",         member |-> "type",                 reader |-> "string"],
     ServiceEndpoint       |-> [on |-> "Service",         member |-> "serviceEndpoint",      reader |-> "any"],
     JwkKty                |-> [on |-> "JWK",             member |-> "kty",                  reader |-> "string"],
     JwkCrv                |-> [on |-> "JWK",             member |-> "crv",                  reader |-> "string"],
     JwkX                  |-> [on |-> "JWK",             member |-> "x",                    reader |-> "string"],
     JwkY                  |-> [on |-> "JWK",             member |-> "y",                    reader |-> "string"],
     JwkN                  |-> [on |-> "JWK",             member |-> "n",                    reader |-> "string"],
     JwkE                  |-> [on |-> "JWK",             member |-> "e",                    reader |-> "string"]]

Names == DOMAIN Accessors

\* what the member holds
Shapes == {"absent", "null", "string", "empty_string", "number", "bool", "object", "empty_object",
           "empty_list", "list_of_strings", "list_of_objects", "mixed_list"}
\* the entries of the lists, abstractly: s = a string, o = an object, x = anything else (number, null, list)
Entries(shape) == CASE shape = "list_of_strings" -> <<"s", "s">>
                    [] shape = "list_of_objects" -> <<"o", "o">>
                    [] shape = "mixed_list" -> <<"x", "o", "s", "x", "o", "s">>
                    [] OTHER -> <<>>
IsList(shape) == shape \in {"empty_list", "list_of_strings", "list_of_objects", "mixed_list"}

\* the result: "empty" (the zero value: "", no entries, nothing), "value" (the member's value as it is), or the
\* indices of the entries that are kept
Keep(shape, kind) == LET e == Entries(shape) IN SelectSeq([i \in 1..Len(e) |-> i], LAMBDA i : e[i] = kind)

Result(reader, shape) ==
    CASE reader = "string"  -> IF shape \in {"string", "empty_string"} THEN [kind |-> "value", keep |-> <<>>] ELSE [kind |-> "empty", keep |-> <<>>]
      [] reader = "object"  -> IF shape \in {"object", "empty_object"} THEN [kind |-> "value", keep |-> <<>>] ELSE [kind |-> "empty", keep |-> <<>>]
      [] reader = "list"    -> IF IsList(shape) THEN [kind |-> "value", keep |-> <<>>] ELSE [kind |-> "empty", keep |-> <<>>]
      [] reader = "any"     -> IF shape = "absent" THEN [kind |-> "empty", keep |-> <<>>] ELSE [kind |-> "value", keep |-> <<>>]
      [] reader = "strings" -> IF IsList(shape) THEN [kind |-> "entries", keep |-> Keep(shape, "s")] ELSE [kind |-> "empty", keep |-> <<>>]
      [] reader = "objects" -> IF IsList(shape) THEN [kind |-> "entries", keep |-> Keep(shape, "o")] ELSE [kind |-> "empty", keep |-> <<>>]

Cases == {[acc |-> a, shape |-> s] : a \in Names, s \in Shapes}
Expected(c) == Result(Accessors[c.acc].reader, c.shape)

Init == cs \in Cases
Next == UNCHANGED cs

-----------------------------------------------------------------------------
\* the key list and the service list of every kind of document are read the same way
SameListReader ==
    \A a, b \in {"DocumentPublicKeys", "DidPublicKeys", "DidVerificationMethods", "DidServices", "ReplacePublicKeys", "ReplaceServices"} :
        Accessors[a].reader = Accessors[b].reader
\* no two accessors of one object read the same member (so that "what the other members hold does not matter" can be tested)
DistinctMembers ==
    \A a, b \in Names : (a # b /\ Accessors[a].on = Accessors[b].on) => Accessors[a].member # Accessors[b].member
\* entries are never invented or reordered
KeepIsSubsequence ==
    LET k == Expected(cs).keep IN \A i, j \in 1..Len(k) : i < j => k[i] < k[j]
=============================================================================
