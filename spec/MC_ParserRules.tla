--------------------------- MODULE MC_ParserRules ---------------------------
EXTENDS ParserRules, Json
DumpCase ==
    PrintT(<<"CASE", ToJson([op |-> cs.o, cfg |-> cs.c, accept |-> ParseAccept(cs.o, cs.c),
                             returned |-> Returned(cs.o, cs.c)])>>)
=============================================================================
