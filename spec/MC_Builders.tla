---------------------------- MODULE MC_Builders ----------------------------
EXTENDS Builders, Json
AllMembers == <<"type", "suffixData", "delta", "didSuffix", "revealValue", "signedData", "deltaHash", "recoveryCommitment", "anchorOrigin",
                "updateKey", "recoveryKey", "anchorFrom", "anchorUntil">>
SetSeq(S) == SelectSeq(AllMembers, LAMBDA x : x \in S)
DumpCase == LET e == Expected(cs) IN
    PrintT(<<"CASE", ToJson([c |-> cs, ok |-> e.ok, top |-> SetSeq(e.top), bound |-> SetSeq(e.bound)])>>)
=============================================================================
