---------------------------- MODULE MC_PatchCodec ----------------------------
EXTENDS PatchCodec, Json
DumpCase == PrintT(<<"CASE", ToJson([shape |-> shape, accept |-> Accept(shape)])>>)
=============================================================================
