\* EXT: the caller's document (keys, services, also-known-as) -> the document of the request
INIT Init
NEXT Next
CONSTRAINT DumpCase
INVARIANTS OneMaterial JwkTypeHasJwk IdAndTypeAreTheServices EmptyDocument
CHECK_DEADLOCK FALSE
