\* EXT: every accessor of pkg/document x every shape of the member it reads
INIT Init
NEXT Next
CONSTRAINT DumpCase
INVARIANTS SameListReader DistinctMembers KeepIsSubsequence
CHECK_DEADLOCK FALSE
