\* C20: all interleavings of Procs processes, MaxCalls calls each
CONSTANTS
  Procs = {1, 2, 3}
  Keys = {1, 2}
  Vals = {1, 2}
  MaxCalls = 2
SPECIFICATION Spec
INVARIANTS MutualExclusion MapIsSpec LookupSeesSpec RegisterTestAndSet
PROPERTIES CallsReturn
CHECK_DEADLOCK FALSE
