---- MODULE MC_JsonPatchGuard_TTrace_1790594830 ----
EXTENDS MC_JsonPatchGuard, Sequences, TLCExt, Toolbox, Naturals, TLC

_expression ==
    LET MC_JsonPatchGuard_TEExpression == INSTANCE MC_JsonPatchGuard_TEExpression
    IN MC_JsonPatchGuard_TEExpression!expression
----

_trace ==
    LET MC_JsonPatchGuard_TETrace == INSTANCE MC_JsonPatchGuard_TETrace
    IN MC_JsonPatchGuard_TETrace!trace
----

_inv ==
    ~(
        TLCGet("level") = Len(_TETrace)
        /\
        ops = (<<[spell |-> "plain", kind |-> "move", path |-> "/", from |-> ""]>>)
        /\
        validated = (TRUE)
        /\
        svcAltered = (TRUE)
        /\
        pkAltered = (TRUE)
    )
----

_init ==
    /\ pkAltered = _TETrace[1].pkAltered
    /\ svcAltered = _TETrace[1].svcAltered
    /\ validated = _TETrace[1].validated
    /\ ops = _TETrace[1].ops
----

_next ==
    /\ \E i,j \in DOMAIN _TETrace:
        /\ \/ /\ j = i + 1
              /\ i = TLCGet("level")
        /\ pkAltered  = _TETrace[i].pkAltered
        /\ pkAltered' = _TETrace[j].pkAltered
        /\ svcAltered  = _TETrace[i].svcAltered
        /\ svcAltered' = _TETrace[j].svcAltered
        /\ validated  = _TETrace[i].validated
        /\ validated' = _TETrace[j].validated
        /\ ops  = _TETrace[i].ops
        /\ ops' = _TETrace[j].ops

\* Uncomment the ASSUME below to write the states of the error trace
\* to the given file in Json format. Note that you can pass any tuple
\* to `JsonSerialize`. For example, a sub-sequence of _TETrace.
    \* ASSUME
    \*     LET J == INSTANCE Json
    \*         IN J!JsonSerialize("MC_JsonPatchGuard_TTrace_1790594830.json", _TETrace)

=============================================================================

 Note that you can extract this module `MC_JsonPatchGuard_TEExpression`
  to a dedicated file to reuse `expression` (the module in the 
  dedicated `MC_JsonPatchGuard_TEExpression.tla` file takes precedence 
  over the module `MC_JsonPatchGuard_TEExpression` below).

---- MODULE MC_JsonPatchGuard_TEExpression ----
EXTENDS MC_JsonPatchGuard, Sequences, TLCExt, Toolbox, Naturals, TLC

expression == 
    [
        \* To hide variables of the `MC_JsonPatchGuard` spec from the error trace,
        \* remove the variables below.  The trace will be written in the order
        \* of the fields of this record.
        pkAltered |-> pkAltered
        ,svcAltered |-> svcAltered
        ,validated |-> validated
        ,ops |-> ops
        
        \* Put additional constant-, state-, and action-level expressions here:
        \* ,_stateNumber |-> _TEPosition
        \* ,_pkAlteredUnchanged |-> pkAltered = pkAltered'
        
        \* Format the `pkAltered` variable as Json value.
        \* ,_pkAlteredJson |->
        \*     LET J == INSTANCE Json
        \*     IN J!ToJson(pkAltered)
        
        \* Lastly, you may build expressions over arbitrary sets of states by
        \* leveraging the _TETrace operator.  For example, this is how to
        \* count the number of times a spec variable changed up to the current
        \* state in the trace.
        \* ,_pkAlteredModCount |->
        \*     LET F[s \in DOMAIN _TETrace] ==
        \*         IF s = 1 THEN 0
        \*         ELSE IF _TETrace[s].pkAltered # _TETrace[s-1].pkAltered
        \*             THEN 1 + F[s-1] ELSE F[s-1]
        \*     IN F[_TEPosition - 1]
    ]

=============================================================================



Parsing and semantic processing can take forever if the trace below is long.
 In this case, it is advised to uncomment the module below to deserialize the
 trace from a generated binary file.

\*
\*---- MODULE MC_JsonPatchGuard_TETrace ----
\*EXTENDS MC_JsonPatchGuard, IOUtils, TLC
\*
\*trace == IODeserialize("MC_JsonPatchGuard_TTrace_1790594830.bin", TRUE)
\*
\*=============================================================================
\*

---- MODULE MC_JsonPatchGuard_TETrace ----
EXTENDS MC_JsonPatchGuard, TLC

trace == 
    <<
    ([ops |-> <<>>,validated |-> TRUE,svcAltered |-> FALSE,pkAltered |-> FALSE]),
    ([ops |-> <<[spell |-> "plain", kind |-> "move", path |-> "/", from |-> ""]>>,validated |-> TRUE,svcAltered |-> TRUE,pkAltered |-> TRUE])
    >>
----


=============================================================================

---- CONFIG MC_JsonPatchGuard_TTrace_1790594830 ----
CONSTANTS
    MaxOps = 1
    CheckFrom = FALSE
    Pairing = "benign"

INVARIANT
    _inv

CHECK_DEADLOCK
    \* CHECK_DEADLOCK off because of PROPERTY or INVARIANT above.
    FALSE

INIT
    _init

NEXT
    _next

CONSTANT
    _TETrace <- _trace

ALIAS
    _expression
=============================================================================
\* Generated on Mon Sep 28 11:27:11 UTC 2026