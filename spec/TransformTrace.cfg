CONSTANTS
  MaxOps = 3
  TraceFile = "transform_trace.ndjson"
SPECIFICATION TraceSpec
CONSTRAINT HighWater
POSTCONDITION TraceAccepted
CHECK_DEADLOCK FALSE
