CONSTANTS
  Parts = {"1"}
  MaxParts = 1
  MaxReg = 0
  Labels = {"a", "b"}
  Gens = {0, 1, 2}
  MaxVers = 2
  Namespaces = {"did:x", "did:y"}
  MaxProv = 1
INIT Init
NEXT Next
VIEW View
ACTION_CONSTRAINT DumpStep
INVARIANTS MatchesIsEquivalence MinorDefaultsToZero BuiltInStays ProvidersSorted GetIsExact NamespacesNameProviders
CHECK_DEADLOCK FALSE
