------------------------------ MODULE SelfCert ------------------------------
(***************************************************************************)
(* C03: DIDs are self-certifying.  A create request is (suffix data,       *)
(* delta); its DID suffix is the model hash of the suffix data under the   *)
(* first configured algorithm; outside batch mode it is accepted only if   *)
(* the delta hashes to the delta hash recorded in the suffix data.  A      *)
(* case is a request and one labelled change of it: a re-serialization     *)
(* (same JSON value, other bytes) or a modification of one member.         *)
(***************************************************************************)
EXTENDS Hash

VARIABLE cs

\* abstract member values are small integers; "absent" is 0
Patches == {"add-public-keys", "remove-public-keys", "add-services", "remove-services",
            "add-also-known-as", "remove-also-known-as", "replace", "ietf-json-patch", "mixed"}

AlgLists == {<<256>>, <<512>>, <<256, 512>>, <<512, 256>>}
InList(a, l) == \E i \in 1..Len(l) : l[i] = a

Delta(uc, p, v) == [uc |-> uc, patch |-> p, pv |-> v]             \* pv: version of the patch content
SD(dh, rc, ao, ty) == [dh |-> dh, rc |-> rc, ao |-> ao, ty |-> ty]

Base(p, ao, ty, h) ==
    LET d == Delta(1, p, 1) IN [sd |-> SD(ModelHash(d, h), 2, ao, ty), delta |-> d, h |-> h]

\* (outer_whitespace: white space before the first and after the last token of the request text - RFC 8259 ws value ws)
Reser == {"none", "member_order", "whitespace", "outer_whitespace", "escapes"}
SdMods == {"sd_deltahash", "sd_deltahash_truncated", "sd_deltahash_empty_digest", "sd_deltahash_respelled", "sd_recoverycommitment",
           "sd_anchororigin", "sd_type",
           \* a member of the suffix data that is not of the JSON kind its meaning has (a type that is a number, a list, true;
           \* a recovery commitment that is a number): no suffix data at all - refused, not read as "member not there"
           "sd_type_wrong_kind", "sd_recoverycommitment_wrong_kind"}
\* a member next to suffixData and delta that a create request does not have (didSuffix: the member by which the OTHER
\* requests name their DID): the DID of a create request is computed, never named
EnvelopeMods == {"envelope_didsuffix"}
DeltaMods == {"delta_updatecommitment", "delta_patch_content", "delta_patch_added", "delta_patch_removed",
              "delta_null_member_added"}
Mods == Reser \cup SdMods \cup DeltaMods \cup EnvelopeMods

Fresh == 99   \* a value that differs from every base value
WrongKind == 98   \* a value of a JSON kind that the member cannot have

Modify(r, m) ==
    CASE m \in Reser -> r
      [] m = "sd_deltahash"          -> [r EXCEPT !.sd.dh = ModelHash(Delta(Fresh, r.delta.patch, 1), r.h)]
      \* a multihash of the right algorithm whose digest is only a prefix of the delta's digest (or empty):
      \* a different hash value, hence a different DID, and it does not bind the delta
      [] m = "sd_deltahash_truncated"    -> [r EXCEPT !.sd.dh = <<"truncated", @>>]
      [] m = "sd_deltahash_empty_digest" -> [r EXCEPT !.sd.dh = <<"empty-digest", @>>]
      \* the same multihash bytes in another base64url spelling: another string, hence other suffix data and
      \* another DID, and not the string the delta hashes to
      [] m = "sd_deltahash_respelled"    -> [r EXCEPT !.sd.dh = <<"respelled", @>>]
      [] m = "sd_recoverycommitment" -> [r EXCEPT !.sd.rc = Fresh]
      [] m = "sd_anchororigin"       -> [r EXCEPT !.sd.ao = IF @ = 0 THEN Fresh ELSE IF @ = 1 THEN Fresh ELSE 0]
      [] m = "sd_type"               -> [r EXCEPT !.sd.ty = IF @ = 0 THEN Fresh ELSE 0]
      [] m = "sd_type_wrong_kind"    -> [r EXCEPT !.sd.ty = WrongKind]
      [] m = "sd_recoverycommitment_wrong_kind" -> [r EXCEPT !.sd.rc = WrongKind]
      [] m \in EnvelopeMods          -> r
      [] m = "delta_updatecommitment" -> [r EXCEPT !.delta.uc = Fresh]
      [] m = "delta_patch_content"   -> [r EXCEPT !.delta.pv = 2]
      [] m = "delta_patch_added"     -> [r EXCEPT !.delta.pv = 3]
      [] m = "delta_patch_removed"   -> [r EXCEPT !.delta.pv = 4]
      [] m = "delta_null_member_added" -> [r EXCEPT !.delta.pv = 5]

\* the DID suffix under a configured algorithm list
Suffix(r, algs) == ModelHash(r.sd, algs[1])

\* outside batch mode: hashes computed with a configured algorithm, delta bound by its hash
WellFormedHash(h) == h[1] = "B64"
WellKinded(sd) == sd.ty # WrongKind /\ sd.rc # WrongKind
Accepted(r, algs) == InList(r.h, algs) /\ WellFormedHash(r.sd.dh) /\ IsValid(r.delta, r.sd.dh) /\ WellKinded(r.sd)

\* the namespace a request is parsed under is an argument of the call, any text: the DID is that text, a colon and the
\* suffix - also when the text ends in a colon, has an empty part, or is one part only (nothing is trimmed or joined "cleanly")
Namespaces == {"plain", "trailing_colon", "three_parts", "empty_part", "one_part", "outer_blanks"}

Cases == {c \in {[base |-> Base(p, ao, ty, h), mod |-> m, algs |-> l, ns |-> n] :
                    p \in Patches, ao \in {0, 1, 2}, ty \in {0, 1}, h \in Algs, m \in Mods, l \in AlgLists, n \in Namespaces} :
            /\ InList(c.base.h, c.algs)
            /\ c.ns # "plain" => c.mod = "none" /\ c.base.delta.patch \in {"replace", "mixed"}}

Init == cs \in Cases
Next == UNCHANGED cs

Expected(c) ==
    LET r == Modify(c.base, c.mod) IN
    [accepted |-> Accepted(r, c.algs),
     sameDID  |-> Suffix(r, c.algs) = Suffix(c.base, c.algs),
     baseAccepted |-> Accepted(c.base, c.algs),
     suffixAlg |-> c.algs[1],
     did |-> <<c.ns, ":", "suffix">>]

\* the property, on the model: a re-serialization keeps DID and verdict; any modification of a
\* member changes the DID or is rejected
SelfCertifying ==
    LET e == Expected(cs) IN
    /\ e.baseAccepted
    /\ cs.mod \in Reser \cup EnvelopeMods => e.sameDID /\ e.accepted
    /\ cs.mod \notin Reser \cup EnvelopeMods => ~e.sameDID \/ ~e.accepted

\* suffixes are injective in the suffix data (ideal hash)
SuffixInjective ==
    \A m \in SdMods : Suffix(Modify(cs.base, m), cs.algs) # Suffix(cs.base, cs.algs)
=============================================================================
