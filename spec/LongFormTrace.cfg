CONSTANTS
  Docs = {1, 2, 3, 4, 5}
  Repeats = 1
  TraceFile = "longform_trace.ndjson"
SPECIFICATION TraceSpec
CONSTRAINT HighWater
POSTCONDITION TraceAccepted
CHECK_DEADLOCK FALSE
