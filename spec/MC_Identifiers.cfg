\* EXT: ids of published / unpublished resolutions, document validators, create result
INIT Init
NEXT Next
CONSTRAINT DumpCase
INVARIANTS CanonicalLeads NamespaceAndSuffix LongFormHasShortForm DomainOnce OnlyObjects DidStricter
CHECK_DEADLOCK FALSE
