------------------------------ MODULE Builders ------------------------------
(***************************************************************************)
(* Extension specification (beyond the listed properties; C08 speaks of    *)
(* VALID inputs only): the four request builders of                        *)
(* pkg/versions/1_0/client - NewCreateRequest, NewUpdateRequest,           *)
(* NewRecoverRequest, NewDeactivateRequest - as decision tables over their *)
(* inputs: which inputs are refused, and what a request that is built      *)
(* holds (its members, the members of its suffix data / signed payload).   *)
(*                                                                         *)
(* Pinned as they are and named below: the deactivate builder does not     *)
(* look at the recovery key at all (DeactivateKeyUnchecked); the update    *)
(* and recover builders do not compare the signer with the key, and accept *)
(* an RSA key (the parser refuses those requests later).                   *)
(***************************************************************************)
EXTENDS Integers, Sequences, FiniteSets, TLC

VARIABLE cs

Suffixes == {"ok", "empty"}
Reveals  == {"ok", "empty"}
\* the signer: its protected headers are alg alone, alg and kid (both allowed), no map at all, a map without alg, an
\* empty alg, or a further header; or there is no signer
Signers  == {"ok", "kid_too", "nil", "nil_headers", "no_alg", "empty_alg", "extra_header"}
Keys     == {"ok", "nil", "no_kty", "no_crv", "no_x", "rsa_ok", "rsa_no_n"}
\* the document: an opaque document, a patch list, neither, both, or an opaque document that PatchesFromDocument refuses
Docs     == {"opaque", "patches", "none", "both", "opaque_with_id"}
Codes    == {"ok", "unsupported"}
\* a commitment: computed with the request's algorithm, with the other one, or no multihash
Commits  == {"ok", "other_alg", "garbage"}
Windows  == {"none", "from", "until", "both"}

SignerBad(s) == s \in {"nil", "nil_headers", "no_alg", "empty_alg", "extra_header"}
KeyBad(k)    == k \in {"nil", "no_kty", "no_crv", "no_x", "rsa_no_n"}
DocBad(d)    == d \in {"none", "both", "opaque_with_id"}

CreateCalls ==
    [b : {"create"}, doc : Docs, code : Codes, rc : Commits, uc : Commits \cup {"equal_rc"}, ao : BOOLEAN, ty : BOOLEAN]
UpdateCalls ==
    [b : {"update"}, suffix : Suffixes, reveal : Reveals, patches : {"some", "none"}, key : Keys, signer : Signers,
     next : {"ok", "reuse"}, win : Windows]
RecoverCalls ==
    [b : {"recover"}, suffix : Suffixes, reveal : Reveals, doc : Docs, key : Keys, signer : Signers, next : {"ok", "reuse"},
     win : {"none", "from"}, ao : BOOLEAN]
DeactivateCalls ==
    [b : {"deactivate"}, suffix : Suffixes, reveal : Reveals, key : Keys, signer : Signers, win : Windows]

Calls == CreateCalls \cup UpdateCalls \cup RecoverCalls \cup DeactivateCalls

Refused(c) ==
    CASE c.b = "create" ->
            \/ DocBad(c.doc)
            \/ c.code = "unsupported"
            \/ c.rc # "ok"                         \* not computed with the request's algorithm
            \/ c.uc # "ok"                         \* likewise, or equal to the recovery commitment
      [] c.b = "update" ->
            \/ c.suffix = "empty" \/ c.reveal = "empty" \/ c.patches = "none"
            \/ KeyBad(c.key) \/ SignerBad(c.signer)
            \/ c.next = "reuse"                    \* the next update commitment is the commitment of the key that signs now
      [] c.b = "recover" ->
            \/ c.suffix = "empty" \/ c.reveal = "empty" \/ DocBad(c.doc)
            \/ SignerBad(c.signer) \/ KeyBad(c.key)
            \/ c.next = "reuse"                    \* the next recovery commitment is the commitment of the current recovery key
      [] c.b = "deactivate" ->
            \/ c.suffix = "empty" \/ c.reveal = "empty" \/ SignerBad(c.signer)

WinMembers(w) == CASE w = "none" -> {} [] w = "from" -> {"anchorFrom"} [] w = "until" -> {"anchorUntil"} [] w = "both" -> {"anchorFrom", "anchorUntil"}

\* the members of a request that is built, and of the part that binds it (suffix data / signed payload)
Top(c) == CASE c.b = "create"     -> {"type", "suffixData", "delta"}
            [] c.b = "deactivate" -> {"type", "didSuffix", "revealValue", "signedData"}
            [] OTHER              -> {"type", "didSuffix", "revealValue", "delta", "signedData"}
Bound(c) ==
    CASE c.b = "create"     -> {"deltaHash", "recoveryCommitment"} \cup (IF c.ao THEN {"anchorOrigin"} ELSE {}) \cup (IF c.ty THEN {"type"} ELSE {})
      [] c.b = "update"     -> {"deltaHash", "updateKey"} \cup WinMembers(c.win)
      [] c.b = "recover"    -> {"deltaHash", "recoveryKey", "recoveryCommitment"} \cup (IF c.ao THEN {"anchorOrigin"} ELSE {}) \cup WinMembers(c.win)
      \* (the signed data model of a deactivate has a revealValue member that the builder leaves empty: pinned)
      [] c.b = "deactivate" -> {"didSuffix", "recoveryKey", "revealValue"} \cup WinMembers(c.win)

Expected(c) == IF Refused(c) THEN [ok |-> FALSE, top |-> {}, bound |-> {}]
               ELSE [ok |-> TRUE, top |-> Top(c), bound |-> Bound(c)]

Init == cs \in Calls
Next == UNCHANGED cs

-----------------------------------------------------------------------------
\* a request that is built was signed by a signer whose protected headers hold alg (and at most kid)
SignedWithAlg == (cs.b # "create" /\ ~Refused(cs)) => cs.signer \in {"ok", "kid_too"}
\* no builder hands out a request that commits to the key it is signed with
NoReuse == (cs.b \in {"update", "recover"} /\ ~Refused(cs)) => cs.next = "ok"
\* the window members are there exactly when the bounds are set
WindowAsGiven == (cs.b # "create" /\ ~Refused(cs)) =>
                    /\ ("anchorFrom" \in Bound(cs)) = (cs.win \in {"from", "both"})
                    /\ ("anchorUntil" \in Bound(cs)) = (cs.win \in {"until", "both"})
\* pinned: the deactivate builder never looks at the key
DeactivateKeyUnchecked == \A c \in DeactivateCalls : \A k \in Keys : Refused(c) = Refused([c EXCEPT !.key = k])
=============================================================================
