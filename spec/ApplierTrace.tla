--------------------------- MODULE ApplierTrace ---------------------------
(***************************************************************************)
(* Trace validation: histories executed on the real operation applier are  *)
(* checked, step by step, against Applier.tla.  Every logged field is      *)
(* bound; the base specification's invariants and action properties are    *)
(* evaluated on every observed step (ApplierTrace.cfg).                    *)
(***************************************************************************)
EXTENDS Applier, Json, TLCExt

CONSTANT TraceFile

TraceLog == ndJsonDeserialize(TraceFile)

VARIABLE l

tvars == <<rm, len, hist, l>>

\* JSON arrays arrive as sequences; the specification's member set is a set
ToSet(s) == {s[i] : i \in 1..Len(s)}
FromJson(p) == [p EXCEPT !.doc = [keys |-> p.doc.keys, mem |-> ToSet(p.doc.mem)]]

TraceInit ==
    /\ TLCSet(1, 0)
    /\ l = 1
    /\ rm = NilRM(0, 0)
    /\ len = 0
    /\ hist = <<>>

IsEvent(e) == l <= Len(TraceLog) /\ TraceLog[l].event = e /\ l' = l + 1

\* a new history starts from an empty state
TraceReset ==
    /\ IsEvent("Reset")
    /\ rm' = NilRM(TraceLog[l].pub, TraceLog[l].unpub)
    /\ len' = 0
    /\ hist' = <<>>

\* one real Apply call: the observed result must be the specification's
TraceApply ==
    /\ IsEvent("Apply")
    /\ LET e == TraceLog[l] IN
         /\ ~rm.deact                          \* the driver stops at the first accepted deactivate
         /\ e.bad = ""                         \* no panic, no mutated input, no error-with-state (C12)
         /\ e.err = Refused(rm, e.op)          \* an error exactly when the operation is refused
         /\ rm' = Step(rm, e.op)               \* the specification's action ...
         /\ rm' = FromJson(e.post)             \* ... and every observed field agrees with it
         /\ hist' = <<e.op>>                   \* LastOp for the action properties
    /\ len' = len + 1

TraceNext == TraceReset \/ TraceApply

TraceSpec == TraceInit /\ [][TraceNext]_tvars

\* high-water mark of the trace position (a rejection has no counterexample)
HighWater == TLCSet(1, IF l > TLCGet(1) THEN l ELSE TLCGet(1))

TraceAccepted ==
    IF TLCGet(1) = Len(TraceLog) + 1 THEN TRUE
    ELSE /\ PrintT(<<"TRACE-REJECTED-AT-LINE", TLCGet(1)>>)
         /\ FALSE

\* the base properties, restated over the trace variables
TCreatedImmutable == [][rm.exists /\ hist' # <<>> => rm'.created = rm.created]_tvars
TRecOnlyByRecoveryOps ==
    [][hist' # <<>> /\ (rm'.rec # rm.rec \/ rm'.ao # rm.ao \/ rm'.canon # rm.canon \/ rm'.equiv # rm.equiv)
          => LastOp.type \in {"create", "recover", "deactivate"}]_tvars
TUnauthorizedIsStutter ==
    [][hist' # <<>> /\ (LastOp.type # "create" /\ ~Authorized(LastOp)) => rm' = rm]_tvars
TDocNeedsBoundDelta ==
    [][hist' # <<>> /\ (rm'.doc # rm.doc /\ rm'.doc # EmptyDoc) => DeltaOk(LastOp) /\ LastOp.wf = "ok"]_tvars
TOutOfWindowKeepsDoc ==
    [][hist' # <<>> /\ (LastOp.type # "create" /\ ~InWindow(LastOp.from, LastOp.until, LastOp.t))
          => (rm'.doc = rm.doc \/ rm'.doc = EmptyDoc)]_tvars
TOpListsCarried == [][hist' # <<>> => rm'.pub = rm.pub /\ rm'.unpub = rm.unpub]_tvars
=============================================================================
