CONSTANTS
  Parts = {"", "0", "1"}
  MaxParts = 3
  MaxReg = 1
  Labels = {"a", "b"}
  Gens = {0, 1, 2}
  MaxVers = 0
  Namespaces = {"did:x", "did:y"}
  MaxProv = 0
INIT Init
NEXT Next
VIEW View
ACTION_CONSTRAINT DumpStep
INVARIANTS MatchesIsEquivalence MinorDefaultsToZero BuiltInStays ProvidersSorted GetIsExact NamespacesNameProviders
CHECK_DEADLOCK FALSE
