------------------------------ MODULE ClientDoc ------------------------------
(***************************************************************************)
(* Extension specification (beyond the listed properties): how the         *)
(* document a caller hands to the Sidetree client (sidetree/doc.Doc:       *)
(* public keys, services, also-known-as) becomes the document of the       *)
(* request (doc.JSONBytes / PopulateRawPublicKeys / PopulateRawServices).  *)
(*                                                                         *)
(*   key     : id, type and purposes as given; the key material is the     *)
(*             JWK when there is one (a base58 value next to it is         *)
(*             dropped); without a JWK a JsonWebKey2020 key is an error,   *)
(*             any other type takes the base58 value, and a key with       *)
(*             neither is an error;                                        *)
(*   service : the further properties first, then id and type (which win   *)
(*             over properties of the same name), the endpoint unless it   *)
(*             is empty, priority unless absent (0 is a priority),         *)
(*             recipient keys / routing keys / accept unless empty;        *)
(*   document: a list that is empty is left out.                           *)
(* One error makes the whole document an error.                            *)
(***************************************************************************)
EXTENDS Integers, Sequences, FiniteSets, TLC

VARIABLE cs
vars == <<cs>>

Materials == {"jwk", "b58", "both", "none"}
KeyTypes  == {"JsonWebKey2020", "Ed25519VerificationKey2018", "EcdsaSecp256k1VerificationKey2019"}
PurposeLists == {"absent", "empty", "one", "two"}

KeyCases == {[kind |-> "key", mat |-> m, type |-> t, purposes |-> p] : m \in Materials, t \in KeyTypes, p \in PurposeLists}

Props == {"none", "custom", "shadowing"}        \* shadowing: properties named id, type, priority, serviceEndpoint
Endpoints == {"uri", "empty", "objects"}
Priorities == {"absent", "zero", "seven"}
Lists == {"empty", "filled"}                    \* recipient keys, routing keys, accept (together)

ServiceCases == {[kind |-> "service", props |-> pr, endpoint |-> e, priority |-> p, lists |-> l] :
                    pr \in Props, e \in Endpoints, p \in Priorities, l \in Lists}

\* whole documents: how many keys / services / URIs, and whether the second key is a broken one
DocCases == {[kind |-> "doc", keys |-> k, svcs |-> s, aka |-> a, broken |-> b] :
                k \in 0..2, s \in 0..1, a \in 0..2, b \in BOOLEAN}

Cases == KeyCases \cup ServiceCases \cup DocCases

-----------------------------------------------------------------------------
KeyOk(c) == c.mat \in {"jwk", "both"} \/ (c.mat = "b58" /\ c.type # "JsonWebKey2020")
KeyMembers(c) ==
    {"id", "type", "purposes"} \cup (IF c.mat \in {"jwk", "both"} THEN {"publicKeyJwk"} ELSE {"publicKeyBase58"})

\* where a member's value comes from
ServiceMembers(c) ==
    {"id", "type"}
    \cup (IF c.props = "custom" THEN {"custom"} ELSE {})
    \cup (IF c.props = "shadowing" THEN {"custom", "priority", "serviceEndpoint"} ELSE {})
    \cup (IF c.endpoint # "empty" THEN {"serviceEndpoint"} ELSE {})
    \cup (IF c.priority # "absent" THEN {"priority"} ELSE {})
    \cup (IF c.lists = "filled" THEN {"recipientKeys", "routingKeys", "accept"} ELSE {})
\* the service's own fields win over properties of the same name; a property survives only where the field is left out
FromProperty(c, m) ==
    /\ c.props = "shadowing"
    /\ \/ m = "custom"
       \/ m = "priority" /\ c.priority = "absent"
       \/ m = "serviceEndpoint" /\ c.endpoint = "empty"

DocOk(c) == ~(c.broken /\ c.keys = 2)
DocMembers(c) == (IF c.keys > 0 THEN {"publicKey"} ELSE {}) \cup (IF c.svcs > 0 THEN {"service"} ELSE {})
                 \cup (IF c.aka > 0 THEN {"alsoKnownAs"} ELSE {})

Expected(c) ==
    CASE c.kind = "key" -> [ok |-> KeyOk(c), members |-> IF KeyOk(c) THEN KeyMembers(c) ELSE {}, fromProperty |-> {}]
      [] c.kind = "service" -> [ok |-> TRUE, members |-> ServiceMembers(c), fromProperty |-> {m \in ServiceMembers(c) : FromProperty(c, m)}]
      [] c.kind = "doc" -> [ok |-> DocOk(c), members |-> IF DocOk(c) THEN DocMembers(c) ELSE {}, fromProperty |-> {}]

Init == cs \in Cases
Next == UNCHANGED cs

-----------------------------------------------------------------------------
\* a key that is written carries exactly one kind of material
OneMaterial == (cs.kind = "key" /\ Expected(cs).ok) =>
    Cardinality(Expected(cs).members \cap {"publicKeyJwk", "publicKeyBase58"}) = 1
\* a JsonWebKey2020 key is written with a JWK or not at all
JwkTypeHasJwk == (cs.kind = "key" /\ cs.type = "JsonWebKey2020" /\ Expected(cs).ok) => "publicKeyJwk" \in Expected(cs).members
\* a property never replaces the id or the type of a service
IdAndTypeAreTheServices == cs.kind = "service" => {"id", "type"} \cap Expected(cs).fromProperty = {}
\* the empty document has no members at all
EmptyDocument == (cs.kind = "doc" /\ cs.keys = 0 /\ cs.svcs = 0 /\ cs.aka = 0) => Expected(cs).members = {}
=============================================================================
