\* C13: bases, every single mutation (MaxMut = 1; pairs with MaxMut = 2) and the type x purpose matrix
CONSTANTS
  MaxMut = 1
INIT Init
NEXT Next
VIEW View
CONSTRAINT DumpCase
INVARIANTS BasesValid BadIdAlone BadEndpointAlone ExtraKeyMember SvcExtraAllowed TypePurposeTable
CHECK_DEADLOCK FALSE
