--------------------------- MODULE MC_ClientSend ---------------------------
EXTENDS ClientSend, Json
DumpDone == (phase' = "done" /\ phase # "done") =>
              PrintT(<<"CASE", ToJson([cfg |-> cfg', calls |-> calls', posts |-> posts', res |-> res'])>>)
=============================================================================
