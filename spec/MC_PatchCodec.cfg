INIT Init
NEXT Next
CONSTRAINT DumpCase
INVARIANTS OwnKeyNecessary
CHECK_DEADLOCK FALSE
