--------------------------- MODULE ComposerTrace ---------------------------
(***************************************************************************)
(* Trace validation of doccomposer.ApplyPatches: random sequences of       *)
(* validated patch lists executed on the real composer are checked, step   *)
(* by step, against Composer.tla (TLC is the oracle for inputs it did not  *)
(* enumerate itself).                                                      *)
(***************************************************************************)
EXTENDS Composer, Json, TLCExt

CONSTANT TraceFile
TraceLog == ndJsonDeserialize(TraceFile)

VARIABLE l
tvars == <<doc, len, hist, l>>

TraceInit == TLCSet(1, 0) /\ l = 1 /\ doc = EmptyDoc /\ len = 0 /\ hist = <<>>

IsEvent(e) == l <= Len(TraceLog) /\ TraceLog[l].event = e /\ l' = l + 1

TraceReset == IsEvent("Reset") /\ doc' = EmptyDoc /\ len' = 0 /\ hist' = <<>>

TraceApply ==
    /\ IsEvent("Apply")
    /\ LET e == TraceLog[l]
           r == ApplyList(doc, e.patches)
       IN /\ e.bad = ""                          \* no panic, no mutated input, no error-with-document
          /\ e.ok = r.ok                         \* an error exactly when the list does not apply
          /\ doc' = IF r.ok THEN r.d ELSE doc    \* the specification's action (failure is atomic) ...
          /\ doc' = e.post                       \* ... and the observed document agrees with it
          /\ hist' = <<>>
    /\ len' = len + 1

TraceNext == TraceReset \/ TraceApply
TraceSpec == TraceInit /\ [][TraceNext]_tvars

HighWater == TLCSet(1, IF l > TLCGet(1) THEN l ELSE TLCGet(1))
TraceAccepted ==
    IF TLCGet(1) = Len(TraceLog) + 1 THEN TRUE
    ELSE PrintT(<<"TRACE-REJECTED-AT-LINE", TLCGet(1)>>) /\ FALSE
=============================================================================
