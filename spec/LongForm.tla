------------------------------ MODULE LongForm ------------------------------
(***************************************************************************)
(* C17: long-form DIDs.  A long-form DID is  ns ":" suffix ":" state  where *)
(* state is the unpadded base64url encoding of the canonical JSON of a     *)
(* create request and suffix the model hash of that request's suffix data. *)
(* Creation is a FUNCTION of (document, update key, recovery key).  A      *)
(* handler for namespace ns resolves exactly the DIDs of that shape.       *)
(***************************************************************************)
EXTENDS Integers, Sequences, FiniteSets, TLC

CONSTANTS Docs,        \* document variants (concretized by the harness)
          Repeats      \* how often one creation is repeated

VARIABLES created, calls, probe, processed
vars == <<created, calls, probe, processed>>

Probe(d, ns, enc, sfx, form) == [doc |-> d, ns |-> ns, enc |-> enc, sfx |-> sfx, form |-> form]
NoProbe == Probe(0, "same", "canonical", "matching", "long")
NotProcessed == [doc |-> 0, shape |-> "none"]

\* ---- creation is deterministic ---------------------------------------------------------------
\* arguments (document d, key pair k) are numbered (d - 1) * 2 + k; Docs = 1..N
NDocs == Cardinality(Docs)
Args == 1..(2 * NDocs)
DocOf(a) == ((a - 1) \div 2) + 1
KeysOf(a) == ((a - 1) % 2) + 1
DIDOf(a) == <<"did", DocOf(a), KeysOf(a)>>     \* an ideal injective function of the arguments

Undefined == <<"none">>

\* (the order in which distinct arguments are used does not matter: one canonical order)
Create(a) ==
    /\ probe = NoProbe /\ processed = NotProcessed
    /\ calls[a] < Repeats
    /\ \A b \in Args : b < a => calls[b] = Repeats
    /\ created' = [created EXCEPT ![a] = DIDOf(a)]
    /\ calls' = [calls EXCEPT ![a] = @ + 1]
    /\ UNCHANGED <<probe, processed>>

\* ---- resolution ------------------------------------------------------------------------------
\* how the namespace part of the presented DID relates to the handler's namespace "did:ion"
NsRels == {"same", "extended", "truncated", "other_method", "method_prefix_only", "upper_case", "no_did_scheme"}
\* how the initial state is spelled
\* ("typeless": the canonical request WITHOUT its type member - the long-form format of the Sidetree specification;
\* the statement does not say whether it resolves: Decided.  If it does, the document's id is the DID asked for)
Encodings == {"canonical", "whitespace", "member_order", "padded", "trailing_bits", "tampered_char",
              "not_base64url", "other_request", "update_request", "empty", "typeless"}
Decided(p) == ~(p.enc = "typeless" /\ p.ns = "same" /\ p.sfx = "matching" /\ p.form = "long")
\* (other_algorithm: the hash of the same suffix data under a hash algorithm that the handler's protocol does not list)
SuffixRels == {"matching", "other", "empty", "prefixed", "suffixed", "doubled", "other_algorithm"}
Forms == {"long", "short"}


\* the state and the suffix belong together: both of this document, or both of the other one
\* (which is simply the other document's long-form DID)
Consistent(p) == (p.enc = "canonical" /\ p.sfx = "matching") \/ (p.enc = "other_request" /\ p.sfx = "other")

Resolves(p) ==
    /\ p.ns = "same"
    /\ p.form = "long"
    /\ Consistent(p)

\* resolution does not depend on what has been created (the handler is stateless)
Resolve(p) ==
    /\ \A a \in Args : calls[a] = 0
    /\ probe = NoProbe /\ processed = NotProcessed
    /\ probe' = p
    /\ UNCHANGED <<created, calls, processed>>

\* ---- a create request handed to the handler (ProcessOperation) ----------------------------------
\* the request of document d as the client builds it, re-spelled, or carrying members the request model does not
\* know (a parser may or may not accept those - C07's business; what it accepts must come back as a DID that resolves)
RequestShapes == {"as_built", "whitespace", "member_order", "further_member", "further_delta_member", "further_suffix_member",
                  "member_case", "escaped_member_name", "truncated_commitment", "empty_commitment"}
\* a request whose commitment is no multihash (the code of a configured algorithm, a digest that is cut short / absent)
\* is no valid create request: nothing is handed out for it
MustRefuse(shape) == shape \in {"truncated_commitment", "empty_commitment"}
\* the same request in another spelling is the same request: it is accepted and answered with the same DID
SameRequest(shape) == shape \in {"as_built", "whitespace", "member_order"}
\* the DID that comes back is, by definition, ns : suffix of the request : canonical state of the request
ReturnedDID(pr) == Probe(pr.doc, "same", "canonical", "matching", "long")

Process(d, shape) ==
    /\ \A a \in Args : calls[a] = 0
    /\ probe = NoProbe /\ processed = NotProcessed
    /\ processed' = [doc |-> d, shape |-> shape]
    /\ UNCHANGED <<created, calls, probe>>

Init == /\ created = [a \in Args |-> Undefined]
        /\ calls = [a \in Args |-> 0]
        /\ probe = NoProbe
        /\ processed = NotProcessed

\* a probe deviates from a resolvable DID in at most two places
Deviations(p) == (IF p.ns = "same" THEN 0 ELSE 1) + (IF p.enc = "canonical" THEN 0 ELSE 1)
                   + (IF p.sfx = "matching" THEN 0 ELSE 1) + (IF p.form = "long" THEN 0 ELSE 1)

Next ==
    \/ \E a \in Args : Create(a)
    \/ \E d \in Docs, ns \in NsRels, enc \in Encodings, sfx \in SuffixRels, form \in Forms :
          /\ Deviations(Probe(d, ns, enc, sfx, form)) <= 2
          /\ Resolve(Probe(d, ns, enc, sfx, form))
    \/ \E d \in Docs, shape \in RequestShapes : Process(d, shape)

\* determinism: once a DID has been handed out for some arguments it never changes
Deterministic == [][\A a \in Args : created[a] # Undefined => created'[a] = created[a]]_vars
\* distinct arguments, distinct DIDs
Injective == \A a, b \in Args : created[a] # Undefined /\ created[a] = created[b] => a = b
\* what the handler hands out for a create request it accepts resolves
ProcessedResolves == (processed # NotProcessed /\ ~MustRefuse(processed.shape)) => Resolves(ReturnedDID(processed))
\* only one shape resolves
OnlyOwnNamespace == Resolves(probe) => probe.ns = "same"
=============================================================================
