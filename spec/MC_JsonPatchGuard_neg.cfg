\* negative configuration: a validator that inspects `path` only lets an altering list through
CONSTANTS
  MaxOps = 1
  CheckFrom = FALSE
  Pairing = "benign"
INIT Init
NEXT Next
INVARIANTS GuardSuffices
CHECK_DEADLOCK FALSE
