------------------------------ MODULE Registry ------------------------------
(***************************************************************************)
(* C20: the namespace provider and the client-version registry are maps    *)
(* behind a readers-writer lock.  Processes issue Add(key, value),         *)
(* Register(key, value) (refused when the key is taken) and Lookup(key)    *)
(* calls; a call is several steps: invoke, acquire the lock    *)
(* (shared for Lookup, exclusive for Add), access the map, release, return.*)
(* The specification keeps, beside the implementation's map, the           *)
(* SEQUENTIAL map that the calls are supposed to be equivalent to: it is   *)
(* updated at the access step (the linearization point) and every return   *)
(* value is checked against it.                                            *)
(***************************************************************************)
EXTENDS Integers, Sequences, FiniteSets, TLC

CONSTANTS Procs, Keys, Vals, MaxCalls

VARIABLES map,        \* the implementation's map
          readers,    \* processes holding the shared lock
          writer,     \* process holding the exclusive lock (0: none)
          pc,         \* per process: idle, invoked, locked, accessed, released
          call,       \* per process: the call in progress
          ncalls,     \* per process: calls made
          spec        \* the sequential map

vars == <<map, readers, writer, pc, call, ncalls, spec>>

NoVal == 0
IsWrite(o) == o \in {"add", "register"}
NoCall == [op |-> "none", key |-> 0, val |-> 0, res |-> 0]

Init == /\ map = [k \in Keys |-> NoVal] /\ spec = [k \in Keys |-> NoVal]
        /\ readers = {} /\ writer = 0
        /\ pc = [p \in Procs |-> "idle"] /\ call = [p \in Procs |-> NoCall] /\ ncalls = [p \in Procs |-> 0]

Invoke(p, op, k, v) ==
    /\ pc[p] = "idle" /\ ncalls[p] < MaxCalls
    /\ pc' = [pc EXCEPT ![p] = "invoked"]
    /\ call' = [call EXCEPT ![p] = [op |-> op, key |-> k, val |-> v, res |-> 0]]
    /\ ncalls' = [ncalls EXCEPT ![p] = @ + 1]
    /\ UNCHANGED <<map, readers, writer, spec>>

Acquire(p) ==
    /\ pc[p] = "invoked"
    /\ IF IsWrite(call[p].op)
       THEN writer = 0 /\ readers = {} /\ writer' = p /\ UNCHANGED readers
       ELSE writer = 0 /\ readers' = readers \cup {p} /\ UNCHANGED writer
    /\ pc' = [pc EXCEPT ![p] = "locked"]
    /\ UNCHANGED <<map, call, ncalls, spec>>

\* the linearization point
Access(p) ==
    /\ pc[p] = "locked"
    /\ CASE call[p].op = "add" ->
               /\ map' = [map EXCEPT ![call[p].key] = call[p].val]
               /\ spec' = [spec EXCEPT ![call[p].key] = call[p].val]
               /\ UNCHANGED call
         \* test and set under the exclusive lock: the result is 1 (accepted) or 0 (refused, nothing changes)
         [] call[p].op = "register" ->
               IF map[call[p].key] = NoVal
               THEN /\ map' = [map EXCEPT ![call[p].key] = call[p].val]
                    /\ spec' = [spec EXCEPT ![call[p].key] = call[p].val]
                    /\ call' = [call EXCEPT ![p].res = 1]
               ELSE /\ call' = [call EXCEPT ![p].res = 0]
                    /\ UNCHANGED <<map, spec>>
         [] OTHER ->
               /\ call' = [call EXCEPT ![p].res = map[call[p].key]]
               /\ UNCHANGED <<map, spec>>
    /\ pc' = [pc EXCEPT ![p] = "accessed"]
    /\ UNCHANGED <<readers, writer, ncalls>>

Release(p) ==
    /\ pc[p] = "accessed"
    /\ IF IsWrite(call[p].op) THEN writer' = 0 /\ UNCHANGED readers ELSE readers' = readers \ {p} /\ UNCHANGED writer
    /\ pc' = [pc EXCEPT ![p] = "released"]
    /\ UNCHANGED <<map, call, ncalls, spec>>

Return(p) ==
    /\ pc[p] = "released"
    /\ pc' = [pc EXCEPT ![p] = "idle"]
    /\ call' = [call EXCEPT ![p] = NoCall]
    /\ UNCHANGED <<map, readers, writer, ncalls, spec>>

Next == \E p \in Procs :
          \/ \E k \in Keys, v \in Vals : Invoke(p, "add", k, v) \/ Invoke(p, "register", k, v)
          \/ \E k \in Keys : Invoke(p, "lookup", k, 0)
          \/ Acquire(p) \/ Access(p) \/ Release(p) \/ Return(p)

Spec == Init /\ [][Next]_vars /\ \A p \in Procs : WF_vars(Acquire(p) \/ Access(p) \/ Release(p) \/ Return(p))

-----------------------------------------------------------------------------
\* a write step is never concurrent with another access
MutualExclusion ==
    /\ writer # 0 => readers = {}
    /\ \A p, q \in Procs : (pc[p] \in {"locked", "accessed"} /\ IsWrite(call[p].op) /\ pc[q] \in {"locked", "accessed"}) => p = q

\* the implementation's map is the sequential map whenever nobody is writing
MapIsSpec == writer = 0 => map = spec

\* what a lookup returns is what the sequential map held at its linearization point
LookupSeesSpec ==
    \A p \in Procs : (pc[p] \in {"accessed", "released"} /\ call[p].op = "lookup") =>
        \* an add cannot slip in between the access and the release of a reader
        (pc[p] = "accessed" => call[p].res = spec[call[p].key])

\* a registration is accepted only for a key that was free, and then holds the key
RegisterTestAndSet ==
    \A p \in Procs : (pc[p] = "accessed" /\ call[p].op = "register" /\ call[p].res = 1) => spec[call[p].key] = call[p].val

\* every started call returns (no deadlock among readers and writers)
CallsReturn == \A p \in Procs : pc[p] # "idle" ~> pc[p] = "idle"
=============================================================================
