------------------------------ MODULE ClientApi ------------------------------
(***************************************************************************)
(* Extension specification (beyond the listed properties): the four calls  *)
(* of the Sidetree client (pkg/vdr/sidetreelongform/sidetree.Client:       *)
(* CreateDID / UpdateDID / RecoverDID / DeactivateDID) from the options a  *)
(* caller passes to the request that leaves the client, as four steps:     *)
(*                                                                         *)
(*   Validate : the options the call cannot do without;                    *)
(*   Build    : the DID's last colon-separated part is the suffix, the     *)
(*              operation commitment names the hash algorithm of the       *)
(*              reveal value, the next keys give the next commitments      *)
(*              (with the algorithm option), an update's patches are one   *)
(*              per option GROUP in a fixed order - removals first:        *)
(*              remove-also-known-as, remove-public-keys, remove-services, *)
(*              add-also-known-as, add-services, add-public-keys -         *)
(*              whatever order the caller gave the options in;             *)
(*   Send     : the request is handed to the send function once;           *)
(*   Answer   : a create answers with the resolution (or bare document)    *)
(*              the node returned; the others with nothing.                *)
(*                                                                         *)
(* Delivery itself (endpoints, retries, tokens) is ClientSend.tla.         *)
(* One behaviour modelled as it is: the suffix of a long-form DID          *)
(* (did:m:suffix:state) is taken to be its LAST part - the initial state.  *)
(***************************************************************************)
EXTENDS Integers, Sequences, FiniteSets, TLC

VARIABLES call, phase, req, sends, res
vars == <<call, phase, req, sends, res>>

Apis == {"create", "update", "recover", "deactivate"}

Required(api) == CASE api = "create"     -> {"recovery_key", "update_key"}
                   [] api = "update"     -> {"signer", "next_update_key", "commitment"}
                   [] api = "recover"    -> {"next_recovery_key", "next_update_key", "signer", "commitment"}
                   [] api = "deactivate" -> {"signer", "commitment"}

\* the DID the call is made for
Dids == {"short", "no_colon", "trailing_colon", "long"}
Suffix(d) == CASE d = "short" -> "sfx" [] d = "trailing_colon" -> "" [] d = "long" -> "state" [] OTHER -> "none"
\* the operation commitment: a multihash of one of two algorithms, or text that is no multihash
Commits == {"sha256", "sha512", "garbage"}
\* option groups of an update, in the order in which their patches leave the client
GroupOrder == <<"remove-also-known-as", "remove-public-keys", "remove-services", "add-also-known-as", "add-services", "add-public-keys">>
Groups == {GroupOrder[i] : i \in 1..Len(GroupOrder)}
Algs == {"default", "sha512"}
\* what the node answers
Responses == {"resolution", "document", "garbage", "failure"}

PatchesOf(groups) == SelectSeq(GroupOrder, LAMBDA g : g \in groups)

\* a call: which of the required options are there, and everything else the request depends on
Calls ==
    {[api |-> "create", has |-> h, did |-> "short", commit |-> "sha256", groups |-> {}, alg |-> a, reuse |-> r, origin |-> o, resp |-> p] :
        h \in SUBSET Required("create"), a \in Algs, r \in BOOLEAN, o \in BOOLEAN, p \in Responses}
    \cup {[api |-> "update", has |-> h, did |-> d, commit |-> c, groups |-> g, alg |-> a, reuse |-> r, origin |-> FALSE, resp |-> p] :
        h \in SUBSET Required("update"), d \in Dids, c \in Commits, g \in {{}, {"add-public-keys"}, {"add-services", "remove-public-keys"}},
        a \in Algs, r \in BOOLEAN, p \in {"document", "failure"}}
    \* (every combination of groups for the otherwise plain update)
    \cup {[api |-> "update", has |-> Required("update"), did |-> "short", commit |-> "sha256", groups |-> g, alg |-> "default", reuse |-> FALSE,
           origin |-> FALSE, resp |-> "document"] : g \in SUBSET Groups}
    \cup {[api |-> "recover", has |-> h, did |-> d, commit |-> c, groups |-> {}, alg |-> a, reuse |-> r, origin |-> o, resp |-> p] :
        h \in SUBSET Required("recover"), d \in Dids, c \in Commits, a \in Algs, r \in BOOLEAN, o \in BOOLEAN, p \in {"document", "failure"}}
    \cup {[api |-> "deactivate", has |-> h, did |-> d, commit |-> c, groups |-> {}, alg |-> "default", reuse |-> FALSE, origin |-> FALSE, resp |-> p] :
        h \in SUBSET Required("deactivate"), d \in Dids, c \in Commits, p \in {"document", "failure"}}

NoCall == [api |-> "none", has |-> {}, did |-> "short", commit |-> "sha256", groups |-> {}, alg |-> "default", reuse |-> FALSE, origin |-> FALSE,
           resp |-> "document"]
NoReq == [type |-> "none", suffix |-> "", patches |-> <<>>, revealAlg |-> "none", nextAlg |-> "none", origin |-> FALSE]

Init == call = NoCall /\ phase = "idle" /\ req = NoReq /\ sends = 0 /\ res = "none"

Start(c) == /\ phase = "idle"
            /\ call' = c /\ phase' = "validate" /\ UNCHANGED <<req, sends, res>>

Fail == phase' = "done" /\ res' = "err" /\ UNCHANGED <<call, req, sends>>

Validate == /\ phase = "validate"
            /\ IF Required(call.api) \subseteq call.has THEN phase' = "build" /\ UNCHANGED <<call, req, sends, res>> ELSE Fail

NextAlg(c) == IF c.alg = "default" THEN "sha256" ELSE c.alg

\* what keeps a request from being built although every required option is there
BuildRefused(c) ==
    \/ c.api # "create" /\ c.did = "no_colon"                  \* no suffix to be found
    \/ c.api # "create" /\ Suffix(c.did) = ""                  \* an empty suffix
    \/ c.api # "create" /\ c.commit = "garbage"                \* the commitment names no hash algorithm
    \/ c.api = "update" /\ c.groups = {}                       \* an update has to change something
    \/ c.api = "create" /\ c.reuse                             \* update key = recovery key
    \/ c.api \in {"update", "recover"} /\ c.reuse              \* the next key is the signing key again

Build == /\ phase = "build"
         /\ IF BuildRefused(call) THEN Fail
            ELSE /\ req' = [type |-> call.api,
                            suffix |-> IF call.api = "create" THEN "" ELSE Suffix(call.did),
                            patches |-> IF call.api = "update" THEN PatchesOf(call.groups) ELSE <<>>,
                            revealAlg |-> IF call.api = "create" THEN "none" ELSE call.commit,
                            nextAlg |-> IF call.api = "deactivate" THEN "none" ELSE NextAlg(call),
                            origin |-> call.origin]
                 /\ phase' = "send" /\ UNCHANGED <<call, sends, res>>

Send == /\ phase = "send"
        /\ sends' = sends + 1
        /\ phase' = "answer" /\ UNCHANGED <<call, req, res>>

Answer == /\ phase = "answer"
          /\ res' = CASE call.resp = "failure" -> "err"
                      [] call.api = "create" /\ call.resp = "garbage" -> "err"
                      [] OTHER -> "ok"
          /\ phase' = "done" /\ UNCHANGED <<call, req, sends>>

Next == (\E c \in Calls : Start(c)) \/ Validate \/ Build \/ Send \/ Answer

-----------------------------------------------------------------------------
Done == phase = "done"

\* nothing leaves the client unless every required option was there, and then at most once
SendOnlyValidated == sends <= 1 /\ (sends = 1 => Required(call.api) \subseteq call.has /\ ~BuildRefused(call))
\* success means the request was handed over (once) and the node's answer was usable
OkMeansSent == (Done /\ res = "ok") => sends = 1 /\ call.resp # "failure"
\* removals leave before additions, whatever the order of the options
RemovalsFirst ==
    \A i, j \in 1..Len(req.patches) :
        (i < j) => ~(req.patches[i] \in {"add-also-known-as", "add-services", "add-public-keys"}
                     /\ req.patches[j] \in {"remove-also-known-as", "remove-public-keys", "remove-services"})
\* one patch per group that has options, none for the others
OnePatchPerGroup == (req.type = "update") => /\ {req.patches[i] : i \in 1..Len(req.patches)} = call.groups
                                             /\ Len(req.patches) = Cardinality(call.groups)
\* the reveal value is computed with the algorithm of the commitment it opens, not with the algorithm option
RevealFollowsCommitment == (req.type \in {"update", "recover", "deactivate"}) => req.revealAlg = call.commit
\* a request for a DID always names a non-empty suffix
SuffixNamed == (req.type \in {"update", "recover", "deactivate"}) => req.suffix # ""
=============================================================================
