-------------------------------- MODULE Jcs --------------------------------
(***************************************************************************)
(* C05: RFC 8785 (JCS) canonicalization.                                   *)
(*                                                                         *)
(* A JSON value is a uniformly tagged record; strings and member names are *)
(* sequences of Unicode scalar values (code points); an object keeps its   *)
(* members in the order they were SPELLED.  Canon(v) is the canonical      *)
(* form as a sequence of code points: members ordered by UTF-16 code       *)
(* units, no white space, minimal escaping, ECMAScript number layout.      *)
(* Numbers are given by their shortest round-trip decimal digits d1..dk    *)
(* and exponent n (value = 0.d1..dk x 10^n); the digit generation itself   *)
(* is not specified here, the LAYOUT is (ECMA-262 Number::toString).       *)
(***************************************************************************)
EXTENDS Integers, Sequences, FiniteSets, SequencesExt, TLC

-----------------------------------------------------------------------------
(* values *)
Str(s)        == [t |-> "str", s |-> s, d |-> <<>>, n |-> 0, neg |-> FALSE, l |-> "", a |-> <<>>, o |-> <<>>]
Num(d, n, ng) == [t |-> "num", s |-> <<>>, d |-> d, n |-> n, neg |-> ng, l |-> "", a |-> <<>>, o |-> <<>>]
Lit(l)        == [t |-> "lit", s |-> <<>>, d |-> <<>>, n |-> 0, neg |-> FALSE, l |-> l, a |-> <<>>, o |-> <<>>]
Arr(a)        == [t |-> "arr", s |-> <<>>, d |-> <<>>, n |-> 0, neg |-> FALSE, l |-> "", a |-> a, o |-> <<>>]
Obj(o)        == [t |-> "obj", s |-> <<>>, d |-> <<>>, n |-> 0, neg |-> FALSE, l |-> "", a |-> <<>>, o |-> o]
Member(k, v)  == [k |-> k, v |-> v]

-----------------------------------------------------------------------------
(* UTF-16 *)
Units(cp) == IF cp < 65536 THEN <<cp>>
             ELSE <<55296 + ((cp - 65536) \div 1024), 56320 + ((cp - 65536) % 1024)>>

RECURSIVE UnitsOf(_)
UnitsOf(s) == IF s = <<>> THEN <<>> ELSE Units(Head(s)) \o UnitsOf(Tail(s))

\* lexicographic order on sequences of integers
RECURSIVE SeqLess(_, _)
SeqLess(x, y) ==
    IF y = <<>> THEN FALSE
    ELSE IF x = <<>> THEN TRUE
    ELSE IF Head(x) # Head(y) THEN Head(x) < Head(y)
    ELSE SeqLess(Tail(x), Tail(y))

NameLess(k1, k2) == SeqLess(UnitsOf(k1), UnitsOf(k2))

-----------------------------------------------------------------------------
(* strings *)
Hex(i) == IF i < 10 THEN 48 + i ELSE 87 + i          \* lower-case hexadecimal digit

Esc(cp) ==
    CASE cp = 34 -> <<92, 34>>
      [] cp = 92 -> <<92, 92>>
      [] cp = 8  -> <<92, 98>>
      [] cp = 12 -> <<92, 102>>
      [] cp = 10 -> <<92, 110>>
      [] cp = 13 -> <<92, 114>>
      [] cp = 9  -> <<92, 116>>
      [] cp < 32 /\ cp \notin {8, 9, 10, 12, 13} -> <<92, 117, 48, 48, Hex(cp \div 16), Hex(cp % 16)>>
      [] OTHER -> <<cp>>

RECURSIVE EscAll(_)
EscAll(s) == IF s = <<>> THEN <<>> ELSE Esc(Head(s)) \o EscAll(Tail(s))

CanonStr(s) == <<34>> \o EscAll(s) \o <<34>>

-----------------------------------------------------------------------------
(* numbers: ECMA-262 Number::toString applied to digits d (1..k) and exponent n *)
Digits(d) == [i \in 1..Len(d) |-> 48 + d[i]]
Zeros(m)  == [i \in 1..m |-> 48]

RECURSIVE DecimalOf(_)
DecimalOf(m) == IF m < 10 THEN <<48 + m>> ELSE DecimalOf(m \div 10) \o <<48 + (m % 10)>>

Layout(d, n) ==
    LET k == Len(d) IN
    IF k <= n /\ n <= 21 THEN Digits(d) \o Zeros(n - k)
    ELSE IF 0 < n /\ n <= 21 THEN Digits(SubSeq(d, 1, n)) \o <<46>> \o Digits(SubSeq(d, n + 1, k))
    ELSE IF -6 < n /\ n <= 0 THEN <<48, 46>> \o Zeros(0 - n) \o Digits(d)
    ELSE LET e == n - 1
             mant == IF k = 1 THEN Digits(d) ELSE <<48 + d[1], 46>> \o Digits(SubSeq(d, 2, k))
         IN mant \o <<101>> \o (IF e < 0 THEN <<45>> \o DecimalOf(0 - e) ELSE <<43>> \o DecimalOf(e))

IsZero(x) == x.d = <<0>>
CanonNum(x) == IF IsZero(x) THEN <<48>>                       \* both zeros are "0"
               ELSE (IF x.neg THEN <<45>> ELSE <<>>) \o Layout(x.d, x.n)

-----------------------------------------------------------------------------
CodePoints(str) ==
    CASE str = "true" -> <<116, 114, 117, 101>>
      [] str = "false" -> <<102, 97, 108, 115, 101>>
      [] str = "null" -> <<110, 117, 108, 108>>

RECURSIVE Canon(_), CanonElems(_), CanonMembers(_)

\* elements / members separated by commas
CanonElems(a) ==
    IF a = <<>> THEN <<>>
    ELSE IF Len(a) = 1 THEN Canon(a[1])
    ELSE Canon(a[1]) \o <<44>> \o CanonElems(Tail(a))

CanonMembers(o) ==
    IF o = <<>> THEN <<>>
    ELSE LET m == CanonStr(o[1].k) \o <<58>> \o Canon(o[1].v) IN
         IF Len(o) = 1 THEN m ELSE m \o <<44>> \o CanonMembers(Tail(o))

Canon(v) ==
    CASE v.t = "str" -> CanonStr(v.s)
      [] v.t = "num" -> CanonNum(v)
      [] v.t = "lit" -> CodePoints(v.l)
      [] v.t = "arr" -> <<91>> \o CanonElems(v.a) \o <<93>>
      [] v.t = "obj" -> <<123>> \o CanonMembers(SortSeq(v.o, LAMBDA m1, m2 : NameLess(m1.k, m2.k))) \o <<125>>

\* member names of an object are distinct (I-JSON)
RECURSIVE WellFormed(_)
WellFormed(v) ==
    CASE v.t = "obj" -> /\ \A i, j \in 1..Len(v.o) : v.o[i].k = v.o[j].k => i = j
                        /\ \A i \in 1..Len(v.o) : WellFormed(v.o[i].v)
      [] v.t = "arr" -> \A i \in 1..Len(v.a) : WellFormed(v.a[i])
      [] OTHER -> TRUE

\* the JSON value denoted, spelling forgotten: members as a set
RECURSIVE Denotes(_)
Denotes(v) ==
    CASE v.t = "obj" -> [t |-> "obj", m |-> {[k |-> v.o[i].k, v |-> Denotes(v.o[i].v)] : i \in 1..Len(v.o)}]
      [] v.t = "arr" -> [t |-> "arr", m |-> [i \in 1..Len(v.a) |-> Denotes(v.a[i])]]
      [] v.t = "num" -> [t |-> "num", m |-> IF IsZero(v) THEN <<0>> ELSE <<v.d, v.n, v.neg>>]
      [] v.t = "str" -> [t |-> "str", m |-> v.s]
      [] OTHER -> [t |-> "lit", m |-> v.l]

=============================================================================
