--------------------------- MODULE MC_PatchRules ---------------------------
EXTENDS PatchRules, Json
DumpCase == PrintT(<<"CASE", ToJson([c |-> c, muts |-> muts, valid |-> Valid(c)])>>)
View == c
=============================================================================
