\* C11: quick = single operations + pairs with a fixed harmless operation; thorough: Pairing = "all"
CONSTANTS
  MaxOps = 2
  CheckFrom = TRUE
  Pairing = "benign"
INIT Init
NEXT Next
CONSTRAINT DumpCase
INVARIANTS GuardSuffices
CHECK_DEADLOCK FALSE
