\* Exhaustive exploration of the composer model (constants overridden per tier by the driver).
CONSTANTS
  KIds = {1, 2}
  KVers = {1, 2}
  SIds = {1}
  SVers = {1, 2}
  URIs = {1, 2}
  ONames = {1, 2}
  MaxAdd = 2
  MaxLen = 2
  ListLens = {1}
  WithJP = TRUE
  WithBroken = FALSE
INIT Init
NEXT Next
VIEW View
ACTION_CONSTRAINT DumpEdge
INVARIANTS UniqueIds ReplaceForgets RoundTrip
CHECK_DEADLOCK FALSE
