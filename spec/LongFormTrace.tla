--------------------------- MODULE LongFormTrace ---------------------------
(***************************************************************************)
(* Trace validation of long-form resolution (C17): random probes with ANY  *)
(* number of deviations (namespace relation x state spelling x suffix      *)
(* relation x form; TLC enumerates the probes with at most two) are        *)
(* resolved by the real handler and the real VDR; TLC checks every         *)
(* recorded outcome against LongForm.tla.                                  *)
(***************************************************************************)
EXTENDS LongForm, Json, TLCExt

CONSTANT TraceFile
TraceLog == ndJsonDeserialize(TraceFile)

VARIABLE l
tvars == <<vars, l>>

TraceInit == TLCSet(1, 0) /\ l = 1 /\ Init

IsEvent(e) == l <= Len(TraceLog) /\ TraceLog[l].event = e /\ l' = l + 1

TraceResolve ==
    /\ IsEvent("Resolve")
    /\ LET e == TraceLog[l]
           p == Probe(e.probe.doc, e.probe.ns, e.probe.enc, e.probe.sfx, e.probe.form)
       IN /\ p.ns \in NsRels /\ p.enc \in Encodings /\ p.sfx \in SuffixRels /\ p.form \in Forms
          /\ Decided(p) => (e.resolved = Resolves(p) /\ e.read = Resolves(p))
          /\ e.id_ok                               \* a document that comes back carries the DID asked for
    /\ UNCHANGED vars

TraceNext == TraceResolve
TraceSpec == TraceInit /\ [][TraceNext]_tvars

HighWater == TLCSet(1, IF l > TLCGet(1) THEN l ELSE TLCGet(1))
TraceAccepted ==
    IF TLCGet(1) = Len(TraceLog) + 1 THEN TRUE
    ELSE PrintT(<<"TRACE-REJECTED-AT-LINE", TLCGet(1)>>) /\ FALSE
=============================================================================
