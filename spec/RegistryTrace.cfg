CONSTANTS
  TraceFile = "registry_trace.ndjson"
SPECIFICATION TraceSpec
CONSTRAINT HighWater
POSTCONDITION TraceAccepted
CHECK_DEADLOCK FALSE
