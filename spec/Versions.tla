------------------------------ MODULE Versions ------------------------------
(***************************************************************************)
(* The protocol-version machinery of the long-form handler, sequentially:  *)
(*   - version strings and their comparison (common.Version.Matches /      *)
(*     Validate): dot separated parts, major and minor compared, a missing *)
(*     minor part counts as "0";                                           *)
(*   - the client-version registry (clientregistry.Registry): Register     *)
(*     adds a factory under a version string and refuses a second factory  *)
(*     under the same string, CreateClientVersion hands the request to a   *)
(*     factory whose version MATCHES the requested one;                    *)
(*   - the client version provider (verprovider.New / Current / Get): the  *)
(*     versions ordered by genesis time (stable), Current = the last one   *)
(*     unless an existing version is named, Get(t) = the last version      *)
(*     whose genesis time is t;                                            *)
(*   - the namespace provider (nsprovider): a map from namespace to        *)
(*     provider, Add overwrites, ForNamespace of an unknown namespace is   *)
(*     an error.                                                           *)
(* This is the sequential object that the concurrent calls of C20 must be  *)
(* equivalent to, and what the document handler of C17 resolves its        *)
(* protocol through.                                                       *)
(***************************************************************************)
EXTENDS Integers, Sequences, FiniteSets, TLC

CONSTANTS Parts,      \* the parts version strings are made of (strings; "" allowed)
          MaxParts,   \* version strings have 1..MaxParts parts
          MaxReg,     \* at most MaxReg factories registered beside the built-in one
          Labels,     \* version labels of provider entries
          Gens,       \* genesis times
          MaxVers,    \* providers hold <= MaxVers versions
          Namespaces, \* namespaces
          MaxProv     \* number of providers built in one behaviour

VARIABLES reg,        \* the registry: set of version strings with a factory
          provs,      \* sequence of providers built so far
          ns,         \* the namespace map: namespace -> index into provs (0: absent)
          res         \* outcome of the last call

vars == <<reg, provs, ns, res>>

-----------------------------------------------------------------------------
(* Version strings: sequences of parts.                                    *)
VerStrings == UNION {[1..n -> Parts] : n \in 1..MaxParts}

Major(v) == v[1]
Minor(v) == IF Len(v) > 1 THEN v[2] ELSE "0"
Matches(v, o) == Major(v) = Major(o) /\ Minor(v) = Minor(o)
Valid(v) == v[1] # "" /\ Len(v) <= 2

BuiltIn == <<"1", "0">>     \* clientregistry.New registers protocol 1.0

-----------------------------------------------------------------------------
(* Providers.                                                              *)
Entries == [label : Labels, gen : Gens]
EntryLists == UNION {[1..n -> Entries] : n \in 0..MaxVers}

\* stable ascending order by genesis time: position i of the result holds input index Ord[i]
Before(es, i, j) == es[i].gen < es[j].gen \/ (es[i].gen = es[j].gen /\ i < j)
Rank(es, i) == Cardinality({j \in 1..Len(es) : Before(es, j, i)}) + 1
Sorted(es) == [r \in 1..Len(es) |-> es[CHOOSE i \in 1..Len(es) : Rank(es, i) = r]]

FirstWith(s, lab) == LET I == {i \in 1..Len(s) : s[i].label = lab} IN
                     IF I = {} THEN 0 ELSE CHOOSE i \in I : \A j \in I : i <= j
LastAt(s, t) == LET I == {i \in 1..Len(s) : s[i].gen = t} IN
                IF I = {} THEN 0 ELSE CHOOSE i \in I : \A j \in I : i >= j

NoOpt == "none"
MkProvider(es, opt) ==
    LET s == Sorted(es)
        c == IF opt = NoOpt \/ FirstWith(s, opt) = 0 THEN Len(s) ELSE FirstWith(s, opt)
    IN  [vers |-> s, cur |-> c]

Ok(v)  == [ok |-> TRUE, v |-> v]
Err    == [ok |-> FALSE, v |-> <<>>]
NoRes  == [call |-> "none", arg |-> <<>>, out |-> Err]

-----------------------------------------------------------------------------
Init == /\ reg = {BuiltIn} /\ provs = <<>> /\ ns = [n \in Namespaces |-> 0] /\ res = NoRes

\* Register: a second factory under the same string is refused (the code panics: a programming error)
Register(v) ==
    /\ IF v \in reg
       THEN /\ res' = [call |-> "register", arg |-> v, out |-> Err] /\ UNCHANGED reg
       ELSE /\ Cardinality(reg) <= MaxReg
            /\ reg' = reg \cup {v} /\ res' = [call |-> "register", arg |-> v, out |-> Ok(<<>>)]
    /\ UNCHANGED <<provs, ns>>

\* CreateClientVersion(q): any registered factory whose version matches q
Candidates(q) == {r \in reg : Matches(r, q)}
Create(q) ==
    /\ res' = [call |-> "create", arg |-> q, out |-> IF Candidates(q) = {} THEN Err ELSE Ok(<<q>>)]
    /\ UNCHANGED <<reg, provs, ns>>

NewProvider(es, opt) ==
    /\ Len(provs) < MaxProv
    /\ IF Len(es) = 0
       THEN /\ res' = [call |-> "new", arg |-> [es |-> es, opt |-> opt], out |-> Err] /\ UNCHANGED provs
       ELSE /\ provs' = Append(provs, MkProvider(es, opt))
            /\ res' = [call |-> "new", arg |-> [es |-> es, opt |-> opt], out |-> Ok(<<>>)]
    /\ UNCHANGED <<reg, ns>>

Current(p) ==
    /\ p \in 1..Len(provs)
    /\ res' = [call |-> "current", arg |-> [p |-> p, t |-> 0, n |-> ""], out |-> Ok(<<provs[p].vers[provs[p].cur]>>)]
    /\ UNCHANGED <<reg, provs, ns>>

Get(p, t) ==
    /\ p \in 1..Len(provs)
    /\ LET i == LastAt(provs[p].vers, t) IN
         res' = [call |-> "get", arg |-> [p |-> p, t |-> t, n |-> ""], out |-> IF i = 0 THEN Err ELSE Ok(<<provs[p].vers[i]>>)]
    /\ UNCHANGED <<reg, provs, ns>>

AddNamespace(n, p) ==
    /\ p \in 1..Len(provs)
    /\ ns' = [ns EXCEPT ![n] = p]
    /\ res' = [call |-> "add", arg |-> [p |-> p, t |-> 0, n |-> n], out |-> Ok(<<>>)]
    /\ UNCHANGED <<reg, provs>>

ForNamespace(n) ==
    /\ res' = [call |-> "for", arg |-> [p |-> 0, t |-> 0, n |-> n], out |-> IF ns[n] = 0 THEN Err ELSE Ok(<<ns[n]>>)]
    /\ UNCHANGED <<reg, provs, ns>>

Next == \/ \E v \in VerStrings : Register(v) \/ Create(v)
        \/ \E es \in EntryLists, opt \in Labels \cup {NoOpt, "missing"} : NewProvider(es, opt)
        \/ \E p \in 1..MaxProv : Current(p) \/ (\E t \in Gens \cup {100} : Get(p, t)) \/ (\E n \in Namespaces : AddNamespace(n, p))
        \/ \E n \in Namespaces : ForNamespace(n)

Spec == Init /\ [][Next]_vars

-----------------------------------------------------------------------------
(* Properties.                                                             *)

\* Matches is an equivalence on version strings; it ignores everything after the minor part
MatchesIsEquivalence ==
    \A a, b, c \in VerStrings :
        /\ Matches(a, a)
        /\ Matches(a, b) => Matches(b, a)
        /\ (Matches(a, b) /\ Matches(b, c)) => Matches(a, c)
        /\ (Len(a) >= 2 /\ Len(b) >= 2 /\ a[1] = b[1] /\ a[2] = b[2]) => Matches(a, b)

\* the documented examples: v1 ~ v1.0.0, v1 ~ v1.0.1, v1.0 ~ v1.0.1, v1 !~ v1.2.0
MinorDefaultsToZero == \A a \in VerStrings : Len(a) = 1 => Matches(a, <<a[1], "0">>)

\* the built-in protocol is always registered, so every 1.0.x request finds a factory
BuiltInStays == BuiltIn \in reg

\* providers are ordered by genesis time and their current version is one of theirs
ProvidersSorted ==
    \A p \in 1..Len(provs) :
        /\ Len(provs[p].vers) > 0
        /\ provs[p].cur \in 1..Len(provs[p].vers)
        /\ \A i, j \in 1..Len(provs[p].vers) : i < j => provs[p].vers[i].gen <= provs[p].vers[j].gen

\* Get(t) answers with a version of genesis time t, and answers whenever there is one
GetIsExact ==
    res.call = "get" =>
        LET p == res.arg.p  t == res.arg.t IN
            /\ res.out.ok <=> (\E i \in 1..Len(provs[p].vers) : provs[p].vers[i].gen = t)
            /\ res.out.ok => res.out.v[1].gen = t

\* namespaces only ever name a provider that exists
NamespacesNameProviders == \A n \in Namespaces : ns[n] \in 0..Len(provs)
=============================================================================
