---------------------------- MODULE MC_Composer ----------------------------
EXTENDS Composer, Json

DumpEdge ==
    LET ps == hist'[Len(hist')].ps
        r == ApplyList(doc, ps)
    IN PrintT(<<"EDGE", ToJson([path |-> hist, patches |-> ps, ok |-> r.ok, why |-> r.why, post |-> doc'])>>)

\* C14: every distinct document with the patch list the specification derives from it
DumpDoc == PrintT(<<"DOC", ToJson([doc |-> doc, patches |-> DocToPatches(doc)])>>)

View == <<doc, len>>
NPatchLists == Cardinality(PatchLists)
=============================================================================
