\* EXT: the four calls of the Sidetree client, from options to the request that leaves it
INIT Init
NEXT Next
ACTION_CONSTRAINT DumpDone
INVARIANTS SendOnlyValidated OkMeansSent RemovalsFirst OnePatchPerGroup RevealFollowsCommitment SuffixNamed
CHECK_DEADLOCK FALSE
