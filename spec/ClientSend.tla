----------------------------- MODULE ClientSend -----------------------------
(***************************************************************************)
(* How the Sidetree client delivers a request it has built                 *)
(* (sidetree.Client.defaultSendRequest / doSendRequest), as a protocol     *)
(* between the client, the caller's endpoint discovery function            *)
(* GetEndpoints(disableCache) and the Sidetree node:                       *)
(*   attempt 1: GetEndpoints(FALSE) - the caller may answer from a cache;  *)
(*   POST the request to the FIRST endpoint; anything but status 200 is a  *)
(*   failure.  On any failure exactly one more attempt is made, with       *)
(*   GetEndpoints(TRUE) (cache disabled).  The token of a token provider   *)
(*   takes precedence over a static token; both travel as "Bearer <t>".    *)
(* Beyond the listed properties (./check EXT).  One deviation the code     *)
(* knowingly has is modelled as it is: an EMPTY endpoint list (without an  *)
(* error) makes the client index out of range (outcome "panic").           *)
(***************************************************************************)
EXTENDS Integers, Sequences, TLC

VARIABLES cfg, phase, calls, posts, res
vars == <<cfg, phase, calls, posts, res>>

\* what discovery yields: the URL of a node answering 200 / of a node answering 500 / of no node at all,
\* an error, or an empty list
EpResults == {"good", "bad_status", "down", "error", "empty"}
AuthModes == {"none", "static", "provider", "both", "provider_error"}

Cfgs == [cached : EpResults, fresh : EpResults, auth : AuthModes]
NoCfg == [cached |-> "good", fresh |-> "good", auth |-> "none"]

\* the Authorization header a node sees
AuthHeader(a) == CASE a = "none" -> "absent" [] a = "static" -> "Bearer static-token" [] OTHER -> "Bearer provided-token"

Init == cfg = NoCfg /\ phase = "idle" /\ calls = <<>> /\ posts = <<>> /\ res = "none"

Start(c) == /\ phase = "idle" /\ res = "none"
            /\ cfg' = c /\ phase' = "attempt1" /\ UNCHANGED <<calls, posts, res>>

\* one attempt: discovery, token, POST
Attempt(disable, ep, nextPhase) ==
    /\ calls' = Append(calls, disable)
    /\ CASE ep = "error" -> phase' = nextPhase /\ UNCHANGED <<posts, res>>
         [] ep = "empty" -> phase' = "done" /\ res' = "panic" /\ UNCHANGED posts      \* (deviation: no length check)
         [] cfg.auth = "provider_error" -> phase' = nextPhase /\ UNCHANGED <<posts, res>>
         [] ep = "down" -> phase' = nextPhase /\ UNCHANGED <<posts, res>>
         [] ep = "bad_status" -> /\ posts' = Append(posts, [node |-> "bad_status", auth |-> AuthHeader(cfg.auth)])
                                 /\ phase' = nextPhase /\ UNCHANGED res
         [] ep = "good" -> /\ posts' = Append(posts, [node |-> "good", auth |-> AuthHeader(cfg.auth)])
                           /\ phase' = "done" /\ res' = "ok"
    /\ UNCHANGED cfg

First  == phase = "attempt1" /\ Attempt(FALSE, cfg.cached, "attempt2")
Second == phase = "attempt2" /\ Attempt(TRUE, cfg.fresh, "failed")
GiveUp == phase = "failed" /\ phase' = "done" /\ res' = "err" /\ UNCHANGED <<cfg, calls, posts>>

Next == (\E c \in Cfgs : Start(c)) \/ First \/ Second \/ GiveUp

-----------------------------------------------------------------------------
\* at most two attempts; the second one (and only it) disables the cache
AttemptsShape == calls \in {<<>>, <<FALSE>>, <<FALSE, TRUE>>}
\* a working fresh endpoint rescues a stale cache, whatever was wrong with the cached one (short of the panic)
FreshRescues == (phase = "done" /\ cfg.cached \notin {"good", "empty"} /\ cfg.fresh = "good" /\ cfg.auth # "provider_error") => res = "ok"
\* success means the good node got the request, exactly once, and last
OkMeansDelivered == res = "ok" => (Len(posts) >= 1 /\ posts[Len(posts)].node = "good"
                                   /\ \A i \in 1..(Len(posts) - 1) : posts[i].node # "good")
\* nothing is sent when the token provider fails
NoTokenNoPost == cfg.auth = "provider_error" => posts = <<>>
=============================================================================
