--------------------------- MODULE TransformTrace ---------------------------
(***************************************************************************)
(* Trace validation of the operation lists in resolution metadata (C18):   *)
(* random lists of up to 12 anchored operations with arbitrary (time,      *)
(* number) pairs and repeated canonical references - longer and wider      *)
(* than the lists TLC enumerates - are transformed by the real document    *)
(* transformer; TLC checks every reported list against Transform.tla       *)
(* (anchoring order by time, then number; published operations             *)
(* de-duplicated by canonical reference, the first in that order kept).    *)
(***************************************************************************)
EXTENDS Transform, Json, TLCExt

CONSTANT TraceFile
TraceLog == ndJsonDeserialize(TraceFile)

VARIABLE l
tvars == <<cs, l>>

TraceInit == TLCSet(1, 0) /\ l = 1 /\ cs = [kind |-> "trace"]

IsEvent(e) == l <= Len(TraceLog) /\ TraceLog[l].event = e /\ l' = l + 1

InOrder(s) == \A i \in 1..(Len(s) - 1) : ~Before(s[i + 1], s[i])

TraceOps ==
    /\ IsEvent("ops")
    /\ LET e == TraceLog[l]
           sorted == SortOps(e.ops)
           out == IF e.published THEN Dedup(sorted, {}) ELSE sorted
       IN /\ Len(e.reported) = Len(out)
          /\ InOrder(e.reported)
          \* (two operations of one reference in one slot: which of them is kept is not determined; the slots are)
          /\ e.reported = Slots(out)
    /\ UNCHANGED cs

TraceNext == TraceOps
TraceSpec == TraceInit /\ [][TraceNext]_tvars

HighWater == TLCSet(1, IF l > TLCGet(1) THEN l ELSE TLCGet(1))
TraceAccepted ==
    IF TLCGet(1) = Len(TraceLog) + 1 THEN TRUE
    ELSE PrintT(<<"TRACE-REJECTED-AT-LINE", TLCGet(1)>>) /\ FALSE
=============================================================================
