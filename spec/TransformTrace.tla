--------------------------- MODULE TransformTrace ---------------------------
(***************************************************************************)
(* Trace validation of the operation lists in resolution metadata (C18):   *)
(* random lists of up to 12 anchored operations with arbitrary (time,      *)
(* number) pairs and repeated canonical references - longer and wider      *)
(* than the lists TLC enumerates - are transformed by the real document    *)
(* transformer; TLC checks every reported list against Transform.tla       *)
(* (anchoring order by time, then number; published operations             *)
(* de-duplicated by canonical reference, the first in that order kept).    *)
(* Random lists of up to 5 validated keys are transformed as well, and the *)
(* verification methods, relationship sets and contexts checked.           *)
(***************************************************************************)
EXTENDS Transform, Json, TLCExt

CONSTANT TraceFile
TraceLog == ndJsonDeserialize(TraceFile)

VARIABLE l
tvars == <<cs, l>>

TraceInit == TLCSet(1, 0) /\ l = 1 /\ cs = [kind |-> "trace"]

IsEvent(e) == l <= Len(TraceLog) /\ TraceLog[l].event = e /\ l' = l + 1

InOrder(s) == \A i \in 1..(Len(s) - 1) : ~Before(s[i + 1], s[i])

TraceOps ==
    /\ IsEvent("ops")
    /\ LET e == TraceLog[l]
           sorted == SortOps(e.ops)
           out == IF e.published THEN Dedup(sorted, {}) ELSE sorted
       IN /\ e.bad = ""
          /\ Len(e.reported) = Len(out)
          /\ InOrder(e.reported)
          \* (two operations of one reference in one slot: which of them is kept is not determined; the slots are)
          /\ e.reported = Slots(out)
    /\ UNCHANGED cs

\* a list of validated keys (up to 5, any types / purposes / material) through the real transformer: the verification
\* methods in document order with their type and the class of their material, the relationship SETS, the context SET
ToSetOf(s) == {s[i] : i \in 1..Len(s)}
TraceKeys ==
    /\ IsEvent("keys")
    /\ LET e == TraceLog[l]
           keys == [i \in 1..Len(e.keys) |-> Key(e.keys[i].id, e.keys[i].type, ToSetOf(e.keys[i].pp), e.keys[i].mat)]
           vms == VMs(keys, e.base)
       IN /\ \A i \in 1..Len(keys) : ValidKey(keys[i])
          /\ e.bad = ""
          \* every key exactly once (whatever the order: the statement does not fix it), with its type, controller and material
          /\ Len(e.vms) = Len(vms)
          /\ \A i \in 1..Len(vms) :
                \E j \in 1..Len(e.vms) :
                    /\ e.vms[j].id = vms[i].id.id /\ e.vms[j].relative = vms[i].id.relative
                    /\ e.vms[j].type = vms[i].type /\ e.vms[j].controller /\ e.vms[j].material = vms[i].material
          /\ \A i, j \in 1..Len(e.vms) : e.vms[i].id = e.vms[j].id => i = j
          \* referenced from exactly the relationships its purposes name
          /\ \A pi \in 1..Len(Purposes) :
                LET want == Rel(keys, Purposes[pi], e.base)
                    got == e.rels[pi]
                IN /\ Len(got) = Len(want)
                   /\ {got[i] : i \in 1..Len(got)} = {want[i].id : i \in 1..Len(want)}
          \* the DID context, @base if asked for, one context per key type used - each once
          /\ Len(e.contexts) = Len(Contexts(keys, e.base, FALSE))
          /\ ToSetOf(e.contexts) = ToSetOf(Contexts(keys, e.base, FALSE))
    /\ UNCHANGED cs

TraceNext == TraceOps \/ TraceKeys
TraceSpec == TraceInit /\ [][TraceNext]_tvars

HighWater == TLCSet(1, IF l > TLCGet(1) THEN l ELSE TLCGet(1))
TraceAccepted ==
    IF TLCGet(1) = Len(TraceLog) + 1 THEN TRUE
    ELSE PrintT(<<"TRACE-REJECTED-AT-LINE", TLCGet(1)>>) /\ FALSE
=============================================================================
