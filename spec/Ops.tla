-------------------------------- MODULE Ops --------------------------------
(***************************************************************************)
(* The vocabulary shared by the applier and parser specifications: an      *)
(* operation is described by the OUTCOME of each independent check the     *)
(* protocol prescribes (well-formedness, reveal value, signature, delta    *)
(* hash, delta validity, signed suffix, anchoring window) plus the data it *)
(* carries.  This module has no variables: documents and deltas, the       *)
(* anchoring window, and the operation alphabet (per type the default      *)
(* operation and every deviation from it in at most MaxDev fields).        *)
(***************************************************************************)
EXTENDS Integers, Sequences, FiniteSets, TLC

CONSTANTS
    KeyIds,     \* ids of document keys that deltas add / remove
    Mems,       \* ids of "other" document members (ietf-json-patch targets)
    MaxLen,     \* histories of length <= MaxLen
    MaxDev,     \* every operation deviates from its type's default in <= MaxDev fields
    TD,         \* protocol.MaxOperationTimeDelta (abstract ticks)
    KTs,        \* signing key types to enumerate as deviations
    DefKT,      \* default signing key type
    Cube        \* TRUE: add the full (from, until) cube for every type (C09)


-----------------------------------------------------------------------------
(* Documents: an ordered list of key ids and a set of other members.       *)

EmptyDoc == [keys |-> <<>>, mem |-> {}]

Has(s, i) == \E j \in 1..Len(s) : s[j] = i
Without(s, i) == SelectSeq(s, LAMBDA x : x # i)

\* The effect of a delta's patch list on a document: ok = the patch list applies.
\* A failing list yields no partial document (ok = FALSE, document untouched).
ApplyDelta(doc, d) ==
    CASE d.k = "addkey"  -> [ok |-> TRUE,
                             doc |-> [doc EXCEPT !.keys = IF Has(@, d.i) THEN @ ELSE Append(@, d.i)]]
      [] d.k = "remkey"  -> [ok |-> TRUE, doc |-> [doc EXCEPT !.keys = Without(@, d.i)]]
      [] d.k = "replace" -> [ok |-> TRUE, doc |-> [keys |-> <<d.i>>, mem |-> {}]]
      [] d.k = "addmem"  -> [ok |-> TRUE, doc |-> [doc EXCEPT !.mem = @ \cup {d.i}]]
      [] d.k = "remmem"  -> IF d.i \in doc.mem
                            THEN [ok |-> TRUE, doc |-> [doc EXCEPT !.mem = @ \ {d.i}]]
                            ELSE [ok |-> FALSE, doc |-> doc]
      \* two patches: add key i, then remove member 1 (fails at the 2nd patch when absent)
      [] d.k = "addkey_remmem" ->
                            IF 1 \in doc.mem
                            THEN [ok |-> TRUE,
                                  doc |-> [keys |-> IF Has(doc.keys, d.i) THEN doc.keys ELSE Append(doc.keys, d.i),
                                           mem |-> doc.mem \ {1}]]
                            ELSE [ok |-> FALSE, doc |-> doc]
      \* two patches: remove member 1, then a replace patch.  The list applies only if EVERY patch applies: that the
      \* replace patch would discard whatever the first patch did does not make the first patch optional
      [] d.k = "remmem_replace" ->
                            IF 1 \in doc.mem
                            THEN [ok |-> TRUE, doc |-> [keys |-> <<d.i>>, mem |-> {}]]
                            ELSE [ok |-> FALSE, doc |-> doc]

      \* two patches: a json patch of two moves - member 1 to a member whose NAME holds the characters ~1 (and a /), and
      \* back - and then add key i.  The moves cancel; the list applies iff member 1 is there, and then the key is added
      [] d.k = "renmem_addkey" ->
                            IF 1 \in doc.mem
                            THEN [ok |-> TRUE, doc |-> [doc EXCEPT !.keys = IF Has(@, d.i) THEN @ ELSE Append(@, d.i)]]
                            ELSE [ok |-> FALSE, doc |-> doc]

DeltaKinds == {"addkey", "remkey", "replace", "addmem", "remmem", "addkey_remmem", "remmem_replace", "renmem_addkey"}

-----------------------------------------------------------------------------
(* Anchoring window (C09).                                                 *)

EffUntil(from, until) == IF from # 0 /\ until = 0 THEN from + TD ELSE until

InWindow(from, until, t) ==
    \/ from = 0 /\ until = 0
    \/ from <= t /\ t <= EffUntil(from, until)

-----------------------------------------------------------------------------
(* The operation alphabet: per type a default operation and every          *)
(* deviation from it in at most MaxDev fields.  Position-dependent values  *)
(* ("norm") are resolved when the operation is applied, so that every      *)
(* operation of a history carries values distinguishable from all earlier  *)
(* ones (a field wrongly carried over or wrongly overwritten then shows).  *)

\* (noreveal: the request names no reveal value - the member is absent, empty or null; nothing is derived for it)
WfBadCommon == {"badjson", "nosuffix", "nosigneddata", "noreveal", "reveal_mh", "reveal_long", "badjws",
                "extrahdr", "extrahdr_b64true", "extrahdr_b64false", "extrahdr_crit", "algnone", "algdisallowed", "noalg", "nokey", "badkey", "crv",
                "nonce", "payloadjson", "rsakey"}
WfBad(type) ==
    CASE type = "create"     -> {"badjson", "nosuffixdata", "rc_mh", "dh_mh", "rc_long"}
      [] type = "update"     -> WfBadCommon \cup {"dh_mh"}
      [] type = "recover"    -> WfBadCommon \cup {"dh_mh", "rc_mh", "reuse", "reuse_other_alg"}
      [] type = "deactivate" -> WfBadCommon
      [] OTHER               -> {}

\* ways in which the compact JWS fails to verify under the key embedded in its payload (C02):
\* a flipped signature bit, a signature by another private key, a truncated / padded signature,
\* a signed-payload field or protected header changed without re-signing, mangled segments
SigBad == {"bitflip", "otherkey", "trunc", "pad", "payload_field", "hdr_changed",
           "seg_hdr", "seg_payload", "seg_extra", "seg_missing"}

DvBad == {"nodelta", "nopatches", "disabled", "invalidpatch", "noaction", "upd_mh", "toolarge"}

Deltas == [k : {"addkey", "remkey", "replace"}, i : KeyIds]
            \cup [k : {"addmem", "remmem"}, i : Mems]
            \cup [k : {"addkey_remmem", "remmem_replace", "renmem_addkey"}, i : KeyIds]

DefDelta == [k |-> "addkey", i |-> CHOOSE i \in KeyIds : \A j \in KeyIds : i <= j]

Default(type) ==
    [type |-> type, wf |-> "ok", reveal |-> "ok", sig |-> "ok", dhash |-> TRUE, dv |-> "ok",
     sfx |-> TRUE, delta |-> DefDelta, from |-> 0, until |-> 0,
     m |-> "norm", nuv |-> "norm", aov |-> "norm", kt |-> DefKT, h |-> 256]

HasSig(type)   == type \in {"update", "recover", "deactivate"}
HasDelta(type) == type \in {"create", "update", "recover"}

\* field -> the values by which an operation of this type may deviate from the default
DevVals(type) ==
    [wf     |-> WfBad(type),
     reveal |-> IF HasSig(type) THEN {"other"} ELSE {},
     sig    |-> IF HasSig(type) THEN SigBad ELSE {},
     dhash  |-> IF HasDelta(type) THEN {FALSE} ELSE {},
     dv     |-> IF HasDelta(type) THEN DvBad ELSE {},
     sfx    |-> IF type = "deactivate" THEN {FALSE} ELSE {},
     delta  |-> IF HasDelta(type) THEN Deltas \ {DefDelta} ELSE {},
     \* (the bounds are signed integers: -1 is a bound like any other)
     from   |-> IF HasSig(type) THEN (1..(MaxLen + 1)) \cup {-1} ELSE {},
     until  |-> IF HasSig(type) THEN (1..(MaxLen + 1)) \cup {-1} ELSE {},
     m      |-> {"regress", "zero"},
     nuv    |-> IF HasDelta(type) THEN {"equal"} ELSE {},
     aov    |-> IF type \in {"create", "recover"} THEN {"absent", "obj"} ELSE {},
     kt     |-> IF HasSig(type) THEN KTs \ {DefKT} ELSE {},
     h      |-> {512}]

Dev1(o) == LET dv == DevVals(o.type) IN
           UNION { {[o EXCEPT ![f] = v] : v \in dv[f]} : f \in DOMAIN dv }

RECURSIVE DevN(_, _)
DevN(S, n) == IF n = 0 THEN S ELSE DevN(S \cup UNION {Dev1(o) : o \in S}, n - 1)

OpTypes == {"create", "update", "recover", "deactivate"}

WindowCube ==
    IF Cube
    THEN { [Default(ty) EXCEPT !.from = f, !.until = u, !.m = mm] :
             ty \in {"update", "recover", "deactivate"}, f \in (-1)..(MaxLen + 1), u \in (-1)..(MaxLen + 1),
             mm \in {"norm", "zero"} }
    ELSE {}

Alphabet == DevN({Default(ty) : ty \in OpTypes}, MaxDev)
              \cup {[Default("create") EXCEPT !.type = "bogus"]}
              \cup WindowCube

\* resolve the position-dependent fields of an alphabet operation applied at position p
Resolve(a, p) ==
    LET t  == CASE a.m = "norm" -> p [] a.m = "regress" -> 1 [] a.m = "zero" -> 0
        nr == 2 * p
        nu == IF a.nuv = "norm" THEN 2 * p - 1 ELSE nr
        ao == CASE a.aov = "norm" -> p [] a.aov = "absent" -> 0 [] a.aov = "obj" -> 100 + p
    IN  [type |-> a.type, wf |-> a.wf, reveal |-> a.reveal, sig |-> a.sig, dhash |-> a.dhash,
         dv |-> a.dv, sfx |-> a.sfx, delta |-> a.delta, from |-> a.from, until |-> a.until,
         t |-> t,
         n |-> IF a.m = "zero" THEN 0 ELSE IF a.m = "regress" THEN 1 ELSE 20 + p,
         pv |-> IF a.m = "zero" THEN 0 ELSE 40 + p,
         ref |-> IF a.m = "zero" THEN 0 ELSE p,
         eq |-> IF a.m = "zero" THEN 0 ELSE p,
         nu |-> nu, nr |-> nr, nuv |-> a.nuv, ao |-> ao, kt |-> a.kt, h |-> a.h]

=============================================================================
