CONSTANTS
  MaxArr = 2
  Vals = {1, 2}
  MaxOps = 2
INIT Init
NEXT Next
VIEW View
ACTION_CONSTRAINT DumpCase
INVARIANTS AllOrNothing LengthAccounting MovePreserves
CHECK_DEADLOCK FALSE
