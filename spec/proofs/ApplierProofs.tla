--------------------------- MODULE ApplierProofs ---------------------------
(***************************************************************************)
(* Machine-checked (TLAPS) proofs that the shape invariants of Applier.tla *)
(* are inductive: they hold for histories of ANY length over ANY operation *)
(* alphabet, not only within the bounds TLC explores.                      *)
(***************************************************************************)
EXTENDS Applier, SequenceTheorems, TLAPS

LenOK == len \in Nat

\* rm is a record with exactly the fields of a resolution model (no claim about their values)
IsRM(r) == r = [exists |-> r.exists, doc |-> r.doc, upd |-> r.upd, rec |-> r.rec, deact |-> r.deact, ao |-> r.ao,
                created |-> r.created, updated |-> r.updated, lastT |-> r.lastT, lastN |-> r.lastN,
                lastPV |-> r.lastPV, ver |-> r.ver, canon |-> r.canon, equiv |-> r.equiv,
                pub |-> r.pub, unpub |-> r.unpub]

Inv == LenOK /\ IsRM(rm) /\ DeactivatedShape /\ NilUntilCreate /\ UpdNeedsRec

THEOREM InitInv == Init => Inv
<1> SUFFICES ASSUME Init PROVE Inv OBVIOUS
<1>1. PICK p \in {0, 1}, u \in {0, 1} : rm = NilRM(p, u) BY DEF Init
<1>2. len = 0 BY DEF Init
<1> QED BY <1>1, <1>2 DEF Inv, LenOK, IsRM, DeactivatedShape, NilUntilCreate, UpdNeedsRec, NilRM, EmptyDoc

THEOREM StepInv == Inv /\ [Next]_vars => Inv'
<1> SUFFICES ASSUME Inv, [Next]_vars PROVE Inv' OBVIOUS
<1>1. CASE UNCHANGED vars
  BY <1>1 DEF Inv, LenOK, IsRM, DeactivatedShape, NilUntilCreate, UpdNeedsRec, vars
<1>2. CASE Next
  <2>1. PICK a \in Alphabet : Apply(a) BY <1>2 DEF Next
  <2> DEFINE o == Resolve(a, len + 1)
  <2>2. /\ len \in Nat /\ len' = len + 1 /\ ~rm.deact /\ rm' = Step(rm, o)
    BY <2>1 DEF Apply, Inv, LenOK
  <2>3. o.nr = 2 * (len + 1) /\ o.type = a.type
    BY DEF Resolve
  <2>4. o.nr # 0 BY <2>2, <2>3
  <2>5. CASE Refused(rm, o)
    BY <2>2, <2>5 DEF Step, Inv, LenOK, DeactivatedShape, NilUntilCreate, UpdNeedsRec
  <2>6. CASE ~Refused(rm, o)
    <3>1. rm' = Post(rm, o) BY <2>2, <2>6 DEF Step
    <3>2. o.type \in {"create", "update", "recover", "deactivate"} BY <2>6 DEF Refused, Known
    <3>3. CASE o.type = "create"
      BY <3>1, <3>3, <2>4, <2>2, <2>6 DEF Post, Book, Refused, Inv, LenOK, IsRM, DeactivatedShape, NilUntilCreate, UpdNeedsRec, EmptyDoc
    <3>4. CASE o.type = "update"
      BY <3>1, <3>4, <2>4, <2>2, <2>6 DEF Post, Book, Refused, Inv, LenOK, IsRM, DeactivatedShape, NilUntilCreate, UpdNeedsRec, EmptyDoc
    <3>5. CASE o.type = "recover"
      BY <3>1, <3>5, <2>4, <2>2, <2>6 DEF Post, Book, Refused, Inv, LenOK, IsRM, DeactivatedShape, NilUntilCreate, UpdNeedsRec, EmptyDoc
    <3>6. CASE o.type = "deactivate"
      BY <3>1, <3>6, <2>4, <2>2, <2>6 DEF Post, Book, Refused, Inv, LenOK, IsRM, DeactivatedShape, NilUntilCreate, UpdNeedsRec, EmptyDoc
    <3> QED BY <3>2, <3>3, <3>4, <3>5, <3>6
  <2> QED BY <2>5, <2>6
<1> QED BY <1>1, <1>2

THEOREM Safety == Spec => []Inv
  BY InitInv, StepInv, PTL DEF Spec

-----------------------------------------------------------------------------
(* The action properties (C01 / C02 / C09 / C12 on the design): every step *)
(* of every behaviour, whatever the alphabet and the history length.       *)

ROps == UNION {{Resolve(a, p) : p \in Nat} : a \in Alphabet}
HistOK == hist \in Seq(ROps)

THEOREM HistInit == Init => HistOK
  BY EmptySeq DEF Init, HistOK

\* one step appends the resolved operation, which is then the last one
LEMMA StepFacts ==
  ASSUME Inv, HistOK, NEW a \in Alphabet, Apply(a)
  PROVE  LET o == Resolve(a, len + 1) IN
           /\ HistOK' /\ LastOp = o /\ rm' = Step(rm, o) /\ o.type = a.type
<1> DEFINE o == Resolve(a, len + 1)
<1>1. len \in Nat /\ hist' = Append(hist, o) /\ rm' = Step(rm, o)
  BY DEF Apply, Inv, LenOK
<1>2. o \in ROps
  <2>1. len + 1 \in Nat BY <1>1
  <2>2. \E b \in Alphabet, p \in Nat : o = Resolve(b, p) BY <2>1
  <2> QED BY <2>2 DEF ROps
<1>3. /\ Append(hist, o) \in Seq(ROps) /\ Len(Append(hist, o)) = Len(hist) + 1
      /\ Append(hist, o)[Len(hist) + 1] = o
  BY <1>2, AppendProperties DEF HistOK
<1>4. o.type = a.type BY DEF Resolve
<1> QED BY <1>1, <1>3, <1>4 DEF HistOK, LastOp

THEOREM HistStep == Inv /\ HistOK /\ [Next]_vars => HistOK'
<1> SUFFICES ASSUME Inv, HistOK, [Next]_vars PROVE HistOK' OBVIOUS
<1>1. CASE UNCHANGED vars BY <1>1 DEF HistOK, vars
<1>2. CASE Next
  <2>1. PICK a \in Alphabet : Apply(a) BY <1>2 DEF Next
  <2> QED BY <2>1, StepFacts
<1> QED BY <1>1, <1>2

\* C01 / C02: an operation that is not authorized leaves the state in force
THEOREM UnauthorizedIsStutterStep ==
  ASSUME Inv, HistOK, Next
  PROVE  (LastOp.type # "create" /\ ~Authorized(LastOp)) => rm' = rm
<1>1. PICK a \in Alphabet : Apply(a) BY DEF Next
<1> DEFINE o == Resolve(a, len + 1)
<1>2. LastOp = o /\ rm' = Step(rm, o) BY <1>1, StepFacts
<1> QED BY <1>2 DEF Step, Refused, Authorized

\* C01: operation lists are carried unchanged, created time is set by create only
THEOREM CarriedStep ==
  ASSUME Inv, HistOK, Next
  PROVE  /\ rm'.pub = rm.pub /\ rm'.unpub = rm.unpub
         /\ rm.exists => rm'.created = rm.created
<1>1. PICK a \in Alphabet : Apply(a) BY DEF Next
<1> DEFINE o == Resolve(a, len + 1)
<1>2. rm' = Step(rm, o) BY <1>1, StepFacts
<1>3. CASE Refused(rm, o) BY <1>2, <1>3 DEF Step
<1>4. CASE ~Refused(rm, o)
  <2>1. rm' = Post(rm, o) BY <1>2, <1>4 DEF Step
  <2>2. o.type \in {"create", "update", "recover", "deactivate"} BY <1>4 DEF Refused, Known
  <2>3. o.type = "create" => ~rm.exists BY <1>4 DEF Refused
  <2> QED BY <2>1, <2>2, <2>3 DEF Post, Book, Inv, IsRM
<1> QED BY <1>3, <1>4

\* C01: recovery commitment, anchor origin, canonical / equivalent references change only through
\* create / recover / deactivate
THEOREM RecOnlyByRecoveryOpsStep ==
  ASSUME Inv, HistOK, Next
  PROVE  (rm'.rec # rm.rec \/ rm'.ao # rm.ao \/ rm'.canon # rm.canon \/ rm'.equiv # rm.equiv)
            => LastOp.type \in {"create", "recover", "deactivate"}
<1>1. PICK a \in Alphabet : Apply(a) BY DEF Next
<1> DEFINE o == Resolve(a, len + 1)
<1>2. LastOp = o /\ rm' = Step(rm, o) BY <1>1, StepFacts
<1>3. CASE Refused(rm, o) BY <1>2, <1>3 DEF Step
<1>4. CASE ~Refused(rm, o)
  <2>1. rm' = Post(rm, o) BY <1>2, <1>4 DEF Step
  <2>2. o.type \in {"create", "update", "recover", "deactivate"} BY <1>4 DEF Refused, Known
  <2> QED BY <1>2, <2>1, <2>2 DEF Post, Book, Inv, IsRM
<1> QED BY <1>3, <1>4

\* C02: document content is installed only from a delta bound by the signed hash
\* C09: an out-of-window operation never changes document content (it may empty it)
THEOREM DocStep ==
  ASSUME Inv, HistOK, Next
  PROVE  /\ (rm'.doc # rm.doc /\ rm'.doc # EmptyDoc) => DeltaOk(LastOp) /\ LastOp.wf = "ok"
         /\ (LastOp.type # "create" /\ ~InWindow(LastOp.from, LastOp.until, LastOp.t))
               => (rm'.doc = rm.doc \/ rm'.doc = EmptyDoc)
<1>1. PICK a \in Alphabet : Apply(a) BY DEF Next
<1> DEFINE o == Resolve(a, len + 1)
<1>2. LastOp = o /\ rm' = Step(rm, o) BY <1>1, StepFacts
<1>3. CASE Refused(rm, o) BY <1>2, <1>3 DEF Step
<1>4. CASE ~Refused(rm, o)
  <2>1. rm' = Post(rm, o) BY <1>2, <1>4 DEF Step
  <2>2. o.type \in {"create", "update", "recover", "deactivate"} BY <1>4 DEF Refused, Known
  <2>3. o.wf = "ok" BY <1>4 DEF Refused
  <2>4. o.type = "update" => DeltaOk(o) BY <1>4 DEF Refused
  <2>5. CASE o.type = "create"
    BY <1>2, <2>1, <2>3, <2>5 DEF Post, Book, Inv, IsRM
  <2>6. CASE o.type = "update"
    BY <1>2, <2>1, <2>3, <2>4, <2>6 DEF Post, Book, Inv, IsRM
  <2>7. CASE o.type = "recover"
    BY <1>2, <2>1, <2>3, <2>7 DEF Post, Book, Inv, IsRM
  <2>8. CASE o.type = "deactivate"
    BY <1>2, <2>1, <2>3, <2>8 DEF Post, Book, Inv, IsRM
  <2> QED BY <2>2, <2>5, <2>6, <2>7, <2>8
<1> QED BY <1>3, <1>4

-----------------------------------------------------------------------------
(* C09: the window predicate over ALL integer bounds and natural anchoring times (TLC: -1..MaxLen+1). *)
THEOREM WindowUnbounded ==
  ASSUME TD \in Nat
  PROVE  \A f, u \in Int, t \in Nat :
           /\ (f # 0 /\ u = 0) => (InWindow(f, u, t) <=> (f <= t /\ t <= f + TD))
           /\ (u # 0) => (InWindow(f, u, t) <=> (f <= t /\ t <= u))
           /\ (f = 0 /\ u = 0) => InWindow(f, u, t)
           \* an explicit until is never extended, a missing one never depends on anything but TD
           /\ EffUntil(f, u) = IF f # 0 /\ u = 0 THEN f + TD ELSE u
  BY DEF InWindow, EffUntil
=============================================================================
