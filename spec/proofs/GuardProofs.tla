---------------------------- MODULE GuardProofs ----------------------------
(***************************************************************************)
(* TLAPS: the design-level half of C11 for operation lists of ANY length   *)
(* (TLC checks lists of <= MaxOps operations): a list that the intended    *)
(* validator lets through - every path, and every from pointer of a move   *)
(* or copy, outside the protected region - cannot alter the public keys or *)
(* the services.                                                           *)
(***************************************************************************)
EXTENDS JsonPatchGuard, TLAPS

Inv == validated => (~pkAltered /\ ~svcAltered)

\* one validated operation writes to no protected location
LEMMA ValidatedOpIsHarmless ==
  ASSUME CheckFrom = TRUE, NEW o \in AllOps, OpValidated(o)
  PROVE  ~MayAlterPK(o) /\ ~MayAlterSvc(o)
<1>1. o.kind \in Kinds /\ o.spell \in {"plain", "From", "Op", "Kind", "Extra"}
  <2>1. CASE o \in OpsWithPath
    <3>1. PICK k \in Kinds \ {"move", "copy"} : o \in {Op(k, p, p) : p \in Ptrs}
      BY <2>1 DEF OpsWithPath
    <3> QED BY <3>1 DEF Op, Kinds
  <2>2. CASE o \in OpsWithFrom
    <3>1. PICK k \in {"move", "copy"} : o \in UNION {{Op(k, p, f) : f \in Ptrs} : p \in Ptrs}
      BY <2>2 DEF OpsWithFrom
    <3>2. PICK p \in Ptrs : o \in {Op(k, p, f) : f \in Ptrs}
      BY <3>1
    <3> QED BY <3>2 DEF Op, Kinds
  <2>3. CASE o \in Respelled
    <3>1. CASE o \in RespelledMoves
      <4>1. PICK k \in {"move", "copy"} : o \in UNION {UNION {RespelledFrom(k, p, f) : f \in {"/publicKey/0", "/service/0", "/other/a"}} :
                  p \in {"/other", "/publicKey/-", "/service/0/serviceEndpoint"}}
        BY <3>1 DEF RespelledMoves
      <4>2. PICK p \in {"/other", "/publicKey/-", "/service/0/serviceEndpoint"} :
                  o \in UNION {RespelledFrom(k, p, f) : f \in {"/publicKey/0", "/service/0", "/other/a"}}
        BY <4>1
      <4>3. PICK f \in {"/publicKey/0", "/service/0", "/other/a"} : o \in RespelledFrom(k, p, f)
        BY <4>2
      <4> QED BY <4>3 DEF RespelledFrom, Kinds
    <3>2. CASE o \in RespelledOthers
      <4>1. PICK k \in {"add", "remove", "replace"} : o \in UNION {RespelledOp(k, p) : p \in {"/publicKey/0", "/service", "/other/a"}}
        BY <3>2 DEF RespelledOthers
      <4>2. PICK p \in {"/publicKey/0", "/service", "/other/a"} : o \in RespelledOp(k, p)
        BY <4>1
      <4> QED BY <4>2 DEF RespelledOp, Kinds
    <3>3. CASE o \in WithExtra
      <4>1. PICK k \in {"move", "copy", "add", "replace"} :
                  o \in UNION {UNION {{[kind |-> k, path |-> p, from |-> f, spell |-> "Extra"]} : f \in {"/publicKey/0", "/publicKey", "/service/0", "/other/a"}} :
                  p \in {"/other", "/other/b"}}
        BY <3>3 DEF WithExtra
      <4>2. PICK p \in {"/other", "/other/b"} :
                  o \in UNION {{[kind |-> k, path |-> p, from |-> f, spell |-> "Extra"]} : f \in {"/publicKey/0", "/publicKey", "/service/0", "/other/a"}}
        BY <4>1
      <4>3. PICK f \in {"/publicKey/0", "/publicKey", "/service/0", "/other/a"} : o = [kind |-> k, path |-> p, from |-> f, spell |-> "Extra"]
        BY <4>2
      <4> QED BY <4>3 DEF Kinds
    <3> QED BY <2>3, <3>1, <3>2, <3>3 DEF Respelled
  <2> QED BY <2>1, <2>2, <2>3 DEF AllOps
<1>2. ~Protected(o.path)
  BY DEF OpValidated
<1>3. (UsesFrom(o.kind) /\ o.spell # "From") => ~Protected(o.from)
  BY DEF OpValidated
<1>4. CASE o.spell \notin {"plain", "Extra"}
  BY <1>4 DEF MayAlterPK, MayAlterSvc, Written
<1>5. CASE o.spell \in {"plain", "Extra"}
  <2>1. CASE o.kind \in {"add", "remove", "replace"}
    BY <1>2, <1>5, <2>1 DEF MayAlterPK, MayAlterSvc, Written, Protected
  <2>2. CASE o.kind = "move"
    BY <1>2, <1>3, <1>5, <2>2 DEF MayAlterPK, MayAlterSvc, Written, Protected, UsesFrom
  <2>3. CASE o.kind = "copy"
    BY <1>2, <1>5, <2>3 DEF MayAlterPK, MayAlterSvc, Written, Protected
  <2>4. CASE o.kind = "test"
    BY <1>5, <2>4 DEF MayAlterPK, MayAlterSvc, Written
  <2> QED BY <1>1, <2>1, <2>2, <2>3, <2>4 DEF Kinds
<1> QED BY <1>4, <1>5

THEOREM GuardSufficesAlways == ASSUME CheckFrom = TRUE PROVE Spec => []GuardSuffices
<1>1. Init => Inv
  BY DEF Init, Inv
<1>2. Inv /\ [Next]_vars => Inv'
  <2> SUFFICES ASSUME Inv, [Next]_vars PROVE Inv' OBVIOUS
  <2>1. CASE UNCHANGED vars
    BY <2>1 DEF Inv, vars
  <2>2. ASSUME NEW o \in AllOps, Append1(o) PROVE Inv'
    <3>1. validated' = (validated /\ OpValidated(o)) /\ pkAltered' = (pkAltered \/ MayAlterPK(o)) /\ svcAltered' = (svcAltered \/ MayAlterSvc(o))
      BY <2>2 DEF Append1
    <3>2. OpValidated(o) => (~MayAlterPK(o) /\ ~MayAlterSvc(o))
      BY ValidatedOpIsHarmless
    <3> QED BY <3>1, <3>2 DEF Inv
  <2> QED BY <2>1, <2>2 DEF Next
<1>3. Inv => GuardSuffices
  BY DEF Inv, GuardSuffices
<1> QED BY <1>1, <1>2, <1>3, PTL DEF Spec
=============================================================================
