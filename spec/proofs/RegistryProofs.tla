--------------------------- MODULE RegistryProofs ---------------------------
(***************************************************************************)
(* TLAPS: the safety properties of Registry.tla hold for ANY number of     *)
(* processes, keys, values and calls (TLC checks them for 3 processes x 2  *)
(* calls).  IndInv is inductive and implies MutualExclusion, MapIsSpec,    *)
(* LookupSeesSpec and RegisterTestAndSet.                                                         *)
(***************************************************************************)
EXTENDS Registry, TLAPS

ASSUME ProcsAreNotZero == 0 \notin Procs

Ops == {"none", "add", "register", "lookup"}
PCs == {"idle", "invoked", "locked", "accessed", "released"}

TypeOK ==
    /\ readers \subseteq Procs
    /\ writer \in Procs \cup {0}
    /\ pc \in [Procs -> PCs]
    /\ call \in [Procs -> [op : Ops, key : Keys \cup {0}, val : Vals \cup {0}, res : Vals \cup {0, 1}]]
    /\ map \in [Keys -> Vals \cup {0}] /\ spec \in [Keys -> Vals \cup {0}]

Holding(p) == pc[p] \in {"locked", "accessed"}

IndInv ==
    /\ TypeOK
    /\ map = spec
    /\ \A p \in Procs : pc[p] # "idle" => call[p].op \in {"add", "register", "lookup"} /\ call[p].key \in Keys
    /\ writer # 0 => readers = {} /\ Holding(writer) /\ IsWrite(call[writer].op)
    /\ \A p \in Procs : (Holding(p) /\ IsWrite(call[p].op)) => writer = p
    /\ \A p \in Procs : p \in readers <=> (Holding(p) /\ call[p].op = "lookup")
    /\ \A p \in Procs : (pc[p] = "accessed" /\ call[p].op = "lookup") => call[p].res = spec[call[p].key]
    /\ \A p \in Procs : (pc[p] = "accessed" /\ call[p].op = "register" /\ call[p].res = 1) => spec[call[p].key] = call[p].val

THEOREM InitInd == Init => IndInv
  BY ProcsAreNotZero DEF Init, IndInv, TypeOK, Holding, IsWrite, NoCall, NoVal, PCs, Ops

THEOREM NextInd == IndInv /\ [Next]_vars => IndInv'
<1> SUFFICES ASSUME IndInv, [Next]_vars PROVE IndInv' OBVIOUS
<1> USE ProcsAreNotZero
<1>0. CASE UNCHANGED vars BY <1>0 DEF IndInv, TypeOK, Holding, IsWrite, vars
<1>1. ASSUME NEW p \in Procs, NEW k \in Keys, NEW v \in Vals, Invoke(p, "add", k, v) PROVE IndInv'
  BY <1>1 DEF IndInv, TypeOK, Holding, IsWrite, Invoke, PCs, Ops
<1>1b. ASSUME NEW p \in Procs, NEW k \in Keys, NEW v \in Vals, Invoke(p, "register", k, v) PROVE IndInv'
  BY <1>1b DEF IndInv, TypeOK, Holding, IsWrite, Invoke, PCs, Ops
<1>2. ASSUME NEW p \in Procs, NEW k \in Keys, Invoke(p, "lookup", k, 0) PROVE IndInv'
  BY <1>2 DEF IndInv, TypeOK, Holding, IsWrite, Invoke, PCs, Ops
<1>3. ASSUME NEW p \in Procs, Acquire(p) PROVE IndInv'
  <2>1. CASE IsWrite(call[p].op)
    BY <1>3, <2>1 DEF IndInv, TypeOK, Holding, IsWrite, Acquire, PCs, Ops
  <2>2. CASE ~IsWrite(call[p].op)
    BY <1>3, <2>2 DEF IndInv, TypeOK, Holding, IsWrite, Acquire, PCs, Ops
  <2> QED BY <2>1, <2>2
<1>4. ASSUME NEW p \in Procs, Access(p) PROVE IndInv'
  <2>1. CASE IsWrite(call[p].op)
    BY <1>4, <2>1 DEF IndInv, TypeOK, Holding, IsWrite, Access, PCs, Ops
  <2>2. CASE ~IsWrite(call[p].op)
    BY <1>4, <2>2 DEF IndInv, TypeOK, Holding, IsWrite, Access, PCs, Ops
  <2> QED BY <2>1, <2>2
<1>5. ASSUME NEW p \in Procs, Release(p) PROVE IndInv'
  <2>1. CASE IsWrite(call[p].op)
    BY <1>5, <2>1 DEF IndInv, TypeOK, Holding, IsWrite, Release, PCs, Ops
  <2>2. CASE ~IsWrite(call[p].op)
    <3>1. pc[p] = "accessed" /\ call[p].op = "lookup" /\ p \in readers /\ writer = 0
      BY <1>5, <2>2 DEF IndInv, TypeOK, Holding, IsWrite, Release, PCs, Ops
    <3>2. readers' = readers \ {p} /\ writer' = writer /\ pc' = [pc EXCEPT ![p] = "released"]
          /\ UNCHANGED <<map, call, ncalls, spec>>
      BY <1>5, <2>2 DEF Release
    <3> QED BY <3>1, <3>2 DEF IndInv, TypeOK, Holding, IsWrite, PCs, Ops
  <2> QED BY <2>1, <2>2
<1>6. ASSUME NEW p \in Procs, Return(p) PROVE IndInv'
  BY <1>6 DEF IndInv, TypeOK, Holding, IsWrite, Return, PCs, NoCall, Ops
<1> QED BY <1>0, <1>1, <1>1b, <1>2, <1>3, <1>4, <1>5, <1>6 DEF Next

THEOREM IndImplies == IndInv => MutualExclusion /\ MapIsSpec /\ LookupSeesSpec /\ RegisterTestAndSet
  BY ProcsAreNotZero DEF IndInv, TypeOK, Holding, IsWrite, MutualExclusion, MapIsSpec, LookupSeesSpec, RegisterTestAndSet

THEOREM RegistrySafety == Init /\ [][Next]_vars => [](MutualExclusion /\ MapIsSpec /\ LookupSeesSpec /\ RegisterTestAndSet)
  BY InitInd, NextInd, IndImplies, PTL
=============================================================================
