--------------------------- MODULE VersionsProofs ---------------------------
(***************************************************************************)
(* TLAPS: facts about version matching and the version provider of         *)
(* Versions.tla that hold for ALL version strings / version lists (TLC     *)
(* checks them over three parts and lists of <= 3 versions).               *)
(***************************************************************************)
EXTENDS Versions, TLAPS

\* Matches is an equivalence relation on arbitrary version strings
THEOREM MatchesEquivalence ==
  \A a, b, c :
      /\ Matches(a, a)
      /\ Matches(a, b) => Matches(b, a)
      /\ (Matches(a, b) /\ Matches(b, c)) => Matches(a, c)
  BY DEF Matches, Major, Minor

\* only the first two parts matter, a missing second part counts as "0"
THEOREM MatchesLooksAtTwoParts ==
  \A a, b : Matches(a, b) <=> (a[1] = b[1] /\ (IF Len(a) > 1 THEN a[2] ELSE "0") = (IF Len(b) > 1 THEN b[2] ELSE "0"))
  BY DEF Matches, Major, Minor

\* the registry never loses the built-in protocol, whatever is registered
THEOREM BuiltInInductive == BuiltInStays /\ [Next]_vars => BuiltInStays'
<1> SUFFICES ASSUME BuiltInStays, [Next]_vars PROVE BuiltInStays' OBVIOUS
<1>1. reg' = reg \/ \E v \in VerStrings : reg' = reg \cup {v}
  BY DEF Next, Register, Create, NewProvider, Current, Get, AddNamespace, ForNamespace, vars
<1> QED BY <1>1 DEF BuiltInStays
=============================================================================
