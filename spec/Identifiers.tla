----------------------------- MODULE Identifiers -----------------------------
(***************************************************************************)
(* Extension specification (beyond the listed properties): which ids a     *)
(* resolution is given - pkg/docutil - and which payloads the document     *)
(* validators let through - pkg/versions/1_0/docvalidator/{docvalidator,   *)
(* didvalidator}.                                                          *)
(*                                                                         *)
(* An id is a sequence of segments, written with ':' between them.  The    *)
(* namespace is one segment here (it holds colons itself: did:sidetree).   *)
(*                                                                         *)
(*   published state   : id as asked for; canonical id = ns [: canonical   *)
(*                       reference] : suffix; equivalent ids = canonical   *)
(*                       id, then ns : ref : suffix for each equivalent    *)
(*                       reference, in order, repetitions kept.            *)
(*   unpublished state : short id = ns [: label] : suffix; the id is the   *)
(*                       short id [: initial state]; equivalent ids =      *)
(*                       [short id, if there is an initial state]          *)
(*                       [ns : domain : label : suffix if label and domain *)
(*                       are given - the short id again if the label       *)
(*                       already contains the domain]; absent if empty.    *)
(*   validators        : a payload is a JSON object with a non-empty       *)
(*                       string didSuffix; an original document is a JSON  *)
(*                       object without a (non-empty string) id, and, for  *)
(*                       DID documents, without a non-empty @context list. *)
(*   create result     : the create operation applied to the empty state;  *)
(*                       refused when the resulting document is empty.     *)
(***************************************************************************)
EXTENDS Integers, Sequences, FiniteSets, TLC

VARIABLE cs
vars == <<cs>>

Refs == {"", "ref"}
EqRefLists == {<<>>, <<"e1">>, <<"e1", "e2">>, <<"e2", "e1">>, <<"e1", "e1">>, <<"ref">>}
\* labels: none, one that has nothing to do with the domain, one that contains the domain
Labels == {"", "lbl", "dom.lbl"}
Domains == {"", "dom"}
States == {"", "state"}

ContainsDomain(label, domain) == domain = "" \/ label = "dom.lbl"

PublishedCases == {[kind |-> "published", ref |-> r, eq |-> e] : r \in Refs, e \in EqRefLists}
UnpublishedCases == {[kind |-> "unpublished", label |-> l, domain |-> d, state |-> s] : l \in Labels, d \in Domains, s \in States}

\* payloads (validators)
PayloadShapes == {"not_json", "array", "string", "null", "empty_object", "suffix_ok", "suffix_empty", "suffix_number", "suffix_null",
                  "suffix_object", "suffix_ok_and_more"}
OriginalShapes == {"not_json", "array", "null", "empty_object", "no_id", "id_string", "id_empty", "id_number", "id_null",
                   "context_string", "context_list", "context_empty_list", "context_null", "id_and_context"}
ValidatorCases == {[kind |-> "payload", v |-> v, shape |-> s] : v \in {"doc", "did"}, s \in PayloadShapes}
                  \cup {[kind |-> "original", v |-> v, shape |-> s] : v \in {"doc", "did"}, s \in OriginalShapes}

\* create result: what the delta of the create request makes of the empty document
CreateShapes == {"adds_key", "adds_service", "replace_with_content", "replace_with_nothing", "failing_patch",
                 "second_patch_fails", "unbound_delta", "json_patch_adds_member", "json_patch_adds_and_removes"}
CreateCases == {[kind |-> "create_result", shape |-> s] : s \in CreateShapes}

Cases == PublishedCases \cup UnpublishedCases \cup ValidatorCases \cup CreateCases

-----------------------------------------------------------------------------
Opt(s) == IF s = "" THEN <<>> ELSE <<s>>

CanonicalId(c) == <<"ns">> \o Opt(c.ref) \o <<"sfx">>
EqId(r) == <<"ns", r, "sfx">>

ShortId(c) == <<"ns">> \o Opt(c.label) \o <<"sfx">>
DomainId(c) == IF ContainsDomain(c.label, c.domain) THEN ShortId(c) ELSE <<"ns", c.domain, c.label, "sfx">>
UnpublishedEq(c) ==
    (IF c.state # "" THEN <<ShortId(c)>> ELSE <<>>)
    \o (IF c.label # "" /\ c.domain # "" THEN <<DomainId(c)>> ELSE <<>>)

\* (the JSON text null reads as the empty document: the library's document reader does not tell them apart)
IsObject(shape) == shape \notin {"not_json", "array", "string"}

PayloadOk(c) == c.shape \in {"suffix_ok", "suffix_ok_and_more"}
OriginalOk(c) ==
    /\ IsObject(c.shape)
    /\ c.shape \notin {"id_string", "id_and_context"}
    \* (a context that is not a list - a string, null - is no context for the DID validator)
    /\ (c.v = "did" => c.shape # "context_list")

\* the document a create request's delta gives; the request is refused at this level when it is empty
\* (a replace patch always installs both lists, were it as null: its result is never the empty document)
CreateDocEmpty(c) == c.shape \in {"failing_patch", "second_patch_fails", "unbound_delta", "json_patch_adds_and_removes"}

Expected(c) ==
    CASE c.kind = "published" ->
            [ok |-> TRUE, published |-> TRUE, id |-> <<"asked">>, canonical |-> CanonicalId(c),
             equivalent |-> <<CanonicalId(c)>> \o [i \in 1..Len(c.eq) |-> EqId(c.eq[i])], hasEquivalent |-> TRUE]
      [] c.kind = "unpublished" ->
            [ok |-> TRUE, published |-> FALSE, id |-> ShortId(c) \o Opt(c.state), canonical |-> <<>>,
             equivalent |-> UnpublishedEq(c), hasEquivalent |-> UnpublishedEq(c) # <<>>]
      [] c.kind = "payload" ->
            [ok |-> PayloadOk(c), published |-> FALSE, id |-> <<>>, canonical |-> <<>>, equivalent |-> <<>>, hasEquivalent |-> FALSE]
      [] c.kind = "original" ->
            [ok |-> OriginalOk(c), published |-> FALSE, id |-> <<>>, canonical |-> <<>>, equivalent |-> <<>>, hasEquivalent |-> FALSE]
      [] c.kind = "create_result" ->
            [ok |-> ~CreateDocEmpty(c), published |-> FALSE, id |-> <<>>, canonical |-> <<>>, equivalent |-> <<>>, hasEquivalent |-> FALSE]

Init == cs \in Cases
Next == UNCHANGED cs

-----------------------------------------------------------------------------
IsPrefixOf(a, b) == Len(a) <= Len(b) /\ SubSeq(b, 1, Len(a)) = a
Last(s) == s[Len(s)]

\* a published state always has a canonical id, and it leads the equivalent ids
CanonicalLeads ==
    cs.kind = "published" => LET e == Expected(cs) IN e.hasEquivalent /\ e.equivalent[1] = e.canonical /\ Len(e.equivalent) = 1 + Len(cs.eq)
\* every id of a state is an id in the namespace for the suffix (the long form: suffix, then the initial state)
NamespaceAndSuffix ==
    cs.kind \in {"published", "unpublished"} =>
        LET e == Expected(cs)
            ids == {e.equivalent[i] : i \in 1..Len(e.equivalent)} \cup (IF cs.kind = "published" THEN {e.canonical} ELSE {})
        IN /\ \A i \in ids : i[1] = "ns" /\ Last(i) = "sfx"
           /\ (cs.kind = "unpublished" => /\ e.id[1] = "ns"
                                          /\ IF cs.state = "" THEN Last(e.id) = "sfx" ELSE Last(e.id) = "state" /\ e.id[Len(e.id) - 1] = "sfx")
\* a long-form resolution always names its short form among the equivalent ids, and the id it answers with is
\* that short form followed by the initial state
LongFormHasShortForm ==
    (cs.kind = "unpublished" /\ cs.state # "") =>
        LET e == Expected(cs) IN e.hasEquivalent /\ e.equivalent[1] = ShortId(cs) /\ e.id = ShortId(cs) \o <<"state">>
\* the domain hint never appears twice in an id
DomainOnce ==
    cs.kind = "unpublished" =>
        LET e == Expected(cs) IN \A i \in 1..Len(e.equivalent) : Cardinality({j \in 1..Len(e.equivalent[i]) : e.equivalent[i][j] = "dom"}) <= 1
\* what a validator lets through is a JSON object
OnlyObjects == (cs.kind \in {"payload", "original"} /\ Expected(cs).ok) => IsObject(cs.shape)
\* the DID validator is at least as strict as the generic one
DidStricter ==
    (cs.kind = "original" /\ cs.v = "did" /\ Expected(cs).ok) => Expected([cs EXCEPT !.v = "doc"]).ok
=============================================================================
