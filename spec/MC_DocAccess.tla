---------------------------- MODULE MC_DocAccess ----------------------------
EXTENDS DocAccess, Json
DumpCase == LET a == Accessors[cs.acc] IN
    PrintT(<<"CASE", ToJson([acc |-> cs.acc, on |-> a.on, member |-> a.member, reader |-> a.reader, shape |-> cs.shape,
                             entries |-> Entries(cs.shape), result |-> Expected(cs)])>>)
=============================================================================
