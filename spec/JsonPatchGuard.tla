--------------------------- MODULE JsonPatchGuard ---------------------------
(***************************************************************************)
(* C11: a validated ietf-json-patch never alters public keys or services.  *)
(*                                                                         *)
(* RFC 6902 operation lists over a document whose protected region is the  *)
(* members publicKey and service (and the root, which contains them).  The *)
(* model tracks only whether the protected region has been altered: an     *)
(* operation alters it when it writes to a protected location (add,        *)
(* remove, replace, the destination of move / copy) or takes something out *)
(* of one (the source of move).  The intended validator refuses a list as  *)
(* soon as a path - or, with CheckFrom, a from pointer - lies in the       *)
(* protected region.  TLC shows that this suffices (GuardSuffices) and,    *)
(* in the negative configuration CheckFrom = FALSE, that checking `path`   *)
(* alone does not.  Every enumerated list is handed to the real validator  *)
(* and, if it passes, to the real composer, where the protected members    *)
(* are compared before and after.                                          *)
(***************************************************************************)
EXTENDS Integers, Sequences, FiniteSets, TLC

CONSTANTS MaxOps,      \* operations per list
          CheckFrom,   \* the validator also inspects `from`
          Pairing      \* "all": every list; "benign": lists of two hold one fixed harmless operation

VARIABLES ops, pkAltered, svcAltered, validated
vars == <<ops, pkAltered, svcAltered, validated>>

Kinds == {"add", "remove", "replace", "move", "copy", "test"}

Ptrs == {"", "/", "/publicKey", "/publicKey/0", "/publicKey/0/id", "/publicKey/-",
         "/service", "/service/0", "/service/0/serviceEndpoint",
         "/publicKeyX", "/services", "/publicKeys", "/public~0Key", "/public~1Key",
         "/other", "/other/a", "/alsoKnownAs/0",
         \* not JSON pointers at all (RFC 6901: a pointer is empty or starts with "/"); a lenient
         \* implementation may read them as the pointer that follows the first "/"
         "x/service", "#/publicKey/0", "publicKey",
         \* the URI-fragment spelling with percent escapes (RFC 6901 section 6), which this patch format does not use
         "#/public%4Bey/0", "#/%73ervice/0",
         \* a member that is not protected but sounds like the keys' name in resolved documents
         "/verificationMethod", "/capabilityInvocation", "/keyAgreement",
         \* pointers through a member named "" (an empty reference token): not the protected members
         "//publicKey/0", "//service",
         \* a line feed inside a reference token (pattern matching that stops at line ends)
         "/service/0/new\nmember", "/publicKey/0/a\nb",
         \* pointer TEXT that holds a backslash escape or a quote: the member called \u0070ublicKey (twelve characters), and a
         \* member whose name holds quotes - what they would mean after one more round of JSON decoding is of no concern
         "/\\u0070ublicKey", "/x\",\"path\":\"/service",
         \* a member named like the document member of a resolution result: a member like any other
         "/didDocument"}

UnderPK(p)  == p \in {"/publicKey", "/publicKey/0", "/publicKey/0/id", "/publicKey/-", "#/publicKey/0", "/publicKey/0/a\nb", "#/public%4Bey/0"}
UnderSvc(p) == p \in {"/service", "/service/0", "/service/0/serviceEndpoint", "x/service", "/service/0/new\nmember", "#/%73ervice/0"}
Root(p)     == p = ""
Protected(p) == UnderPK(p) \/ UnderSvc(p) \/ Root(p)

UsesFrom(k) == k \in {"move", "copy"}

\* locations an operation writes to (or removes from); an operation whose members are not spelled as RFC 6902
\* spells them (see Respelled) is no operation: it cannot be applied, the list fails and nothing is written
Written(o) ==
    IF o.spell \notin {"plain", "Extra"} THEN {} ELSE
    CASE o.kind \in {"add", "remove", "replace"} -> {o.path}
      [] o.kind = "move" -> {o.from, o.path}
      [] o.kind = "copy" -> {o.path}
      [] o.kind = "test" -> {}

MayAlterPK(o)  == \E p \in Written(o) : UnderPK(p) \/ Root(p)
MayAlterSvc(o) == \E p \in Written(o) : UnderSvc(p) \/ Root(p)

\* the intended validator
OpValidated(o) == ~Protected(o.path) /\ ((CheckFrom /\ UsesFrom(o.kind) /\ o.spell # "From") => ~Protected(o.from))
\* (for an operation that does not use from - an add with a superfluous from member - the intended validator may or may
\* not look at it: the harness judges by the effect on the document, not by the verdict)

Op(k, p, f) == [kind |-> k, path |-> p, from |-> f, spell |-> "plain"]
\* member names / operation names in another letter case: "From" for from, "Op" for op, "Move" for move.  JSON member
\* names and RFC 6902 operation names are case sensitive: such an operation has no from / no op / an unknown op
\* (nested single-variable comprehensions: the form the proof system's back ends can open - proofs/GuardProofs.tla)
RespelledFrom(k, p, f) == {[kind |-> k, path |-> p, from |-> f, spell |-> sp] : sp \in {"From", "Op", "Kind"}}
RespelledOp(k, p) == {[kind |-> k, path |-> p, from |-> p, spell |-> sp] : sp \in {"Op", "Kind"}}
RespelledMoves ==
    UNION {UNION {UNION {RespelledFrom(k, p, f) : f \in {"/publicKey/0", "/service/0", "/other/a"}} :
                  p \in {"/other", "/publicKey/-", "/service/0/serviceEndpoint"}} : k \in {"move", "copy"}}
RespelledOthers ==
    UNION {UNION {RespelledOp(k, p) : p \in {"/publicKey/0", "/service", "/other/a"}} : k \in {"add", "remove", "replace"}}
\* "Extra": the operation also carries a member that RFC 6902 does not define for its kind (a move / copy with a value,
\* an add / replace / remove with a from): the member is ignored, the operation is what its kind says
WithExtra ==
    UNION {UNION {UNION {{[kind |-> k, path |-> p, from |-> f, spell |-> "Extra"]} : f \in {"/publicKey/0", "/publicKey", "/service/0", "/other/a"}} :
                  p \in {"/other", "/other/b"}} : k \in {"move", "copy", "add", "replace"}}
Respelled == RespelledMoves \cup RespelledOthers \cup WithExtra
OpsWithPath == UNION {{Op(k, p, p) : p \in Ptrs} : k \in Kinds \ {"move", "copy"}}
OpsWithFrom == UNION {UNION {{Op(k, p, f) : f \in Ptrs} : p \in Ptrs} : k \in {"move", "copy"}}
AllOps == OpsWithPath \cup OpsWithFrom \cup Respelled

Benign == Op("add", "/other/a", "/other/a")
CorePtrs == {"", "/publicKey", "/publicKey/0", "/publicKey/-", "/service", "/service/0", "/publicKeyX", "/services", "/public~1Key",
             "/other", "/other/a", "x/service", "/verificationMethod", "/didDocument", "/\\u0070ublicKey", "//service"}
CoreOp(o) == o.path \in CorePtrs /\ o.from \in CorePtrs

Init == ops = <<>> /\ pkAltered = FALSE /\ svcAltered = FALSE /\ validated = TRUE

Append1(o) ==
    /\ Len(ops) < MaxOps
    /\ Pairing = "benign" /\ Len(ops) = 1 => (o = Benign \/ ops[1] = Benign)
    \* "core": lists of two are made of operations over the core pointers (or hold the harmless operation); single
    \* operations range over everything
    /\ Pairing = "core" /\ Len(ops) = 1 => (o = Benign \/ ops[1] = Benign \/ (CoreOp(o) /\ CoreOp(ops[1])))
    /\ ops' = Append(ops, o)
    /\ pkAltered' = (pkAltered \/ MayAlterPK(o))
    /\ svcAltered' = (svcAltered \/ MayAlterSvc(o))
    /\ validated' = (validated /\ OpValidated(o))

Next == \E o \in AllOps : Append1(o)
Spec == Init /\ [][Next]_vars

\* C11 at design level: what the validator lets through cannot alter the protected members
GuardSuffices == validated => ~pkAltered /\ ~svcAltered
=============================================================================
