----------------------------- MODULE PatchArray -----------------------------
(***************************************************************************)
(* C10, RFC 6902 on ARRAYS (Composer.tla models object members only).  A   *)
(* document holds one array "arr" of small values and one scalar member    *)
(* "x" (possibly absent).  One ietf-json-patch carries a list of           *)
(* operations that is applied in order, all or nothing:                    *)
(*   add /arr/i v (insert before i, i <= length; "-" appends), remove,     *)
(*   replace, test at /arr/i (i < length), copy /x -> /arr/i and           *)
(*   move /arr/i -> /arr/j (remove, then insert: indices refer to the      *)
(*   array as it is at that moment), copy /arr/i -> /x.                    *)
(* Every case (state, list) is replayed through DocumentComposer.          *)
(***************************************************************************)
EXTENDS Integers, Sequences, FiniteSets, TLC

CONSTANTS MaxArr,   \* arrays of length <= MaxArr
          Vals,     \* element values
          MaxOps    \* operation lists of length 1..MaxOps

VARIABLES arr, x, list, res
vars == <<arr, x, list, res>>

Absent == 0
End == -1           \* the index "-"
Neg == -2           \* the text "-1": no array index (RFC 6901: digits, or "-")

InsertAt(s, i, v) == SubSeq(s, 1, i) \o <<v>> \o SubSeq(s, i + 1, Len(s))      \* i = 0 .. Len(s)
DeleteAt(s, i)    == SubSeq(s, 1, i) \o SubSeq(s, i + 2, Len(s))               \* i = 0 .. Len(s) - 1
SetAt(s, i, v)    == [s EXCEPT ![i + 1] = v]

St(a, xv) == [arr |-> a, x |-> xv]
Fail == [ok |-> FALSE, st |-> St(<<>>, Absent)]
Ok(s) == [ok |-> TRUE, st |-> s]

Op(k, i, j, v) == [k |-> k, i |-> i, j |-> j, v |-> v]

\* one operation on a state
Apply1(s, o) ==
    LET n == Len(s.arr) IN
    CASE o.k = "add"      -> IF o.i = End THEN Ok(St(Append(s.arr, o.v), s.x))
                             ELSE IF o.i <= n THEN Ok(St(InsertAt(s.arr, o.i, o.v), s.x)) ELSE Fail
      [] o.k = "remove"   -> IF o.i < n THEN Ok(St(DeleteAt(s.arr, o.i), s.x)) ELSE Fail
      [] o.k = "replace"  -> IF o.i # Neg /\ o.i < n THEN Ok(St(SetAt(s.arr, o.i, o.v), s.x)) ELSE Fail
      [] o.k = "test"     -> IF o.i # Neg /\ o.i < n /\ s.arr[o.i + 1] = o.v THEN Ok(s) ELSE Fail
      [] o.k = "copy_x"   -> IF s.x = Absent THEN Fail                               \* copy /x -> /arr/i
                             ELSE IF o.i = End THEN Ok(St(Append(s.arr, s.x), s.x))
                             ELSE IF o.i <= n THEN Ok(St(InsertAt(s.arr, o.i, s.x), s.x)) ELSE Fail
      [] o.k = "move"     -> IF o.i >= n THEN Fail                                    \* move /arr/i -> /arr/j
                             ELSE LET v == s.arr[o.i + 1]
                                      a1 == DeleteAt(s.arr, o.i)
                                  IN IF o.j = End THEN Ok(St(Append(a1, v), s.x))
                                     ELSE IF o.j <= Len(a1) THEN Ok(St(InsertAt(a1, o.j, v), s.x)) ELSE Fail
      \* copy /arr/i -> /arr/j (also i = j: a copy is an add, and an add at an index inserts)
      [] o.k = "copy"     -> IF o.i >= n THEN Fail
                             ELSE LET v == s.arr[o.i + 1]
                                  IN IF o.j = End THEN Ok(St(Append(s.arr, v), s.x))
                                     ELSE IF o.j <= n THEN Ok(St(InsertAt(s.arr, o.j, v), s.x)) ELSE Fail
      [] o.k = "copy_to_x" -> IF o.i < n THEN Ok(St(s.arr, s.arr[o.i + 1])) ELSE Fail  \* copy /arr/i -> /x

RECURSIVE ApplyList(_, _)
ApplyList(s, l) ==
    IF l = <<>> THEN Ok(s)
    ELSE LET r == Apply1(s, Head(l)) IN IF r.ok THEN ApplyList(r.st, Tail(l)) ELSE Fail

Idx == 0..MaxArr
OpsAlphabet ==
    {Op("add", i, 0, v) : i \in Idx \cup {End}, v \in Vals}
    \cup {Op("remove", i, 0, 0) : i \in Idx}
    \cup {Op("replace", i, 0, v) : i \in Idx \cup {Neg}, v \in Vals}
    \cup {Op("test", i, 0, v) : i \in Idx \cup {Neg}, v \in Vals}
    \cup {Op("copy_x", i, 0, 0) : i \in Idx \cup {End}}
    \cup {Op("move", i, j, 0) : i \in Idx, j \in Idx \cup {End}}
    \cup {Op("copy", i, j, 0) : i \in Idx, j \in Idx \cup {End}}
    \cup {Op("copy_to_x", i, 0, 0) : i \in Idx}

Arrays == UNION {[1..n -> Vals] : n \in 0..MaxArr}
Lists == UNION {[1..n -> OpsAlphabet] : n \in 1..MaxOps}

NoRes == [ok |-> FALSE, st |-> St(<<>>, Absent)]
Init == /\ arr \in Arrays /\ x \in Vals \cup {Absent} /\ list = <<>> /\ res = NoRes

\* arrays that would outgrow the bound are left out (the bound is the model's, not the format's)
Step(l) == /\ list = <<>>
           /\ list' = l
           /\ res' = ApplyList(St(arr, x), l)
           /\ UNCHANGED <<arr, x>>

Next == \E l \in Lists : Step(l)

-----------------------------------------------------------------------------
\* a failing list leaves nothing behind; a list that applies changes the length by adds - removes
AllOrNothing == (list # <<>> /\ ~res.ok) => res.st = St(<<>>, Absent)
Delta(o) == CASE o.k \in {"add", "copy_x", "copy"} -> 1 [] o.k = "remove" -> -1 [] OTHER -> 0
RECURSIVE SumDelta(_)
SumDelta(l) == IF l = <<>> THEN 0 ELSE Delta(Head(l)) + SumDelta(Tail(l))
LengthAccounting == (list # <<>> /\ res.ok) => Len(res.st.arr) = Len(arr) + SumDelta(list)
\* move never changes the multiset of elements
MovePreserves == (list # <<>> /\ res.ok /\ \A i \in 1..Len(list) : list[i].k = "move") =>
                    \A v \in Vals : Cardinality({i \in 1..Len(arr) : arr[i] = v}) = Cardinality({i \in 1..Len(res.st.arr) : res.st.arr[i] = v})
=============================================================================
