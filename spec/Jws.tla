-------------------------------- MODULE Jws --------------------------------
(***************************************************************************)
(* C15 / C16: JWS signatures and JWK encodings over an IDEAL signature     *)
(* scheme: a signature is the term Sig(private key, message); it verifies  *)
(* under a public key exactly when that key matches and the message is the *)
(* signed one.  The cases are classes; the harness finds concrete          *)
(* instances of each (keys and signatures with leading zero bytes by       *)
(* rejection sampling) and expands tamper classes to every bit.            *)
(***************************************************************************)
EXTENDS Integers, Sequences, FiniteSets, TLC

VARIABLE cs

KeyTypes == {"ed", "p256", "p384", "p521", "k1"}
Width(kt) == CASE kt = "p256" -> 32 [] kt = "p384" -> 48 [] kt = "p521" -> 66 [] kt = "k1" -> 32 [] kt = "ed" -> 32
KtyOf(kt) == IF kt = "ed" THEN "OKP" ELSE "EC"
CrvOf(kt) == CASE kt = "ed" -> "Ed25519" [] kt = "p256" -> "P-256" [] kt = "p384" -> "P-384" [] kt = "p521" -> "P-521" [] kt = "k1" -> "secp256k1"

\* ---- ideal signatures ------------------------------------------------------------------------
Sig(key, msg) == <<"sig", key, msg>>
Verify(key, msg, s) == s = Sig(key, msg)

\* the compact form signs  b64(header) "." b64(payload)
Msg(hdr, payload) == <<hdr, payload>>

\* shapes of a signature: a leading zero byte in r / s must survive the fixed-width encoding
SigShapes(kt) == IF kt = "ed" THEN {"any"} ELSE {"normal", "r_leading_zero", "s_leading_zero"}

\* what may happen to a JWS between signing and verifying
Tampers == {"none", "header_content", "payload_byte", "signature_bit", "other_key_same_type", "other_key_other_type",
            "signature_truncated", "signature_padded", "signature_empty", "signature_der", "unsupported_kty", "two_segments", "four_segments",
            "empty_payload_segment", "bad_base64_header", "bad_base64_payload", "bad_base64_signature", "header_not_json",
            "header_reserialized",
            \* a half of the signature plus the group order (the same residue, another byte string): P-521 and Ed25519 leave
            \* room for it in every signature, the other curves for a signature with a small half (made for a chosen key)
            "signature_plus_order"}

\* tampers after which the very same key must still verify the very same bytes
Harmless(t) == t \in {"none", "header_reserialized"}   \* white space in the header does not change its decoded content

JwsCases == {[kind |-> "jws", kt |-> kt, shape |-> sh, tamper |-> t] : kt \in KeyTypes, sh \in {"any", "normal", "r_leading_zero", "s_leading_zero"}, t \in Tampers}
ValidJwsCase(c) == c.shape \in SigShapes(c.kt)

\* verdict on the model: the untampered term verifies, a changed message / key / signature does not
Own(c)   == <<"own", c.kt>>
Other(c) == <<"other", c.kt>>
Signed(c) == Sig(Own(c), Msg("hdr", "payload"))
Presented(c) ==
    CASE c.tamper = "header_content"  -> [key |-> Own(c), msg |-> Msg("hdr'", "payload"), sig |-> Signed(c)]
      [] c.tamper = "payload_byte"    -> [key |-> Own(c), msg |-> Msg("hdr", "payload'"), sig |-> Signed(c)]
      [] c.tamper \in {"other_key_same_type", "other_key_other_type", "unsupported_kty"}
                                      -> [key |-> Other(c), msg |-> Msg("hdr", "payload"), sig |-> Signed(c)]
      [] Harmless(c.tamper)           -> [key |-> Own(c), msg |-> Msg("hdr", "payload"), sig |-> Signed(c)]
      [] OTHER                        -> [key |-> Own(c), msg |-> Msg("hdr", "payload"),
                                          sig |-> Sig(<<"mangled", c.kt>>, Msg("hdr", "payload"))]

Verifies(c) == LET p == Presented(c) IN Verify(p.key, p.msg, p.sig)

\* ---- JWK encodings (C16) ---------------------------------------------------------------------
\* (two leading zero bytes / both coordinates short occur once in 65 536 keys: sampled for two curves)
CoordShapes(kt) == IF kt = "ed" THEN {"any"}
                   ELSE {"normal", "x_leading_zero", "y_leading_zero"}
                          \cup (IF kt \in {"k1", "p256"} THEN {"x_two_leading_zeros", "both_leading_zero"} ELSE {})
\* x_short_shadowed: the x member is too short and a member "X" (another letter case: another member) holds the right one
\* (x_plus_p: the x coordinate plus the field prime, where that still fits the width - the same residue, not a field element)
JwkMods == {"none", "off_curve", "x_short", "x_long", "y_short", "y_long", "x_empty", "wrong_crv_name", "x_not_base64", "x_short_shadowed",
            "x_plus_p",
            \* x one byte short and y one byte long at once (the point as a whole has the right size)
            "x_short_y_long",
            \* the right coordinate behind 256 zero bytes (a width that is right modulo 256)
            "x_long_256",
            \* a coordinate one byte short whose TEXT has the right length (a line break inside it); the curve / key type name in
            \* another letter case together with a short coordinate; a coordinate text that only decodes after JSON unescaping
            "x_short_linebreak", "x_short_name_case", "x_escaped_text",
            \* the curve is what crv names, whatever a further alg member hints at: a point under the name of another curve is
            \* refused also when alg names the curve it lies on; a key whose alg names another curve is the key crv says it is
            "wrong_crv_name_alg_hint", "alg_of_other_curve"}
ModApplies(kt, m) == kt # "ed" \/ m \in {"none", "x_short", "x_long", "x_empty", "x_not_base64", "x_short_shadowed", "x_long_256",
                                             "x_short_linebreak", "x_short_name_case", "x_escaped_text"}

JwkCases == {[kind |-> "jwk", kt |-> kt, shape |-> sh, mod |-> m] : kt \in KeyTypes,
               sh \in {"any", "normal", "x_leading_zero", "y_leading_zero", "x_two_leading_zeros", "both_leading_zero"}, m \in JwkMods}
ValidJwkCase(c) == c.shape \in CoordShapes(c.kt) /\ ModApplies(c.kt, c.mod)

\* an unmodified key round-trips at full width; every modification is rejected
JwkAccepted(c) == c.mod \in {"none", "alg_of_other_curve"}

Cases == {c \in JwsCases : ValidJwsCase(c)} \cup {c \in JwkCases : ValidJwkCase(c)}

Expected(c) ==
    IF c.kind = "jws"
    THEN [ok |-> Verifies(c), width |-> Width(c.kt), kty |-> KtyOf(c.kt), crv |-> CrvOf(c.kt)]
    ELSE [ok |-> JwkAccepted(c), width |-> Width(c.kt), kty |-> KtyOf(c.kt), crv |-> CrvOf(c.kt)]

Init == cs \in Cases
Next == UNCHANGED cs

\* only the harmless changes verify
OnlyUntamperedVerifies == cs.kind = "jws" => (Verifies(cs) <=> Harmless(cs.tamper))
=============================================================================
