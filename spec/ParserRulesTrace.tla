-------------------------- MODULE ParserRulesTrace --------------------------
(***************************************************************************)
(* Trace validation for C07: random requests x random relative            *)
(* configurations (any number of simultaneous deviations) are parsed by    *)
(* the real parser; TLC checks every recorded verdict against ParseAccept  *)
(* and that every accepted request was reported faithfully.                *)
(***************************************************************************)
EXTENDS ParserRules, Json, TLCExt

CONSTANT TraceFile
TraceLog == ndJsonDeserialize(TraceFile)

VARIABLE l
tvars == <<cs, l>>

TraceInit == TLCSet(1, 0) /\ l = 1 /\ cs = [o |-> Resolve(Default("create"), 1), c |-> BaseCfg]

TraceParse ==
    /\ l <= Len(TraceLog) /\ TraceLog[l].event = "Parse" /\ l' = l + 1
    /\ LET e == TraceLog[l] IN
         /\ e.bad = ""
         /\ cs' = [o |-> e.op, c |-> e.cfg]
         /\ e.accepted = ParseAccept(e.op, e.cfg)
         /\ e.faithful

TraceSpec == TraceInit /\ [][TraceParse]_tvars
HighWater == TLCSet(1, IF l > TLCGet(1) THEN l ELSE TLCGet(1))
TraceAccepted ==
    IF TLCGet(1) = Len(TraceLog) + 1 THEN TRUE
    ELSE PrintT(<<"TRACE-REJECTED-AT-LINE", TLCGet(1)>>) /\ FALSE
=============================================================================
