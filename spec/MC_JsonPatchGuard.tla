------------------------- MODULE MC_JsonPatchGuard -------------------------
EXTENDS JsonPatchGuard, Json
DumpCase == Len(ops) >= 1 =>
    PrintT(<<"CASE", ToJson([ops |-> ops, validated |-> validated, mayAlterPK |-> pkAltered, mayAlterSvc |-> svcAltered])>>)
=============================================================================
