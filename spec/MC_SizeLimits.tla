---------------------------- MODULE MC_SizeLimits ----------------------------
EXTENDS SizeLimits, Json
DumpCase == PrintT(<<"CASE", ToJson([c |-> cs, accept |-> Accept(cs)])>>)
=============================================================================
