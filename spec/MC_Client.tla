------------------------------ MODULE MC_Client ------------------------------
EXTENDS Client, Json
DumpEdge ==
    PrintT(<<"EDGE", ToJson([path |-> hist, step |-> hist'[Len(hist')],
                             post |-> [doc |-> doc', upd |-> upd', rec |-> rec', deact |-> deact', ao |-> ao',
                                       exists |-> phase' # "start", updAlg |-> updAlg', recAlg |-> recAlg']])>>)
View == <<doc, upd, rec, deact, ao, nk, phase, len, updAlg, recAlg>>
=============================================================================
