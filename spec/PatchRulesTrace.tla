-------------------------- MODULE PatchRulesTrace --------------------------
(***************************************************************************)
(* Trace validation for C13: the harness draws feature records from the    *)
(* full product of feature values (any number of simultaneous deviations), *)
(* builds the real patch, records the validator's verdict; TLC checks each *)
(* recorded verdict against Valid.                                         *)
(***************************************************************************)
EXTENDS PatchRules, Json, TLCExt

CONSTANT TraceFile
TraceLog == ndJsonDeserialize(TraceFile)

VARIABLE l
tvars == <<c, muts, l>>

ToSet(s) == {s[i] : i \in 1..Len(s)}
\* JSON arrays arrive as sequences; the purposes are a set in the specification
FromJson(x) == IF x.kind = "key" THEN [x EXCEPT !.k.pp.set = ToSet(@)] ELSE x

TraceInit == TLCSet(1, 0) /\ l = 1 /\ muts = <<>> /\ c = [kind |-> "none"]

TraceValidate ==
    /\ l <= Len(TraceLog) /\ TraceLog[l].event = "Validate" /\ l' = l + 1
    /\ LET e == TraceLog[l] IN
         /\ e.bad = ""
         /\ c' = FromJson(e.c)
         /\ e.valid = Valid(c')
    /\ muts' = <<>>

TraceSpec == TraceInit /\ [][TraceValidate]_tvars
HighWater == TLCSet(1, IF l > TLCGet(1) THEN l ELSE TLCGet(1))
TraceAccepted ==
    IF TLCGet(1) = Len(TraceLog) + 1 THEN TRUE
    ELSE PrintT(<<"TRACE-REJECTED-AT-LINE", TLCGet(1)>>) /\ FALSE
=============================================================================
