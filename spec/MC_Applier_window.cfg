\* C09: the full (from, until, anchoring time) cube for update / recover / deactivate.
CONSTANTS
  KeyIds = {1}
  Mems = {1}
  MaxLen = 4
  MaxDev = 0
  TD = 1
  KTs = {"p256"}
  DefKT = "p256"
  Cube = TRUE
INIT Init
NEXT Next
VIEW View
ACTION_CONSTRAINT DumpEdge
INVARIANTS DeactivatedShape NilUntilCreate UpdNeedsRec WindowFacts
PROPERTIES OutOfWindowKeepsDoc
CHECK_DEADLOCK FALSE
