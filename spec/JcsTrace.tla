------------------------------ MODULE JcsTrace ------------------------------
(***************************************************************************)
(* Trace validation for C05: random JSON values (every class of code       *)
(* point, nested containers, sampled doubles incl. the neighbours of the   *)
(* layout boundaries, subnormals and the largest doubles) are spelled in   *)
(* a random surface style and canonicalized by the library; TLC checks     *)
(* that each recorded output is Canon(value).                              *)
(***************************************************************************)
EXTENDS Jcs, Json, TLCExt

CONSTANT TraceFile
TraceLog == ndJsonDeserialize(TraceFile)

VARIABLE l

TraceInit == TLCSet(1, 0) /\ l = 1

TraceCanon ==
    /\ l <= Len(TraceLog) /\ TraceLog[l].event = "Canon" /\ l' = l + 1
    /\ LET e == TraceLog[l] IN
         /\ e.bad = ""
         /\ WellFormed(e.v)
         /\ e.out = Canon(e.v)

TraceSpec == TraceInit /\ [][TraceCanon]_l
HighWater == TLCSet(1, IF l > TLCGet(1) THEN l ELSE TLCGet(1))
TraceAccepted ==
    IF TLCGet(1) = Len(TraceLog) + 1 THEN TRUE
    ELSE PrintT(<<"TRACE-REJECTED-AT-LINE", TLCGet(1)>>) /\ FALSE
=============================================================================
