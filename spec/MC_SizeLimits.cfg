\* C07: maximum operation size x maximum delta size, each at R-1 / R / R+1 / D-1 / D / D+1, ordinary and expanding deltas
INIT Init
NEXT Next
CONSTRAINT DumpCase
INVARIANTS Inclusive Independent Monotone
CHECK_DEADLOCK FALSE
