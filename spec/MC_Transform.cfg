\* C18: key lists x options, operation lists <= MaxOps with (time, number) in (0..2)^2, metadata fields
CONSTANTS
  MaxOps = 3
INIT Init
NEXT Next
CONSTRAINT DumpCase
INVARIANTS ExactlyOnce SortedOps OptionsIndependent
CHECK_DEADLOCK FALSE
