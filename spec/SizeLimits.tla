------------------------------ MODULE SizeLimits ------------------------------
(***************************************************************************)
(* C07: the two size limits of a request are INDEPENDENT rules.            *)
(*                                                                         *)
(* A request of R bytes carries a delta whose canonical form has D bytes.  *)
(* Usually D < R.  Not always: the canonical form of a number can be       *)
(* longer than its spelling in the request (1e20 is written with 21        *)
(* digits), so a delta holding such numbers is LARGER than the request it  *)
(* arrives in.  Outside batch mode the request is accepted (as far as      *)
(* sizes go) exactly when R <= maximum operation size and D <= maximum     *)
(* delta size - whatever the relation between the two limits.  Both limits *)
(* are set to each of R-1, R, R+1, D-1, D, D+1.                            *)
(***************************************************************************)
EXTENDS Integers, TLC

VARIABLE cs
vars == <<cs>>

Types  == {"create", "update", "recover"}       \* the requests that carry a delta
Shapes == {"ordinary", "expanding"}
R == 100
D(shape) == IF shape = "ordinary" THEN 60 ELSE 140
Anchors == {"R-1", "R", "R+1", "D-1", "D", "D+1"}
Val(a, sh) == CASE a = "R-1" -> R - 1 [] a = "R" -> R [] a = "R+1" -> R + 1
                [] a = "D-1" -> D(sh) - 1 [] a = "D" -> D(sh) [] a = "D+1" -> D(sh) + 1

Cases == [type : Types, shape : Shapes, maxOp : Anchors, maxDelta : Anchors]

OpOk(c)    == R <= Val(c.maxOp, c.shape)
DeltaOk(c) == D(c.shape) <= Val(c.maxDelta, c.shape)
Accept(c)  == OpOk(c) /\ DeltaOk(c)

Init == cs \in Cases
Next == UNCHANGED cs

\* each limit is inclusive and is judged on its own: with one limit out of the way the other alone decides
Inclusive   == (cs.maxOp = "R" /\ cs.maxDelta = "D") => Accept(cs)
Independent ==
    /\ (cs.maxOp \in {"R", "R+1"} /\ cs.shape = "ordinary") => (Accept(cs) <=> cs.maxDelta \notin {"D-1"})
    /\ cs.maxDelta = "D-1" => ~Accept(cs)
    /\ cs.maxOp = "R-1" => ~Accept(cs)
\* raising a limit never turns an accepted request into a refused one
Monotone ==
    \A a \in Anchors :
        /\ (Accept(cs) /\ Val(a, cs.shape) >= Val(cs.maxOp, cs.shape)) => Accept([cs EXCEPT !.maxOp = a])
        /\ (Accept(cs) /\ Val(a, cs.shape) >= Val(cs.maxDelta, cs.shape)) => Accept([cs EXCEPT !.maxDelta = a])
=============================================================================
