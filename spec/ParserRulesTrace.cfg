CONSTANTS
  KeyIds = {1, 2}
  Mems = {1}
  MaxLen = 3
  MaxDev = 0
  TD = 1
  KTs = {"ed", "p256", "p384", "p521", "k1"}
  DefKT = "p256"
  Cube = FALSE
  TraceFile = "parser_trace.ndjson"
SPECIFICATION TraceSpec
CONSTRAINT HighWater
POSTCONDITION TraceAccepted
CHECK_DEADLOCK FALSE
