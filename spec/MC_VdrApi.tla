----------------------------- MODULE MC_VdrApi -----------------------------
EXTENDS VdrApi, Json
DumpStep == PrintT(<<"CASE", ToJson([kind |-> call'.kind, m |-> call'.m, h |-> call'.h, d |-> call'.d,
                                     ok |-> call'.ok, closed |-> closed])>>)
=============================================================================
