------------------------------- MODULE Robust -------------------------------
(***************************************************************************)
(* C19: every entry point that takes bytes, strings or JSON-derived values *)
(* from outside answers with a value or an error.  The specification has   *)
(* one action, Call(plan), and an outcome alphabet of two letters; a       *)
(* panic, a crash of the process or a call that does not return within the *)
(* deadline is simply not a behaviour of this specification.  What the     *)
(* specification contributes beyond that is the PLAN SPACE: entry point x  *)
(* valid template x position in the template's JSON tree x replacement.    *)
(***************************************************************************)
EXTENDS Integers, Sequences, FiniteSets, TLC

CONSTANTS MaxPos,      \* node positions 0..MaxPos (taken modulo the template's node count)
          MaxChain     \* length of copy / move chains (0: none)

VARIABLES plan, outcome
vars == <<plan, outcome>>

Outcomes == {"ok", "err"}

\* entry point -> the valid templates it is fed
Templates ==
    \* (*_disabled: a well-formed request whose delta uses a known patch action that the protocol does not enable)
    [Parse               |-> {"create", "update", "recover", "deactivate", "update_disabled", "create_disabled"},
     GetRevealValue      |-> {"update", "recover", "deactivate", "create"},
     GetCommitment       |-> {"update", "recover", "deactivate", "create"},
     ParseDID            |-> {"longform"},
     ResolveDocument     |-> {"longform", "longform_disabled"},
     ProcessOperation    |-> {"create", "update", "recover", "deactivate", "create_disabled"},
     ParseJWS            |-> {"jws"},
     VerifyJWS           |-> {"jws", "jwk"},
     \* (the JWK decoder itself, on JSON text: members may be missing or null there - the typed JWK of the parser always has them)
     ParseJWK            |-> {"jwk", "jwk_ed", "jwk_k1"},
     \* (escapes: strings and names full of characters that are written as \u escapes; every prefix of the text is
     \* canonicalized too, in a buffer without spare capacity)
     MarshalCanonical    |-> {"create", "document", "escapes"},
     \* (patch_keys_ed: keys of the Ed25519 suites, given as JWK and as base58; patch_keys_multibase: an Ed25519 2020 key
     \* given the way resolved documents show it - as publicKeyMultibase, which validation does not admit today)
     PatchFromBytes      |-> {"patch_keys", "patch_jsonpatch", "patch_replace"},
     Validate            |-> {"patch_keys", "patch_keys_ed", "patch_keys_multibase", "patch_services", "patch_services_objects", "patch_jsonpatch", "patch_replace", "patch_aka", "patch_remove_keys"},
     \* (patch_jsonpatch_protected: replace operations that point into keys and services - refused by validation,
     \* which a direct caller of the composer does not have to use)
     ApplyPatches        |-> {"patch_jsonpatch_protected", "patch_keys", "patch_keys_ed", "patch_services", "patch_services_objects", "patch_jsonpatch", "patch_jsonpatch_array", "patch_replace", "patch_aka",
                              "patch_remove_keys", "patch_remove_services", "patch_remove_aka", "document"},
     \* (*_object_origin: the anchor origin is a JSON object, not a string)
     Apply               |-> {"create", "update", "recover", "deactivate", "update_disabled", "create_disabled", "recover_object_origin", "create_object_origin"},
     TransformDocument   |-> {"document", "patch_keys", "patch_keys_ed", "patch_keys_multibase", "patch_services", "patch_services_objects"},
     OriginalDocument    |-> {"document"}]

EntryPoints == DOMAIN Templates

\* what a node of the template is replaced by
Replacements == {"null", "true", "zero", "minus_one", "huge_number", "empty_string", "long_string", "empty_array", "empty_object",
                 "deep_nesting", "removed", "duplicated", "other_type", "string_of_number", "array_of_self", "negative_index",
                 "huge_index", "large_index", "varint_overflow", "pointer_into_own_source", "non_string_key_value", "unicode_garbage",
                 \* (a '~' that starts no escape; a value of the same shape - width, alphabet - that is not the value)
                 "stray_tilde", "same_shape_other_value",
                 \* (a short text that is deep: 48 nested lists / objects with a leaf that no rule accepts - work that doubles
                 \* per level never ends, although the text has a hundred bytes)
                 "deep_list_bad_leaf", "deep_object_bad_leaf",
                 \* (the shortest texts: one character - a prefix with nothing behind it - and three)
                 "one_char", "three_chars"}

\* chains of copy / move operations among a few locations of one document: a library that links nodes
\* instead of copying them must not be led into a cyclic document
ChainPtrs == {"/other", "/c", "/c/b", "/other/x", "/other/arr/0", "/c/b/y"}
ChainOps == {[op |-> o, from |-> f, path |-> p] : o \in {"copy", "move"}, f \in ChainPtrs, p \in ChainPtrs}
ChainOpsOf(k) == IF k = 3 THEN {c \in ChainOps : c.op = "copy"} ELSE ChainOps     \* (the longest chains: copies only)
Chains == UNION {[1..k -> ChainOpsOf(k)] : k \in 1..MaxChain}
ChainPlans == {[ep |-> "ApplyPatches", template |-> "alias_chain", pos |-> 0, repl |-> "unchanged", chain |-> c] : c \in Chains}

\* a json patch of pos copy operations that alternate between two members, each copying the one into the other: a text that
\* fits the default size limit of a delta (1 700 bytes) and whose result grows by the golden ratio per operation
GrowthPlans == {[ep |-> "ApplyPatches", template |-> "copy_growth", pos |-> n, repl |-> "unchanged", chain |-> <<>>] : n \in {12, 34}}

Plans == UNION {{[ep |-> e, template |-> t, pos |-> p, repl |-> r, chain |-> <<>>] : t \in Templates[e], p \in 0..MaxPos, r \in Replacements} :
                  e \in EntryPoints}
           \cup ChainPlans \cup GrowthPlans
ValidPlan(pl) == pl.template \in {"alias_chain", "copy_growth"} \/ pl.template \in Templates[pl.ep]

NoPlan == [ep |-> "none", template |-> "none", pos |-> 0, repl |-> "none", chain |-> <<>>]

Init == plan = NoPlan /\ outcome = "ok"

Call(pl) ==
    /\ plan = NoPlan
    /\ ValidPlan(pl)
    /\ plan' = pl
    /\ outcome' \in Outcomes

Next == \E pl \in Plans : Call(pl)

\* the only property there is
Answered == outcome \in Outcomes
=============================================================================
