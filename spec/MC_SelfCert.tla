----------------------------- MODULE MC_SelfCert -----------------------------
EXTENDS SelfCert, Json
DumpCase ==
    PrintT(<<"CASE", ToJson([patch |-> cs.base.delta.patch, ao |-> cs.base.sd.ao, ty |-> cs.base.sd.ty, h |-> cs.base.h,
                             algs |-> cs.algs, mod |-> cs.mod, ns |-> cs.ns, expected |-> Expected(cs)])>>)
=============================================================================
