---------------------------- MODULE MC_ClientDoc ----------------------------
EXTENDS ClientDoc, Json
AllMembers == <<"id", "type", "purposes", "publicKeyJwk", "publicKeyBase58", "custom", "serviceEndpoint", "priority", "recipientKeys", "routingKeys",
                "accept", "publicKey", "service", "alsoKnownAs">>
SetSeq(S) == SelectSeq(AllMembers, LAMBDA x : x \in S)
DumpCase == LET e == Expected(cs) IN
    PrintT(<<"CASE", ToJson([c |-> cs, ok |-> e.ok, members |-> SetSeq(e.members), fromProperty |-> SetSeq(e.fromProperty)])>>)
=============================================================================
