---------------------------- MODULE MC_HashCases ----------------------------
EXTENDS HashCases, Json
DumpCase == PrintT(<<"CASE", ToJson([c |-> cs, expected |-> Expected(cs)])>>)
=============================================================================
