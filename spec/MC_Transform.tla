---------------------------- MODULE MC_Transform ----------------------------
EXTENDS Transform, Json
\* sets of purposes are printed as the sub-sequence of Purposes (a stable order)
PP(k) == SelectSeq(Purposes, LAMBDA p : p \in k.pp)
Printable(c) == IF c.kind = "keys" THEN [c EXCEPT !.keys = [i \in 1..Len(c.keys) |-> [c.keys[i] EXCEPT !.pp = PP(c.keys[i])]]] ELSE c
DumpCase == PrintT(<<"CASE", ToJson([c |-> Printable(cs), expected |-> Expected(cs)])>>)
=============================================================================
