--------------------------- MODULE RegistryTrace ---------------------------
(***************************************************************************)
(* Linearizability of recorded registry histories.  The harness logs the   *)
(* invocation and the return of every Add / Register / Lookup call of N     *)
(* goroutines in real-time order (one atomic counter; Register refuses a    *)
(* key that is taken).                                                      *)
(* The point at which a call takes                                         *)
(* effect is not logged: it is a silent step Lin(g) that TLC may place     *)
(* anywhere between the call's invocation and its return.  The history is  *)
(* accepted iff some placement makes every return value the sequential     *)
(* map's.                                                                  *)
(***************************************************************************)
EXTENDS Integers, Sequences, FiniteSets, TLC, Json, TLCExt

CONSTANT TraceFile
TraceLog == ndJsonDeserialize(TraceFile)

VARIABLES amap, pending, l
tvars == <<amap, pending, l>>

NoVal == 0
Get(m, k) == IF k \in DOMAIN m THEN m[k] ELSE NoVal
Put(m, k, v) == [x \in DOMAIN m \cup {k} |-> IF x = k THEN v ELSE m[x]]

TraceInit == TLCSet(1, 0) /\ l = 1 /\ amap = <<>> /\ pending = <<>>

Ev == TraceLog[l]

TReset ==
    /\ l <= Len(TraceLog) /\ Ev.event = "Reset" /\ l' = l + 1
    /\ DOMAIN pending = {}
    /\ amap' = <<>> /\ pending' = <<>>

TInvoke ==
    /\ l <= Len(TraceLog) /\ Ev.event = "Invoke" /\ l' = l + 1
    /\ Ev.g \notin DOMAIN pending
    /\ pending' = Put(pending, Ev.g, [op |-> Ev.op, key |-> Ev.key, val |-> Ev.val, done |-> FALSE, res |-> 0])
    /\ UNCHANGED amap

\* silent: the pending call of goroutine g takes effect now
Lin(g) ==
    /\ g \in DOMAIN pending /\ ~pending[g].done
    /\ CASE pending[g].op = "add" ->
               /\ amap' = Put(amap, pending[g].key, pending[g].val)
               /\ pending' = [pending EXCEPT ![g].done = TRUE]
         \* register: test and set - accepted (1) when the key is free, refused (0, nothing changes) otherwise
         [] pending[g].op = "register" ->
               IF Get(amap, pending[g].key) = NoVal
               THEN /\ amap' = Put(amap, pending[g].key, pending[g].val)
                    /\ pending' = [pending EXCEPT ![g].done = TRUE, ![g].res = 1]
               ELSE /\ pending' = [pending EXCEPT ![g].done = TRUE, ![g].res = 0]
                    /\ UNCHANGED amap
         [] OTHER ->
               /\ pending' = [pending EXCEPT ![g].done = TRUE, ![g].res = Get(amap, pending[g].key)]
               /\ UNCHANGED amap
    /\ UNCHANGED l

TReturn ==
    /\ l <= Len(TraceLog) /\ Ev.event = "Return" /\ l' = l + 1
    /\ Ev.g \in DOMAIN pending /\ pending[Ev.g].done
    /\ pending[Ev.g].op = "add" \/ pending[Ev.g].res = Ev.res
    /\ pending' = [x \in DOMAIN pending \ {Ev.g} |-> pending[x]]
    /\ UNCHANGED amap

TraceNext == TReset \/ TInvoke \/ TReturn \/ \E g \in DOMAIN pending : Lin(g)
TraceSpec == TraceInit /\ [][TraceNext]_tvars

HighWater == TLCSet(1, IF l > TLCGet(1) THEN l ELSE TLCGet(1))
TraceAccepted ==
    IF TLCGet(1) = Len(TraceLog) + 1 THEN TRUE
    ELSE PrintT(<<"TRACE-REJECTED-AT-LINE", TLCGet(1)>>) /\ FALSE
=============================================================================
