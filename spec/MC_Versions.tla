---------------------------- MODULE MC_Versions ----------------------------
EXTENDS Versions, Json
\* every transition with its pre-state: the harness rebuilds the pre-state, makes the call on the
\* real registry / provider / namespace provider and compares the outcome
SeqOfSet(S) == LET RECURSIVE F(_) F(T) == IF T = {} THEN <<>> ELSE LET x == CHOOSE y \in T : TRUE IN <<x>> \o F(T \ {x}) IN F(S)
DumpStep ==
    PrintT(<<"CASE", ToJson([reg |-> SeqOfSet(reg), provs |-> provs, ns |-> [n \in Namespaces |-> ns[n]],
                             call |-> res'.call, arg |-> res'.arg, ok |-> res'.out.ok, out |-> res'.out.v,
                             regafter |-> SeqOfSet(reg'), nprovs |-> Len(provs'),
                             nsafter |-> [n \in Namespaces |-> ns'[n]],
                             cands |-> IF res'.call = "create" /\ res'.out.ok THEN SeqOfSet(Candidates(res'.out.v[1])) ELSE <<>>])>>)
View == <<reg, provs, ns>>
=============================================================================
