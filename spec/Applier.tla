------------------------------ MODULE Applier ------------------------------
(***************************************************************************)
(* The Sidetree v1 operation applier as a state machine over the resolved  *)
(* state (protocol.ResolutionModel), one action per public call            *)
(* operationapplier.Apply(op, rm).                                         *)
(*                                                                         *)
(* An operation is described by the OUTCOME of each independent check the  *)
(* protocol prescribes (well-formedness, reveal value, signature, delta    *)
(* hash, delta validity, signed suffix, anchoring window) plus the data it *)
(* carries (delta, next commitments, anchor origin, anchoring metadata).   *)
(* The harness concretizes such a record into real signed bytes; the       *)
(* specification says what the resolved state must be afterwards.          *)
(*                                                                         *)
(* Serves C01 (fold), C02 (authorization), C09 (window), C12 (atomicity).  *)
(***************************************************************************)
EXTENDS Integers, Sequences, FiniteSets, TLC

CONSTANTS
    KeyIds,     \* ids of document keys that deltas add / remove
    Mems,       \* ids of "other" document members (ietf-json-patch targets)
    MaxLen,     \* histories of length <= MaxLen
    MaxDev,     \* every operation deviates from its type's default in <= MaxDev fields
    TD,         \* protocol.MaxOperationTimeDelta (abstract ticks)
    KTs,        \* signing key types to enumerate as deviations
    DefKT,      \* default signing key type
    Cube        \* TRUE: add the full (from, until) cube for every type (C09)

VARIABLES rm, len, hist

vars == <<rm, len, hist>>

-----------------------------------------------------------------------------
(* Documents: an ordered list of key ids and a set of other members.       *)

EmptyDoc == [keys |-> <<>>, mem |-> {}]

Has(s, i) == \E j \in 1..Len(s) : s[j] = i
Without(s, i) == SelectSeq(s, LAMBDA x : x # i)

\* The effect of a delta's patch list on a document: ok = the patch list applies.
\* A failing list yields no partial document (ok = FALSE, document untouched).
ApplyDelta(doc, d) ==
    CASE d.k = "addkey"  -> [ok |-> TRUE,
                             doc |-> [doc EXCEPT !.keys = IF Has(@, d.i) THEN @ ELSE Append(@, d.i)]]
      [] d.k = "remkey"  -> [ok |-> TRUE, doc |-> [doc EXCEPT !.keys = Without(@, d.i)]]
      [] d.k = "replace" -> [ok |-> TRUE, doc |-> [keys |-> <<d.i>>, mem |-> {}]]
      [] d.k = "addmem"  -> [ok |-> TRUE, doc |-> [doc EXCEPT !.mem = @ \cup {d.i}]]
      [] d.k = "remmem"  -> IF d.i \in doc.mem
                            THEN [ok |-> TRUE, doc |-> [doc EXCEPT !.mem = @ \ {d.i}]]
                            ELSE [ok |-> FALSE, doc |-> doc]
      \* two patches: add key i, then remove member 1 (fails at the 2nd patch when absent)
      [] d.k = "addkey_remmem" ->
                            IF 1 \in doc.mem
                            THEN [ok |-> TRUE,
                                  doc |-> [keys |-> IF Has(doc.keys, d.i) THEN doc.keys ELSE Append(doc.keys, d.i),
                                           mem |-> doc.mem \ {1}]]
                            ELSE [ok |-> FALSE, doc |-> doc]

DeltaKinds == {"addkey", "remkey", "replace", "addmem", "remmem", "addkey_remmem"}

-----------------------------------------------------------------------------
(* Anchoring window (C09).                                                 *)

EffUntil(from, until) == IF from # 0 /\ until = 0 THEN from + TD ELSE until

InWindow(from, until, t) ==
    \/ from = 0 /\ until = 0
    \/ from <= t /\ t <= EffUntil(from, until)

-----------------------------------------------------------------------------
(* The resolved state.                                                     *)

NilRM(p, u) ==
    [exists |-> FALSE, doc |-> EmptyDoc, upd |-> 0, rec |-> 0, deact |-> FALSE, ao |-> 0,
     created |-> 0, updated |-> 0, lastT |-> 0, lastN |-> 0, lastPV |-> 0,
     ver |-> 0, canon |-> 0, equiv |-> 0, pub |-> p, unpub |-> u]

Known(o) == o.type \in {"create", "update", "recover", "deactivate"}

\* the delta is bound by hash and passes delta validation
DeltaOk(o) == o.dhash /\ o.dv = "ok"

\* C02: the operation is signed by the key it reveals
Authorized(o) == o.wf = "ok" /\ o.reveal = "ok" /\ o.sig = "ok"

Refused(s, o) ==
    \/ ~Known(o)
    \/ o.type = "create" /\ s.exists
    \/ o.type # "create" /\ ~s.exists
    \/ o.wf # "ok"
    \/ o.type # "create" /\ ~Authorized(o)
    \/ o.type = "update" /\ ~DeltaOk(o)
    \/ o.type = "deactivate" /\ (~o.sfx \/ ~InWindow(o.from, o.until, o.t))

Book(s, o) == [s EXCEPT !.lastT = o.t, !.lastN = o.n, !.lastPV = o.pv, !.ver = o.ref]

\* state after an ACCEPTED operation
Post(s, o) ==
    CASE o.type = "create" ->
            LET ad == ApplyDelta(EmptyDoc, o.delta) IN
            Book([s EXCEPT !.exists = TRUE,
                           !.doc = IF DeltaOk(o) /\ ad.ok THEN ad.doc ELSE EmptyDoc,
                           !.upd = IF DeltaOk(o) THEN o.nu ELSE 0,
                           !.rec = o.nr, !.ao = o.ao, !.deact = FALSE,
                           !.created = o.t, !.updated = 0,
                           !.canon = o.ref, !.equiv = o.eq], o)
      [] o.type = "update" ->
            LET ad == ApplyDelta(s.doc, o.delta) IN
            Book([s EXCEPT !.doc = IF InWindow(o.from, o.until, o.t) /\ ad.ok THEN ad.doc ELSE @,
                           !.upd = o.nu, !.deact = FALSE, !.updated = o.t], o)
      [] o.type = "recover" ->
            LET ad == ApplyDelta(EmptyDoc, o.delta) IN
            Book([s EXCEPT !.doc = IF DeltaOk(o) /\ InWindow(o.from, o.until, o.t) /\ ad.ok
                                   THEN ad.doc ELSE EmptyDoc,
                           !.upd = IF DeltaOk(o) THEN o.nu ELSE 0,
                           !.rec = o.nr, !.ao = o.ao, !.deact = FALSE, !.updated = o.t,
                           !.canon = o.ref, !.equiv = o.eq], o)
      [] o.type = "deactivate" ->
            Book([s EXCEPT !.doc = EmptyDoc, !.upd = 0, !.rec = 0, !.deact = TRUE,
                           !.updated = o.t], o)

Step(s, o) == IF Refused(s, o) THEN s ELSE Post(s, o)

-----------------------------------------------------------------------------
(* The operation alphabet: per type a default operation and every          *)
(* deviation from it in at most MaxDev fields.  Position-dependent values  *)
(* ("norm") are resolved when the operation is applied, so that every      *)
(* operation of a history carries values distinguishable from all earlier  *)
(* ones (a field wrongly carried over or wrongly overwritten then shows).  *)

WfBadCommon == {"badjson", "nosuffix", "nosigneddata", "reveal_mh", "reveal_long", "badjws",
                "extrahdr", "algnone", "algdisallowed", "noalg", "nokey", "badkey", "crv",
                "nonce", "payloadjson"}
WfBad(type) ==
    CASE type = "create"     -> {"badjson", "nosuffixdata", "rc_mh", "dh_mh", "rc_long"}
      [] type = "update"     -> WfBadCommon \cup {"dh_mh"}
      [] type = "recover"    -> WfBadCommon \cup {"dh_mh", "rc_mh", "reuse"}
      [] type = "deactivate" -> WfBadCommon
      [] OTHER               -> {}

\* ways in which the compact JWS fails to verify under the key embedded in its payload (C02):
\* a flipped signature bit, a signature by another private key, a truncated / padded signature,
\* a signed-payload field or protected header changed without re-signing, mangled segments
SigBad == {"bitflip", "otherkey", "trunc", "pad", "payload_field", "hdr_changed",
           "seg_hdr", "seg_payload", "seg_extra", "seg_missing"}

DvBad == {"nodelta", "nopatches", "disabled", "invalidpatch", "noaction", "upd_mh", "toolarge"}

Deltas == [k : {"addkey", "remkey", "replace"}, i : KeyIds]
            \cup [k : {"addmem", "remmem"}, i : Mems]
            \cup [k : {"addkey_remmem"}, i : KeyIds]

DefDelta == [k |-> "addkey", i |-> CHOOSE i \in KeyIds : \A j \in KeyIds : i <= j]

Default(type) ==
    [type |-> type, wf |-> "ok", reveal |-> "ok", sig |-> "ok", dhash |-> TRUE, dv |-> "ok",
     sfx |-> TRUE, delta |-> DefDelta, from |-> 0, until |-> 0,
     m |-> "norm", nuv |-> "norm", aov |-> "norm", kt |-> DefKT, h |-> 256]

HasSig(type)   == type \in {"update", "recover", "deactivate"}
HasDelta(type) == type \in {"create", "update", "recover"}

\* field -> the values by which an operation of this type may deviate from the default
DevVals(type) ==
    [wf     |-> WfBad(type),
     reveal |-> IF HasSig(type) THEN {"other"} ELSE {},
     sig    |-> IF HasSig(type) THEN SigBad ELSE {},
     dhash  |-> IF HasDelta(type) THEN {FALSE} ELSE {},
     dv     |-> IF HasDelta(type) THEN DvBad ELSE {},
     sfx    |-> IF type = "deactivate" THEN {FALSE} ELSE {},
     delta  |-> IF HasDelta(type) THEN Deltas \ {DefDelta} ELSE {},
     from   |-> IF HasSig(type) THEN 1..(MaxLen + 1) ELSE {},
     until  |-> IF HasSig(type) THEN 1..(MaxLen + 1) ELSE {},
     m      |-> {"regress", "zero"},
     nuv    |-> IF HasDelta(type) THEN {"equal"} ELSE {},
     aov    |-> IF type \in {"create", "recover"} THEN {"absent", "obj"} ELSE {},
     kt     |-> IF HasSig(type) THEN KTs \ {DefKT} ELSE {},
     h      |-> {512}]

Dev1(o) == LET dv == DevVals(o.type) IN
           UNION { {[o EXCEPT ![f] = v] : v \in dv[f]} : f \in DOMAIN dv }

RECURSIVE DevN(_, _)
DevN(S, n) == IF n = 0 THEN S ELSE DevN(S \cup UNION {Dev1(o) : o \in S}, n - 1)

OpTypes == {"create", "update", "recover", "deactivate"}

WindowCube ==
    IF Cube
    THEN { [Default(ty) EXCEPT !.from = f, !.until = u, !.m = mm] :
             ty \in {"update", "recover", "deactivate"}, f \in 0..(MaxLen + 1), u \in 0..(MaxLen + 1),
             mm \in {"norm", "zero"} }
    ELSE {}

Alphabet == DevN({Default(ty) : ty \in OpTypes}, MaxDev)
              \cup {[Default("create") EXCEPT !.type = "bogus"]}
              \cup WindowCube

\* resolve the position-dependent fields of an alphabet operation applied at position p
Resolve(a, p) ==
    LET t  == CASE a.m = "norm" -> p [] a.m = "regress" -> 1 [] a.m = "zero" -> 0
        nr == 2 * p
        nu == IF a.nuv = "norm" THEN 2 * p - 1 ELSE nr
        ao == CASE a.aov = "norm" -> p [] a.aov = "absent" -> 0 [] a.aov = "obj" -> 100 + p
    IN  [type |-> a.type, wf |-> a.wf, reveal |-> a.reveal, sig |-> a.sig, dhash |-> a.dhash,
         dv |-> a.dv, sfx |-> a.sfx, delta |-> a.delta, from |-> a.from, until |-> a.until,
         t |-> t,
         n |-> IF a.m = "zero" THEN 0 ELSE IF a.m = "regress" THEN 1 ELSE 20 + p,
         pv |-> IF a.m = "zero" THEN 0 ELSE 40 + p,
         ref |-> IF a.m = "zero" THEN 0 ELSE p,
         eq |-> IF a.m = "zero" THEN 0 ELSE p,
         nu |-> nu, nr |-> nr, ao |-> ao, kt |-> a.kt, h |-> a.h]

-----------------------------------------------------------------------------
Init == /\ rm \in {NilRM(p, u) : p \in {0, 1}, u \in {0, 1}}
        /\ len = 0
        /\ hist = <<>>

\* histories stop at the first accepted deactivate
Apply(a) ==
    /\ len < MaxLen
    /\ ~rm.deact
    /\ LET o == Resolve(a, len + 1) IN
         /\ rm' = Step(rm, o)
         /\ hist' = Append(hist, o)
    /\ len' = len + 1

Next == \E a \in Alphabet : Apply(a)

Spec == Init /\ [][Next]_vars

-----------------------------------------------------------------------------
(* Properties.  On the model they follow from the definitions (they are    *)
(* checked anyway: they document the design and guard the specification    *)
(* against edits); on a trace of the real code they are NOT true by        *)
(* construction, and ApplierTrace checks them at every observed step.      *)

DeactivatedShape == rm.deact => rm.exists /\ rm.doc = EmptyDoc /\ rm.upd = 0 /\ rm.rec = 0

NilUntilCreate == ~rm.exists => rm = NilRM(rm.pub, rm.unpub)

UpdNeedsRec == rm.exists /\ ~rm.deact => rm.rec # 0   \* an active DID always has a recovery commitment

LastOp == hist'[Len(hist')]

\* C01: created time is set by create only
CreatedImmutable == [][rm.exists => rm'.created = rm.created]_vars

\* C01: the recovery commitment, anchor origin and canonical / equivalent references change
\* only through create / recover / deactivate
RecOnlyByRecoveryOps ==
    [][(rm'.rec # rm.rec \/ rm'.ao # rm.ao \/ rm'.canon # rm.canon \/ rm'.equiv # rm.equiv)
          => LastOp.type \in {"create", "recover", "deactivate"}]_vars

\* C01 / C02: an operation that is not authorized, or is refused, leaves the state in force
UnauthorizedIsStutter ==
    [][(LastOp.type # "create" /\ ~Authorized(LastOp)) => rm' = rm]_vars

\* C02: document content is installed only from a delta bound by the signed hash
DocNeedsBoundDelta ==
    [][(rm'.doc # rm.doc /\ rm'.doc # EmptyDoc) => DeltaOk(LastOp) /\ LastOp.wf = "ok"]_vars

\* C09: an out-of-window operation never changes document content (it may empty it: recover)
OutOfWindowKeepsDoc ==
    [][(LastOp.type # "create" /\ ~InWindow(LastOp.from, LastOp.until, LastOp.t))
          => (rm'.doc = rm.doc \/ rm'.doc = EmptyDoc)]_vars

\* C01: operation lists are carried unchanged
OpListsCarried == [][rm'.pub = rm.pub /\ rm'.unpub = rm.unpub]_vars

\* C09 design facts about the window
WindowFacts ==
    \A f \in 0..(MaxLen + 1), u \in 0..(MaxLen + 1), t \in 0..(MaxLen + 1) :
        /\ (f # 0 /\ u = 0) => (InWindow(f, u, t) <=> (f <= t /\ t <= f + TD))
        /\ (u # 0) => (InWindow(f, u, t) <=> (f <= t /\ t <= u))
        /\ (f = 0 /\ u = 0) => InWindow(f, u, t)

=============================================================================
