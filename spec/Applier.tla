------------------------------ MODULE Applier ------------------------------
(***************************************************************************)
(* The Sidetree v1 operation applier as a state machine over the resolved  *)
(* state (protocol.ResolutionModel), one action per public call            *)
(* operationapplier.Apply(op, rm).                                         *)
(*                                                                         *)
(* An operation is described by the OUTCOME of each independent check the  *)
(* protocol prescribes (well-formedness, reveal value, signature, delta    *)
(* hash, delta validity, signed suffix, anchoring window) plus the data it *)
(* carries (delta, next commitments, anchor origin, anchoring metadata).   *)
(* The harness concretizes such a record into real signed bytes; the       *)
(* specification says what the resolved state must be afterwards.          *)
(*                                                                         *)
(* Serves C01 (fold), C02 (authorization), C09 (window), C12 (atomicity).  *)
(***************************************************************************)
EXTENDS Ops

VARIABLES rm, len, hist

vars == <<rm, len, hist>>

-----------------------------------------------------------------------------
(* The resolved state.                                                     *)

NilRM(p, u) ==
    [exists |-> FALSE, doc |-> EmptyDoc, upd |-> 0, rec |-> 0, deact |-> FALSE, ao |-> 0,
     created |-> 0, updated |-> 0, lastT |-> 0, lastN |-> 0, lastPV |-> 0,
     ver |-> 0, canon |-> 0, equiv |-> 0, pub |-> p, unpub |-> u]

Known(o) == o.type \in {"create", "update", "recover", "deactivate"}

\* the delta is bound by hash and passes delta validation
DeltaOk(o) == o.dhash /\ o.dv = "ok"

\* C02: the operation is signed by the key it reveals
Authorized(o) == o.wf = "ok" /\ o.reveal = "ok" /\ o.sig = "ok"

Refused(s, o) ==
    \/ ~Known(o)
    \/ o.type = "create" /\ s.exists
    \/ o.type # "create" /\ ~s.exists
    \/ o.wf # "ok"
    \/ o.type # "create" /\ ~Authorized(o)
    \/ o.type = "update" /\ ~DeltaOk(o)
    \/ o.type = "deactivate" /\ (~o.sfx \/ ~InWindow(o.from, o.until, o.t))

Book(s, o) == [s EXCEPT !.lastT = o.t, !.lastN = o.n, !.lastPV = o.pv, !.ver = o.ref]

\* state after an ACCEPTED operation
Post(s, o) ==
    CASE o.type = "create" ->
            LET ad == ApplyDelta(EmptyDoc, o.delta) IN
            Book([s EXCEPT !.exists = TRUE,
                           !.doc = IF DeltaOk(o) /\ ad.ok THEN ad.doc ELSE EmptyDoc,
                           !.upd = IF DeltaOk(o) THEN o.nu ELSE 0,
                           !.rec = o.nr, !.ao = o.ao, !.deact = FALSE,
                           !.created = o.t, !.updated = 0,
                           !.canon = o.ref, !.equiv = o.eq], o)
      [] o.type = "update" ->
            LET ad == ApplyDelta(s.doc, o.delta) IN
            Book([s EXCEPT !.doc = IF InWindow(o.from, o.until, o.t) /\ ad.ok THEN ad.doc ELSE @,
                           !.upd = o.nu, !.deact = FALSE, !.updated = o.t], o)
      [] o.type = "recover" ->
            LET ad == ApplyDelta(EmptyDoc, o.delta) IN
            Book([s EXCEPT !.doc = IF DeltaOk(o) /\ InWindow(o.from, o.until, o.t) /\ ad.ok
                                   THEN ad.doc ELSE EmptyDoc,
                           !.upd = IF DeltaOk(o) THEN o.nu ELSE 0,
                           !.rec = o.nr, !.ao = o.ao, !.deact = FALSE, !.updated = o.t,
                           !.canon = o.ref, !.equiv = o.eq], o)
      [] o.type = "deactivate" ->
            Book([s EXCEPT !.doc = EmptyDoc, !.upd = 0, !.rec = 0, !.deact = TRUE,
                           !.updated = o.t], o)

Step(s, o) == IF Refused(s, o) THEN s ELSE Post(s, o)

-----------------------------------------------------------------------------
Init == /\ \E p \in {0, 1}, u \in {0, 1} : rm = NilRM(p, u)
        /\ len = 0
        /\ hist = <<>>

\* histories stop at the first accepted deactivate
Apply(a) ==
    /\ len < MaxLen
    /\ ~rm.deact
    /\ LET o == Resolve(a, len + 1) IN
         /\ rm' = Step(rm, o)
         /\ hist' = Append(hist, o)
    /\ len' = len + 1

Next == \E a \in Alphabet : Apply(a)

Spec == Init /\ [][Next]_vars

-----------------------------------------------------------------------------
(* Properties.  On the model they follow from the definitions (they are    *)
(* checked anyway: they document the design and guard the specification    *)
(* against edits); on a trace of the real code they are NOT true by        *)
(* construction, and ApplierTrace checks them at every observed step.      *)

DeactivatedShape == rm.deact => rm.exists /\ rm.doc = EmptyDoc /\ rm.upd = 0 /\ rm.rec = 0

NilUntilCreate == ~rm.exists => rm = NilRM(rm.pub, rm.unpub)

UpdNeedsRec == rm.exists /\ ~rm.deact => rm.rec # 0   \* an active DID always has a recovery commitment

LastOp == hist'[Len(hist')]

\* C01: created time is set by create only
CreatedImmutable == [][rm.exists => rm'.created = rm.created]_vars

\* C01: the recovery commitment, anchor origin and canonical / equivalent references change
\* only through create / recover / deactivate
RecOnlyByRecoveryOps ==
    [][(rm'.rec # rm.rec \/ rm'.ao # rm.ao \/ rm'.canon # rm.canon \/ rm'.equiv # rm.equiv)
          => LastOp.type \in {"create", "recover", "deactivate"}]_vars

\* C01 / C02: an operation that is not authorized, or is refused, leaves the state in force
UnauthorizedIsStutter ==
    [][(LastOp.type # "create" /\ ~Authorized(LastOp)) => rm' = rm]_vars

\* C02: document content is installed only from a delta bound by the signed hash
DocNeedsBoundDelta ==
    [][(rm'.doc # rm.doc /\ rm'.doc # EmptyDoc) => DeltaOk(LastOp) /\ LastOp.wf = "ok"]_vars

\* C09: an out-of-window operation never changes document content (it may empty it: recover)
OutOfWindowKeepsDoc ==
    [][(LastOp.type # "create" /\ ~InWindow(LastOp.from, LastOp.until, LastOp.t))
          => (rm'.doc = rm.doc \/ rm'.doc = EmptyDoc)]_vars

\* C01: operation lists are carried unchanged
OpListsCarried == [][rm'.pub = rm.pub /\ rm'.unpub = rm.unpub]_vars

\* C09 design facts about the window
WindowFacts ==
    \A f \in (-1)..(MaxLen + 1), u \in (-1)..(MaxLen + 1), t \in 0..(MaxLen + 1) :
        /\ (f # 0 /\ u = 0) => (InWindow(f, u, t) <=> (f <= t /\ t <= f + TD))
        /\ (u # 0) => (InWindow(f, u, t) <=> (f <= t /\ t <= u))
        /\ (f = 0 /\ u = 0) => InWindow(f, u, t)

=============================================================================
