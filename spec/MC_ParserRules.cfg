\* C07: requests x relative protocol configurations, <= MaxDev deviations in total
CONSTANTS
  KeyIds = {1, 2}
  Mems = {1}
  MaxLen = 3
  MaxDev = 1
  TD = 1
  KTs = {"ed", "p256", "p384", "p521", "k1"}
  DefKT = "p256"
  Cube = FALSE
INIT Init
NEXT Next
CONSTRAINT DumpCase
INVARIANTS DefaultsAccepted BoundariesInclusive
CHECK_DEADLOCK FALSE
