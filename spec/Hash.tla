-------------------------------- MODULE Hash --------------------------------
(***************************************************************************)
(* Hashing, commitments and DID suffixes as symbolic terms over an IDEAL   *)
(* hash (a free constructor: equal digests iff equal inputs).  The harness *)
(* evaluates the same terms with SHA-2 of the Go standard library, its own *)
(* multihash framing and its own JCS, and compares with what the library   *)
(* returns.  Serves C03, C04, C06.                                         *)
(***************************************************************************)
EXTENDS Integers, Sequences, FiniteSets, TLC

Algs == {256, 512}

\* JCS is the identity on abstract values: two spellings of one value are one value
JCS(v)      == <<"JCS", v>>
H(a, x)     == <<"H", a, x>>
MH(a, d)    == <<"MH", a, d>>
B64(x)      == <<"B64", x>>

ModelHash(v, a)  == B64(MH(a, H(a, JCS(v))))
Reveal(k, a)     == ModelHash(k, a)
Commit(k, a)     == B64(MH(a, H(a, H(a, JCS(k)))))

\* deriving the commitment from a reveal value: re-hash the digest carried by the multihash
CommitFromReveal(rv) ==
    LET mh == rv[2] IN B64(MH(mh[2], H(mh[2], mh[3])))

AlgOf(h) == h[2][2]

\* IsValid(v, h): h was computed from a value equal to v with the algorithm named in h
IsValid(v, h) == h = ModelHash(v, AlgOf(h))
=============================================================================
