\* EXT: the compact JWS surface of pkg/jwsutil
SPECIFICATION Spec
CONSTRAINT DumpCase
INVARIANTS VerifiedIsSigned RoundTrip DetachedNeedsPayload ProtectedWins
CHECK_DEADLOCK FALSE
