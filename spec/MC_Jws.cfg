INIT Init
NEXT Next
CONSTRAINT DumpCase
INVARIANTS OnlyUntamperedVerifies
CHECK_DEADLOCK FALSE
