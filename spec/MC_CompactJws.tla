--------------------------- MODULE MC_CompactJws ---------------------------
EXTENDS CompactJws, Json
\* one line per finished call: the call, the outcome, the headers of the JWS
DumpCase == (phase = "done") =>
    PrintT(<<"CASE", ToJson([c |-> call, res |-> res, headers |-> IF res = "make-refused" THEN NoJws.headers ELSE jws.headers,
                             segment |-> IF Len(text) = 3 /\ text[2] # "" THEN "payload" ELSE "empty",
                             payload |-> IF res = "verified" THEN parsed.payload ELSE "none"])>>)
=============================================================================
