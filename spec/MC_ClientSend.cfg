INIT Init
NEXT Next
ACTION_CONSTRAINT DumpDone
INVARIANTS AttemptsShape FreshRescues OkMeansDelivered NoTokenNoPost
CHECK_DEADLOCK FALSE
