------------------------------ MODULE MC_Chain ------------------------------
EXTENDS Chain, Json
\* every complete chain (ended by a deactivate, or of maximal length)
DumpChain == Complete => PrintT(<<"CHAIN", ToJson([ops |-> ops])>>)
=============================================================================
