INIT Init
NEXT Next
CONSTRAINT DumpCase
INVARIANTS SelfCertifying SuffixInjective
CHECK_DEADLOCK FALSE
