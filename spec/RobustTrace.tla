---------------------------- MODULE RobustTrace ----------------------------
(* every recorded call of the real code ended in one of the two outcomes *)
EXTENDS Robust, Json, TLCExt
CONSTANT TraceFile
TraceLog == ndJsonDeserialize(TraceFile)
VARIABLE l
TraceInit == TLCSet(1, 0) /\ l = 1 /\ plan = NoPlan /\ outcome = "ok"
TraceCall ==
    /\ l <= Len(TraceLog) /\ TraceLog[l].event = "Call" /\ l' = l + 1
    /\ TraceLog[l].ep \in EntryPoints
    /\ outcome' = TraceLog[l].outcome
    /\ outcome' \in Outcomes
    /\ plan' = plan
TraceSpec == TraceInit /\ [][TraceCall]_<<vars, l>>
HighWater == TLCSet(1, IF l > TLCGet(1) THEN l ELSE TLCGet(1))
TraceAccepted ==
    IF TLCGet(1) = Len(TraceLog) + 1 THEN TRUE
    ELSE PrintT(<<"TRACE-REJECTED-AT-LINE", TLCGet(1)>>) /\ FALSE
=============================================================================
