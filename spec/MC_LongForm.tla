---------------------------- MODULE MC_LongForm ----------------------------
EXTENDS LongForm, Json
\* repeated creations (the harness demands identical DIDs) and resolution probes
DumpStep ==
    \/ /\ calls' # calls
       /\ LET a == CHOOSE x \in Args : calls'[x] # calls[x] IN
          PrintT(<<"CASE", ToJson([kind |-> "create", doc |-> DocOf(a), keys |-> KeysOf(a), call |-> calls'[a],
                                   resolves |-> TRUE, probe |-> NoProbe])>>)
    \/ /\ processed' # processed
       /\ PrintT(<<"CASE", ToJson([kind |-> "process", doc |-> processed'.doc, keys |-> 1, call |-> 0,
                                   resolves |-> Resolves(ReturnedDID(processed')), probe |-> NoProbe, shape |-> processed'.shape,
                                   same |-> SameRequest(processed'.shape), refused |-> MustRefuse(processed'.shape)])>>)
    \/ /\ calls' = calls /\ processed' = processed
       /\ PrintT(<<"CASE", ToJson([kind |-> "resolve", doc |-> probe'.doc, keys |-> 1, call |-> 0,
                                   resolves |-> Resolves(probe'), probe |-> probe', decided |-> Decided(probe')])>>)
View == <<calls, probe, processed>>
=============================================================================
