---------------------------- MODULE MC_LongForm ----------------------------
EXTENDS LongForm, Json
\* repeated creations (the harness demands identical DIDs) and resolution probes
DumpStep ==
    \/ /\ calls' # calls
       /\ LET a == CHOOSE x \in Args : calls'[x] # calls[x] IN
          PrintT(<<"CASE", ToJson([kind |-> "create", doc |-> DocOf(a), keys |-> KeysOf(a), call |-> calls'[a],
                                   resolves |-> TRUE, probe |-> NoProbe])>>)
    \/ /\ calls' = calls
       /\ PrintT(<<"CASE", ToJson([kind |-> "resolve", doc |-> probe'.doc, keys |-> 1, call |-> 0,
                                   resolves |-> Resolves(probe'), probe |-> probe'])>>)
View == <<calls, probe>>
=============================================================================
