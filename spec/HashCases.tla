------------------------------ MODULE HashCases ------------------------------
(***************************************************************************)
(* C06: model hashes are content addresses.  A JSON value is (identity,    *)
(* spelling): two spellings of one identity are equal JSON values, JCS     *)
(* forgets the spelling.  An encoded hash string is either the well-formed *)
(* model hash of some value under a supported algorithm, or belongs to one *)
(* of the malformed / unsupported classes.                                 *)
(***************************************************************************)
EXTENDS Hash

CONSTANT NValues

VARIABLE cs

Val(id, sp) == [id |-> id, sp |-> sp]
Canon(v) == v.id                                  \* what JCS keeps of a value
MHash(v, a) == ModelHash(Canon(v), a)

Supported == {256, 512}
\* sha2-256, sha2-512, sha3-256, sha1, identity, unknown, and two registered two-byte codes whose low byte is that of
\* sha2-256 (0x1012 sha2-256-trunc254-padded, 0xb212 blake2b-144)
Codes == {256, 512, 3256, 160, 0, 9999, 4114, 45586}

\* encoded strings that are not the model hash of anything under a supported algorithm
BadClasses == {"bad_base64url_char", "padded", "empty", "not_a_multihash", "wrong_length_field",
               "truncated_digest", "trailing_bytes", "unsupported_sha3", "unsupported_sha1", "unknown_code",
               "short_digest_supported_code", "unsupported_two_byte_code"}

\* classes the multihash decoder can read: they have a prefix, so a code is reported
Decodable(c) == c \in {"unsupported_sha3", "unsupported_sha1", "unknown_code", "short_digest_supported_code", "unsupported_two_byte_code"}
CodeOf(c, a) == CASE c = "wellformed" -> a
                  [] c = "unsupported_sha3" -> 3256
                  [] c = "unsupported_sha1" -> 160
                  [] c = "unknown_code" -> 9999
                  [] c = "unsupported_two_byte_code" -> 4114
                  [] c = "short_digest_supported_code" -> a

Rels == {"same", "reserialized", "modified"}
Related(v, rel) == CASE rel = "same" -> v
                     [] rel = "reserialized" -> Val(v.id, v.sp + 1)
                     [] rel = "modified" -> Val(v.id + 1000, v.sp)

\* (lists in every order, with repetitions and with codes of algorithms that are not supported: a list is a list)
CodeLists == {<<>>, <<256>>, <<512>>, <<256, 512>>, <<512, 256>>, <<3256, 512, 256>>, <<512, 160, 256>>, <<512, 512>>, <<3256, 160>>, <<4114, 256>>}
InList(a, l) == \E i \in 1..Len(l) : l[i] = a

Cases ==
    \* CalculateModelMultihash(value, code)
    {[kind |-> "calc", v |-> id, code |-> c, rel |-> "same", alg |-> 256, class |-> "wellformed", codes |-> <<>>] :
        id \in 1..NValues, c \in Codes}
    \* IsValidModelMultihash(related value, hash of value)
    \cup {[kind |-> "valid", v |-> id, code |-> a, rel |-> r, alg |-> a, class |-> "wellformed", codes |-> <<>>] :
        id \in 1..NValues, r \in Rels, a \in Supported}
    \cup {[kind |-> "valid", v |-> id, code |-> a, rel |-> "same", alg |-> a, class |-> c, codes |-> <<>>] :
        id \in 1..NValues, a \in Supported, c \in BadClasses}
    \* GetMultihashCode / IsComputedUsingMultihashAlgorithms
    \cup {[kind |-> "code", v |-> 1, code |-> a, rel |-> "same", alg |-> a, class |-> c, codes |-> l] :
        a \in Supported, c \in BadClasses \cup {"wellformed"}, l \in CodeLists}

Expected(c) ==
    CASE c.kind = "calc" ->
            [ok |-> c.code \in Supported, reportsCode |-> FALSE, code |-> 0, computedWith |-> FALSE]
      [] c.kind = "valid" ->
            \* valid exactly when the string is the well-formed hash of an equal JSON value
            [ok |-> c.class = "wellformed" /\ MHash(Related(Val(c.v, 1), c.rel), c.alg) = MHash(Val(c.v, 1), c.alg),
             reportsCode |-> FALSE, code |-> 0, computedWith |-> FALSE]
      [] c.kind = "code" ->
            LET dec == c.class = "wellformed" \/ Decodable(c.class) IN
            [ok |-> dec, reportsCode |-> dec, code |-> IF dec THEN CodeOf(c.class, c.alg) ELSE 0,
             computedWith |-> dec /\ InList(CodeOf(c.class, c.alg), c.codes)]

Init == cs \in Cases
Next == UNCHANGED cs

\* content addressing on the model: equal hashes iff equal JSON values (ideal hash)
ContentAddress ==
    \A id \in 1..NValues : \A r \in Rels : \A a \in Supported :
        (MHash(Related(Val(id, 1), r), a) = MHash(Val(id, 1), a)) <=> (r # "modified")
AlgorithmInPrefix == \A id \in 1..NValues : MHash(Val(id, 1), 256) # MHash(Val(id, 1), 512)
=============================================================================
