------------------------------ MODULE Transform ------------------------------
(***************************************************************************)
(* C18: transforming a resolved state into a DID resolution result.        *)
(*                                                                         *)
(* Keys: every internal key appears exactly once as a verification method  *)
(* (id qualified with the DID, or relative under an @base context;         *)
(* controller = DID; material preserved or converted for the Ed25519 2018  *)
(* / 2020 types) and is referenced from exactly the relationships named by *)
(* its purposes; contexts = DID context, method contexts, @base, one       *)
(* context per key type in order of first use.  Metadata: commitments,     *)
(* anchor origin, flags, times, ids as given; operations in anchoring      *)
(* order (time, then number), published ones de-duplicated by canonical    *)
(* reference.                                                              *)
(***************************************************************************)
EXTENDS Integers, Sequences, FiniteSets, SequencesExt, TLC

VARIABLE cs

Purposes == <<"authentication", "assertionMethod", "keyAgreement", "capabilityDelegation", "capabilityInvocation">>
PurposeSet == {Purposes[i] : i \in 1..Len(Purposes)}
Relationship(p) == IF p = "capabilityDelegation" THEN "capabilityDelegation"
                   ELSE IF p = "capabilityInvocation" THEN "capabilityInvocation" ELSE p

KeyTypes == {"Bls12381G2Key2020", "JsonWebKey2020", "EcdsaSecp256k1VerificationKey2019",
             "X25519KeyAgreementKey2019", "Ed25519VerificationKey2018", "Ed25519VerificationKey2020"}
AgreementTypes == {"Bls12381G2Key2020", "JsonWebKey2020", "EcdsaSecp256k1VerificationKey2019", "X25519KeyAgreementKey2019"}
VerificationTypes == KeyTypes \ {"X25519KeyAgreementKey2019"}
Permitted(type, p) == IF p = "keyAgreement" THEN type \in AgreementTypes ELSE type \in VerificationTypes

\* how the key material appears outside, given the type and the form it has inside
MaterialOut(type, inside) ==
    CASE inside = "b58" -> "base58-as-given"
      [] inside = "jwk" /\ type = "Ed25519VerificationKey2018" -> "base58-of-ed25519-key"
      [] inside = "jwk" /\ type = "Ed25519VerificationKey2020" -> "multibase-base58btc-of-ed25519-key"
      [] OTHER -> "jwk-as-given"

Key(id, type, pp, mat) == [id |-> id, type |-> type, pp |-> pp, mat |-> mat]

\* validated keys: purposes permitted for the type; base58 material only for non-JWK types
KeyVariants(id) ==
    {Key(id, t, pp, m) : t \in KeyTypes, pp \in SUBSET PurposeSet, m \in {"jwk", "b58"}}

ValidKey(k) ==
    /\ \A p \in k.pp : Permitted(k.type, p)
    /\ k.mat = "b58" => k.type \in {"Ed25519VerificationKey2018", "Ed25519VerificationKey2020", "X25519KeyAgreementKey2019"}
    /\ k.type = "X25519KeyAgreementKey2019" => k.mat = "b58"

-----------------------------------------------------------------------------
(* what the transformation must produce for a key list *)

QualifiedID(prefix, id, base) == [relative |-> base, prefix |-> prefix, id |-> id]   \* "#id" or did "#id"

VMs(keys, base) ==
    [i \in 1..Len(keys) |->
        [id |-> QualifiedID("k", keys[i].id, base), type |-> keys[i].type, controller |-> "did",
         material |-> MaterialOut(keys[i].type, keys[i].mat)]]

\* ids of the keys having purpose p, in document order
Rel(keys, p, base) ==
    LET idx == SelectSeq([i \in 1..Len(keys) |-> i], LAMBDA i : p \in keys[i].pp)
    IN [j \in 1..Len(idx) |-> QualifiedID("k", keys[idx[j]].id, base)]

\* one context per key type used, in order of first use
RECURSIVE TypeContexts(_, _)
TypeContexts(keys, seen) ==
    IF keys = <<>> THEN <<>>
    ELSE IF Head(keys).type \in seen THEN TypeContexts(Tail(keys), seen)
    ELSE <<Head(keys).type>> \o TypeContexts(Tail(keys), seen \cup {Head(keys).type})

Contexts(keys, base, methodCtx) ==
    <<"did-v1">> \o (IF methodCtx THEN <<"method-context">> ELSE <<>>) \o (IF base THEN <<"@base">> ELSE <<>>)
       \o TypeContexts(keys, {})

-----------------------------------------------------------------------------
(* operations in anchoring order *)
Before(a, b) == a.t < b.t \/ (a.t = b.t /\ a.n < b.n)
SameSlot(a, b) == a.t = b.t /\ a.n = b.n

SortOps(ops) == SortSeq(ops, LAMBDA a, b : Before(a, b))

\* keep the first operation of every canonical reference
RECURSIVE Dedup(_, _)
Dedup(ops, seen) ==
    IF ops = <<>> THEN <<>>
    ELSE IF Head(ops).ref \in seen THEN Dedup(Tail(ops), seen)
    ELSE <<Head(ops)>> \o Dedup(Tail(ops), seen \cup {Head(ops).ref})

\* the outcome is determined by the statement only when no two operations that the order has to
\* separate (the same canonical reference) share a (time, number) slot
Deterministic(ops) == \A i, j \in 1..Len(ops) : i # j /\ ops[i].ref = ops[j].ref => ~SameSlot(ops[i], ops[j])

Slots(ops) == [i \in 1..Len(ops) |-> [t |-> ops[i].t, n |-> ops[i].n]]

-----------------------------------------------------------------------------
(* the cases *)
SecondKeys == {Key(2, "JsonWebKey2020", {"authentication", "keyAgreement"}, "jwk"),
               Key(2, "Ed25519VerificationKey2018", {"assertionMethod"}, "b58"),
               Key(2, "Bls12381G2Key2020", {}, "jwk")}

\* (keyCtx: the transformer is made with the default contexts of the key types or with a map of the caller's - the contexts
\* listed are then the caller's, everything else - material conversion included - is as before)
KeyCases ==
    {[kind |-> "keys", keys |-> <<k>>, base |-> b, methodCtx |-> m, services |-> s, keyCtx |-> kc] :
        k \in {x \in KeyVariants(1) : ValidKey(x)}, b \in BOOLEAN, m \in {FALSE}, s \in {0}, kc \in {"default", "custom"}}
    \cup {[kind |-> "keys", keys |-> <<k, k2>>, base |-> b, methodCtx |-> m, services |-> s] :
        k \in {x \in KeyVariants(1) : ValidKey(x) /\ Cardinality(x.pp) <= 1}, k2 \in SecondKeys,
        b \in BOOLEAN, m \in BOOLEAN, s \in {0, 2}}
    \cup {[kind |-> "keys", keys |-> <<>>, base |-> b, methodCtx |-> FALSE, services |-> s] : b \in BOOLEAN, s \in {0, 1, 2}}

Slot == [t : 0..2, n : 0..2]
OpsOfLen(k) == [1..k -> [t : 0..2, n : 0..2, ref : {1, 2}]]
OpCases(maxLen) ==
    {[kind |-> "ops", ops |-> o, published |-> p] :
        o \in UNION {OpsOfLen(k) : k \in 0..maxLen}, p \in BOOLEAN}

\* the two lists and the two options: a state holds operations in its published list, in its unpublished list, or in
\* both (the SAME requests: an operation that was anchored and is still waiting in the unpublished store), and either
\* transformer ("did": the DID transformer, "doc": the generic document transformer) is made with every combination of
\* the two include options.  Each list is reported exactly when ITS option is set, whatever the other list holds.
SmallOpsOfLen(k) == [1..k -> [t : 0..1, n : 0..1, ref : {1, 2}]]
OptCases ==
    {[kind |-> "opts", ops |-> o, inPub |-> a, inUnpub |-> b, inclPub |-> ip, inclUnpub |-> iu, tr |-> t] :
        o \in UNION {SmallOpsOfLen(k) : k \in 1..2}, a \in BOOLEAN, b \in BOOLEAN, ip \in BOOLEAN, iu \in BOOLEAN, t \in {"did", "doc"}}

\* metadata fields: each present / absent, published or not
MetaCases ==
    {[kind |-> "meta", upd |-> u, rec |-> r, ao |-> a, deact |-> d, published |-> p, created |-> c, updated |-> up, ver |-> v,
      canonical |-> ci, equivalent |-> e] :
        u \in BOOLEAN, r \in BOOLEAN, a \in {0, 1, 2}, d \in BOOLEAN, p \in BOOLEAN, c \in {0, 5, 7}, up \in {0, 7}, v \in BOOLEAN,
        ci \in BOOLEAN, e \in BOOLEAN}

CONSTANT MaxOps

Cases == KeyCases \cup OpCases(MaxOps) \cup OptCases \cup MetaCases

Expected(c) ==
    CASE c.kind = "keys" ->
            [vms |-> VMs(c.keys, c.base),
             rels |-> [i \in 1..Len(Purposes) |-> Rel(c.keys, Purposes[i], c.base)],
             contexts |-> Contexts(c.keys, c.base, c.methodCtx)]
      [] c.kind = "ops" ->
            LET sorted == SortOps(c.ops)
                out == IF c.published THEN Dedup(sorted, {}) ELSE sorted
            IN [slots |-> Slots(out), deterministic |-> (~c.published \/ Deterministic(c.ops)), count |-> Len(out)]
      [] c.kind = "opts" ->
            LET pub == IF c.inPub THEN c.ops ELSE <<>>
                unpub == IF c.inUnpub THEN c.ops ELSE <<>>
            IN [pubSlots |-> IF c.inclPub THEN Slots(Dedup(SortOps(pub), {})) ELSE <<>>,
                unpubSlots |-> IF c.inclUnpub THEN Slots(SortOps(unpub)) ELSE <<>>,
                deterministic |-> Deterministic(c.ops)]
      [] c.kind = "meta" ->
            [created |-> c.published,                       \* created is reported for published states
             updated |-> c.ver /\ c.updated > 0,            \* updated only with a version id and a non-zero time
             versionId |-> c.ver,
             deactivated |-> c.deact, updateCommitment |-> c.upd, recoveryCommitment |-> c.rec, anchorOrigin |-> c.ao # 0,
             canonicalId |-> c.canonical, equivalentId |-> c.equivalent]

Init == cs \in Cases
Next == UNCHANGED cs

-----------------------------------------------------------------------------
\* every key exactly once as a verification method, referenced from exactly its purposes
ExactlyOnce ==
    cs.kind = "keys" =>
        LET e == Expected(cs) IN
        /\ Len(e.vms) = Len(cs.keys)
        /\ \A i \in 1..Len(cs.keys) : \A j \in 1..Len(Purposes) :
              (Purposes[j] \in cs.keys[i].pp) <=>
                 (\E x \in 1..Len(e.rels[j]) : e.rels[j][x].id = cs.keys[i].id)

\* the sorted list is sorted and a permutation; de-duplication keeps one operation per reference
SortedOps ==
    cs.kind = "ops" =>
        LET s == SortOps(cs.ops) IN
        /\ Len(s) = Len(cs.ops)
        /\ \A i \in 1..(Len(s) - 1) : ~Before(s[i + 1], s[i])
        /\ \A o \in Range(cs.ops) : Cardinality({i \in 1..Len(s) : s[i] = o}) = Cardinality({i \in 1..Len(cs.ops) : cs.ops[i] = o})
        /\ LET d == Dedup(s, {}) IN Cardinality({d[i].ref : i \in 1..Len(d)}) = Len(d)

\* an option governs its own list only
OptionsIndependent ==
    cs.kind = "opts" =>
        LET e == Expected(cs) IN
        /\ (e.pubSlots # <<>>) => (cs.inclPub /\ cs.inPub)
        /\ (e.unpubSlots # <<>>) <=> (cs.inclUnpub /\ cs.inUnpub)
        /\ (cs.inclUnpub /\ cs.inUnpub) => Len(e.unpubSlots) = Len(cs.ops)      \* (every unpublished operation, also one that is published too)
=============================================================================
