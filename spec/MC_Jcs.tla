------------------------------- MODULE MC_Jcs -------------------------------
(* The exhaustive value universe for C05 and the layout table *)
EXTENDS Jcs, Json

CONSTANT Depth     \* 1: leaves inside one container; 2: one more level of nesting

VARIABLE cs

\* code points chosen to hit every class: a " \ / BS LF US DEL e-acute euro U+D7FF U+E000 U+FB33 U+1F600
Names == {<<>>, <<97>>, <<128512>>, <<64307>>, <<97, 98>>, <<8364>>, <<34>>, <<10>>, <<233, 97>>}
\* further names for the two-member objects: an even supplementary plane (U+20000), U+10FFFF, and names whose
\* order changes when they are compared in their quoted / escaped form (" and controls against letters,
\* a name against the same name followed by a space)
MoreNames == {<<131072>>, <<1114111>>, <<97, 34, 98>>, <<97, 65, 98>>, <<97, 32>>, <<32>>, <<48>>, <<0>>, <<97, 10, 98>>, <<97, 32, 98>>}
Strings == {<<>>, <<97>>, <<34, 92, 47>>, <<8, 10, 31>>, <<12, 13, 9>>, <<127, 233>>, <<8364, 55295>>, <<57344, 64307>>, <<128512, 97>>, <<0, 27>>,
            <<131072, 1114111>>, <<128, 159, 255>>}
Numbers == {Num(<<0>>, 1, FALSE), Num(<<0>>, 1, TRUE), Num(<<1>>, 1, FALSE), Num(<<1>>, 22, FALSE), Num(<<1>>, 21, FALSE),
            Num(<<1>>, -5, FALSE), Num(<<1>>, -6, FALSE), Num(<<1, 5>>, -6, TRUE), Num(<<1, 2, 3>>, 2, FALSE),
            Num(<<1, 2, 3>>, 3, FALSE), Num(<<1, 2, 3>>, 5, TRUE), Num(<<5>>, -323, FALSE),
            Num(<<1, 7, 9, 7, 6, 9, 3, 1, 3, 4, 8, 6, 2, 3, 1, 5, 7>>, 309, FALSE), Num(<<9>>, 0, FALSE), Num(<<9, 9>>, 1, FALSE),
            \* 2^53 and 2^60: whole numbers whose neighbours / exact expansions are other integer literals of the same double
            Num(<<9, 0, 0, 7, 1, 9, 9, 2, 5, 4, 7, 4, 0, 9, 9, 2>>, 16, FALSE),
            Num(<<1, 1, 5, 2, 9, 2, 1, 5, 0, 4, 6, 0, 6, 8, 4, 7>>, 19, TRUE)}
Leaves == {Str(s) : s \in Strings} \cup Numbers \cup {Lit("true"), Lit("false"), Lit("null")}

SmallLeaves == {Str(<<97>>), Str(<<34, 92, 47>>), Num(<<1>>, 1, FALSE), Num(<<1, 5>>, -6, TRUE), Lit("null")}
SmallNames == {<<97>>, <<128512>>, <<64307>>, <<>>}

Objects(vals, names, maxLen) ==
    {Obj(<<>>)}
    \cup {Obj(<<Member(k, v)>>) : k \in names, v \in vals}
    \cup (IF maxLen >= 2
          THEN {Obj(<<Member(p[1], v1), Member(p[2], v2)>>) :
                  p \in {q \in names \X names : q[1] # q[2]}, v1 \in vals, v2 \in vals}
          ELSE {})

Arrays(vals) == {Arr(<<>>)} \cup {Arr(<<v>>) : v \in vals} \cup {Arr(<<v1, v2>>) : v1 \in vals, v2 \in vals}

Level1 == Objects(Leaves, Names \cup MoreNames, 1) \cup Objects(SmallLeaves, Names, 2) \cup Arrays(Leaves)
            \cup Objects({Lit("null")}, Names \cup MoreNames, 2)
\* three-member objects: every order of three names whose UTF-16 order differs from code-point order
Triples == {Obj(<<Member(p[1], Lit("null")), Member(p[2], Lit("true")), Member(p[3], Num(<<1>>, 1, FALSE))>>) :
              p \in {q \in Names \X Names \X Names : q[1] # q[2] /\ q[1] # q[3] /\ q[2] # q[3]}}
Inner == Objects(SmallLeaves, SmallNames, 2) \cup Arrays(SmallLeaves)
Level2 == {Obj(<<Member(<<97>>, x)>>) : x \in Inner} \cup {Arr(<<x>>) : x \in Inner}
            \cup {Obj(<<Member(<<128512>>, x), Member(<<64307>>, Lit("null"))>>) : x \in Inner}

Universe == Level1 \cup Triples \cup (IF Depth >= 2 THEN Level2 ELSE {})

Init == cs \in Universe
Next == UNCHANGED cs

DumpCase == PrintT(<<"CASE", ToJson([v |-> cs, canon |-> Canon(cs)])>>)

\* spelling the members of an object in another order does not change the canonical form
Reversed(v) == IF v.t = "obj" THEN Obj(Reverse(v.o)) ELSE v
OrderInsensitive == Canon(Reversed(cs)) = Canon(cs)
AllWellFormed == WellFormed(cs)

\* U+1F600 (surrogates D83D DE00) sorts before U+FB33 although its code point is larger
Utf16Order == NameLess(<<128512>>, <<64307>>) /\ ~NameLess(<<64307>>, <<128512>>) /\ NameLess(<<>>, <<97>>)

\* the layout function is total over the whole range of doubles, and its classes meet at the
\* boundaries ECMA-262 names
LayoutBoundaries ==
    /\ Layout(<<1>>, 21) = Digits(<<1>>) \o Zeros(20)                    \* 1e20 written out: 100000000000000000000
    /\ Layout(<<1>>, 22) = <<49, 101, 43, 50, 49>>                        \* 1e+21
    /\ Layout(<<1>>, -5) = <<48, 46, 48, 48, 48, 48, 48, 49>>            \* 0.000001
    /\ Layout(<<1>>, -6) = <<49, 101, 45, 55>>                            \* 1e-7
    /\ Layout(<<1, 2, 3>>, 2) = <<49, 50, 46, 51>>                        \* 12.3
    /\ Layout(<<1, 5>>, -6) = <<49, 46, 53, 101, 45, 55>>                 \* 1.5e-7
=============================================================================
