\* EXT: the request builders as decision tables over their inputs
INIT Init
NEXT Next
CONSTRAINT DumpCase
INVARIANTS SignedWithAlg NoReuse WindowAsGiven DeactivateKeyUnchecked
CHECK_DEADLOCK FALSE
