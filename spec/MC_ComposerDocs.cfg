\* C14: the distinct documents of the composer model (one DOC line per document)
CONSTANTS
  KIds = {1, 2}
  KVers = {1, 2}
  SIds = {1}
  SVers = {1, 2}
  URIs = {1, 2}
  ONames = {1, 2}
  MaxAdd = 2
  MaxLen = 3
  ListLens = {1}
  WithJP = TRUE
  WithBroken = FALSE
INIT Init
NEXT Next
VIEW View
CONSTRAINT DumpDoc
INVARIANTS UniqueIds RoundTrip
CHECK_DEADLOCK FALSE
