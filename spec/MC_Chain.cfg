\* C04: every well-formed chain create -> (update | recover)* -> deactivate up to MaxLen operations
CONSTANTS
  MaxLen = 6
  Alg = 256
INIT Init
NEXT Next
CONSTRAINT DumpChain
INVARIANTS Algebra Linked DeactivateEnds
CHECK_DEADLOCK FALSE
