---------------------------- MODULE MC_Applier ----------------------------
EXTENDS Applier, Json

\* every explored transition, with the BFS witness path of its source state
DumpEdge ==
    LET o == hist'[Len(hist')] IN
    PrintT(<<"EDGE", ToJson([path |-> hist, op |-> o, post |-> rm',
                             refused |-> Refused(rm, o),
                             win |-> [from |-> o.from, until |-> EffUntil(o.from, o.until),
                                      inw |-> InWindow(o.from, o.until, o.t)]])>>)

\* the history is an output-only variable
View == <<rm, len>>

AlphabetSize == Cardinality(Alphabet)
=============================================================================
