"""Per-property pipelines. Every check runs TLC *and* binds it to the code rebuilt from /repo."""
import json
import os
import random
import re
import subprocess

from vlib import Ctx, Infra, NCPU  # noqa: F401

KTS = ["ed", "p256", "p384", "p521", "k1"]


def kts_for(ctx, n):
    r = random.Random(ctx.seed)
    k = KTS[:]
    r.shuffle(k)
    return k[:n]


def q(s):
    return '"%s"' % s


# ---------------------------------------------------------------------------------------------
# trace validation helper shared by the state-machine families

def validate_trace(ctx, family, gen_args, module, cfg, tracename, overrides=None, histories=0, key_of=None,
                   corrupt=None):
    """harness records a trace from the real code; TLC validates it; a negative control corrupts
    one recorded field and demands a rejection at exactly that line."""
    path = os.path.join(ctx.work, tracename)
    ctx.harness([family + "-trace"] + gen_args + ["-o", path])
    lines = open(path).read().splitlines()
    bad = ctx.tlc_trace(module, cfg, path, tracename, overrides=overrides, histories=histories,
                        label="trace validation %s (%d events)" % (family, len(lines)))
    if bad is not None:
        # the rejected step, with the history that leads to it (from the last Reset)
        idx = min(bad, len(lines)) - 1
        start = idx
        while start > 0 and json.loads(lines[start]).get("event") != "Reset":
            start -= 1
        hist = [json.loads(x) for x in lines[start:idx + 1]]
        ev = hist[-1]
        key = "trace:" + (key_of(ev) if key_of else json.dumps(ev.get("op", ev), sort_keys=True)[:80])
        ctx.add_violation({
            "kind": "trace-rejected", "key": key,
            "detail": "TLC rejects the behaviour observed on the real code at trace line %d" % bad,
            "case": {"history": hist},
            "replay": {"kind": "trace", "family": family, "gen_args": gen_args, "module": module, "cfg": cfg,
                       "tracename": tracename, "overrides": overrides or {}, "seed": ctx.seed, "line": bad},
        })
        return
    if len(ctx.cov["samples"]) < 5:
        ctx.cov["samples"].append({"trace_events": [json.loads(x) for x in lines[:3]]})
    # negative control
    if corrupt:
        r = random.Random(ctx.seed)
        cand = [i for i, x in enumerate(lines) if corrupt(json.loads(x)) is not None]
        if not cand:
            raise Infra("negative control: nothing to corrupt in the trace")
        i = r.choice(cand)
        lines2 = lines[:]
        lines2[i] = json.dumps(corrupt(json.loads(lines[i])))
        p2 = os.path.join(ctx.work, "neg_" + tracename)
        open(p2, "w").write("\n".join(lines2) + "\n")
        # the corrupted copy takes the place of the trace file
        os.replace(p2, path)
        got = ctx.tlc_trace(module, cfg, path, tracename, overrides=overrides, count=False,
                            label="negative control: corrupted trace line %d" % (i + 1))
        ok = got == i + 1
        ctx.cov["negative_controls"].append(
            {"kind": "one corrupted recorded field makes TLC reject the trace at that line", "line": i + 1,
             "rejected_at": got, "ok": ok})
        if not ok:
            raise Infra("vacuous binding: corrupted trace line %d, TLC answered %s" % (i + 1, got))


# ---------------------------------------------------------------------------------------------
# Applier family: C01 C02 C09 C12

def applier_opkey(ev):
    o = ev.get("op", {})
    return "%s:wf=%s:sig=%s:reveal=%s:dhash=%s:dv=%s:win=%s,%s,%s" % (
        o.get("type"), o.get("wf"), o.get("sig"), o.get("reveal"), o.get("dhash"), o.get("dv"), o.get("from"),
        o.get("until"), o.get("t"))


def corrupt_applier(ev):
    if ev.get("event") != "Apply":
        return None
    ev = json.loads(json.dumps(ev))
    ev["post"]["lastN"] += 1
    return ev


def bump(field):
    def f(rec):
        rec["post"][field] += 1
    return f


APPLIER_ASSUME = [
    "SHA-2, ECDSA and Ed25519 of the Go standard library are correct (ideal hash / signature in the model)",
    "the concretizer builds the request bytes with its own JCS / multihash / JWS code, the projector maps the "
    "real ResolutionModel back with tables built by the concretizer; neither holds an expected value",
    "matching reveal values to stored commitments is the operation processor's job (outside the library)",
]


def c01(ctx):
    ctx.rule = ("TLC enumerates every history of length <= MaxLen over the operation alphabet (per type the "
                "default operation and every deviation in <= MaxDev fields: each failure class of every check, "
                "every delta kind, window bounds, metadata variants, anchor origin forms, key types, hash "
                "algorithms); every explored edge is replayed from its witness path through "
                "operationapplier.Apply and all 16 projected fields plus the error verdict are compared. "
                "distinct_nontrivial counts distinct operation shapes (type/wf/sig/reveal/dv/delta) replayed. "
                "Then random histories run on the real code are trace-validated by TLC.")
    ctx.assumptions = APPLIER_ASSUME
    kt = kts_for(ctx, 1)[0]
    if ctx.tier == "quick":
        runs = [({"MaxLen": 3, "MaxDev": 1, "DefKT": q(kt)}, "histories <= 3, single deviations")]
        ntrace, maxlen = 300, 40
    else:
        runs = [({"MaxLen": 5, "MaxDev": 1, "DefKT": q(kt)}, "histories <= 5, single deviations"),
                ({"MaxLen": 2, "MaxDev": 2, "DefKT": q(kt), "KTs": "{%s}" % q(kt)}, "histories <= 2, every pair of deviations")]
        ntrace, maxlen = 5000, 40
    first = None
    for ov, label in runs:
        _, summ = ctx.tlc_pipe("MC_Applier.tla", "MC_Applier.cfg", ["applier-replay", "-td", "1"], overrides=ov,
                               label="exhaustive replay: " + label)
        first = first or summ["_first_edge"]
    ctx.negctl_replay(["applier-replay", "-td", "1"], first, bump("upd"))
    validate_trace(ctx, "applier", ["-n", str(ntrace), "-maxlen", str(maxlen), "-td", "1"], "ApplierTrace.tla",
                   "ApplierTrace.cfg", "applier_trace.ndjson", histories=ntrace, key_of=applier_opkey,
                   corrupt=corrupt_applier)
    if ctx.tier != "quick":
        applier_proofs(ctx)
    ctx.exhaustive = False


def applier_proofs(ctx):
    """thorough tier: the design-level invariants and action properties of Applier.tla, proved by TLAPS for
    histories of any length over any alphabet (spec/proofs/ApplierProofs.tla)"""
    n = ctx.tlaps_check("ApplierProofs.tla",
                        label="TLAPS: Inv inductive (DeactivatedShape, NilUntilCreate, UpdNeedsRec) and the action "
                              "properties UnauthorizedIsStutter, OpListsCarried, CreatedImmutable, RecOnlyByRecoveryOps, "
                              "DocNeedsBoundDelta, OutOfWindowKeepsDoc for unbounded histories, any alphabet")
    ctx.assumptions.append("TLAPS proofs (%d obligations) are about the specification; the code is bound to the "
                           "specification by the replay and trace validation stages" % n)


def c02(ctx):
    ctx.rule = ("TLC enumerates update / recover / deactivate operations whose compact JWS fails in each tamper "
                "class of the specification (signature bit, other private key, truncated / padded signature, signed "
                "payload field or protected header changed without re-signing, mangled segments, substituted reveal "
                "value, substituted delta, extra / altered headers, algorithm substitution) against every state "
                "reachable in <= 2 operations; the harness expands each class to every concrete instance (every "
                "signature bit, every payload field, every segment variant) and applies it to the untampered "
                "previous state. Expected outcome from the specification: refused (recover with a substituted "
                "delta: applied with an empty document). The untampered operation is the positive control.")
    ctx.assumptions = APPLIER_ASSUME + ["single tampers (and pairs with every other single deviation of the alphabet "
                                        "at the thorough tier); cryptographic strength is not examined"]
    kts = kts_for(ctx, 2) if ctx.tier == "quick" else KTS
    first = None
    for kt in kts:
        ov = {"MaxLen": 2, "MaxDev": 1, "DefKT": q(kt), "KTs": "{%s}" % q(kt)}
        _, summ = ctx.tlc_pipe("MC_Applier.tla", "MC_Applier.cfg", ["applier-replay", "-td", "1", "-expand"],
                               overrides=ov, label="tamper classes expanded, key type " + kt)
        first = first or summ["_first_edge"]
        ctx.cov["evaluations"] += summ["extra"]["tamper_instances"]
        if not ctx.violations and summ["extra"]["tamper_instances"] < 500:
            raise Infra("tamper expansion did not run")
    if ctx.tier == "thorough":
        kt = kts_for(ctx, 1)[0]
        ov = {"MaxLen": 2, "MaxDev": 2, "DefKT": q(kt), "KTs": "{%s}" % q(kt)}
        ctx.tlc_pipe("MC_Applier.tla", "MC_Applier.cfg", ["applier-replay", "-td", "1"], overrides=ov,
                     label="every pair of deviations, key type " + kt)
    ctx.negctl_replay(["applier-replay", "-td", "1"], first, bump("rec"))
    if ctx.tier != "quick":
        applier_proofs(ctx)


def c09(ctx):
    ctx.rule = ("TLC enumerates update / recover / deactivate operations with every (from, until) in (0..5)^2 at "
                "every anchoring time 0..4 (positions 1..4 and the zero-time metadata variant), i.e. all orderings "
                "and equalities incl. t = from, t = until, t = from + delta, for the maximum operation time delta "
                "in {0, 1, 2, 3, 2 * 10^10}; the replay compares the resulting state (document changed / commitments advanced / "
                "refused) and the (from, until) pair the parser hands to a recording time validator; then the same "
                "edges are replayed with every other numeric protocol limit changed in turn, and with every non-zero time "
                "moved up by 2^53 and by 2^63 - 6 (the largest bound becomes the largest int64; thorough: also 2^62).")
    ctx.assumptions = APPLIER_ASSUME
    # 0: a missing until then means until = from; 2 000 000 000 abstract ticks: "longer than any history" (the harness
    # configures 2 * 10^10 seconds for it - more than a count of nanoseconds can hold)
    tds = [0, 1, 2, 3, 2000000000]
    first = None
    saved = {}
    for td in tds:
        sv = os.path.join(ctx.work, "window_edges_%d.ndjson" % td)
        _, summ = ctx.tlc_pipe("MC_Applier.tla", "MC_Applier_window.cfg",
                               ["applier-replay", "-td", str(td), "-parser", "-save", sv],
                               overrides={"TD": td}, label="window cube, time delta %d" % td)
        saved[td] = sv
        first = first or summ["_first_edge"]
        if not ctx.violations and summ["extra"]["time_validator_checks"] == 0:
            raise Infra("time validator binding did not run")
    nvar = 14
    variants = list(range(1, nvar))
    if ctx.tier == "quick":
        random.Random(ctx.seed).shuffle(variants)
        variants = sorted(set(variants[:3] + [4, 5]))  # the delta size limit is always among them
    for v in variants:
        td = tds[v % len(tds)]
        with open(saved[td]) as f:
            summ = ctx.harness_json(["applier-replay", "-td", str(td), "-parser", "-pvariant", str(v)], f.read())
        ctx.cov["evaluations"] += summ["cases"]
        ctx.cov["traces_validated_against_impl"] += summ["cases"]
        ctx.cov["stages"].append({"stage": "window cube under protocol variant %d (time delta %d)" % (v, td),
                                  "replayed": summ["cases"], "mismatches": summ["n_mismatch"]})
        for m in summ.get("mismatches") or []:
            m["key"] = "pvariant%d:" % v + m.get("key", "")
            ctx.add_violation(m)
    # the same edges with every non-zero time moved up by 2^53 (and, thorough, by 2^62): whole numbers that a double does
    # not hold exactly - an order-preserving map, the model's verdicts stay
    # (2^63 - 6 with time delta 0: the largest bound of the cube becomes the largest int64)
    pairs = [(2 ** 53, 1), (2 ** 63 - 6, 0)] if ctx.tier == "quick" else [(2 ** 53, 0), (2 ** 53, 1), (2 ** 53, 3), (2 ** 62, 1), (2 ** 63 - 6, 0)]
    for off, td in pairs:
        if True:
            with open(saved[td]) as f:
                summ = ctx.harness_json(["applier-replay", "-td", str(td), "-parser", "-toffset", str(off)], f.read())
            ctx.cov["evaluations"] += summ["cases"]
            ctx.cov["traces_validated_against_impl"] += summ["cases"]
            ctx.cov["stages"].append({"stage": "window cube with all times moved up by %d (time delta %d)" % (off, td),
                                      "replayed": summ["cases"], "mismatches": summ["n_mismatch"]})
            for m in summ.get("mismatches") or []:
                m["key"] = "toffset%d:" % off + m.get("key", "")
                ctx.add_violation(m)
    ctx.negctl_replay(["applier-replay", "-td", "1", "-parser"], first, bump("updated"))
    if ctx.tier != "quick":
        applier_proofs(ctx)
    ctx.exhaustive = True


def c12_applier(ctx):
    kt = kts_for(ctx, 1)[0]
    ov = {"MaxLen": 3 if ctx.tier == "quick" else 4, "MaxDev": 1, "DefKT": q(kt)}
    only = "input-mutated,error-with-state,panic"
    _, summ = ctx.tlc_pipe("MC_Applier.tla", "MC_Applier.cfg", ["applier-replay", "-td", "1", "-only", only, "-private-states"],
                           overrides=ov, label="applier: input digests before/after on every edge")
    return summ


# ---------------------------------------------------------------------------------------------
# Composer family: C10 C12 C14

COMPOSER_ASSUME = [
    "documents are projected to (id, content digest) lists; absent / null / [] key, service and also-known-as lists "
    "are the same abstract document",
    "the patch alphabet holds validated patches (C13 decides what validation admits) and, for C12, six objects that are no patches (no / unknown action, the action's value member missing)",
    "RFC 6902 is modelled for object members one and two levels deep (no arrays)",
]

COMPOSER_BIG = {"KIds": "{1, 2, 3}", "SIds": "{1, 2}", "URIs": "{1, 2, 3}"}


def composer_runs(ctx):
    if ctx.tier == "quick":
        return [({"MaxLen": 3, "ListLens": "{1}"}, "documents within 3 single-patch applications"),
                ({"MaxLen": 1, "ListLens": "{2}"}, "every two-patch list on the empty document")]
    big = dict(COMPOSER_BIG)
    big.update({"MaxLen": 4, "ListLens": "{1}"})
    return [(big, "3 key ids, 2 service ids, 3 URIs: documents within 4 single-patch applications"),
            ({"MaxLen": 2, "ListLens": "{2}"}, "every two-patch list on every document reachable by one")]


def corrupt_composer(ev):
    if ev.get("event") != "Apply" or not ev.get("ok"):
        return None
    ev = json.loads(json.dumps(ev))
    ev["post"]["aka"] = ev["post"]["aka"] + [1]
    return ev


def composer_key(ev):
    ps = ev.get("patches") or []
    return ",".join(p.get("a", "?") + "".join(":" + j["op"] for j in p.get("ops", [])) for p in ps)


def bump_doc(rec):
    rec["post"]["aka"] = rec["post"]["aka"] + [2, 1]


def c10(ctx):
    ctx.rule = ("TLC explores the document graph reachable from the empty document by validated patches of all eight "
                "actions (ids colliding with, partially overlapping and missing existing entries, an unknown id, "
                "re-adds, replace, RFC 6902 add/remove/replace/move/copy/test on further members incl. lists failing "
                "at the 2nd operation) and checks UniqueIds / ReplaceForgets / RoundTrip on every document; every "
                "explored edge is replayed from its witness path through doccomposer.ApplyPatches and the projected "
                "document and the applies / fails verdict are compared. distinct_nontrivial counts distinct patch-list "
                "shapes. Random sequences of validated patch lists on the real composer are then trace-validated by TLC.")
    ctx.assumptions = COMPOSER_ASSUME
    first = None
    for ov, label in composer_runs(ctx):
        _, summ = ctx.tlc_pipe("MC_Composer.tla", "MC_Composer.cfg", ["composer-replay"], overrides=ov,
                               label="exhaustive replay: " + label, timeout=3000)
        first = first or summ["_first_edge"]
    # the same model with two URIs that differ as strings only (equal after URL normalisation): set union and
    # difference are over the URIs as given
    ov, label = composer_runs(ctx)[-1]
    ctx.tlc_pipe("MC_Composer.tla", "MC_Composer.cfg", ["composer-replay"], overrides=ov, timeout=3000,
                 env_extra={"VERIF_TWIN_URIS": "1"}, label="exhaustive replay, twin URIs: " + label)
    # ... and with an initial document that holds members which only resemble the key / service lists (verificationMethod,
    # publicKeys, services, Service, authentication): they stay as they are, and stay out of the lists
    ctx.tlc_pipe("MC_Composer.tla", "MC_Composer.cfg", ["composer-replay"], overrides=ov, timeout=3000,
                 env_extra={"VERIF_DECOYS": "1"}, label="exhaustive replay, decoy members: " + label)
    ctx.negctl_replay(["composer-replay"], first, bump_doc)
    # RFC 6902 on arrays (PatchArray.tla): every list of <= MaxOps operations on every array of <= MaxArr elements
    pa = {"MaxArr": 2, "MaxOps": 2} if ctx.tier == "quick" else {"MaxArr": 3, "MaxOps": 2, "Vals": "{1, 2}"}
    _, ps = ctx.tlc_pipe("MC_PatchArray.tla", "MC_PatchArray.cfg", ["patcharray-replay"], overrides=pa, timeout=3000,
                         label="PatchArray.tla: add / remove / replace / test / copy / move on array elements, lists of <= 2 operations")

    def pwrong(rec):
        rec["ok"] = not rec["ok"]

    ctx.negctl_replay(["patcharray-replay"], ps["_first_edge"], pwrong)
    n = 1500 if ctx.tier == "quick" else 40000
    validate_trace(ctx, "composer", ["-n", str(n), "-maxlen", "12"], "ComposerTrace.tla", "ComposerTrace.cfg",
                   "composer_trace.ndjson", histories=n, key_of=composer_key, corrupt=corrupt_composer)


def c14(ctx):
    ctx.rule = ("(1) every distinct document of the composer model (reachable within MaxLen validated patches; key, "
                "service, also-known-as lists and further members) is concretized, handed to "
                "patch.PatchesFromDocument, the derived patches are compared with the specification's DocToPatches, "
                "validated, byte round-tripped with accessor agreement, applied to the empty document by the real "
                "composer and the projected result compared with the document (TLC checks RoundTrip on the model); "
                "the same document with an id must be refused. (2) every patch of the alphabet is built through its "
                "public constructor, must validate, survive FromBytes(Bytes()) and apply as specified. (3) "
                "PatchCodec.tla: action value x value-member sets of size <= 2; FromBytes accepts exactly the shapes "
                "with a supported action and that action's own value member.")
    ctx.assumptions = COMPOSER_ASSUME + ["further members have ordinary names (o1, o2): no JSON-pointer or quoting "
                                         "metacharacters, as the statement says"]
    docs_ov = {"MaxLen": 3} if ctx.tier == "quick" else dict(COMPOSER_BIG, MaxLen=4)
    _, s1 = ctx.tlc_pipe("MC_Composer.tla", "MC_ComposerDocs.cfg", ["roundtrip-replay"], overrides=docs_ov,
                         label="documents -> patches -> document", timeout=3000)
    ed_ov = {"MaxLen": 2, "ListLens": "{1}"} if ctx.tier == "quick" else dict(COMPOSER_BIG, MaxLen=2, ListLens="{1}")
    ctx.tlc_pipe("MC_Composer.tla", "MC_Composer.cfg", ["constructors-replay"], overrides=ed_ov,
                 label="patch constructors, validation, byte round trip", timeout=3000)
    _, s3 = ctx.tlc_pipe("MC_PatchCodec.tla", "MC_PatchCodec.cfg", ["codec-replay"], workers=2,
                         label="patch byte shapes")

    def wrong_doc(rec):
        rec["doc"]["aka"] = rec["doc"]["aka"] + [1, 2]

    def wrong_accept(rec):
        rec["accept"] = not rec["accept"]

    ctx.negctl_replay(["roundtrip-replay"], s1["_first_edge"], wrong_doc)
    ctx.negctl_replay(["codec-replay"], s3["_first_edge"], wrong_accept)
    ctx.exhaustive = True


def c12_composer(ctx):
    only = "input-mutated,error-with-state,panic,failure-swallowed"
    for ov, label in composer_runs(ctx)[:2]:
        ov = dict(ov)
        # (patch objects that are no patches - no / unknown action, value member missing - are part of the lists here)
        ov["WithBroken"] = "TRUE"
        if ctx.tier == "thorough" and "KIds" in ov:
            ov["MaxLen"] = 3
        ctx.tlc_pipe("MC_Composer.tla", "MC_Composer.cfg", ["composer-replay", "-only", only, "-private-states"], overrides=ov,
                     label="composer: input digests before/after, " + label, timeout=3000)


# ---------------------------------------------------------------------------------------------
# Decision tables: C13 (PatchRules), C11 (JsonPatchGuard)

def flip_valid(rec):
    rec["valid"] = not rec["valid"]


def corrupt_rule(ev):
    ev = json.loads(json.dumps(ev))
    ev["valid"] = not ev["valid"]
    return ev


def c13(ctx):
    ctx.rule = ("PatchRules.tla transcribes the documented constraints as Valid(feature record). TLC starts from valid "
                "bases (key / service in add- and replace-patches, remove lists, also-known-as lists, replace "
                "documents, ietf-json-patch envelopes, original documents) and sets every field, one at a time (pairs "
                "at the thorough tier), to each of its other values: id lengths 0/1/50/51 and character classes, "
                "type lengths 0/1/30/31, every JWK defect, material none/both, every forbidden extra member, every "
                "endpoint shape incl. a bad URI at list position 0/1/last, plus the full key type x purpose-subset "
                "matrix (7 x 32). The harness builds the real patch per record and compares "
                "patchvalidator.Validate / IsValidOriginalDocument with Valid. Then random records from the full "
                "product of feature values are validated by TLC (PatchRulesTrace).")
    ctx.assumptions = ["URI strings are limited to ones url.Parse and url.ParseRequestURI agree on",
                       "(purposes absent, unknown key type) is not in the catalogue: the statement is silent there",
                       "TLC checks on the table itself: bases valid, each violated constraint alone invalidates "
                       "(BadIdAlone, BadEndpointAlone, ExtraKeyMember), further service members stay allowed"]
    mm = 1 if ctx.tier == "quick" else 2
    _, summ = ctx.tlc_pipe("MC_PatchRules.tla", "MC_PatchRules.cfg", ["rules-replay"], overrides={"MaxMut": mm},
                           workers=4, label="bases, %d-field mutations and the type x purpose matrix" % mm)
    ctx.negctl_replay(["rules-replay"], summ["_first_edge"], flip_valid)
    n = 20000 if ctx.tier == "quick" else 400000
    validate_trace(ctx, "rules", ["-n", str(n)], "PatchRulesTrace.tla", "PatchRulesTrace.cfg", "rules_trace.ndjson",
                   histories=n, key_of=lambda ev: json.dumps(ev.get("c"), sort_keys=True)[:150], corrupt=corrupt_rule)
    ctx.exhaustive = True


def flip_validated(rec):
    # claim that nothing of a list that writes to publicKey may alter it: the binding must object
    rec["ops"] = [{"kind": "remove", "path": "/publicKey/0", "from": "/publicKey/0"}]
    rec["mayAlterPK"] = False
    rec["mayAlterSvc"] = False


def c11(ctx):
    ctx.rule = ("TLC enumerates RFC 6902 lists: 6 operation kinds x 38 path pointers x 38 from pointers (members "
                "publicKey / service, their elements and sub-members, the append pointer, sibling names sharing a "
                "prefix, escaped tokens ~0 ~1, the empty member name, pointer text with escapes / quotes, members named like "
                "those of resolved documents, and the root; operations whose members are respelled or superfluous), single "
                "operations and lists of two (quick: with one harmless operation; thorough: all pairs over 16 core pointers), "
                "and shows on the model that a validator inspecting path and from lets nothing through that "
                "alters the protected members (GuardSuffices), while the negative configuration CheckFrom = FALSE "
                "violates it. Each list is handed to the real patchvalidator.Validate; if it passes, to the real "
                "ApplyPatches on four documents (with / without sibling members, without keys, without services), alone, behind "
                "other patches and inside whole deltas judged by Parser.ValidateDelta; the publicKey and service members, the "
                "library's own reading of them and the resolved document's key and service sections before and after must be "
                "identical. The model's may-alter classification is cross-checked "
                "against the real effect of every list applied without validation.")
    ctx.assumptions = ["the real validator may be stricter than the intended one (it refuses sibling names sharing "
                       "a prefix); it may not be laxer in effect", "an apply error or a contained panic leaves the "
                       "document unchanged and is not a violation of this property"]
    pairing = q("benign") if ctx.tier == "quick" else q("core")
    _, summ = ctx.tlc_pipe("MC_JsonPatchGuard.tla", "MC_JsonPatchGuard.cfg", ["guard-replay"],
                           overrides={"Pairing": pairing}, label="RFC 6902 lists, pairing " + pairing, timeout=3000)
    # the model's may-alter classification is bound to the real library on the lists that validation refuses; a
    # disagreement there is the model's problem (exit 2) - unless lists that validation LETS THROUGH alter keys or
    # services as well: then the code changed, and those are reported
    verdicts = [m for m in ctx.violations if m.get("kind") != "model-binding"]
    if verdicts:
        ctx.violations = verdicts
    if any(m.get("kind") == "model-binding" for m in ctx.violations):
        raise Infra("the may-alter classification of JsonPatchGuard.tla disagrees with the real library on a list "
                    "that validation refuses: the model, not the code, is wrong: %s" %
                    [m.get("key") for m in ctx.violations if m.get("kind") == "model-binding"][:3])
    if not ctx.violations and (summ["extra"]["accepted_by_validator"] == 0 or summ["extra"]["altering_lists_stopped_by_validation"] == 0):
        raise Infra("vacuous: no list accepted / no altering list stopped")
    ctx.tlc_check("MC_JsonPatchGuard.tla", "MC_JsonPatchGuard_neg.cfg", expect_violation=True,
                  label="negative configuration: validator without the from conjunct")
    ctx.negctl_replay(["guard-replay"], summ["_first_edge"], flip_validated)
    if ctx.tier != "quick":
        n = ctx.tlaps_check("GuardProofs.tla", needs=("JsonPatchGuard.tla",), abstract_ops=False,
                            label="TLAPS: a list of ANY length that the intended validator lets through alters neither keys nor "
                                  "services (GuardSufficesAlways, inductive invariant over Append1)")
        ctx.assumptions.append("TLAPS proof (%d obligations) is about operation lists of any length over the pointer alphabet of "
                               "JsonPatchGuard.tla; the code is bound to the model by the replay" % n)
    ctx.exhaustive = True


# ---------------------------------------------------------------------------------------------
# Parser: C07 (ParserRules), C03 (SelfCert)

def flip_accept(rec):
    rec["accept"] = not rec["accept"]


def corrupt_parse(ev):
    ev = json.loads(json.dumps(ev))
    ev["accepted"] = not ev["accepted"]
    return ev


def c07(ctx):
    ctx.rule = ("ParserRules.tla: ParseAccept(request, configuration) is the conjunction of the property statement over "
                "the shared operation vocabulary (Ops.tla: every well-formedness defect, reveal mismatch, delta defects, "
                "signed-suffix mismatch, equal / reused commitments, all key types and hash algorithms) and a "
                "configuration given RELATIVE to the concrete request: maximum operation size, delta size and hash "
                "length each at actual-1 / actual / actual+1, algorithm lists with / without / in either order, "
                "enabled-patch list with / without the used actions, allowed signature and key algorithms with / "
                "without the used one, nonce size matching or not. TLC enumerates every case with <= MaxDev deviations "
                "(request + configuration) and checks DefaultsAccepted / BoundariesInclusive; the harness builds real "
                "signed requests sized exactly at each boundary, runs Parser.Parse and compares the verdict and, for "
                "accepted requests, type, unique suffix (reference hash), namespaced id, original bytes and anchor "
                "origin. Random (request, configuration) pairs with any number of deviations are then validated by TLC.")
    ctx.assumptions = APPLIER_ASSUME[:2] + [
        "the parser does not verify signatures and does not compare the signed delta hash of update / recover with "
        "the delta (the applier does): such requests are in the alphabet and must be ACCEPTED",
        "'next commitments differ from the current key's' is tested as: create/recover upd = rec, recover rec = "
        "commitment(recovery key), update upd = commitment(update key)"]
    kt = kts_for(ctx, 1)[0]
    md = 1 if ctx.tier == "quick" else 2
    _, summ = ctx.tlc_pipe("MC_ParserRules.tla", "MC_ParserRules.cfg", ["parser-replay"],
                           overrides={"MaxDev": md, "DefKT": q(kt)}, workers=4,
                           label="requests x relative configurations, <= %d deviations" % md, timeout=3000)
    if not ctx.violations and summ["extra"]["accepted"] < 20:
        raise Infra("vacuous: hardly any request accepted")
    ctx.negctl_replay(["parser-replay"], summ["_first_edge"], flip_accept)
    _, sl = ctx.tlc_pipe("MC_SizeLimits.tla", "MC_SizeLimits.cfg", ["sizelimits-replay"], workers=1,
                         label="SizeLimits.tla: maximum operation size x maximum delta size, each at R-1 / R / R+1 / D-1 / D / D+1, for a delta "
                               "smaller than the request and for one whose canonical form is larger than the request")
    if not ctx.violations and sl["extra"]["accepted"] < 20:
        raise Infra("vacuous: hardly any request accepted (size limits)")

    def slwrong(rec):
        rec["accept"] = not rec["accept"]

    ctx.negctl_replay(["sizelimits-replay"], sl["_first_edge"], slwrong)
    n = 4000 if ctx.tier == "quick" else 60000
    validate_trace(ctx, "parser", ["-n", str(n)], "ParserRulesTrace.tla", "ParserRulesTrace.cfg",
                   "parser_trace.ndjson", histories=n, corrupt=corrupt_parse,
                   key_of=lambda ev: applier_opkey(ev) + "|" + json.dumps(ev.get("cfg"), sort_keys=True))
    ctx.exhaustive = True


def c03(ctx):
    ctx.rule = ("SelfCert.tla over Hash.tla (ideal hash): create requests with each of the eight patch actions and a "
                "mixed delta, anchor origin absent / string / object, type absent / present, hashes computed with "
                "SHA-256 or SHA-512 under every configured algorithm list containing it (4 lists), crossed with 12 "
                "labelled changes: three re-serializations (member order, whitespace, \\u escapes in member names and "
                "strings) and a modification of each suffix-data member (delta hash, recovery commitment, anchor "
                "origin, type: changed / added / removed) and of the delta (update commitment, patch content, patch "
                "added, patch removed). TLC checks SelfCertifying and SuffixInjective on the model and prints the "
                "expected (accepted, same DID) pair; the harness builds the bytes, parses base and changed request "
                "with the real parser, evaluates the suffix term with reference SHA-2 / multihash / JCS and compares.")
    ctx.assumptions = APPLIER_ASSUME[:1] + [
        "adding a member the request model does not define is not in the catalogue (the parser ignores it; the "
        "statement speaks of the parts of suffix data and delta)"]
    _, summ = ctx.tlc_pipe("MC_SelfCert.tla", "MC_SelfCert.cfg", ["selfcert-replay"], workers=4,
                           label="create requests x re-serializations / single-member modifications")

    def wrong(rec):
        rec["expected"]["sameDID"] = not rec["expected"]["sameDID"]
        rec["expected"]["accepted"] = True

    ctx.negctl_replay(["selfcert-replay"], summ["_first_edge"], wrong)
    ctx.exhaustive = True


# ---------------------------------------------------------------------------------------------
# Hash family: C06 (HashCases), C04 (Chain)

def c06(ctx):
    ctx.rule = ("HashCases.tla over Hash.tla (ideal hash, JCS forgets the spelling): (calc) 15 concrete JSON values x 6 "
                "multihash codes (SHA-256, SHA-512, SHA3-256, SHA-1, identity, an unregistered code), each value "
                "handed over decoded, as bytes and in another spelling, the result compared with "
                "B64(MH(code, H(JCS(value)))) from reference SHA-2 / framing / JCS; (valid) value x {same, "
                "re-serialized, single-point modified} x both algorithms, and value x 11 malformed / unsupported "
                "encodings (bad base64url character, padding, empty, not a multihash, wrong length field, truncated "
                "digest, trailing bytes, SHA3 / SHA-1 / unknown code, short digest); (code) reported code and the "
                "'computed with one of' test for every class x 4 code lists. TLC checks ContentAddress and "
                "AlgorithmInPrefix on the model and prints the expected verdicts.")
    ctx.assumptions = APPLIER_ASSUME[:1] + ["values are objects / arrays (the canonicalizer's domain); numbers, escapes, "
                                            "UTF-16 member order are exercised through the 15 table values, the "
                                            "full JCS space is C05's"]
    _, summ = ctx.tlc_pipe("MC_HashCases.tla", "MC_HashCases.cfg", ["hash-replay"], workers=4,
                           label="calc / valid / code cases")

    def wrong(rec):
        rec["expected"]["ok"] = not rec["expected"]["ok"]
        rec["expected"]["reportsCode"] = not rec["expected"]["reportsCode"]

    ctx.negctl_replay(["hash-replay"], summ["_first_edge"], wrong)
    ctx.exhaustive = True


def c04(ctx):
    ctx.rule = ("Chain.tla over Hash.tla: TLC enumerates every well-formed chain create -> (update | recover)* -> "
                "deactivate up to MaxLen operations, checks Algebra (CommitFromReveal(Reveal(k)) = Commit(k), "
                "Commit # Reveal, distinct keys have distinct commitments), Linked and DeactivateEnds, and prints each "
                "complete chain with, per operation, its predecessor on the same chain and where that predecessor "
                "carries the commitment. The harness builds each chain as real signed requests for every key type x "
                "{SHA-256, SHA-512} x {no nonce, 16-byte nonce}: reveal value and commitment of every key against the "
                "reference terms, nonce-only difference, Parser.GetRevealValue / GetCommitment of every operation, "
                "and GetCommitmentFromRevealValue(reveal(op)) = the commitment reported for the predecessor.")
    ctx.assumptions = APPLIER_ASSUME[:1] + [
        "Parser.GetCommitment reports nothing for create and the recovery commitment for recover; the links "
        "create->update, create->recover and recover->update take the predecessor's commitment from its parsed model"]
    kts = ",".join(KTS)
    ml = 6 if ctx.tier == "quick" else 8
    for alg in (256, 512):
        _, summ = ctx.tlc_pipe("MC_Chain.tla", "MC_Chain.cfg", ["chain-replay", "-kts", kts],
                               overrides={"MaxLen": ml, "Alg": alg}, workers=4,
                               label="chains <= %d operations (model algorithm %d), key types %s" % (ml, alg, kts))
        if not ctx.violations and summ["extra"]["links_checked"] == 0:
            raise Infra("no link checked")
        if alg == 256 and ctx.tier == "quick":
            break

    def wrong(rec):
        # claim that the last operation links to the create's update commitment
        rec["ops"][-1]["from"] = 1
        rec["ops"][-1]["where"] = "delta.updateCommitment"
        rec["ops"][-1]["type"] = "deactivate"

    ctx.negctl_replay(["chain-replay", "-kts", "p256"], summ["_first_edge"], wrong)
    ctx.exhaustive = True


# ---------------------------------------------------------------------------------------------
# Client family: C08

def c08(ctx):
    ctx.rule = ("Client.tla (over Composer.tla's documents and per-action semantics): lifecycles create -> update* -> "
                "recover -> update* -> deactivate with key rotation; create / recover ask for one of 11 documents "
                "(0-3 keys with 1-3 purposes, 0-2 services, 0-2 also-known-as URIs), updates add / replace / remove "
                "keys, services and URIs singly and all at once, anchor origin absent / present, anchoring window "
                "none / in / from-only / late, plus the five inputs the builders must refuse. TLC checks "
                "FreshCommitments / DeactivatedShape / UniqueDocIds and prints every edge with the state the caller "
                "expects. Each step is built at two entry levels (client.New*Request with the library signers; "
                "sidetree.Client with a capturing request function and api.Signer), must be accepted by Parser.Parse "
                "under the matching protocol, its anchored form must be the reference JCS of the request and keep "
                "suffix / type / anchor origin, original and anchored bytes must apply to the same state, and that "
                "state (document by content, commitments of the next keys, anchor origin, flags) must be the "
                "specification's.")
    ctx.assumptions = APPLIER_ASSUME[:1] + [
        "the empty document is not among the options (it yields a request without patches, which is not one of the "
        "three kinds of input the statement requires the builders to refuse)",
        "the Sidetree client has no anchoring-window option: windowed steps run at the builder level only"]
    kts = kts_for(ctx, 5)
    # quick: one pair of key types in depth, the other three key types in short lifecycles
    runs = [(kts[0], kts[1], 256, 3), (kts[2], kts[3], 512, 2), (kts[4], kts[2], 256, 2)] if ctx.tier == "quick" else \
        [("ed", "p256", 256, 4), ("p256", "k1", 512, 4), ("p384", "p521", 256, 3), ("k1", "ed", 512, 3), ("p521", "p384", 512, 3)]
    first = None
    for ukt, rkt, h, ml in runs:
        _, summ = ctx.tlc_pipe("MC_Client.tla", "MC_Client.cfg", ["client-replay", "-ukt", ukt, "-rkt", rkt, "-h", str(h)],
                               overrides={"MaxLen": ml, "RepeatRecover": "FALSE" if ctx.tier == "quick" else "TRUE"}, timeout=3000,
                               label="lifecycles <= %d steps, update keys %s, recovery keys %s, SHA-%d" % (ml, ukt, rkt, h))
        first = first or summ["_first_edge"]

    def wrong(rec):
        rec["post"]["upd"] = rec["post"]["upd"] + 7
        rec["step"]["refused"] = ""

    ctx.negctl_replay(["client-replay"], first, wrong)

    # the other direction: random lifecycles of up to 24 steps (key types and algorithms rotating from history to
    # history) run on the real builders / parser / applier, judged step by step by TLC (ClientTrace.tla)
    def corrupt_life(ev):
        if ev.get("event") not in ("update", "recover", "create"):
            return None
        ev = json.loads(json.dumps(ev))
        ev["post"]["upd"] = ev["post"]["upd"] + 1
        return ev

    n = 60 if ctx.tier == "quick" else 1500
    validate_trace(ctx, "client", ["-n", str(n), "-steps", "24"], "ClientTrace.tla", "ClientTrace.cfg", "client_trace.ndjson",
                   histories=n, corrupt=corrupt_life,
                   key_of=lambda ev: "%s:%s:%s:%s" % (ev.get("event"), ev.get("win"), ev.get("alg"), ev.get("bad", "")[:60]))


# ---------------------------------------------------------------------------------------------
# Transform: C18

def c18(ctx):
    ctx.rule = ("Transform.tla: (keys) every validated key variant (6 types x permitted purpose subsets x JWK / base58 "
                "material: 130 single keys; two-key documents with a second key of another type), with / without "
                "@base, method context, 0-2 services with further members and also-known-as URIs; expected "
                "verification methods (qualified / relative id, controller, material form), the five relationship "
                "lists in document order and the context list in order of first use; (ops) every operation list of "
                "length <= MaxOps with (time, number) in (0..2)^2 and canonical reference in {1, 2}, published "
                "(sorted, de-duplicated) and unpublished (sorted); (opts) lists of <= 2 operations held in the published list, "
                "the unpublished list or both (the same requests) x the four combinations of the two include options x "
                "the DID transformer and the generic document transformer: each list is reported exactly when its own "
                "option is set; (meta) presence / value of every metadata item for "
                "all 1536 combinations of commitments, anchor origin form, flags, times, version, canonical / "
                "equivalent id. TLC checks ExactlyOnce, SortedOps and OptionsIndependent; the harness builds the ResolutionModel, calls "
                "TransformDocument and compares the whole document / metadata; base58 / multibase conversions are "
                "recomputed with the harness's own base58.")
    ctx.assumptions = ["the order among operations with equal (time, number) is not asserted; when two operations of one "
                       "canonical reference share a slot only sortedness, count and uniqueness are asserted",
                       "created is reported for published states; updated needs a version id and a non-zero time "
                       "(pinned behaviour, the statement says 'as given')"]
    mo = 3 if ctx.tier == "quick" else 4
    _, summ = ctx.tlc_pipe("MC_Transform.tla", "MC_Transform.cfg", ["transform-replay"], overrides={"MaxOps": mo},
                           workers=8, timeout=3000, label="keys / operation lists <= %d / metadata" % mo)

    def wrong(rec):
        if rec["c"]["kind"] == "keys":
            rec["expected"]["contexts"] = rec["expected"]["contexts"] + ["JsonWebKey2020", "Ed25519VerificationKey2020"]
        elif rec["c"]["kind"] == "ops":
            rec["expected"]["count"] += 1
        else:
            rec["expected"]["deactivated"] = not rec["expected"]["deactivated"]

    ctx.negctl_replay(["transform-replay"], summ["_first_edge"], wrong)

    # the other direction: random operation lists (<= 12 operations, times / numbers from small, medium and large ranges,
    # repeated references) through the real transformer, every reported list judged by TLC (TransformTrace.tla)
    def corrupt_ops(ev):
        if len(ev.get("reported", [])) < 1:
            return None
        ev = json.loads(json.dumps(ev))
        ev["reported"][0]["t"] = ev["reported"][0]["t"] + 1
        return ev

    n = 600 if ctx.tier == "quick" else 20000
    validate_trace(ctx, "transform", ["-n", str(n)], "TransformTrace.tla", "TransformTrace.cfg", "transform_trace.ndjson",
                   histories=n, corrupt=corrupt_ops, key_of=lambda ev: "ops:%d:published=%s" % (len(ev.get("ops", [])), ev.get("published")))
    ctx.exhaustive = True


# ---------------------------------------------------------------------------------------------
# LongForm: C17

def c17(ctx):
    ctx.rule = ("LongForm.tla: creation is a function of (document, update / recovery keys): each of 4 documents (one "
                "single-purpose P-256 key; three keys Ed25519 / P-384 / secp256k1 with 1-3 purposes, a service and an "
                "also-known-as URI; two keys P-521 / P-256 with two services and two URIs incl. one that URL "
                "normalisation would change; a service only) x 2 key pairs is created Repeats times and must give the "
                "same DID (action property Deterministic, invariant Injective); the created and the read document "
                "must be equivalent to the supplied one (key ids, JWK material, relationship sets, services, URIs), the "
                "id the long-form DID, the metadata name the short form and the reference commitments, the suffix be "
                "the reference model hash of the state's suffix data, the state be canonical; ProcessOperation of the "
                "create request gives the same DID and of an update request an error; every single-character change "
                "of each DID (11 replacement characters per position) is rejected. Resolution probes: namespace "
                "relation (same, extended did:ionx, truncated, other method, method prefix, upper case, no scheme) x "
                "state spelling (canonical, whitespace, member order, padded, other spelling of trailing bits, "
                "tampered character, not base64url, another document's state, an update request, empty) x suffix "
                "(matching, the other document's, empty) x form (long, short), at most two deviations; resolves iff "
                "own namespace, long form, state and suffix of the same request.")
    ctx.assumptions = ["'equivalent document' = same key id fragments, JWK x coordinates, relationship sets, service ids / "
                       "types / endpoints, also-known-as URIs; nothing about member order or contexts",
                       "did:ion:<anything>:<suffix>:<state> and a state whose create request carries its type member are "
                       "not asserted either way (the statement's 'only if' does not exclude them)"]
    rep = 3 if ctx.tier == "quick" else 6
    _, summ = ctx.tlc_pipe("MC_LongForm.tla", "MC_LongForm.cfg", ["longform-replay"], overrides={"Repeats": rep}, workers=4,
                           label="creations x %d, resolution probes" % rep, timeout=3000)
    ctx.cov["evaluations"] += summ["extra"]["single_character_changes"]
    if not ctx.violations and summ["extra"]["single_character_changes"] < 1000:
        raise Infra("single-character sweep did not run")

    def wrong(rec):
        rec["kind"] = "resolve"
        rec["resolves"] = False
        rec["probe"] = {"doc": 1, "ns": "same", "enc": "canonical", "sfx": "matching", "form": "long"}
        rec["doc"] = 1

    ctx.negctl_replay(["longform-replay"], summ["_first_edge"], wrong)

    # the other direction: random probes with any number of deviations, resolved by the real handler / VDR and judged
    # by TLC (LongFormTrace.tla)
    rnd = random.Random(ctx.seed)
    nss = ["same", "extended", "truncated", "other_method", "method_prefix_only", "upper_case", "no_did_scheme"]
    encs = ["canonical", "whitespace", "member_order", "padded", "trailing_bits", "tampered_char", "not_base64url", "other_request",
            "update_request", "empty", "typeless"]
    sfxs = ["matching", "other", "empty", "prefixed", "suffixed", "doubled", "other_algorithm"]
    n = 400 if ctx.tier == "quick" else 6000
    probes = []
    for _ in range(n):
        # (half of the probes stay close to a resolvable DID)
        w = [6, 1, 1, 1, 1, 1, 1] if rnd.random() < 0.5 else [1] * 7
        pr = {"doc": rnd.randint(1, 5), "ns": rnd.choices(nss, weights=w)[0],
              "enc": rnd.choices(encs, weights=[6 if rnd.random() < 0.5 else 1] + [1] * 10)[0],
              "sfx": rnd.choices(sfxs, weights=[6 if rnd.random() < 0.5 else 1] + [1] * 6)[0],
              "form": rnd.choices(["long", "short"], weights=[5, 1])[0]}
        probes.append(json.dumps({"kind": "resolve", "doc": pr["doc"], "keys": 1, "call": 0, "resolves": False, "probe": pr}))
    probes = sorted(set(probes))        # (the replay takes every distinct case once)
    rnd.shuffle(probes)
    n = len(probes)
    path = os.path.join(ctx.work, "longform_trace.ndjson")
    ctx.harness(["longform-replay", "-log", path], stdin_text="\n".join(probes) + "\n")
    lines = open(path).read().splitlines()
    if len(lines) != n:
        raise Infra("long-form trace: %d probes logged, %d sent" % (len(lines), n))
    bad = ctx.tlc_trace("LongFormTrace.tla", "LongFormTrace.cfg", path, "longform_trace.ndjson", histories=n,
                        label="trace validation: %d random resolution probes, any number of deviations" % n)
    if bad is not None:
        ev = json.loads(lines[min(bad, len(lines)) - 1])
        ctx.add_violation({"kind": "trace-rejected", "key": "trace:resolve:%s" % json.dumps(ev.get("probe"), sort_keys=True),
                           "detail": "TLC rejects the resolution outcome observed on the real code at trace line %d" % bad,
                           "case": ev, "replay": {"kind": "trace", "line": bad}})
    else:
        # negative control: one flipped outcome must be rejected at its line
        i = rnd.randrange(len(lines))
        ev = json.loads(lines[i])
        ev["resolved"] = not ev["resolved"]
        ev["id_ok"] = True
        open(path, "w").write("\n".join(lines[:i] + [json.dumps(ev)] + lines[i + 1:]) + "\n")
        got = ctx.tlc_trace("LongFormTrace.tla", "LongFormTrace.cfg", path, "longform_trace.ndjson", count=False,
                            label="negative control: flipped outcome at trace line %d" % (i + 1))
        decided = not (ev["probe"]["enc"] == "typeless" and ev["probe"]["ns"] == "same" and ev["probe"]["sfx"] == "matching"
                       and ev["probe"]["form"] == "long")
        ctx.cov["negative_controls"].append({"kind": "a flipped resolution outcome makes TLC reject the trace at that line",
                                             "line": i + 1, "rejected_at": got, "detected": (got == i + 1) or not decided})
        if decided and got != i + 1:
            raise Infra("negative control not detected: flipped outcome at line %d, TLC says %s" % (i + 1, got))
    ctx.exhaustive = False


# ---------------------------------------------------------------------------------------------
# Jcs: C05

def corrupt_jcs(ev):
    ev = json.loads(json.dumps(ev))
    if not ev.get("out"):
        return None
    ev["out"][len(ev["out"]) // 2] += 1
    return ev


def c05(ctx):
    ctx.rule = ("Jcs.tla defines Canon(value) over tagged JSON values (strings = code points, objects keep their spelled "
                "member order): UTF-16 code-unit member order computed with integer arithmetic, escaping table, "
                "ECMA-262 number layout over (shortest digits, exponent). TLC enumerates the universe (9 member names "
                "incl. the empty name and the pair U+1F600 / U+FB33 whose UTF-16 order differs from code-point order, 10 "
                "strings covering every escape class, 15 numbers at every layout boundary incl. both zeros, the "
                "smallest subnormal and the largest double, literals; one- and two-member objects in every spelled "
                "order, every order of 504 name triples, arrays; nested containers at the thorough tier), checks "
                "OrderInsensitive / Utf16Order / LayoutBoundaries, and prints Canon(v); the harness spells every value "
                "in 5 surface styles (literal / \\uXXXX upper / lower / short escapes, white space, five decimal "
                "spellings per number) and demands byte equality with Canon(v), a fixed point and the same JSON value. "
                "Then random values (29 code-point classes, depth <= 3) and sampled doubles (random bit patterns, "
                "neighbours of 1e21 / 1e-6 / 1e-7 by Nextafter, subnormals, the largest doubles) are canonicalized by "
                "the library and TLC validates every recorded output against Canon (JcsTrace).")
    ctx.assumptions = ["the shortest round-trip DIGITS of a double are taken from strconv (digit source only; the layout "
                       "is the specification's); the harness refuses a case whose digits are not in shortest form",
                       "'all finite doubles' and 'all strings' are sampled beyond the enumerated universe, not exhausted",
                       "inputs are objects or arrays (the canonicalizer's domain), member names are distinct (I-JSON)"]
    depth = 1 if ctx.tier == "quick" else 2
    _, summ = ctx.tlc_pipe("MC_Jcs.tla", "MC_Jcs.cfg", ["jcs-replay"], overrides={"Depth": depth}, workers=8, timeout=3000,
                           label="value universe depth %d x 5 spellings" % depth)
    ctx.cov["evaluations"] += summ["extra"]["spellings"]

    def wrong(rec):
        rec["canon"] = rec["canon"] + [32]

    ctx.negctl_replay(["jcs-replay"], summ["_first_edge"], wrong)
    n = 6000 if ctx.tier == "quick" else 150000
    validate_trace(ctx, "jcs", ["-n", str(n)], "JcsTrace.tla", "JcsTrace.cfg", "jcs_trace.ndjson", histories=n,
                   key_of=lambda ev: json.dumps(ev.get("v"), sort_keys=True)[:120], corrupt=corrupt_jcs)


# ---------------------------------------------------------------------------------------------
# Jws: C15, C16

JWS_ASSUME = ["ECDSA / Ed25519 of the Go standard library and btcec are correct (ideal signature scheme in the model)",
              "concrete instances of each class are found by seeded rejection sampling (signatures / coordinates with a "
              "leading zero byte occur with probability 1/256 per value)"]


def c15(ctx):
    ctx.level = "exploration"
    ctx.rule = ("Jws.tla (ideal signatures): 5 key types x signature shapes (normal, r with a leading zero byte, s with a "
                "leading zero byte) x 18 tamper classes; OnlyUntamperedVerifies is checked by TLC. For each cell the "
                "harness signs 4 payloads (JSON, one byte, binary with zero bytes, 520 bytes) with the LIBRARY's signers "
                "until the signature has the shape, verifies it under the matching JWK (positive control, payload "
                "returned unchanged), then expands the class to every concrete instance: every bit of the decoded "
                "header that changes its content, every payload byte, every signature bit, three other keys of the "
                "same type and the mirrored point (same x), a key of each other type, 4 truncations, 5 paddings incl. "
                "zero-extended halves, unsupported kty / crv, segment counts, bad base64url in each segment, non-JSON "
                "headers; a header re-serialized with the same content must still verify; after every failed attempt "
                "the matching key must verify again. evaluations counts concrete verify calls.")
    ctx.assumptions = JWS_ASSUME
    _, summ = ctx.tlc_pipe("MC_Jws.tla", "MC_Jws.cfg", ["jws-replay", "-kinds", "jws"], workers=4, timeout=3000,
                           label="key type x signature shape x tamper class, expanded")
    ctx.cov["evaluations"] += summ["extra"]["instances"]
    ctx.cov["distinct_nontrivial"] = max(ctx.cov["distinct_nontrivial"], 2)

    def wrong(rec):
        rec["c"] = {"kind": "jws", "kt": "p256", "shape": "normal", "tamper": "payload_byte", "mod": ""}
        rec["expected"]["ok"] = True

    ctx.negctl_replay(["jws-replay", "-kinds", "jws"], summ["_first_edge"], wrong)


def c16(ctx):
    ctx.level = "exploration"
    ctx.rule = ("Jws.tla: 5 key types x coordinate shapes (normal, x with a leading zero byte, y with a leading zero byte) "
                "x 10 modifications (the tenth: x plus the field prime where that fits the width). The harness finds a key of the shape by rejection sampling, converts it with "
                "pubkey.GetPublicKeyJWK and compares kty / crv / coordinates with its own fixed-width encoding, the "
                "commitment and reveal value under both algorithms with the reference terms over that encoding, reads "
                "the JWK back (same key), verifies a signature under it; each modification (off-curve point, x / y one "
                "byte short - i.e. the stripped leading zero - or one byte long, empty x, wrong curve name, bad "
                "base64url) must be refused on reading and must not verify.")
    ctx.assumptions = JWS_ASSUME
    _, summ = ctx.tlc_pipe("MC_Jws.tla", "MC_Jws.cfg", ["jws-replay", "-kinds", "jwk"], workers=4, timeout=3000,
                           label="key type x coordinate shape x modification")

    def wrong(rec):
        rec["c"] = {"kind": "jwk", "kt": "p256", "shape": "x_leading_zero", "mod": "x_short", "tamper": ""}
        rec["expected"]["ok"] = True

    ctx.negctl_replay(["jws-replay", "-kinds", "jwk"], summ["_first_edge"], wrong)


# ---------------------------------------------------------------------------------------------
# Robust: C19

def c19(ctx):
    ctx.level = "exploration"
    ctx.rule = ("Robust.tla: one action Call(plan) with the outcome alphabet {ok, err}; the plan space is entry point (15: "
                "Parse, GetRevealValue, GetCommitment, ParseDID, ResolveDocument, ProcessOperation, ParseJWS, VerifyJWS, "
                "MarshalCanonical, patch.FromBytes, Validate, ApplyPatches, Apply, TransformDocument, "
                "IsValidOriginalDocument / IsValidPayload) x valid template (requests of every type with the signed data "
                "as a JSON sub-tree that is re-signed after corruption, long-form DIDs with the initial state as a "
                "sub-tree, JWS, JWK, documents, patches of every action incl. RFC 6902 on arrays and remove lists naming "
                "more ids than exist; chains of <= MaxChain copy / move operations among 6 locations of one document) x node position 0..MaxPos of the template's JSON tree x 24 replacements (null, "
                "true, 0, -1, 1e400, empty / 60 kB string, [], {}, 5000-deep nesting, member removed / duplicated, other "
                "operation type, numeric string, array of itself, negative / huge array index in a pointer, pointer into "
                "its own source, odd keys, invalid UTF-8). Every plan is executed in a worker subprocess under recover "
                "and a 20 s deadline; a panic, a fatal error of the process (attributed to the plan logged before the "
                "call) or a missed deadline is a violation. Then seeded random inputs per entry point (random bytes, "
                "JSON-ish soup, bit-flipped / truncated valid inputs, identifiers of other kinds) are executed the same "
                "way and TLC validates every recorded outcome against the alphabet (RobustTrace).")
    ctx.assumptions = ["inputs are at most ~64 kB; canonicalization is quadratic in nesting depth (measured: depth 10^5 "
                       "takes 14 s), which terminates and is not a violation",
                       "absence of panics in third-party code for inputs that were not tried cannot be concluded"]
    mp = 15 if ctx.tier == "quick" else 47
    mc = 2 if ctx.tier == "quick" else 3
    _, summ = ctx.tlc_pipe("MC_Robust.tla", "MC_Robust.cfg", ["robust-replay"], overrides={"MaxPos": mp, "MaxChain": mc}, workers=4,
                           timeout=3000, label="corruption plans, positions 0..%d" % mp)
    ctx.cov["distinct_nontrivial"] = max(2, summ.get("distinct", 2))
    n = 300 if ctx.tier == "quick" else 20000
    validate_trace(ctx, "robust", ["-n", str(n)], "RobustTrace.tla", "RobustTrace.cfg", "robust_trace.ndjson",
                   histories=n * 14, key_of=lambda ev: "%s:%s" % (ev.get("ep"), ev.get("input_b64", "")[:60]),
                   corrupt=lambda ev: dict(ev, outcome="panic"))

    def wrong(rec):
        rec["ep"] = "NoSuchEntryPoint"

    ctx.negctl_replay(["robust-replay"], summ["_first_edge"], wrong)


# ---------------------------------------------------------------------------------------------
# Registry / concurrency: C20

def run_race(ctx, args, gomaxprocs, label):
    """runs the -race harness; returns (summary or None, list of data-race reports)"""
    env = dict(os.environ)
    env.update({"VERIF_SEED": str(ctx.seed), "GOMAXPROCS": str(gomaxprocs), "GORACE": "halt_on_error=0 exitcode=66"})
    r = subprocess.run([ctx.vh_race] + args, cwd=ctx.work, env=env, stdout=subprocess.PIPE, stderr=subprocess.PIPE,
                       text=True, timeout=3000)
    races = []
    if "WARNING: DATA RACE" in r.stderr:
        for block in r.stderr.split("WARNING: DATA RACE")[1:]:
            fns = re.findall(r"^  (github.com/trustbloc/sidetree-go/\S+)\(\)", block, re.M)
            races.append({"functions": fns[:4], "report": block[:1500]})
    if r.returncode not in (0, 66):
        # a fatal error of the runtime (concurrent map writes) is itself a finding of this property
        if "fatal error" in r.stderr:
            races.append({"functions": re.findall(r"(github.com/trustbloc/sidetree-go/\S+)\(", r.stderr)[:4],
                          "report": r.stderr[:1500]})
            return None, races
        raise Infra("race harness %s failed (%d): %s" % (args[0], r.returncode, r.stderr[-2000:]))
    summ = None
    if r.stdout.strip():
        try:
            summ = json.loads(r.stdout.strip().splitlines()[-1])
        except Exception:  # noqa: BLE001
            summ = None
    return summ, races


def c20(ctx):
    ctx.level = "exploration"
    ctx.rule = ("Registry.tla: processes issuing Add / Lookup calls on a map behind a readers-writer lock, each call five "
                "steps (invoke, acquire, access, release, return); TLC explores all interleavings and checks "
                "MutualExclusion, MapIsSpec, LookupSeesSpec and (with fairness) CallsReturn. Binding: the harness, built "
                "with -race, runs N goroutines of random Add / Lookup calls against the real namespace provider and "
                "client-version registry, logs invocation and return of every call in real-time order (one atomic "
                "counter) and TLC decides linearizability of each history (RegistryTrace: the linearization point is a "
                "silent step TLC places between invocation and return). Stateless components: 91 jobs (Parse, Apply, "
                "ApplyPatches, the DID transformer with 0-6 method contexts x @base, the document transformer, VDR "
                "Create+Read+Resolve, version provider lookups) are run alone, then by G goroutines against shared "
                "instances under GOMAXPROCS 1 / 4 / 16; every result is compared with the sequential one at once and "
                "again after all goroutines are done; any data-race report or runtime fatal error is a violation.")
    ctx.assumptions = ["data-race freedom is observed by the Go race detector on the schedules that occurred, not proved",
                       "every concurrent call gets its own copy of its input (the statement speaks of distinct inputs)"]
    ctx.build(race=True)
    deep = ctx.tier != "quick"
    if deep:
        n = ctx.tlaps_check("RegistryProofs.tla", needs=("Registry.tla",), abstract_ops=False,
                            label="TLAPS: IndInv inductive => MutualExclusion, MapIsSpec, LookupSeesSpec, RegisterTestAndSet for any number "
                                  "of processes, keys, values and calls")
        ctx.assumptions.append("TLAPS proof (%d obligations) is about the lock protocol of Registry.tla; the code is bound "
                               "to it by linearizability checking of recorded histories and the race detector" % n)
    ov = {"Procs": "{1, 2, 3}", "MaxCalls": 1} if ctx.tier == "quick" else {"Procs": "{1, 2, 3}", "MaxCalls": 2}
    ctx.tlc_check("Registry.tla", "MC_Registry.cfg", overrides=ov, label="registry model, all interleavings", timeout=3000)
    if ctx.tier == "quick":
        ctx.tlc_check("Registry.tla", "MC_Registry.cfg", overrides={"Procs": "{1, 2}", "MaxCalls": 2},
                      label="registry model, 2 processes x 2 calls", timeout=3000)

    def race_violation(where, races):
        for rc in races:
            ctx.add_violation({"kind": "data-race", "key": "data-race:" + ":".join(rc["functions"][:2]), "detail": where,
                               "case": rc, "replay": {"kind": "none"}})

    # registry histories -> TLC
    hist = 40 if ctx.tier == "quick" else 400
    for mp in (1, 4, 16):
        path = os.path.join(ctx.work, "registry_trace.ndjson")
        if os.path.exists(path):
            os.remove(path)
        summ0, races = run_race(ctx, ["registry-trace", "-n", str(hist), "-g", "4", "-ops", "6", "-o", path], mp, "registry")
        race_violation("registry histories, GOMAXPROCS=%d" % mp, races)
        if not os.path.exists(path) or any("fatal error" in rc.get("report", "") for rc in races):
            continue  # the harness died (deadlock watchdog / runtime fatal error): reported above, no complete trace
        lines = open(path).read().splitlines()
        bad = ctx.tlc_trace("RegistryTrace.tla", "RegistryTrace.cfg", path, "registry_trace.ndjson", histories=hist,
                            label="linearizability of %d registry histories, GOMAXPROCS=%d" % (hist, mp))
        if bad is not None:
            idx = min(bad, len(lines)) - 1
            start = idx
            while start > 0 and json.loads(lines[start]).get("event") != "Reset":
                start -= 1
            ev = json.loads(lines[idx])
            ctx.add_violation({"kind": "not-linearizable", "key": "not-linearizable:%s:%s" % (ev.get("op"), ev.get("event")),
                               "detail": "no placement of linearization points explains the history up to line %d" % bad,
                               "case": {"history": [json.loads(x) for x in lines[start:idx + 1]]},
                               "replay": {"kind": "none"}})
        elif len(ctx.cov["samples"]) < 3:
            ctx.cov["samples"].append({"registry_history": [json.loads(x) for x in lines[1:7]]})
    # registrations of ONE version racing each other (the registry refuses a second factory): many rounds, the
    # rounds in which not exactly one was accepted (and the first 25) go to TLC
    rr = 3000 if ctx.tier == "quick" else 60000
    for mp in (4, 16):
        path = os.path.join(ctx.work, "registry_trace.ndjson")
        if os.path.exists(path):
            os.remove(path)
        summ, races = run_race(ctx, ["register-race", "-rounds", str(rr), "-g", "16", "-o", path], mp, "register-race")
        race_violation("racing registrations, GOMAXPROCS=%d" % mp, races)
        if not os.path.exists(path) or any("fatal error" in rc.get("report", "") for rc in races):
            continue  # the harness ended the run (deadlock watchdog / runtime fatal error): reported above, no complete trace
        lines = open(path).read().splitlines()
        bad = ctx.tlc_trace("RegistryTrace.tla", "RegistryTrace.cfg", path, "registry_trace.ndjson", histories=rr,
                            label="%d rounds of 16 racing registrations of one version, GOMAXPROCS=%d: %s" % (rr, mp, json.dumps(summ)))
        if bad is not None:
            idx = min(bad, len(lines)) - 1
            start = idx
            while start > 0 and json.loads(lines[start]).get("event") != "Reset":
                start -= 1
            ctx.add_violation({"kind": "not-linearizable", "key": "not-linearizable:register:race",
                               "detail": "racing registrations of one version: no order of the calls explains the results "
                                         "(performed one at a time exactly one is accepted) - trace line %d" % bad,
                               "case": {"history": [json.loads(x) for x in lines[start:idx + 1]], "summary": summ},
                               "replay": {"kind": "none"}})

    # negative control: a lookup that returns a value nobody added must be rejected
    path = os.path.join(ctx.work, "registry_trace.ndjson")
    with open(path, "w") as f:
        for e in [{"event": "Reset", "g": 0, "op": "", "key": 0, "val": 0, "res": 0},
                  {"event": "Invoke", "g": 1, "op": "add", "key": 2, "val": 11, "res": 0},
                  {"event": "Return", "g": 1, "op": "add", "key": 2, "val": 11, "res": 0},
                  {"event": "Invoke", "g": 2, "op": "lookup", "key": 2, "val": 0, "res": 0},
                  {"event": "Return", "g": 2, "op": "lookup", "key": 2, "val": 0, "res": 0}]:
            f.write(json.dumps(e) + "\n")
    got = ctx.tlc_trace("RegistryTrace.tla", "RegistryTrace.cfg", path, "registry_trace.ndjson", count=False,
                        label="negative control: a lost update must be rejected")
    ok = got == 5
    ctx.cov["negative_controls"].append({"kind": "a history with a lost Add is not linearizable", "rejected_at": got, "ok": ok})
    if not ok:
        raise Infra("vacuous binding: the lost-update history was accepted (%s)" % got)

    # stateless components under shared use
    gs = (2, 8) if ctx.tier == "quick" else (2, 4, 16)
    rounds = 2 if ctx.tier == "quick" else 6
    for mp in (1, 4, 16):
        for g in gs:
            summ, races = run_race(ctx, ["concurrent-run", "-g", str(g), "-rounds", str(rounds)], mp, "shared")
            race_violation("shared instances, GOMAXPROCS=%d, %d goroutines" % (mp, g), races)
            if summ is None:
                continue
            ctx.cov["evaluations"] += summ["cases"]
            ctx.cov["distinct_nontrivial"] = max(ctx.cov["distinct_nontrivial"], summ["distinct"])
            ctx.cov["stages"].append({"stage": "shared instances, GOMAXPROCS=%d, %d goroutines" % (mp, g),
                                      "calls": summ["cases"], "mismatches": summ["n_mismatch"], "races": len(races)})
            for m in summ.get("mismatches") or []:
                ctx.add_violation(m)
            for s_ in summ.get("samples") or []:
                if len(ctx.cov["samples"]) < 4:
                    ctx.cov["samples"].append(s_)


def replay(path):
    """re-execute exactly the case of a replay file against the current tree"""
    m = json.load(open(path))
    pid = m.get("property", "replay")
    rp = m.get("replay") or {}
    ctx = Ctx("replay-" + pid, "quick")
    try:
        ctx.build()
        if rp.get("kind") == "trace":
            ctx.seed = rp.get("seed", 1)
            validate_trace(ctx, rp["family"], rp["gen_args"], rp["module"], rp["cfg"], rp["tracename"],
                           overrides=rp.get("overrides"))
            bad = len(ctx.violations)
        elif "cmd" in rp:
            cmd = [a for a in rp["cmd"] if a not in ("-tlclog", "-first-edge", "-save")]
            # drop the values of the dropped flags
            out, skip = [], False
            for a in rp["cmd"]:
                if skip:
                    skip = False
                    continue
                if a in ("-tlclog", "-first-edge", "-save"):
                    skip = True
                    continue
                out.append(a)
            summ = ctx.harness_json(out, rp["stdin"].rstrip("\n") + "\n",
                                    race=False)
            bad = summ["n_mismatch"]
            for mm in summ.get("mismatches") or []:
                print(json.dumps({k: mm.get(k) for k in ("kind", "key", "expected", "actual", "detail")}))
        else:
            print("replay file has no replay recipe", file=os.sys.stderr)
            return 2
        if bad:
            print("VIOLATION property=%s replay=%s" % (pid, path))
            return 1
        print("replay: the case passes on the current tree")
        return 0
    except Infra as e:
        print("INFRASTRUCTURE FAILURE: %s" % e, file=os.sys.stderr)
        return 2
    except subprocess.SubprocessError as e:
        print("INFRASTRUCTURE FAILURE: %s" % e, file=os.sys.stderr)
        return 2
    finally:
        ctx.cleanup()


def c12(ctx):
    ctx.rule = ("every edge of the applier model (every failure class at every reachable state) and of the composer model "
                "(every patch list incl. lists failing at the 2nd patch / 2nd RFC 6902 operation): deep digests of the "
                "previous ResolutionModel, all its ancestors held by the caller, the anchored operation, the input "
                "document and the patch values are taken before and after the real call and must be equal; an error "
                "must come with no state / no document.")
    ctx.assumptions = APPLIER_ASSUME + ["aliasing between result and input without mutation is not flagged"]
    c12_applier(ctx)
    c12_composer(ctx)
    # the hostile input space of Robust.tla (malformed / corrupted patches and requests: the calls that fail or
    # degrade), with the inputs digested before and after each real call
    mp = 15 if ctx.tier == "quick" else 47
    _, summ = ctx.tlc_pipe("MC_Robust.tla", "MC_Robust.cfg", ["robust-replay", "-eps", "ApplyPatches,Apply"],
                           overrides={"MaxPos": mp, "MaxChain": 1}, workers=4, timeout=3000,
                           env_extra={"VERIF_ROBUST_MUTATION": "1"},
                           label="corrupted patches / requests (Robust.tla plans for ApplyPatches and Apply): inputs unchanged")
    if not ctx.violations and summ["cases"] < 500:
        raise Infra("hostile-input stage did not run")



# ---------------------------------------------------------------------------------------------
# EXT: behaviour specified beyond the listed properties (never a verdict on a property)

def ext(ctx):
    ctx.level = "model_checking"
    ctx.rule = ("Specifications of behaviour the listed properties do not speak about, bound to the code in the same way "
                "(every transition of the model replayed on the real objects): Versions.tla - version strings and "
                "matching, the client-version registry, the version provider, the namespace provider, sequentially; "
                "VdrApi.tla - VDR.Accept / Update / Deactivate / Close; ClientSend.tla - how the Sidetree client delivers a "
                "request (endpoint discovery with / without cache, one retry, bearer tokens) against local HTTP nodes; Identifiers.tla - the ids "
                "a resolution is given (pkg/docutil), the document validators, the create result; ClientApi.tla - the four calls of the "
                "Sidetree client from the options to the request that leaves the client; ClientDoc.tla - the caller's document (keys, "
                "services, also-known-as) to the document of the request; DocAccess.tla - the readers of pkg/document; Builders.tla - the four "
                "request builders over valid and invalid inputs; CompactJws.tla - making, serializing, parsing and verifying a compact JWS "
                "(header precedence, detached payloads). A disagreement is reported as NONCONFORMANCE with "
                "the extension specification, not as a violation of a property.")
    deep = ctx.tier != "quick"
    _, vs = ctx.tlc_pipe("MC_Versions.tla", "MC_Versions.cfg", ["versions-replay"], workers=4,
                         overrides={"MaxReg": 2} if deep else None,
                         label="Versions.tla: registry (Register / CreateClientVersion, version matching)")
    ctx.tlc_pipe("MC_Versions.tla", "MC_Versions_prov.cfg", ["versions-replay"], workers=4,
                 overrides={"MaxVers": 3, "MaxProv": 2} if deep else None,
                 label="Versions.tla: version provider (New / Current / Get) and namespace provider")

    def vwrong(rec):
        rec["ok"] = not rec["ok"]

    ctx.negctl_replay(["versions-replay"], vs["_first_edge"], vwrong)
    _, va = ctx.tlc_pipe("MC_VdrApi.tla", "MC_VdrApi.cfg", ["vdrapi-replay"], workers=2,
                         label="VdrApi.tla: Accept (method x hint x DID parts), Update / Deactivate / Close, fresh and closed VDR")
    ctx.negctl_replay(["vdrapi-replay"], va["_first_edge"], vwrong)
    _, cs = ctx.tlc_pipe("MC_ClientSend.tla", "MC_ClientSend.cfg", ["clientsend-replay"], workers=2,
                         label="ClientSend.tla: discovery (cached / fresh) x node (200 / 500 / absent / error / empty list) x "
                               "token (none / static / provider / both / failing provider) against local HTTP nodes")

    def cwrong(rec):
        rec["res"] = "ok" if rec["res"] != "ok" else "err"

    ctx.negctl_replay(["clientsend-replay"], cs["_first_edge"], cwrong)
    _, ids = ctx.tlc_pipe("MC_Identifiers.tla", "MC_Identifiers.cfg", ["identifiers-replay"], workers=1,
                          label="Identifiers.tla: ids of published (canonical x equivalent references) and unpublished (label x domain x "
                                "initial state) resolutions, payload / original-document validators x shapes, create result x delta shapes")

    def iwrong(rec):
        rec["expected"]["ok"] = not rec["expected"]["ok"]
        rec["expected"]["published"] = not rec["expected"]["published"]

    ctx.negctl_replay(["identifiers-replay"], ids["_first_edge"], iwrong)
    _, ca = ctx.tlc_pipe("MC_ClientApi.tla", "MC_ClientApi.cfg", ["clientapi-replay"], workers=2,
                         label="ClientApi.tla: CreateDID / UpdateDID / RecoverDID / DeactivateDID: subsets of the required options x DID shape x "
                               "commitment x option groups (all 64 subsets) x algorithm option x key re-use x anchor origin x node answer; "
                               "observed: outcome, sends, the request that left the client")

    def cawrong(rec):
        rec["res"] = "ok" if rec["res"] != "ok" else "err"
        rec["sends"] = 1 - rec["sends"]

    ctx.negctl_replay(["clientapi-replay"], ca["_first_edge"], cawrong)
    _, cd = ctx.tlc_pipe("MC_ClientDoc.tla", "MC_ClientDoc.cfg", ["clientdoc-replay"], workers=1,
                         label="ClientDoc.tla: the caller's document -> the document of the request: key material x type x purposes, "
                               "service properties x endpoint x priority x lists, documents with empty / filled lists and a broken key")

    def cdwrong(rec):
        rec["ok"] = not rec["ok"]
        rec["members"] = rec["members"][1:] + ["custom"]

    ctx.negctl_replay(["clientdoc-replay"], cd["_first_edge"], cdwrong)
    _, bd = ctx.tlc_pipe("MC_Builders.tla", "MC_Builders.cfg", ["builders-replay"], workers=2,
                         label="Builders.tla: NewCreateRequest / NewUpdateRequest / NewRecoverRequest / NewDeactivateRequest over valid and "
                               "invalid inputs (suffix, reveal value, document / patches, multihash code, commitments, key, signer headers, "
                               "re-use of the signing key, window): refused or built, members of the request and of its suffix data / signed payload")

    def bdwrong(rec):
        rec["ok"] = not rec["ok"]

    ctx.negctl_replay(["builders-replay"], bd["_first_edge"], bdwrong)
    _, cj = ctx.tlc_pipe("MC_CompactJws.tla", "MC_CompactJws.cfg", ["compactjws-replay"], workers=2,
                         label="CompactJws.tla: NewJWS / SerializeCompact / ParseJWS / VerifyJWS: protected headers x signer headers x payload x "
                               "detached serialization x detached-payload option")

    def cjwrong(rec):
        rec["res"] = "verified" if rec["res"] != "verified" else "verify-refused"

    ctx.negctl_replay(["compactjws-replay"], cj["_first_edge"], cjwrong)
    _, da = ctx.tlc_pipe("MC_DocAccess.tla", "MC_DocAccess.cfg", ["docaccess-replay"], workers=1,
                         label="DocAccess.tla: 33 accessors of pkg/document x 12 shapes of the member they read, alone and among "
                               "other members holding values of every kind")

    def dawrong(rec):
        rec["result"]["kind"] = "value" if rec["result"]["kind"] != "value" else "empty"

    ctx.negctl_replay(["docaccess-replay"], da["_first_edge"], dawrong)
    if deep:
        ctx.tlaps_check("VersionsProofs.tla", needs=("Versions.tla",), abstract_ops=False,
                        label="TLAPS: version matching is an equivalence on all strings and looks at two parts; the "
                              "built-in protocol is never lost")
    ctx.exhaustive = True

CHECKS = {
    "EXT": ext,
    "C01": c01,
    "C02": c02,
    "C03": c03,
    "C04": c04,
    "C05": c05,
    "C06": c06,
    "C07": c07,
    "C08": c08,
    "C09": c09,
    "C10": c10,
    "C11": c11,
    "C13": c13,
    "C14": c14,
    "C15": c15,
    "C16": c16,
    "C17": c17,
    "C18": c18,
    "C19": c19,
    "C20": c20,
    "C12": c12,
}
