#!/usr/bin/env python3
"""Regenerates /verif/MANIFEST.json from the table below (kept next to the checks so that the
manifest never drifts from what ./check implements)."""
import json
import os
import sys

ROOT = os.path.dirname(os.path.dirname(os.path.abspath(__file__)))
sys.path.insert(0, os.path.join(ROOT, "lib"))

TRUST = ("Trusted base: TLC 1.8.0 + CommunityModules Json; Go toolchain and standard library (SHA-2, ECDSA, "
         "Ed25519, base64 are modelled as ideal functions); the concretizer / projector glue of the harness, "
         "which holds no expected values (every expectation is printed by TLC from the specification).")

P = {
    "C01": dict(
        level="model_checking", engine="applier",
        technique="TLA+ state machine (Applier.tla) checked by TLC; every explored edge replayed into "
                  "operationapplier.Apply with all fields compared; TLC trace validation of random real histories",
        text="Applier.tla is the Sidetree fold transcribed from the property statement. TLC explores every history "
             "up to the bound over an alphabet holding every failure class of every check; each explored edge "
             "(state, operation, state') is replayed from its witness path into the real applier and all 16 "
             "projected fields plus the error verdict are compared; random histories of the real code are then "
             "validated step by step by TLC (ApplierTrace.tla) with the invariants and action properties evaluated "
             "on every observed step. Exhaustive within the bound, sampled beyond it. Thorough tier: the invariants "
             "and action properties of Applier.tla are additionally proved with TLAPS for histories of any length over "
             "any alphabet (spec/proofs/ApplierProofs.tla) - a statement about the specification, bound to the code by "
             "the replay and trace stages.",
        ref="DESIGN.md 3 C01"),
    "C02": dict(
        level="model_checking", engine="applier",
        technique="TLA+ authorization predicate in Applier.tla; TLC-enumerated tamper classes expanded by the harness to "
                  "every concrete instance and replayed into the real applier",
        text="The specification refuses every non-create operation that is not Authorized (compact JWS verifying under "
             "the embedded key, key hashing to the reveal value, alg/kid-only allowed header) and installs document "
             "content only from a hash-bound delta (action properties UnauthorizedIsStutter, DocNeedsBoundDelta). TLC "
             "enumerates the tamper classes at every state reachable in <= 2 operations; the harness expands each class "
             "to every signature bit / payload field / segment variant and the real applier must refuse (or degrade the "
             "recover) exactly as specified.",
        ref="DESIGN.md 3 C02"),
    "C03": dict(
        level="model_checking", engine="selfcert",
        technique="TLA+ symbolic hash terms (Hash.tla, SelfCert.tla) checked by TLC; every (request, change) case replayed "
                  "into Parser.Parse with the suffix term evaluated by reference SHA-2 / multihash / JCS",
        text="With an ideal hash TLC checks that re-serializations keep DID and verdict and that every single-member "
             "modification changes the DID or is rejected; every enumerated case is built as real bytes (all patch "
             "actions, optional members, both algorithms, four configured lists, three spellings) and the real "
             "parser's verdict, suffix and id are compared with the specification's expectation and the reference "
             "evaluation of the suffix term.",
        ref="DESIGN.md 3 C03"),
    "C04": dict(
        level="model_checking", engine="chain",
        technique="TLA+ chain state machine over symbolic hash terms (Chain.tla, Hash.tla) checked by TLC; every complete "
                  "chain replayed as real signed requests into the commitment package and Parser.GetRevealValue/GetCommitment",
        text="TLC checks the algebra and the linkage invariant on every chain up to the bound with an ideal hash; each "
             "chain is then built from real keys of every type, with and without nonce, under both algorithms, and the "
             "library's reveal values, commitments, derived commitments and per-operation reports are compared with "
             "the reference evaluation of the specification's terms and with the predecessor the specification names.",
        ref="DESIGN.md 3 C04"),
    "C06": dict(
        level="model_checking", engine="hashcases",
        technique="TLA+ content-address model with ideal hash (HashCases.tla over Hash.tla) checked by TLC; every case "
                  "replayed into hashing.* with reference SHA-2 / multihash / JCS evaluation of the terms",
        text="The specification says when a value validates against an encoded hash (equal JSON value, algorithm from "
             "the prefix, well-formed string) and which code is reported; TLC enumerates values x relations x "
             "algorithms x malformed classes x code lists; the harness concretizes each and compares the library's "
             "hash strings and verdicts with the reference evaluation.",
        ref="DESIGN.md 3 C06"),
    "C07": dict(
        level="model_checking", engine="parserrules",
        technique="TLA+ decision table ParseAccept(request, relative configuration) (ParserRules.tla over Ops.tla); TLC "
                  "enumerates labelled deviations, one Parser.Parse test per state; TLC trace validation of random pairs",
        text="Every rule of the statement is a conjunct of ParseAccept; every single (thorough: pair of) deviation of "
             "request or configuration, incl. off-by-one on each size limit relative to the concrete request, is "
             "enumerated by TLC and executed against the real parser with real signed requests; accepted requests "
             "must carry type, suffix, id, bytes and anchor origin. Random multi-deviation pairs are validated by TLC.",
        ref="DESIGN.md 3 C07"),
    "C08": dict(
        level="model_checking", engine="client",
        technique="TLA+ lifecycle state machine (Client.tla over Composer.tla) checked by TLC; every explored edge built "
                  "with the real request builders and the real Sidetree client, parsed, anchored and applied",
        text="The specification is what the caller expects: the requested document, the keys behind the pending "
             "commitments, flags, and the refusals the builders owe. TLC explores every lifecycle up to the bound; each "
             "edge is executed at both entry levels of the library and the parser verdict, the anchored form "
             "(reference JCS) and the applied state are compared with the specification's.",
        ref="DESIGN.md 3 C08"),
    "C09": dict(
        level="model_checking", engine="applier",
        technique="TLA+ window operators (InWindow / EffUntil) in Applier.tla; TLC enumerates the full (from, until, t) "
                  "cube; replay into Apply and into Parser.Parse with a recording time validator under varied protocols",
        text="Exhaustive over (from, until) in (0..5)^2, anchoring times 0..4, time delta 1..3 and the three operation "
             "types; the spec's expected state and (from, effective until) pair are compared with the real applier and "
             "with what the real parser hands to the time validator; every other numeric protocol limit is varied in "
             "turn and must not change any outcome.",
        ref="DESIGN.md 3 C09"),
    "C10": dict(
        level="model_checking", engine="composer",
        technique="TLA+ document state machine (Composer.tla) checked by TLC; every explored edge replayed into "
                  "doccomposer.ApplyPatches; TLC trace validation of random real patch sequences",
        text="Composer.tla transcribes the per-action semantics (insert-or-replace keeping order, remove ignoring "
             "unknown ids, ordered set union / difference, replace forgetting everything, RFC 6902 on further members) "
             "and the left fold with atomic failure. TLC explores the document graph, checks UniqueIds on every "
             "document, and every explored edge is replayed into the real composer with the whole projected document "
             "compared; random patch sequences over a larger universe are validated by TLC as oracle. PatchArray.tla adds "
             "RFC 6902 on arrays (every list of <= 2 operations on every small array), replayed the same way.",
        ref="DESIGN.md 3 C10"),
    "C11": dict(
        level="model_checking", engine="jsonpatchguard",
        technique="TLA+ model of RFC 6902 writes against a protected region (JsonPatchGuard.tla) checked by TLC incl. a "
                  "negative configuration; every enumerated list replayed into patchvalidator.Validate + ApplyPatches",
        text="TLC proves within the pointer / kind universe that inspecting path and from suffices and that inspecting "
             "path alone does not; every enumerated list goes through the real validator and, when accepted, the real "
             "composer, with the publicKey / service members compared before and after (effect-based oracle on the "
             "real code; the model's classification is cross-checked against the real effect).",
        ref="DESIGN.md 3 C11"),
    "C13": dict(
        level="model_checking", engine="patchrules",
        technique="TLA+ decision table Valid(feature record) (PatchRules.tla); TLC enumerates labelled mutations of valid "
                  "bases, one implementation test per state; TLC trace validation of random feature records",
        text="The documented constraints are a TLA+ predicate over feature records; TLC enumerates bases, every "
             "single (thorough: pair of) field mutation and the key type x purpose matrix, checks that each rule is "
             "independently necessary, and each state becomes one test of the real validator whose expected verdict is "
             "the specification's; random records with any number of deviations are then validated by TLC.",
        ref="DESIGN.md 3 C13"),
    "C14": dict(
        level="model_checking", engine="composer+patchcodec",
        technique="TLA+ RoundTrip invariant and DocToPatches of Composer.tla, decision table PatchCodec.tla; every TLC "
                  "document / patch / byte shape replayed into PatchesFromDocument, the constructors, FromBytes, Validate "
                  "and ApplyPatches",
        text="TLC checks on every document of the model that the derived patches reproduce it; each document is then "
             "pushed through the real PatchesFromDocument -> Validate -> Bytes/FromBytes -> ApplyPatches chain and "
             "compared with the specification's document and derived patch list; constructors and byte shapes are "
             "enumerated by TLC with the specification's verdicts as expected values.",
        ref="DESIGN.md 3 C14"),
    "C12": dict(
        level="model_checking", engine="applier+composer",
        technique="TLC-enumerated edges of Applier.tla (and Composer.tla) replayed with deep input digests taken before and "
                  "after every real call",
        text="Values are immutable in TLA+, so the property lives in the binding: on every TLC-generated edge (every "
             "failure class at every reachable state, patch lists failing at the k-th patch) the harness digests the "
             "previous state, all earlier states the caller holds, the anchored operation and the patches before and "
             "after the real call, and demands equality and error => no state. The corruption plans of Robust.tla for "
             "ApplyPatches / Apply are run the same way (malformed and hostile inputs: the calls that fail or degrade).",
        ref="DESIGN.md 3 C12"),
}

TITLES = {}
for line in open(os.path.join(ROOT, "properties.jsonl")):
    r = json.loads(line)
    TITLES[r["id"]] = r["title"]

P["C18"] = dict(
    level="model_checking", engine="transform",
    technique="TLA+ specification of the transformation (Transform.tla: verification methods, relationships, contexts, "
              "SortOps / Dedup, metadata presence) checked by TLC; every case replayed into didtransformer.TransformDocument",
    text="The expected resolution result is computed by the specification for every key variant x option combination, "
         "every short operation list with arbitrary (time, number) pairs and every combination of metadata items; TLC "
         "checks exactly-once and sortedness on the model and the real transformer's whole output is compared case by "
         "case.",
    ref="DESIGN.md 3 C18")

P["C17"] = dict(
    level="model_checking", engine="longform",
    technique="TLA+ model of long-form DID creation (a function) and of the resolvable shape (LongForm.tla) checked by TLC; "
              "every creation / resolution probe replayed into VDR.Create / VDR.Read / dochandler.ResolveDocument / "
              "ProcessOperation, plus a sweep over every single-character change",
    text="TLC checks determinism and injectivity of creation and enumerates the namespace / encoding / suffix / form "
         "deviations of a DID with the verdict the statement gives; the harness executes every case against the real "
         "VDR and document handler, compares documents, ids, metadata and the reference hash / canonical form of "
         "the DID's parts, and sweeps every single-character change of every created DID.",
    ref="DESIGN.md 3 C17")

P["C05"] = dict(
    level="model_checking", engine="jcs",
    technique="TLA+ definition of RFC 8785 canonical form (Jcs.tla: UTF-16 sort key, escaping, ECMA-262 number layout) "
              "checked by TLC; every enumerated value x 5 spellings replayed into canonicalizer.MarshalCanonical; TLC trace "
              "validation of random values and sampled doubles",
    text="Canon is specified in TLA+ and evaluated by TLC for an exhaustive universe of small values built to hit every "
         "class (escapes, UTF-16 vs code-point order, layout boundaries); each value is spelled in five surface styles "
         "and the library must return exactly Canon(v), a fixed point denoting the same value. Beyond the universe TLC "
         "is the oracle for random values and sampled doubles recorded from the library (structure: model checking; "
         "numbers and long strings: sampled).",
    ref="DESIGN.md 3 C05")

P["C15"] = dict(
    level="exploration", engine="jws",
    technique="TLA+ ideal-signature model (Jws.tla) checked by TLC enumerates key type x signature shape x tamper class; the "
              "harness expands every class to all concrete instances against signutil / jwsutil.VerifyJWS",
    text="Cryptographic correctness cannot be model-checked; the specification contributes the complete class space and "
         "the verdicts, the harness the concrete instances (every bit, every key type, leading-zero signatures found by "
         "sampling). Exhaustive over classes and bit positions, sampled over keys and payloads.",
    ref="DESIGN.md 3 C15",
    note="Trusted base: TLC 1.8.0; Go crypto (ECDSA, Ed25519, btcec); instances are sampled by seed.")
P["C16"] = dict(
    level="exploration", engine="jws",
    technique="TLA+ class model (Jws.tla) checked by TLC enumerates key type x coordinate shape x modification; the harness "
              "samples keys with leading-zero coordinates and checks pubkey.GetPublicKeyJWK / jwsutil.JWK round trips",
    text="The class space (incl. stripped / added leading zero bytes, off-curve points) and verdicts come from the "
         "specification; concrete keys of each shape are found by seeded sampling and pushed through the real encoders, "
         "decoders, commitment functions and the verifier. Exhaustive over classes, sampled over keys.",
    ref="DESIGN.md 3 C16",
    note="Trusted base: TLC 1.8.0; Go crypto; leading-zero keys are found by rejection sampling (1/256 per coordinate).")

P["C19"] = dict(
    level="exploration", engine="robust",
    technique="TLA+ outcome alphabet and exhaustive corruption-plan space (Robust.tla) enumerated by TLC; every plan executed "
              "against the real entry points in worker subprocesses under recover + deadline; TLC trace validation of "
              "random-input runs",
    text="A TLA+ model cannot prove the absence of panics in this library or its dependencies; it contributes the "
         "outcome alphabet and the complete structure-aware plan space, and the monitors (recover, deadline, subprocess "
         "exit status) observe the real code on every plan and on seeded random inputs. Exhaustive over the plan "
         "space, sampled over byte strings.",
    ref="DESIGN.md 3 C19",
    note="Trusted base: TLC 1.8.0; the Go runtime's panic / fatal-error reporting; inputs <= ~64 kB.")

P["C20"] = dict(
    level="exploration", engine="registry",
    technique="TLA+ model of the lock-protected registries (Registry.tla) checked by TLC over all interleavings; recorded "
              "histories of the real registries decided linearizable by TLC (RegistryTrace.tla); shared stateless "
              "components compared with sequential results under the Go race detector",
    text="TLC verifies the lock design (mutual exclusion, linearization, termination) for 3 processes (thorough tier: "
         "TLAPS proves the safety part for any number of processes, spec/proofs/RegistryProofs.tla); histories of real "
         "concurrent Add / Lookup calls are validated by TLC with the linearization point as a silent step; data-race "
         "freedom and result equality of the shared stateless components are observed with -race on the schedules "
         "that occur (several GOMAXPROCS / goroutine counts), which is observation, not proof.",
    ref="DESIGN.md 3 C20",
    note="Trusted base: TLC 1.8.0; the Go race detector and scheduler; results depend on the schedules that occur.")

NOT_YET = {}


def build(claimed, not_applicable):
    checks = []
    for pid in sorted(claimed):
        p = P[pid]
        checks.append({
            "property_id": pid,
            "quick_cmd": "./check %s quick" % pid,
            "thorough_cmd": "./check %s thorough" % pid,
            "evidence_file": "/verif/evidence/%s.json" % pid,
            "replay_cmd_template": "./check replay {path}",
            "engine": p["engine"],
            "level_claimed": {"category": p["level"], "text": p["text"], "design_ref": p["ref"]},
            "level_note": p.get("note", TRUST),
            "technique": p["technique"],
        })
    return {
        "version": 1,
        "setup_cmd": "./setup.sh",
        "hooks": {
            "guard": "verif",
            "enable": "go build -tags verif (the harness module replaces github.com/trustbloc/sidetree-go by /repo)",
            "baseline_off_cmd": "/verif/baseline_off.sh",
            "source_commits": HOOK_COMMITS,
            "add_only": True,
        },
        "engines": [
            {"name": "tlc", "path": "/verif/spec", "serves_properties": sorted(claimed),
             "kind_free_text": "explicit TLA+ specification suite checked with TLC 1.8.0 (exhaustive bounded models + trace validation)"},
            {"name": "harness", "path": "/verif/harness", "serves_properties": sorted(claimed),
             "kind_free_text": "Go conformance harness: concretizer, projector, replay of TLC edges, trace recorders"},
        ],
        "checks": checks,
        "not_applicable": [{"property_id": k, "reason": v} for k, v in sorted(not_applicable.items())],
        "notes": "Exit 2 of a check is an infrastructure failure (no verdict). known_findings.txt lists recorded / repaired defects. "
                 "Beyond the listed properties: `./check EXT quick|thorough` replays the extension specifications (Versions.tla, "
                 "VdrApi.tla) on the real code and reports NONCONFORMANCE (never a VIOLATION of a property); evidence in evidence_ext/.",
    }


HOOK_COMMITS = []

if __name__ == "__main__":
    from checks import CHECKS
    claimed = [k for k in P if k in CHECKS]
    na = {k: "check not built yet in this round (planned: DESIGN.md section 3)" for k in TITLES if k not in claimed}
    na.update({k: v for k, v in NOT_YET.items() if k not in claimed})
    m = build(claimed, na)
    with open(os.path.join(ROOT, "MANIFEST.json"), "w") as f:
        json.dump(m, f, indent=1)
    print("claimed:", ",".join(sorted(claimed)), "| not claimed:", ",".join(sorted(na)))
