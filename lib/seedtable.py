#!/usr/bin/env python3
"""Regenerates the seeded-changes table of DESIGN.md from seeded/*/meta.json."""
import glob, json, os, re
ROOT = os.path.dirname(os.path.dirname(os.path.abspath(__file__)))
SUMM = json.load(open(os.path.join(ROOT, "seeded", "summaries.json")))
rows = []
for d in sorted(glob.glob(os.path.join(ROOT, "seeded", "C*"))):
    mf = os.path.join(d, "meta.json")
    if not os.path.exists(mf):
        continue
    m = json.load(open(mf))
    notes = m.get("needs_to_manifest", "")
    what = SUMM.get(m["seed"]) or re.sub(r"[#*`|]", "", notes)[:150]
    det = ", ".join(m.get("detected_by_quick_check") or []) or "—"
    if os.path.exists(os.path.join(d, "OBSOLETE")):
        det = "(obsolete: " + open(os.path.join(d, "OBSOLETE")).read().strip() + ")"
        m["missed_by"] = ""
    if os.path.exists(os.path.join(d, "NOT_COVERED_BY_STATEMENT")):
        det = "— (" + open(os.path.join(d, "NOT_COVERED_BY_STATEMENT")).read().strip() + ")"
        m["missed_by"] = ""
    # the check of the seed's own property is named under "missed by" only when no other check catches the seed either
    if m.get("detected_by_quick_check") and m.get("missed_by"):
        m["missed_by"] = re.sub(r"\(MISSED \((C\d\d) quick\) rc=0\)", "", m["missed_by"]) + " (not its statement: see the check that catches it)"
    rows.append("| %s | %s | %s | %s |" % (m["seed"], what.strip(), det, m.get("missed_by") or ""))
table = "| seed | change (from the author's notes) | caught by quick check | missed by |\n|---|---|---|---|\n" + "\n".join(rows)
p = os.path.join(ROOT, "DESIGN.md")
s = open(p).read()
s = re.sub(r"<!-- SEEDTABLE-BEGIN -->.*<!-- SEEDTABLE-END -->", lambda _m: "<!-- SEEDTABLE-BEGIN -->\n" + table + "\n<!-- SEEDTABLE-END -->", s, flags=re.S)
open(p, "w").write(s)
print(len(rows), "seeds;", sum(1 for r in rows if "| — |" in r), "undetected")
