"""Shared machinery of the checks: building the harness from /repo's working tree, running TLC
(exhaustive models piped into the harness; trace validation of harness-recorded traces),
negative controls, evidence files, known findings, replay files."""
import hashlib
import json
import os
import re
import shutil
import subprocess
import sys
import time

ROOT = os.path.dirname(os.path.dirname(os.path.abspath(__file__)))
SPEC = os.path.join(ROOT, "spec")
HARNESS = os.path.join(ROOT, "harness")
REPO = os.environ.get("VERIF_REPO", "/repo")
WORK = os.path.join(ROOT, ".work")
# sensitivity runs (selftest) write their evidence and replay files elsewhere
EVIDENCE = os.environ.get("VERIF_EVIDENCE_DIR") or os.path.join(ROOT, "evidence")
REPLAYS = os.environ.get("VERIF_REPLAYS_DIR") or os.path.join(ROOT, "replays")
KNOWN = os.path.join(ROOT, "known_findings.txt")
NCPU = os.cpu_count() or 4


class Infra(Exception):
    """An infrastructure failure: exit 2, never a verdict."""


def goenv():
    env = dict(os.environ)
    env.update({"GOFLAGS": "-mod=mod", "GOPROXY": "off", "GOSUMDB": "off", "GOTOOLCHAIN": "local"})
    return env


def sh(cmd, **kw):
    return subprocess.run(cmd, **kw)


class Ctx:
    def __init__(self, pid, tier):
        self.pid = pid
        self.tier = tier
        self.seed = int(os.environ.get("VERIF_SEED", "1") or "1")
        self.t0 = time.time()
        self.work = os.path.join(WORK, "%s.%d" % (pid, os.getpid()))
        shutil.rmtree(self.work, ignore_errors=True)
        os.makedirs(self.work)
        self.vh = None
        self.violations = []  # mismatch dicts
        self.level = "model_checking"
        self.cov = {
            "states": 0, "transitions": 0, "traces_validated_against_impl": 0,
            "evaluations": 0, "distinct_nontrivial": 0, "samples": [], "stages": [],
            "negative_controls": [],
        }
        self.assumptions = []
        self.rule = ""
        self.exhaustive = None

    # ------------------------------------------------------------------ harness
    def build(self, race=False):
        out = os.path.join(self.work, "vh-race" if race else "vh")
        # the harness module replaces the library by /repo: always the current working tree
        gomod = os.path.join(HARNESS, "go.mod")
        if REPO != "/repo":
            # sensitivity runs point the harness at a scratch copy of the repository
            hdir = os.path.join(self.work, "harness")
            if not os.path.isdir(hdir):
                shutil.copytree(HARNESS, hdir)
                txt = open(os.path.join(hdir, "go.mod")).read().replace("=> /repo", "=> " + REPO)
                open(os.path.join(hdir, "go.mod"), "w").write(txt)
                shutil.copy(os.path.join(REPO, "go.sum"), os.path.join(hdir, "go.sum"))
            cwd = hdir
        else:
            cwd = HARNESS
            if not os.path.exists(gomod):
                raise Infra("harness module missing")
        cmd = ["go", "build", "-tags", "verif", "-o", out]
        if race:
            cmd.insert(2, "-race")
        if os.environ.get("VERIF_COVER"):
            # opt-in measurement of the library code the checks execute (GOCOVERDIR = $VERIF_COVER)
            cmd[2:2] = ["-cover", "-coverpkg=all"]
        cmd.append(".")
        r = sh(cmd, cwd=cwd, env=goenv(), stdout=subprocess.PIPE, stderr=subprocess.STDOUT, text=True)
        if r.returncode != 0:
            raise Infra("harness does not build against %s:\n%s" % (REPO, r.stdout[-4000:]))
        if race:
            self.vh_race = out
        else:
            self.vh = out
        return out

    def harness(self, args, stdin_text=None, timeout=3600, race=False, env_extra=None):
        exe = self.vh_race if race else self.vh
        env = dict(os.environ)
        env["VERIF_SEED"] = str(self.seed)
        if env_extra:
            env.update(env_extra)
        r = sh([exe] + args, input=stdin_text, stdout=subprocess.PIPE, stderr=subprocess.PIPE, text=True,
               timeout=timeout, env=env, cwd=self.work)
        if r.returncode != 0:
            raise Infra("harness %s failed (%d): %s" % (args[0], r.returncode, r.stderr[-3000:]))
        return r.stdout

    def harness_json(self, args, stdin_text=None, **kw):
        out = self.harness(args, stdin_text, **kw)
        try:
            return json.loads(out.strip().splitlines()[-1])
        except Exception as e:  # noqa: BLE001
            raise Infra("harness %s: unreadable summary: %s: %.500s" % (args[0], e, out))

    # ------------------------------------------------------------------ TLC
    def stage_spec(self, cfg, overrides=None):
        """copy the specification suite into the scratch dir (TLC litters its cwd)"""
        for f in os.listdir(SPEC):
            if f.endswith(".tla"):
                shutil.copy(os.path.join(SPEC, f), self.work)
        txt = open(os.path.join(SPEC, cfg)).read()
        for k, v in (overrides or {}).items():
            txt, n = re.subn(r"(?m)^(\s*%s\s*=\s*).*$" % re.escape(k), lambda m: m.group(1) + str(v), txt)
            if n != 1:
                raise Infra("cfg %s: cannot override %s" % (cfg, k))
        name = "run_%d_%s" % (len(self.cov["stages"]), cfg)
        open(os.path.join(self.work, name), "w").write(txt)
        return name

    def tlc_cmd(self, module, cfgname, workers, extra=None):
        md = os.path.join(self.work, "md_%d_%f" % (len(self.cov["stages"]), time.time()))
        return ["tlc", "-workers", str(workers), "-noGenerateSpecTE", "-metadir", md] + (extra or []) + \
               [module, "-config", cfgname]

    @staticmethod
    def tlc_stats(log):
        m = re.findall(r"(\d+) states generated, (\d+) distinct states found", log)
        if not m:
            return None
        g, d = m[-1]
        return {"generated": int(g), "distinct": int(d)}

    def tlc_pipe(self, module, cfg, hargs, overrides=None, workers=None, timeout=1800, label=None, count=True, env_extra=None):
        """exhaustive model | harness replay.  Returns (tlc stats, harness summary)."""
        workers = workers or NCPU
        cfgname = self.stage_spec(cfg, overrides)
        log = os.path.join(self.work, "tlc_%d.log" % len(self.cov["stages"]))
        first = os.path.join(self.work, "first_%d.json" % len(self.cov["stages"]))
        cmd = ["timeout", str(timeout)] + self.tlc_cmd(module, cfgname, workers)
        env = dict(os.environ)
        env["VERIF_SEED"] = str(self.seed)
        if env_extra:
            env.update(env_extra)
        t0 = time.time()
        p1 = subprocess.Popen(cmd, cwd=self.work, stdout=subprocess.PIPE, stderr=subprocess.STDOUT)
        p2 = subprocess.Popen([self.vh] + hargs + ["-tlclog", log, "-first-edge", first], cwd=self.work,
                              stdin=p1.stdout, stdout=subprocess.PIPE, stderr=subprocess.PIPE, text=True, env=env)
        p1.stdout.close()
        out, err = p2.communicate()
        rc1 = p1.wait()
        logtxt = open(log).read() if os.path.exists(log) else ""
        if rc1 == 124:
            raise Infra("TLC timed out on %s/%s" % (module, cfg))
        if rc1 != 0:
            raise Infra("TLC failed on the model %s/%s (exit %d) - a problem of the specification, not of the code:\n%s"
                        % (module, cfg, rc1, logtxt[-3000:]))
        if p2.returncode != 0:
            raise Infra("harness %s failed (%d): %s" % (hargs[0], p2.returncode, err[-3000:]))
        stats = self.tlc_stats(logtxt)
        if not stats:
            raise Infra("no TLC statistics for %s/%s:\n%s" % (module, cfg, logtxt[-2000:]))
        try:
            summ = json.loads(out.strip().splitlines()[-1])
        except Exception as e:  # noqa: BLE001
            raise Infra("harness %s: unreadable summary: %s" % (hargs[0], e))
        if summ["cases"] == 0:
            raise Infra("dead driver: TLC produced no cases for %s/%s" % (module, cfg))
        if count:
            self.cov["states"] += stats["distinct"]
            self.cov["transitions"] += stats["generated"]
            self.cov["evaluations"] += summ["cases"]
            self.cov["distinct_nontrivial"] += summ.get("distinct", 0)
            self.cov["traces_validated_against_impl"] += summ["cases"]
        for s in summ.get("samples") or []:
            if len(self.cov["samples"]) < 4:
                self.cov["samples"].append(s)
        self.cov["stages"].append({
            "stage": label or ("%s/%s" % (module, cfg)), "overrides": overrides or {}, "tlc": stats,
            "replayed": summ["cases"], "mismatches": summ["n_mismatch"], "extra": summ.get("extra"),
            "wall_s": round(time.time() - t0, 1)})
        for m in summ.get("mismatches") or []:
            self.violations.append(m)
        if summ["n_mismatch"] and not summ.get("mismatches"):
            raise Infra("harness counted mismatches but listed none")
        summ["_first_edge"] = first
        return stats, summ

    def negctl_replay(self, hargs, first_edge_file, mutate):
        """negative control: corrupt the expectation of one real edge; the replay must notice"""
        if not os.path.exists(first_edge_file):
            raise Infra("negative control: no edge recorded")
        rec = json.loads(open(first_edge_file).read())
        mutate(rec)
        summ = self.harness_json(hargs, json.dumps(rec) + "\n")
        ok = summ["n_mismatch"] >= 1
        self.cov["negative_controls"].append({"kind": "corrupted expected edge is reported by the replay", "ok": ok})
        if not ok:
            raise Infra("vacuous binding: a corrupted expected edge was not noticed by the replay")

    def tlc_trace(self, module, cfg, tracefile, tracename, overrides=None, timeout=1800, label=None, count=True,
                  histories=0):
        """trace validation of a harness-recorded trace. Returns None if accepted, else the
        1-based trace line at which validation got stuck."""
        cfgname = self.stage_spec(cfg, overrides)
        dst = os.path.join(self.work, tracename)
        if os.path.abspath(tracefile) != os.path.abspath(dst):
            shutil.copy(tracefile, dst)
        nlines = sum(1 for _ in open(dst))
        cmd = ["timeout", str(timeout)] + self.tlc_cmd(module, cfgname, 1)
        t0 = time.time()
        r = sh(cmd, cwd=self.work, stdout=subprocess.PIPE, stderr=subprocess.STDOUT, text=True)
        log = r.stdout
        stage = {"stage": label or ("trace %s/%s" % (module, cfg)), "events": nlines, "tlc_exit": r.returncode,
                 "wall_s": round(time.time() - t0, 1)}
        self.cov["stages"].append(stage)
        if r.returncode == 0:
            st = self.tlc_stats(log)
            if not st or st["distinct"] < nlines:
                raise Infra("trace validation accepted but did not consume the trace (%s of %d)" % (st, nlines))
            if count:
                self.cov["states"] += st["distinct"]
                self.cov["transitions"] += st["generated"]
                self.cov["traces_validated_against_impl"] += histories or 1
                self.cov["evaluations"] += nlines
            return None
        if r.returncode in (10, 12, 13):
            m = re.search(r'"TRACE-REJECTED-AT-LINE", (\d+)', log)
            line = int(m.group(1)) if m else None
            if line is None:
                # an invariant / action property failed on an observed step: the state printed last
                ms = re.findall(r"/\\ l = (\d+)", log)
                line = int(ms[-1]) - 1 if ms else 0
                if len(ms) >= 1 and r.returncode in (12, 13):
                    line = int(ms[-1]) - 1
            stage["rejected_at"] = line
            stage["tlc_tail"] = log[-1500:]
            return max(line, 1)
        raise Infra("TLC failed on trace validation %s/%s (exit %d):\n%s" % (module, cfg, r.returncode, log[-3000:]))

    def tlc_check(self, module, cfg, overrides=None, workers=None, timeout=1800, label=None, expect_violation=False,
                  count=True):
        """model check without a harness on the pipe (design-level properties, negative configurations)"""
        workers = workers or NCPU
        cfgname = self.stage_spec(cfg, overrides)
        cmd = ["timeout", str(timeout)] + self.tlc_cmd(module, cfgname, workers)
        t0 = time.time()
        r = sh(cmd, cwd=self.work, stdout=subprocess.PIPE, stderr=subprocess.STDOUT, text=True)
        st = self.tlc_stats(r.stdout)
        self.cov["stages"].append({"stage": label or ("%s/%s" % (module, cfg)), "tlc": st, "tlc_exit": r.returncode,
                                   "expect_violation": expect_violation, "wall_s": round(time.time() - t0, 1)})
        if expect_violation:
            if r.returncode not in (12, 13):
                raise Infra("negative configuration %s/%s did not fail (exit %d): the property is vacuous"
                            % (module, cfg, r.returncode))
            self.cov["negative_controls"].append({"kind": "negative configuration %s fails as it must" % cfg, "ok": True})
            return st, r.stdout
        if r.returncode != 0:
            raise Infra("TLC failed on %s/%s (exit %d):\n%s" % (module, cfg, r.returncode, r.stdout[-3000:]))
        if count and st:
            self.cov["states"] += st["distinct"]
            self.cov["transitions"] += st["generated"]
        return st, r.stdout

    def tlaps_check(self, module="ApplierProofs.tla", timeout=1500, label=None, needs=("Applier.tla",), abstract_ops=True):
        """TLAPS: machine-checked proofs about the specification itself (unbounded histories, any alphabet).
        The proof modules see Ops.tla with the operation alphabet as an uninterpreted CONSTANT (tlapm does
        not accept the RECURSIVE definition that builds the bounded alphabet; the theorems then hold for
        every alphabet).  A failure is a problem of the specification / proof, never of the code."""
        d = os.path.join(self.work, "tlaps")
        shutil.rmtree(d, ignore_errors=True)
        os.makedirs(d)
        for f in needs:
            shutil.copy(os.path.join(SPEC, f), d)
        shutil.copy(os.path.join(SPEC, "proofs", module), d)
        if abstract_ops:
            ops = open(os.path.join(SPEC, "Ops.tla")).read()
            ops, n1 = re.subn(r"RECURSIVE DevN\(_, _\)\nDevN\(S, n\) == .*?\n", "", ops)
            ops, n2 = re.subn(r"Alphabet == DevN\(.*?\\cup WindowCube\n", "CONSTANT Alphabet   \\* proofs: ANY alphabet\n", ops, flags=re.S)
            if n1 != 1 or n2 != 1:
                raise Infra("cannot abstract the alphabet of Ops.tla for the proof system")
            open(os.path.join(d, "Ops.tla"), "w").write(ops)
        t0 = time.time()
        r = sh(["timeout", str(timeout), "tlapm", "--threads", str(NCPU), module], cwd=d, stdout=subprocess.PIPE,
               stderr=subprocess.STDOUT, text=True)
        m = re.search(r"All (\d+) obligations? proved", r.stdout)
        if not m:
            raise Infra("TLAPS does not prove %s (a problem of the specification, not of the code):\n%s" % (module, r.stdout[-2500:]))
        self.cov["stages"].append({"stage": label or ("TLAPS %s" % module), "obligations_proved": int(m.group(1)),
                                   "wall_s": round(time.time() - t0, 1)})
        return int(m.group(1))

    # ------------------------------------------------------------------ verdict
    def add_violation(self, m):
        self.violations.append(m)

    def finish(self):
        known = load_known(self.pid)
        os.makedirs(EVIDENCE, exist_ok=True)
        new, seen_known = [], {}
        # differences in points the statement does not speak about: recorded, never a verdict
        beyond = [m for m in self.violations if m.get("beyond")]
        self.violations = [m for m in self.violations if not m.get("beyond")]
        if beyond:
            kinds = sorted({m.get("kind", "?") for m in beyond})
            self.cov["beyond_statement"] = [{"kind": m.get("kind"), "detail": m.get("detail"), "expected": m.get("expected"),
                                             "actual": m.get("actual")} for m in beyond[:8]]
            print("NOTE: property=%s pinned behaviour beyond the statement changed (no verdict): %s" % (self.pid, ", ".join(kinds)))
        for m in self.violations:
            k = m.get("key") or hashlib.sha256(json.dumps(m.get("case"), sort_keys=True).encode()).hexdigest()[:16]
            m["key"] = k
            if k in known:
                seen_known[k] = known[k]
            else:
                new.append(m)
        for k, text in sorted(seen_known.items()):
            print("KNOWN-FINDING: property=%s key=%s %s" % (self.pid, k, text))
        paths = []
        if new:
            d = os.path.join(REPLAYS, self.pid)
            os.makedirs(d, exist_ok=True)
            seen = set()
            for m in new:
                if m["key"] in seen and len(paths) >= 1:
                    continue
                seen.add(m["key"])
                if len(paths) >= 10:
                    break
                name = re.sub(r"[^A-Za-z0-9_.=-]+", "_", m["key"])[:120] + ".json"
                p = os.path.join(d, name)
                m["property"] = self.pid
                with open(p, "w") as f:
                    json.dump(m, f, indent=1)
                paths.append(p)
        cov = self.cov
        cov["rule"] = self.rule
        if self.exhaustive is not None:
            cov["exhaustive"] = self.exhaustive
        if not cov["samples"]:
            cov["samples"] = [{"note": "no sample recorded"}]
        ev = {
            "property_id": self.pid, "tier": self.tier, "seed": self.seed, "level": self.level,
            "coverage": cov, "assumptions": self.assumptions, "wall_s": round(time.time() - self.t0, 2),
            "violations": len(new), "known_findings": sorted(seen_known),
        }
        if self.pid == "EXT":
            # behaviour specified beyond the listed properties: never a verdict on a property
            edir = os.environ.get("VERIF_EVIDENCE_DIR") or os.path.join(ROOT, "evidence_ext")
            os.makedirs(edir, exist_ok=True)
            with open(os.path.join(edir, "EXT.json"), "w") as f:
                json.dump(ev, f, indent=1)
            for p in paths:
                print("NONCONFORMANCE extension-specification replay=%s" % p)
            return 1 if new else 0
        with open(os.path.join(EVIDENCE, self.pid + ".json"), "w") as f:
            json.dump(ev, f, indent=1)
        for p in paths:
            print("VIOLATION property=%s replay=%s" % (self.pid, p))
        return 1 if new else 0

    def cleanup(self):
        shutil.rmtree(self.work, ignore_errors=True)
        try:
            os.rmdir(WORK)
        except OSError:
            pass


def load_known(pid):
    out = {}
    if not os.path.exists(KNOWN):
        return out
    for line in open(KNOWN):
        line = line.strip()
        m = re.match(r"known:\s+property=(\S+)\s+key=(\S+)\s*(.*)$", line)
        if m and m.group(1) == pid:
            out[m.group(2)] = m.group(3)
    return out


def main(argv):
    from checks import CHECKS, replay  # noqa: PLC0415

    if len(argv) >= 2 and argv[0] == "replay":
        sys.exit(replay(argv[1]))
    if not argv or argv[0] not in CHECKS:
        print("usage: check <%s> [quick|thorough] | check replay <file>" % "|".join(sorted(CHECKS)), file=sys.stderr)
        sys.exit(2)
    pid = argv[0]
    tier = argv[1] if len(argv) > 1 else os.environ.get("VERIF_TIER", "quick")
    if tier not in ("quick", "thorough"):
        tier = "quick"
    ctx = Ctx(pid, tier)
    rc = 2
    try:
        ctx.build()
        CHECKS[pid](ctx)
        rc = ctx.finish()
    except Infra as e:
        print("INFRASTRUCTURE FAILURE (no verdict) property=%s: %s" % (pid, e), file=sys.stderr)
        rc = 2
        # what the replays already observed on the real code stands: a later stage that cannot run (a vacuity guard, a
        # negative control that the broken tree makes pointless) does not take a violation back
        try:
            if any(not m.get("beyond") for m in ctx.violations):
                ctx.cov.setdefault("stages", []).append({"stage": "aborted", "reason": str(e)[:300]})
                if ctx.finish() == 1:
                    rc = 1
        except Exception:  # noqa: BLE001
            pass
    except subprocess.TimeoutExpired as e:
        print("INFRASTRUCTURE FAILURE (timeout, no verdict) property=%s: %s" % (pid, e), file=sys.stderr)
        rc = 2
    except Exception as e:  # noqa: BLE001 - a defect of the driver itself is never a verdict
        import traceback
        traceback.print_exc()
        print("INFRASTRUCTURE FAILURE (driver error, no verdict) property=%s: %r" % (pid, e), file=sys.stderr)
        rc = 2
    finally:
        ctx.cleanup()
    sys.exit(rc)
