package main

// Identifiers family (extension specification Identifiers.tla): the ids of published / unpublished
// resolutions (pkg/docutil), the document validators, the create result.

import (
	"encoding/json"
	"fmt"
	"os"
	"reflect"
	"strings"

	"github.com/trustbloc/sidetree-go/pkg/api/operation"
	"github.com/trustbloc/sidetree-go/pkg/api/protocol"
	"github.com/trustbloc/sidetree-go/pkg/docutil"
	"github.com/trustbloc/sidetree-go/pkg/vdr/sidetreelongform/dochandler/protocolversion/versions/common"
	"github.com/trustbloc/sidetree-go/pkg/versions/1_0/doccomposer"
	"github.com/trustbloc/sidetree-go/pkg/versions/1_0/docvalidator/didvalidator"
	"github.com/trustbloc/sidetree-go/pkg/versions/1_0/docvalidator/docvalidator"
	"github.com/trustbloc/sidetree-go/pkg/versions/1_0/operationapplier"
	"github.com/trustbloc/sidetree-go/pkg/versions/1_0/operationparser"
)

type idCaseIn struct {
	Kind   string   `json:"kind"`
	Ref    string   `json:"ref"`
	Eq     []string `json:"eq"`
	Label  string   `json:"label"`
	Domain string   `json:"domain"`
	State  string   `json:"state"`
	V      string   `json:"v"`
	Shape  string   `json:"shape"`
}

type idExpected struct {
	Ok            bool       `json:"ok"`
	Published     bool       `json:"published"`
	ID            []string   `json:"id"`
	Canonical     []string   `json:"canonical"`
	Equivalent    [][]string `json:"equivalent"`
	HasEquivalent bool       `json:"hasEquivalent"`
}

type idCase struct {
	C        idCaseIn   `json:"c"`
	Expected idExpected `json:"expected"`
}

// abstract segment -> concrete text
var idSegments = map[string]string{
	"ns": "did:sidetree", "sfx": "EiDahaOGH-liLLdDtTxEAdc8i-cfCz-WUcQdRJheMVNn3A", "ref": "uEiBcanonical", "e1": "uEiAequivalent1", "e2": "hl:uEiAequivalent2",
	"lbl": "interim", "dom.lbl": "https:example.com:interim", "dom": "example.com", "state": "eyJkZWx0YSI6e319", "asked": "did:sidetree:whatever:was:asked",
}

func idText(segs []string) string {
	var out []string
	for _, s := range segs {
		t, ok := idSegments[s]
		if !ok {
			fatalf("unknown id segment %q", s)
		}

		out = append(out, t)
	}

	return strings.Join(out, ":")
}

var payloadShapes = map[string]string{
	"not_json": `{"didSuffix":`, "array": `[{"didSuffix":"abc"}]`, "string": `"didSuffix"`, "null": `null`, "empty_object": `{}`,
	"suffix_ok": `{"didSuffix":"abc"}`, "suffix_empty": `{"didSuffix":""}`, "suffix_number": `{"didSuffix":7}`, "suffix_null": `{"didSuffix":null}`,
	"suffix_object": `{"didSuffix":{"didSuffix":"abc"}}`, "suffix_ok_and_more": `{"x":null,"didSuffix":"abc","patches":[]}`,
}

var originalShapes = map[string]string{
	"not_json": `{"publicKey":[]`, "array": `[{"publicKey":[]}]`, "null": `null`, "empty_object": `{}`, "no_id": `{"publicKey":[],"service":[]}`,
	"id_string": `{"id":"did:sidetree:abc","publicKey":[]}`, "id_empty": `{"id":""}`, "id_number": `{"id":7}`, "id_null": `{"id":null}`,
	"context_string": `{"@context":"https://www.w3.org/ns/did/v1"}`, "context_list": `{"@context":["https://www.w3.org/ns/did/v1"],"publicKey":[]}`,
	"context_empty_list": `{"@context":[]}`, "context_null": `{"@context":null}`,
	"id_and_context": `{"@context":["https://www.w3.org/ns/did/v1"],"id":"did:sidetree:abc"}`,
}

func identifiersReplay(args []string) {
	fl := parseFlags(args)
	seed := int64(fl.int("seed", envInt("VERIF_SEED", 1)))
	pool := newKeyPool(seed)
	col := newCollector("identifiers", fl.str("only", ""))
	seen := map[string]bool{}
	first := true

	p := testProtocol(0)
	parser := operationparser.New(p)
	pv := &common.ProtocolVersion{VersionStr: "1.0", P: p, OpParser: parser, OpApplier: operationapplier.New(p, parser, doccomposer.New())}

	readTagged(os.Stdin, "CASE", fl.str("tlclog", ""), func(line []byte) {
		if seen[string(line)] {
			return
		}

		seen[string(line)] = true

		var ic idCase
		if err := json.Unmarshal(line, &ic); err != nil {
			fatalf("bad case: %v: %.300s", err, line)
		}

		c, exp := ic.C, ic.Expected

		if first {
			first = false

			if f := fl.str("first-edge", ""); f != "" {
				_ = os.WriteFile(f, append(line, '\n'), 0o644)
			}
		}

		col.nCases++

		k := fmt.Sprintf("identifiers:%s:%s%s%s:%s/%s/%s:%s", c.Kind, c.Ref, strings.Join(c.Eq, ","), c.V, c.Label, c.Domain, c.State, c.Shape)
		col.kind(k)

		rp := map[string]interface{}{"cmd": append([]string{"identifiers-replay"}, args...), "stdin": string(line)}
		fail := func(kind, detail string, e, a interface{}) {
			col.report(mismatch{Kind: kind, Key: kind + ":" + strings.TrimPrefix(k, "identifiers:"), Case: c, Detail: detail, Expected: e, Actual: a, Replay: rp})
		}

		defer func() {
			if r := recover(); r != nil {
				fail("panic", fmt.Sprint(r), nil, nil)
			}
		}()

		var wantEq []string
		for _, e := range exp.Equivalent {
			wantEq = append(wantEq, idText(e))
		}

		checkInfo := func(ti protocol.TransformationInfo, wantID string) {
			got := generic(map[string]interface{}(ti)).(map[string]interface{})
			want := map[string]interface{}{"id": wantID, "published": exp.Published}

			if len(exp.Canonical) > 0 {
				want["canonicalId"] = idText(exp.Canonical)
			}

			if exp.HasEquivalent {
				want["equivalentId"] = wantEq
			}

			want = generic(want).(map[string]interface{})
			col.sample(map[string]interface{}{"case": c, "info": got})

			if !reflect.DeepEqual(got, want) {
				fail("transformation-info", "", want, got)
			}
		}

		switch c.Kind {
		case "published":
			rm := &protocol.ResolutionModel{}
			if c.Ref != "" {
				rm.CanonicalReference = idSegments[c.Ref]
			}

			for _, e := range c.Eq {
				rm.EquivalentReferences = append(rm.EquivalentReferences, idSegments[e])
			}

			before := digestJSON(rm)
			checkInfo(docutil.GetTransformationInfoForPublished(idSegments["ns"], idSegments["asked"], idSegments["sfx"], rm), idSegments["asked"])

			if digestJSON(rm) != before {
				fail("input-changed", "the resolution model was modified", nil, nil)
			}
		case "unpublished":
			seg := func(s string) string {
				if s == "" {
					return ""
				}

				return idSegments[s]
			}

			checkInfo(docutil.GetTransformationInfoForUnpublished(idSegments["ns"], seg(c.Domain), seg(c.Label), idSegments["sfx"], seg(c.State)), idText(exp.ID))
		case "payload", "original":
			type validator interface {
				IsValidPayload([]byte) error
				IsValidOriginalDocument([]byte) error
			}

			var v validator = docvalidator.New()
			if c.V == "did" {
				v = didvalidator.New()
			}

			var (
				text string
				ok   bool
				err  error
			)

			if c.Kind == "payload" {
				text, ok = payloadShapes[c.Shape]
			} else {
				text, ok = originalShapes[c.Shape]
			}

			if !ok {
				fatalf("unknown shape %q", c.Shape)
			}

			for _, t := range []string{text, " " + text + "\n"} {
				b := []byte(t)

				if c.Kind == "payload" {
					err = v.IsValidPayload(b)
				} else {
					err = v.IsValidOriginalDocument(b)
				}

				if string(b) != t {
					fail("input-changed", "the validator modified the bytes it was given", t, string(b))
					return
				}

				if (err == nil) != exp.Ok {
					fail("validator-verdict", c.Kind+" "+text, map[string]interface{}{"accepted": exp.Ok}, map[string]interface{}{"accepted": err == nil, "error": fmt.Sprint(err)})
					return
				}
			}

			col.sample(map[string]interface{}{"case": c, "text": text, "accepted": err == nil})
		case "create_result":
			upd, rec := pool.Get("ed", "id-upd"), pool.Get("p256", "id-rec")
			key := pool.Get("p256", "id-doc")
			keyJSON := map[string]interface{}{"id": "k1", "type": "JsonWebKey2020", "purposes": []interface{}{"authentication"},
				"publicKeyJwk": map[string]interface{}{"kty": "EC", "crv": "P-256", "x": key.JWK.X, "y": key.JWK.Y}}
			svc := map[string]interface{}{"id": "s1", "type": "T", "serviceEndpoint": "https://a.example/"}

			var patches []interface{}

			switch c.Shape {
			case "adds_key":
				patches = []interface{}{map[string]interface{}{"action": "add-public-keys", "publicKeys": []interface{}{keyJSON}}}
			case "adds_service":
				patches = []interface{}{map[string]interface{}{"action": "add-services", "services": []interface{}{svc}}}
			case "replace_with_content":
				patches = []interface{}{map[string]interface{}{"action": "replace", "document": map[string]interface{}{"publicKeys": []interface{}{keyJSON}, "services": []interface{}{svc}}}}
			case "replace_with_nothing":
				patches = []interface{}{map[string]interface{}{"action": "replace", "document": map[string]interface{}{}}}
			case "failing_patch":
				patches = []interface{}{jsonPatch(map[string]interface{}{"op": "remove", "path": "/absent"})}
			case "second_patch_fails":
				patches = []interface{}{map[string]interface{}{"action": "add-services", "services": []interface{}{svc}},
					jsonPatch(map[string]interface{}{"op": "remove", "path": "/absent"})}
			case "json_patch_adds_and_removes":
				patches = []interface{}{jsonPatch(map[string]interface{}{"op": "add", "path": "/o1", "value": 1}, map[string]interface{}{"op": "remove", "path": "/o1"})}
			case "unbound_delta", "json_patch_adds_member":
				patches = []interface{}{jsonPatch(map[string]interface{}{"op": "add", "path": "/o1", "value": 1})}
			default:
				fatalf("unknown shape %q", c.Shape)
			}

			delta := map[string]interface{}{"patches": patches, "updateCommitment": refCommitment(jwkMap(upd.JWK), sha2_256)}
			hashed := delta

			if c.Shape == "unbound_delta" {
				hashed = map[string]interface{}{"patches": []interface{}{}, "updateCommitment": delta["updateCommitment"]}
			}

			req := map[string]interface{}{"type": "create", "delta": delta,
				"suffixData": map[string]interface{}{"deltaHash": refModelHash(hashed, sha2_256), "recoveryCommitment": refCommitment(jwkMap(rec.JWK), sha2_256)}}
			reqBytes, _ := json.Marshal(req)

			// (a request whose delta is not the hashed one only parses the way anchored requests are parsed)
			internal, err := parser.ParseOperation(idSegments["ns"], reqBytes, c.Shape == "unbound_delta")
			if err != nil {
				fatalf("create_result %s: the request does not parse: %v", c.Shape, err)
			}

			op := &operation.Operation{Type: internal.Type, UniqueSuffix: internal.UniqueSuffix, ID: internal.ID, OperationRequest: reqBytes, AnchorOrigin: internal.AnchorOrigin}

			if c.Shape != "unbound_delta" {
				if op, err = parser.Parse(idSegments["ns"], reqBytes); err != nil {
					fatalf("create_result %s: the request does not parse: %v", c.Shape, err)
				}
			}

			opBefore := digestJSON(op)

			rm, err := docutil.GetCreateResult(op, pv)
			if (err == nil) != exp.Ok {
				fail("create-result", "refused exactly when the delta leaves the document empty", map[string]interface{}{"ok": exp.Ok},
					map[string]interface{}{"ok": err == nil, "error": fmt.Sprint(err)})
				return
			}

			if digestJSON(op) != opBefore {
				fail("input-changed", "the operation was modified", nil, nil)
				return
			}

			if err == nil {
				// the state a create gives: both commitments, the operation listed as unpublished, not deactivated
				if rm.UpdateCommitment != delta["updateCommitment"] || rm.RecoveryCommitment == "" || rm.Deactivated || len(rm.Doc) == 0 ||
					len(rm.UnpublishedOperations) != 1 || len(rm.PublishedOperations) != 0 || rm.UnpublishedOperations[0].Type != operation.TypeCreate ||
					rm.UnpublishedOperations[0].ProtocolVersion != p.GenesisTime {
					fail("create-result", "the state of a create result", nil, generic(rm))
					return
				}
			} else if rm != nil {
				fail("create-result", "a state together with an error", nil, generic(rm))
				return
			}

			col.sample(map[string]interface{}{"case": c, "ok": err == nil})
		default:
			fatalf("unknown kind %q", c.Kind)
		}
	})

	col.finish()
}
