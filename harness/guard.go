package main

// JsonPatchGuard family (C11): every TLC-enumerated RFC 6902 list is handed to the real patch
// validator and - if it passes - to the real composer; the protected members are compared
// before and after. The oracle is the effect on the real document, not the model's prediction;
// the model's prediction is cross-checked against the real effect (binding of the model).

import (
	"encoding/json"
	"fmt"
	"os"
	"strings"

	"github.com/trustbloc/sidetree-go/pkg/api/protocol"
	"github.com/trustbloc/sidetree-go/pkg/document"
	"github.com/trustbloc/sidetree-go/pkg/patch"
	"github.com/trustbloc/sidetree-go/pkg/versions/1_0/doccomposer"
	"github.com/trustbloc/sidetree-go/pkg/versions/1_0/doctransformer/didtransformer"
	"github.com/trustbloc/sidetree-go/pkg/versions/1_0/model"
	"github.com/trustbloc/sidetree-go/pkg/versions/1_0/operationparser"
	"github.com/trustbloc/sidetree-go/pkg/versions/1_0/operationparser/patchvalidator"
)

type gOp struct {
	Kind string `json:"kind"`
	Path string `json:"path"`
	From string `json:"from"`
	// how the members are spelled: plain, From (the from member), Op (the op member), Kind (the operation name)
	Spell string `json:"spell"`
}

type gCase struct {
	Ops         []gOp `json:"ops"`
	Validated   bool  `json:"validated"`
	MayAlterPK  bool  `json:"mayAlterPK"`
	MayAlterSvc bool  `json:"mayAlterSvc"`
}

func guardDocs() []document.Document {
	mk := func(extra bool) document.Document {
		e := newComposerEnv(1)
		d := document.Document{
			"publicKey":   []interface{}{e.keyJSON(CEnt{1, 1}), e.keyJSON(CEnt{2, 1})},
			"service":     []interface{}{e.svcJSON(CEnt{1, 1})},
			"other":       map[string]interface{}{"a": 1},
			"alsoKnownAs": []interface{}{"https://aka1.example/"},
		}

		if extra {
			// members whose value is null inside a key and inside a service (they are part of the key / service)
			d["publicKey"].([]interface{})[0].(map[string]interface{})["publicKeyJwk"].(map[string]interface{})["ext"] = nil
			d["service"].([]interface{})[0].(map[string]interface{})["routingKeys"] = nil
			d["service"].([]interface{})[0].(map[string]interface{})["nested"] = map[string]interface{}{"priority": nil}
			d["publicKeyX"] = []interface{}{"x"}
			d["services"] = []interface{}{"y"}
			d["public~Key"] = 1
			d["public/Key"] = 2
			d[""] = 3
		}

		// through bytes and the library's own reader, as documents are held after resolution; with numbers, inside a
		// key and a service, that a double does not hold exactly (however the reader keeps them: they stay what it made
		// of them)
		raw, _ := json.Marshal(d)
		text := strings.Replace(string(raw), `"type":`, `"serial":12345678901234567890,"ratio":0.1234567890123456789,"type":`, -1)

		out, err := document.FromBytes([]byte(text))
		if err != nil {
			fatalf("guard document: %v", err)
		}

		return out
	}

	// a document without keys (what is read as "the keys" must not come from anywhere else)
	keyless := mk(false)
	delete(keyless, "publicKey")

	// ... and one without services
	serviceless := mk(false)
	delete(serviceless, "service")

	return []document.Document{mk(false), mk(true), keyless, serviceless}
}

// the value an add / replace / test carries: chosen per destination so that the operation has
// the best chance to apply
func guardValue(doc document.Document, o gOp) interface{} {
	switch o.Path {
	case "/publicKey", "/service", "/publicKeyX", "/services", "/publicKeys", "/verificationMethod":
		return []interface{}{map[string]interface{}{"id": "evil"}}
	case "/capabilityInvocation", "/keyAgreement":
		// (an embedded verification method, as resolved documents may carry one)
		return []interface{}{map[string]interface{}{"id": "did:sidetree:guard#evil", "type": "JsonWebKey2020", "controller": "did:evil:1",
			"publicKeyJwk": map[string]interface{}{"kty": "EC", "crv": "P-256", "x": "evil", "y": "evil"}}}
	case "/publicKey/0", "/publicKey/-", "/service/0":
		return map[string]interface{}{"id": "evil", "type": "JsonWebKey2020"}
	case "":
		return map[string]interface{}{"publicKey": []interface{}{}}
	case "/didDocument":
		// (a whole document, as a resolution result carries one)
		return map[string]interface{}{"id": "did:evil:1", "publicKey": []interface{}{map[string]interface{}{"id": "evil"}}, "service": []interface{}{}}
	}

	return "evil"
}

func guardPatch(doc document.Document, ops []gOp) patch.Patch {
	l := []interface{}{}

	for _, o := range ops {
		opName, fromName, kind := "op", "from", o.Kind

		switch o.Spell {
		case "From":
			fromName = "From"
		case "Op":
			opName = "Op"
		case "Kind":
			kind = strings.ToUpper(kind[:1]) + kind[1:]
			if len(o.Path)%2 == 1 {
				kind = strings.ToUpper(kind)
			}
		}

		m := map[string]interface{}{opName: kind, "path": o.Path}

		switch o.Kind {
		case "add", "replace":
			m["value"] = guardValue(doc, o)
		case "test":
			m["value"] = 1 // equals /other/a and /public~1Key-less documents' nothing else: a test never writes
		case "move", "copy":
			m[fromName] = o.From
		}

		if o.Spell == "Extra" {
			if o.Kind == "move" || o.Kind == "copy" {
				m["value"] = []interface{}{0, nil, "v"}[len(o.From)%3]
			} else {
				m["from"] = o.From
			}
		}

		l = append(l, m)
	}

	raw, _ := json.Marshal(map[string]interface{}{"action": "ietf-json-patch", "patches": l})

	var p patch.Patch

	if err := json.Unmarshal(raw, &p); err != nil {
		fatalf("guard patch: %v", err)
	}

	return p
}

func guardKey(kind string, ops []gOp) string {
	s := kind
	for _, o := range ops {
		if o.Spell != "" && o.Spell != "plain" {
			s += ":respelled-" + o.Spell
		}

		s += fmt.Sprintf(":%s(%s", o.Kind, o.Path)
		if o.Kind == "move" || o.Kind == "copy" {
			s += "<-" + o.From
		}

		s += ")"
	}

	return s
}

func guardReplay(args []string) {
	fl := parseFlags(args)
	col := newCollector("jsonpatchguard", fl.str("only", ""))
	composer := doccomposer.New()
	docs := guardDocs()
	dproto := testProtocol(1)
	dproto.MaxDeltaSize, dproto.MaxOperationSize = 100000, 200000
	deltaParser := operationparser.New(dproto)
	guardCommitment := refCommitment(map[string]interface{}{"kty": "EC", "crv": "P-256", "x": "x", "y": "y"}, sha2_256)
	first := true

	var accepted, applied, alteredUnvalidated, modelWrong int64

	readTagged(os.Stdin, "CASE", fl.str("tlclog", ""), func(line []byte) {
		var c gCase
		if err := json.Unmarshal(line, &c); err != nil {
			fatalf("bad case line: %v: %.300s", err, line)
		}

		if first {
			first = false

			if f := fl.str("first-edge", ""); f != "" {
				_ = os.WriteFile(f, append(line, '\n'), 0o644)
			}
		}

		col.nCases++
		col.kind(guardKey("", c.Ops))
		col.sample(c)

		rp := map[string]interface{}{"cmd": append([]string{"guard-replay"}, args...), "stdin": string(line)}

		for di, doc := range docs {
			p := guardPatch(doc, c.Ops)
			raw, _ := json.Marshal(p)
			verr := patchvalidator.Validate(p)

			pkBefore, svcBefore := digestJSON(doc["publicKey"]), digestJSON(doc["service"])

			var (
				out      document.Document
				aerr     error
				panicked string
			)

			func() {
				defer func() {
					if r := recover(); r != nil {
						panicked = fmt.Sprint(r)
					}
				}()

				out, aerr = composer.ApplyPatches(doc, []patch.Patch{p})
			}()

			if verr == nil {
				accepted++
			}

			// the same json patch as the LAST patch of a list that removes a key and adds a service first: what those
			// two did to keys and services stands (the json patch works on the document as it is by then)
			if verr == nil && panicked == "" && aerr == nil && len(doc) > 0 {
				var pre []patch.Patch

				praw, _ := json.Marshal([]interface{}{
					map[string]interface{}{"action": "remove-public-keys", "ids": []interface{}{"k1"}},
					map[string]interface{}{"action": "add-services", "services": []interface{}{map[string]interface{}{"id": "late", "type": "T", "serviceEndpoint": "https://late.example/"}}}})
				_ = json.Unmarshal(praw, &pre)

				want, e1 := composer.ApplyPatches(doc, pre)
				got, e2 := composer.ApplyPatches(doc, append(append([]patch.Patch(nil), pre...), p))

				if e1 == nil && e2 == nil && (digestJSON(got["publicKey"]) != digestJSON(want["publicKey"]) || digestJSON(got["service"]) != digestJSON(want["service"])) {
					col.report(mismatch{Kind: "protected-altered", Key: guardKey("protected-altered-in-list", c.Ops), Case: c,
						Detail:   "after [remove-public-keys, add-services], the json patch changes keys / services back or away",
						Expected: map[string]interface{}{"publicKey": want["publicKey"], "service": want["service"]},
						Actual:   map[string]interface{}{"publicKey": got["publicKey"], "service": got["service"]},
						Concrete: map[string]interface{}{"patch": json.RawMessage(raw), "document": di}, Replay: rp})

					continue
				}
			}

			// validation of a whole delta (Parser.ValidateDelta): the json patch in front of and behind another, harmless json
			// patch - a delta passes only if each of its patches does, and what passes must not alter keys / services
			if di == 0 {
				var benign patch.Patch

				_ = json.Unmarshal([]byte(`{"action":"ietf-json-patch","patches":[{"op":"add","path":"/note","value":"harmless"}]}`), &benign)

				for oi, list := range [][]patch.Patch{{p, benign}, {benign, p}, {benign, p, benign}} {
					derr := deltaParser.ValidateDelta(&model.DeltaModel{UpdateCommitment: guardCommitment, Patches: list})
					if derr != nil {
						continue
					}

					got, e2 := composer.ApplyPatches(doc, list)
					if e2 != nil {
						continue
					}

					if digestJSON(got["publicKey"]) != pkBefore || digestJSON(got["service"]) != svcBefore {
						col.report(mismatch{Kind: "protected-altered", Key: guardKey(fmt.Sprintf("protected-altered-in-delta-%d", oi), c.Ops), Case: c,
							Detail:   "a delta holding this json patch next to a harmless one passes Parser.ValidateDelta, and applying it changes keys / services",
							Expected: map[string]interface{}{"publicKey": doc["publicKey"], "service": doc["service"]},
							Actual:   map[string]interface{}{"publicKey": got["publicKey"], "service": got["service"]},
							Concrete: map[string]interface{}{"patch": json.RawMessage(raw), "position": oi}, Replay: rp})

						break
					}
				}
			}

			if panicked != "" || aerr != nil {
				continue // no document came out: nothing was altered
			}

			applied++

			// the raw members, and what the library's own accessors read as the keys / services of the document
			rawPK, rawSvc := digestJSON(out["publicKey"]) != pkBefore, digestJSON(out["service"]) != svcBefore
			pkAltered := rawPK || guardView(out, true) != guardView(doc, true) || guardResolved(out, true) != guardResolved(doc, true)
			svcAltered := rawSvc || guardView(out, false) != guardView(doc, false) || guardResolved(out, false) != guardResolved(doc, false)

			if !pkAltered && !svcAltered {
				continue
			}

			if verr != nil {
				alteredUnvalidated++ // what validation is there to stop

				// binding of the model: the real effect must be one the model says is possible
				if (rawPK && !c.MayAlterPK) || (rawSvc && !c.MayAlterSvc) {
					modelWrong++
					col.report(mismatch{Kind: "model-binding", Key: guardKey("model-binding", c.Ops), Case: c,
						Detail:   "the real library altered a protected member where the model says no operation of the list writes there",
						Concrete: map[string]interface{}{"patch": json.RawMessage(raw), "document": di, "result": out}, Replay: rp})
				}

				continue
			}

			what := "publicKey"
			if svcAltered {
				what = "service"
			}

			col.report(mismatch{Kind: "protected-altered", Key: guardKey("protected-altered", c.Ops), Case: c,
				Detail:   "the list passes patch validation and applying it changes " + what,
				Expected: map[string]interface{}{"publicKey": doc["publicKey"], "service": doc["service"]},
				Actual:   map[string]interface{}{"publicKey": out["publicKey"], "service": out["service"]},
				Concrete: map[string]interface{}{"patch": json.RawMessage(raw), "document": di}, Replay: rp})
		}
	})

	col.sum.Extra["accepted_by_validator"] = accepted
	col.sum.Extra["applied"] = applied
	col.sum.Extra["altering_lists_stopped_by_validation"] = alteredUnvalidated
	col.sum.Extra["documents"] = len(docs)
	col.finish()
}

// guardResolved: the keys (services) of the RESOLVED document: verification methods and the five relationships (services).
func guardResolved(d document.Document, keys bool) (out string) {
	defer func() {
		if r := recover(); r != nil {
			out = "panic"
		}
	}()

	cp, _ := deepCopyGeneric(map[string]interface{}(d)).(map[string]interface{})

	res, err := didtransformer.New().TransformDocument(&protocol.ResolutionModel{Doc: cp}, protocol.TransformationInfo{"id": "did:sidetree:guard", "published": true})
	if err != nil {
		return "error"
	}

	g, _ := generic(res.Document).(map[string]interface{})

	if keys {
		return digestJSON([]interface{}{g["verificationMethod"], g["authentication"], g["assertionMethod"], g["keyAgreement"], g["capabilityDelegation"], g["capabilityInvocation"]})
	}

	return digestJSON(g["service"])
}

// guardView: the keys (services) of a document as the library reads them.
func guardView(d document.Document, keys bool) string {
	dd := document.DidDocumentFromJSONLDObject(d.JSONLdObject())
	if keys {
		return digestJSON(dd.PublicKeys())
	}

	return digestJSON(dd.Services())
}
