package main

// Client family (C08): lifecycles of Client.tla built with the request builders (level 1) and the
// Sidetree client (level 2), parsed, converted to anchored form and applied.

import (
	"bufio"
	"bytes"
	"crypto"
	"crypto/ecdsa"
	"crypto/ed25519"
	"encoding/json"
	"fmt"
	"math/rand"
	"os"
	"reflect"
	"runtime"
	"sort"
	"sync"
	"sync/atomic"

	gojose "github.com/go-jose/go-jose/v3"
	docdid "github.com/trustbloc/did-go/doc/did"
	"github.com/trustbloc/did-go/doc/did/endpoint"
	"github.com/trustbloc/kms-go/doc/jose/jwk"

	"github.com/trustbloc/sidetree-go/pkg/api/operation"
	"github.com/trustbloc/sidetree-go/pkg/api/protocol"
	"github.com/trustbloc/sidetree-go/pkg/document"
	"github.com/trustbloc/sidetree-go/pkg/jws"
	"github.com/trustbloc/sidetree-go/pkg/patch"
	"github.com/trustbloc/sidetree-go/pkg/util/ecsigner"
	"github.com/trustbloc/sidetree-go/pkg/util/edsigner"
	"github.com/trustbloc/sidetree-go/pkg/vdr/sidetreelongform/sidetree"
	sdoc "github.com/trustbloc/sidetree-go/pkg/vdr/sidetreelongform/sidetree/doc"
	"github.com/trustbloc/sidetree-go/pkg/vdr/sidetreelongform/sidetree/option/create"
	"github.com/trustbloc/sidetree-go/pkg/vdr/sidetreelongform/sidetree/option/deactivate"
	"github.com/trustbloc/sidetree-go/pkg/vdr/sidetreelongform/sidetree/option/recovery"
	"github.com/trustbloc/sidetree-go/pkg/vdr/sidetreelongform/sidetree/option/update"
	"github.com/trustbloc/sidetree-go/pkg/versions/1_0/client"
	"github.com/trustbloc/sidetree-go/pkg/versions/1_0/doccomposer"
	"github.com/trustbloc/sidetree-go/pkg/versions/1_0/model"
	"github.com/trustbloc/sidetree-go/pkg/versions/1_0/operationapplier"
	"github.com/trustbloc/sidetree-go/pkg/versions/1_0/operationparser"
)

type lUpd struct {
	AddKeys []CEnt `json:"addKeys"`
	RemKeys []int  `json:"remKeys"`
	AddSvcs []CEnt `json:"addSvcs"`
	RemSvcs []int  `json:"remSvcs"`
	AddAka  []int  `json:"addAka"`
	RemAka  []int  `json:"remAka"`
}

type lReq struct {
	Doc CDoc `json:"doc"`
	Upd lUpd `json:"upd"`
}

type lStep struct {
	Op      string `json:"op"`
	Signer  int    `json:"signer"`
	Nu      int    `json:"nu"`
	Nr      int    `json:"nr"`
	Ao      int    `json:"ao"`
	Win     string `json:"win"`
	Req     lReq   `json:"req"`
	Refused string `json:"refused"`
	Alg     string `json:"alg"`
	Ty      int    `json:"ty"`
}

type lPost struct {
	Doc    CDoc   `json:"doc"`
	Upd    int    `json:"upd"`
	Rec    int    `json:"rec"`
	Deact  bool   `json:"deact"`
	Ao     int    `json:"ao"`
	Exists bool   `json:"exists"`
	UpdAlg string `json:"updAlg"`
	RecAlg string `json:"recAlg"`
}

type lEdge struct {
	Path []lStep `json:"path"`
	Step lStep   `json:"step"`
	Post lPost   `json:"post"`
}

// the namespace of the lifecycle DIDs has three segments (did : method : network)
const lifeNS = "did:sidetree:test"

type lifeEnv struct {
	pool     *KeyPool
	ukt, rkt string
	h        int
	proto    protocol.Protocol
	parser   *operationparser.Parser
	applier  *operationapplier.Applier
}

func newLifeEnv(seed int64, ukt, rkt string, h int) *lifeEnv {
	p := testProtocol(1)
	p.Patches = append(p.Patches, "remove-also-known-as")
	// the protocol "matching" the client: the algorithm the requests use comes first
	p.MultihashAlgorithms = []uint{uint(algCode(h)), uint(sha2_256 + sha2_512 - algCode(h))}
	if h == 512 {
		// (a protocol "matches" when it lists the algorithm, wherever in the list)
		p.MultihashAlgorithms = []uint{sha2_256, sha2_512}
	}

	parser := operationparser.New(p)

	return &lifeEnv{pool: newKeyPool(seed), ukt: ukt, rkt: rkt, h: h, proto: p, parser: parser,
		applier: operationapplier.New(p, parser, doccomposer.New())}
}

// key ids are handed out in order; which type a key has follows from its role
func (e *lifeEnv) key(id int, role string) *Key {
	kt := e.ukt
	if role == "rec" {
		kt = e.rkt
	}

	// (the keys of a lifecycle have a coordinate that starts with a zero byte: builders, parser and applier must
	// agree on the fixed-width encoding wherever a key is signed with, revealed or committed to)
	return e.pool.Get(kt, fmt.Sprintf("rare:life%d", id))
}

func (e *lifeEnv) commit(id int, role string) string {
	return e.commitAlg(id, role, "same")
}

// algOf maps the abstract algorithm ("same" as the DID was created with / "other") to a code
func (e *lifeEnv) algOf(alg string) int {
	if alg == "other" {
		return sha2_256 + sha2_512 - algCode(e.h)
	}

	return algCode(e.h)
}

func (e *lifeEnv) commitAlg(id int, role, alg string) string {
	return refCommitment(jwkMap(e.key(id, role).JWK), e.algOf(alg))
}

var lifePurposes = map[int][]string{
	1: {"authentication"},
	2: {"assertionMethod", "keyAgreement"},
	3: {"capabilityInvocation", "capabilityDelegation", "authentication"},
}

// document keys: every key type a document may hold, going with (id, version); the purposes go with the version
// (version 2 has keyAgreement: the types allowed for it)
var lifeDocKinds = map[int][3][2]string{
	1: {{"p256", "JsonWebKey2020"}, {"ed", "Ed25519VerificationKey2018"}, {"k1", "EcdsaSecp256k1VerificationKey2019"}},
	2: {{"bls", "Bls12381G2Key2020"}, {"p384", "JsonWebKey2020"}, {"k1", "EcdsaSecp256k1VerificationKey2019"}},
	3: {{"p521", "JsonWebKey2020"}, {"bls", "Bls12381G2Key2020"}, {"ed", "JsonWebKey2020"}},
}

func lifeDocKind(k CEnt) (kt, typ string) {
	row, ok := lifeDocKinds[k.Ver]
	if !ok {
		return "p256", "JsonWebKey2020"
	}

	c := row[(k.ID+2)%3]

	return c[0], c[1]
}

func (e *lifeEnv) docKey(k CEnt) *Key {
	kt, _ := lifeDocKind(k)

	return e.pool.Get(kt, fmt.Sprintf("lifedoc%dv%d", k.ID, k.Ver))
}

func (e *lifeEnv) keyJSON(k CEnt) map[string]interface{} {
	pk := e.docKey(k)
	pp := []interface{}{}

	for _, p := range lifePurposes[k.Ver] {
		pp = append(pp, p)
	}

	_, typ := lifeDocKind(k)
	j := map[string]interface{}{"kty": pk.JWK.Kty, "crv": pk.JWK.Crv, "x": pk.JWK.X}

	if pk.JWK.Y != "" {
		j["y"] = pk.JWK.Y
	}

	return map[string]interface{}{"id": fmt.Sprintf("k%d", k.ID), "type": typ, "purposes": pp, "publicKeyJwk": j}
}

// (even versions: a query with characters that HTML-minded JSON writers escape)
func lifeSvcURI(s CEnt) string {
	if s.Ver%2 == 0 {
		return fmt.Sprintf("https://svc%d.example/v%d?a=1&b=<2>", s.ID, s.Ver)
	}

	return fmt.Sprintf("https://svc%d.example/v%d", s.ID, s.Ver)
}

func (e *lifeEnv) svcJSON(s CEnt) map[string]interface{} {
	return map[string]interface{}{"id": fmt.Sprintf("s%d", s.ID), "type": fmt.Sprintf("SvcType%d", s.Ver), "serviceEndpoint": lifeSvcURI(s)}
}

// at the level of the request builders the caller writes the service itself: with numbers of either sign
func (e *lifeEnv) svcJSONBuilders(s CEnt) map[string]interface{} {
	m := e.svcJSON(s)
	for name, val := range lifeSvcProps() {
		m[name] = val
	}

	return m
}

func (e *lifeEnv) docJSON(d *CDoc) string {
	m := map[string]interface{}{}

	if len(d.Keys) > 0 {
		l := []interface{}{}
		for _, k := range d.Keys {
			l = append(l, e.keyJSON(k))
		}

		m["publicKey"] = l
	}

	if len(d.Svcs) > 0 {
		l := []interface{}{}
		for _, s := range d.Svcs {
			l = append(l, e.svcJSONBuilders(s))
		}

		m["service"] = l
	}

	if len(d.Aka) > 0 {
		l := []interface{}{}
		for _, u := range d.Aka {
			l = append(l, uriOf(u))
		}

		m["alsoKnownAs"] = l
	}

	raw, _ := json.Marshal(m)

	return string(raw)
}

// projectDoc maps the real document back by CONTENT (id, type, purposes, key material, endpoint):
// an entry that is not exactly what some (id, version) stands for gets version -1.
func (e *lifeEnv) projectDoc(doc document.Document) (CDoc, []string) {
	d := CDoc{}

	var extras []string

	same := func(a, b interface{}) bool { return digestJSON(generic(a)) == digestJSON(generic(b)) }

	if l, ok := doc["publicKey"].([]interface{}); ok {
		for _, x := range l {
			ent := CEnt{ID: -1, Ver: -1}

			if m, isMap := x.(map[string]interface{}); isMap {
				if id, isStr := m["id"].(string); isStr && len(id) > 1 && id[0] == 'k' {
					ent.ID = atoi(id[1:])

					for v := 1; v <= 3; v++ {
						if same(m, e.keyJSON(CEnt{ent.ID, v})) {
							ent.Ver = v
						}
					}
				}
			}

			d.Keys = append(d.Keys, ent)
		}
	} else if doc["publicKey"] != nil {
		extras = append(extras, "publicKey: not a list")
	}

	if l, ok := doc["service"].([]interface{}); ok {
		for _, x := range l {
			ent := CEnt{ID: -1, Ver: -1}

			if m, isMap := x.(map[string]interface{}); isMap {
				if id, isStr := m["id"].(string); isStr && len(id) > 1 && id[0] == 's' {
					ent.ID = atoi(id[1:])

					for v := 1; v <= 3; v++ {
						want := e.svcJSON(CEnt{ent.ID, v})

						// (through the Sidetree client the caller's services carry one further property)
						withProps := map[string]interface{}{}
						for name, val := range want {
							withProps[name] = val
						}

						for name, val := range lifeSvcProps() {
							withProps[name] = val
						}

						if same(m, want) || same(m, withProps) {
							ent.Ver = v
						}
					}
				}
			}

			d.Svcs = append(d.Svcs, ent)
		}
	} else if doc["service"] != nil {
		extras = append(extras, "service: not a list")
	}

	if l, ok := doc["alsoKnownAs"].([]interface{}); ok {
		for _, u := range l {
			s, _ := u.(string)
			d.Aka = append(d.Aka, uriID(s))
		}
	} else if doc["alsoKnownAs"] != nil {
		extras = append(extras, "alsoKnownAs: not a list")
	}

	for name := range doc {
		if name != "publicKey" && name != "service" && name != "alsoKnownAs" {
			extras = append(extras, name)
		}
	}

	sort.Strings(extras)
	d.norm(0)
	d.Other = nil

	return d, extras
}

// ---- signers -------------------------------------------------------------------------------

type libSigner interface {
	Sign(data []byte) ([]byte, error)
	Headers() jws.Headers
}

func librarySigner(k *Key) libSigner {
	switch p := k.Priv.(type) {
	case ed25519.PrivateKey:
		return edsigner.New(p, k.Alg, "signing-key")
	case *ecdsa.PrivateKey:
		return ecsigner.New(p, k.Alg, "signing-key")
	}

	panic("harness: signer")
}

type apiSigner struct {
	libSigner
	jwk *jws.JWK
}

func (s *apiSigner) PublicKeyJWK() *jws.JWK { return s.jwk }

// ---- building the two requests of a step ---------------------------------------------------

type built struct {
	level   string
	req     []byte
	err     error
	skipped bool
}

func (e *lifeEnv) updatePatches(u *lUpd) ([]patch.Patch, error) {
	var out []patch.Patch

	add := func(p patch.Patch, err error) error {
		if err != nil {
			return err
		}

		out = append(out, p)

		return nil
	}

	js := func(v interface{}) string {
		b, _ := json.Marshal(v)
		return string(b)
	}

	ids := func(prefix string, l []int) []string {
		var r []string
		for _, i := range l {
			r = append(r, fmt.Sprintf("%s%d", prefix, i))
		}

		return r
	}

	uris := func(l []int) []string {
		var r []string
		for _, i := range l {
			r = append(r, uriOf(i))
		}

		return r
	}

	if len(u.RemAka) > 0 {
		if err := add(patch.NewRemoveAlsoKnownAs(js(uris(u.RemAka)))); err != nil {
			return nil, err
		}
	}

	if len(u.RemKeys) > 0 {
		if err := add(patch.NewRemovePublicKeysPatch(js(ids("k", u.RemKeys)))); err != nil {
			return nil, err
		}
	}

	if len(u.RemSvcs) > 0 {
		if err := add(patch.NewRemoveServiceEndpointsPatch(js(ids("s", u.RemSvcs)))); err != nil {
			return nil, err
		}
	}

	if len(u.AddAka) > 0 {
		if err := add(patch.NewAddAlsoKnownAs(js(uris(u.AddAka)))); err != nil {
			return nil, err
		}
	}

	if len(u.AddSvcs) > 0 {
		var l []interface{}
		for _, s := range u.AddSvcs {
			l = append(l, e.svcJSONBuilders(s))
		}

		if err := add(patch.NewAddServiceEndpointsPatch(js(l))); err != nil {
			return nil, err
		}
	}

	if len(u.AddKeys) > 0 {
		var l []interface{}
		for _, k := range u.AddKeys {
			l = append(l, e.keyJSON(k))
		}

		if err := add(patch.NewAddPublicKeysPatch(js(l))); err != nil {
			return nil, err
		}
	}

	return out, nil
}

func window(win string, t int) (from, until int64) {
	switch win {
	case "in":
		return int64(t - 1), int64(t + 1)
	case "from_only":
		return int64(t), 0
	case "late":
		return 0, int64(t - 1)
	}

	return 0, 0
}

func (e *lifeEnv) sdocKey(k CEnt) *sdoc.PublicKey {
	_, typ := lifeDocKind(k)

	return &sdoc.PublicKey{ID: fmt.Sprintf("k%d", k.ID), Type: typ, Purposes: lifePurposes[k.Ver],
		JWK: jwk.JWK{JSONWebKey: gojose.JSONWebKey{Key: e.docKey(k).Pub}}}
}

// further properties of the caller's services: ONE map that all services of a call refer to (the caller's map is the
// caller's: see the digest taken in build)
func (e *lifeEnv) sdocSvc(s CEnt, props map[string]interface{}) *docdid.Service {
	return &docdid.Service{ID: fmt.Sprintf("s%d", s.ID), Type: fmt.Sprintf("SvcType%d", s.Ver),
		ServiceEndpoint: endpoint.NewDIDCommV1Endpoint(lifeSvcURI(s)), Properties: props}
}

// the further properties of the caller's services: text, and numbers of either sign (whole, fractional, the largest
// whole number a double holds exactly)
func lifeSvcProps() map[string]interface{} {
	return map[string]interface{}{"custom": "v", "utcOffset": -5, "ratio": -0.25, "zero": 0, "floor": -9007199254740991, "nested": map[string]interface{}{"delta": []interface{}{-1, 1, -1.5e-7, -1e21},
		// (member names whose UTF-16 order differs from their UTF-8 / code point order)
		"\uff21": 1, "\U0001f600": 2, "\ue000": 3}}
}

// at the level of the request builders an anchor origin is any JSON value: an object in the odd steps
func aoValue(ao, t int) interface{} {
	if ao == 0 {
		return nil
	}

	if t%2 == 1 {
		return map[string]interface{}{"origin": aoString(ao), "ledgers": []interface{}{"main", 2}}
	}

	return aoString(ao)
}

// the same signing key with the optional nonce member (16 bytes, the size the protocol asks for): another key as far as
// commitments and reveal values go - the builders take it as it is
func withNonce(sk *Key) *jws.JWK {
	j := *sk.JWK
	j.Nonce = b64(seedBytes(1, "life-nonce/"+sk.Name, 16))

	return &j
}

// nonceProbe: a request built for a signing key that carries a nonce is a request like any other (its reveal value is the
// hash of the key as it stands in the signed data)
func (e *lifeEnv) nonceProbe(req []byte, berr error) error {
	if berr != nil {
		return fmt.Errorf("the same input with a signing key that carries a nonce: %w", berr)
	}

	if _, perr := e.parser.ParseOperation(lifeNS, req, true); perr != nil {
		return fmt.Errorf("the same input with a signing key that carries a nonce: the parser refuses the request: %w", perr)
	}

	return nil
}

func aoString(ao int) string {
	if ao == 0 {
		return ""
	}

	return fmt.Sprintf("origin-%d", ao)
}

// build returns the request bytes the two entry levels produce for a step.
func (e *lifeEnv) build(st *lStep, t int, did string, pre *lifeState, svcProps map[string]interface{}) []built {
	alg := uint(e.algOf(st.Alg)) // the algorithm the caller asks for in this step

	// the algorithm of the commitment this step's signing key was committed with
	pendingAlgName := pre.recAlg
	if st.Op == "update" {
		pendingAlgName = pre.updAlg
	}

	if pendingAlgName == "" {
		pendingAlgName = "same"
	}

	pendingAlg := e.algOf(pendingAlgName)
	from, until := window(st.Win, t)

	var captured []byte

	capture := func(req []byte, _ sidetree.GetEndpointsFunc) ([]byte, error) {
		captured = append([]byte(nil), req...)
		return []byte(`{}`), nil
	}

	sc := sidetree.New(sidetree.WithSidetreeOperationRequestFnc(capture))
	suffix := did[len(lifeNS+":"):]

	var l1, l2 built

	l1.level, l2.level = "request_builders", "sidetree_client"

	signerKey := func(role string) *Key { return e.key(st.Signer, role) }
	pubOf := func(id int, role string) crypto.PublicKey { return e.key(id, role).Pub }

	switch st.Op {
	case "create":
		info := &client.CreateRequestInfo{OpaqueDocument: e.docJSON(&st.Req.Doc), RecoveryCommitment: e.commit(st.Nr, "rec"),
			UpdateCommitment: e.commit(st.Nu, "upd"), MultihashCode: alg}
		if st.Ty == 1 {
			info.Type = "0001" // an entity type (request builders only)
		}
		if st.Ao != 0 {
			info.AnchorOrigin = aoValue(st.Ao, t)
		}

		opts := []create.Option{create.WithMultiHashAlgorithm(alg), create.WithUpdatePublicKey(pubOf(st.Nu, "upd")),
			create.WithRecoveryPublicKey(pubOf(st.Nr, "rec"))}

		switch st.Refused {
		case "equal_commitments":
			info.UpdateCommitment = info.RecoveryCommitment
			opts = []create.Option{create.WithMultiHashAlgorithm(alg), create.WithUpdatePublicKey(pubOf(st.Nr, "rec")),
				create.WithRecoveryPublicKey(pubOf(st.Nr, "rec"))}
		case "wrong_algorithm":
			other := sha2_512
			if alg == sha2_512 {
				other = sha2_256
			}

			info.RecoveryCommitment = refCommitment(jwkMap(e.key(st.Nr, "rec").JWK), other)
			info.UpdateCommitment = refCommitment(jwkMap(e.key(st.Nu, "upd").JWK), other)
			l2.skipped = true // the client computes the commitments itself
		}

		l1.req, l1.err = client.NewCreateRequest(info)

		if st.Ao != 0 {
			opts = append(opts, create.WithAnchorOrigin(aoString(st.Ao)))
		}

		for _, k := range st.Req.Doc.Keys {
			opts = append(opts, create.WithPublicKey(e.sdocKey(k)))
		}

		for _, s := range st.Req.Doc.Svcs {
			opts = append(opts, create.WithService(e.sdocSvc(s, svcProps)))
		}

		for _, u := range st.Req.Doc.Aka {
			opts = append(opts, create.WithAlsoKnownAs(uriOf(u)))
		}

		if !l2.skipped {
			_, cerr := sc.CreateDID(opts...)
			l2.req = captured

			if captured == nil {
				l2.err = cerr
			}
		}
	case "update":
		sk := signerKey("upd")
		patches, perr := e.updatePatches(&st.Req.Upd)
		nextCommit := e.commitAlg(st.Nu, "upd", st.Alg)
		nextPub := pubOf(st.Nu, "upd")

		if st.Refused == "reused_key" {
			nextCommit = refCommitment(jwkMap(sk.JWK), int(alg))
			nextPub = sk.Pub
		}

		if perr != nil {
			l1.err = perr
		} else {
			l1.req, l1.err = client.NewUpdateRequest(&client.UpdateRequestInfo{DidSuffix: suffix, Patches: patches, UpdateCommitment: nextCommit,
				UpdateKey: sk.JWK, MultihashCode: alg, Signer: librarySigner(sk), RevealValue: refReveal(jwkMap(sk.JWK), pendingAlg),
				AnchorFrom: from, AnchorUntil: until})

			if l1.err == nil && st.Refused == "" {
				nj := withNonce(sk)
				req2, e2 := client.NewUpdateRequest(&client.UpdateRequestInfo{DidSuffix: suffix, Patches: patches, UpdateCommitment: nextCommit,
					UpdateKey: nj, MultihashCode: alg, Signer: librarySigner(sk), RevealValue: refReveal(jwkMap(nj), pendingAlg), AnchorFrom: from, AnchorUntil: until})
				l1.err = e.nonceProbe(req2, e2)
			}
		}

		if st.Win != "none" {
			l2.skipped = true // the client has no anchoring-window option
		} else {
			opts := []update.Option{update.WithMultiHashAlgorithm(alg), update.WithNextUpdatePublicKey(nextPub),
				update.WithSigner(&apiSigner{librarySigner(sk), sk.JWK}), update.WithOperationCommitment(e.commitAlg(st.Signer, "upd", pendingAlgName))}

			u := &st.Req.Upd
			for _, k := range u.AddKeys {
				opts = append(opts, update.WithAddPublicKey(e.sdocKey(k)))
			}

			for _, i := range u.RemKeys {
				opts = append(opts, update.WithRemovePublicKey(fmt.Sprintf("k%d", i)))
			}

			for _, s := range u.AddSvcs {
				opts = append(opts, update.WithAddService(e.sdocSvc(s, svcProps)))
			}

			for _, i := range u.RemSvcs {
				opts = append(opts, update.WithRemoveService(fmt.Sprintf("s%d", i)))
			}

			for _, i := range u.AddAka {
				opts = append(opts, update.WithAddAlsoKnownAs(uriOf(i)))
			}

			for _, i := range u.RemAka {
				opts = append(opts, update.WithRemoveAlsoKnownAs(uriOf(i)))
			}

			cerr := sc.UpdateDID(did, opts...)
			l2.req = captured

			if captured == nil {
				l2.err = cerr
			}
		}
	case "recover":
		sk := signerKey("rec")
		nextRec, nextUpd := e.commitAlg(st.Nr, "rec", st.Alg), e.commitAlg(st.Nu, "upd", st.Alg)
		nextRecPub, nextUpdPub := pubOf(st.Nr, "rec"), pubOf(st.Nu, "upd")

		switch st.Refused {
		case "reused_key":
			nextRec, nextRecPub = refCommitment(jwkMap(sk.JWK), int(alg)), sk.Pub
		case "equal_commitments":
			nextUpd, nextUpdPub = nextRec, nextRecPub
		}

		info := &client.RecoverRequestInfo{DidSuffix: suffix, RecoveryKey: sk.JWK, OpaqueDocument: e.docJSON(&st.Req.Doc),
			RecoveryCommitment: nextRec, UpdateCommitment: nextUpd, AnchorFrom: from, AnchorUntil: until, MultihashCode: alg,
			Signer: librarySigner(sk), RevealValue: refReveal(jwkMap(sk.JWK), pendingAlg)}
		if st.Ao != 0 {
			info.AnchorOrigin = aoValue(st.Ao, t)
		}

		l1.req, l1.err = client.NewRecoverRequest(info)

		if l1.err == nil && st.Refused == "" {
			info2 := *info
			info2.RecoveryKey = withNonce(sk)
			info2.RevealValue = refReveal(jwkMap(info2.RecoveryKey), pendingAlg)
			req2, e2 := client.NewRecoverRequest(&info2)
			l1.err = e.nonceProbe(req2, e2)
		}

		if st.Win != "none" {
			l2.skipped = true
		} else {
			opts := []recovery.Option{recovery.WithMultiHashAlgorithm(alg), recovery.WithNextRecoveryPublicKey(nextRecPub),
				recovery.WithNextUpdatePublicKey(nextUpdPub), recovery.WithSigner(&apiSigner{librarySigner(sk), sk.JWK}),
				recovery.WithOperationCommitment(e.commitAlg(st.Signer, "rec", pendingAlgName))}
			if st.Ao != 0 {
				opts = append(opts, recovery.WithAnchorOrigin(aoString(st.Ao)))
			}

			for _, k := range st.Req.Doc.Keys {
				opts = append(opts, recovery.WithPublicKey(e.sdocKey(k)))
			}

			for _, s := range st.Req.Doc.Svcs {
				opts = append(opts, recovery.WithService(e.sdocSvc(s, svcProps)))
			}

			for _, u := range st.Req.Doc.Aka {
				opts = append(opts, recovery.WithAlsoKnownAs(uriOf(u)))
			}

			cerr := sc.RecoverDID(did, opts...)
			l2.req = captured

			if captured == nil {
				l2.err = cerr
			}
		}
	case "deactivate":
		sk := signerKey("rec")
		l1.req, l1.err = client.NewDeactivateRequest(&client.DeactivateRequestInfo{DidSuffix: suffix, RecoveryKey: sk.JWK,
			Signer: librarySigner(sk), RevealValue: refReveal(jwkMap(sk.JWK), pendingAlg)})

		if l1.err == nil && st.Refused == "" {
			nj := withNonce(sk)
			req2, e2 := client.NewDeactivateRequest(&client.DeactivateRequestInfo{DidSuffix: suffix, RecoveryKey: nj, Signer: librarySigner(sk), RevealValue: refReveal(jwkMap(nj), pendingAlg)})
			l1.err = e.nonceProbe(req2, e2)
		}

		cerr := sc.DeactivateDID(did, deactivate.WithSigner(&apiSigner{librarySigner(sk), sk.JWK}),
			deactivate.WithOperationCommitment(e.commitAlg(st.Signer, "rec", pendingAlgName)))
		l2.req = captured

		if captured == nil {
			l2.err = cerr
		}
	}

	return []built{l1, l2}
}

// ---- state ---------------------------------------------------------------------------------

type lifeState struct {
	rm             *protocol.ResolutionModel
	did            string
	updAlg, recAlg string
}

type lifeOutcome struct {
	next     *lifeState
	problems []mismatch
}

func (e *lifeEnv) projectState(rm *protocol.ResolutionModel, maxKey int) (lPost, []string) {
	p := lPost{Exists: rm.Doc != nil, Deact: rm.Deactivated}

	var extras []string

	p.Doc, extras = e.projectDoc(rm.Doc)

	find := func(c, role string) (int, string) {
		if c == "" {
			return 0, ""
		}

		for id := 1; id <= maxKey+2; id++ {
			for _, a := range []string{"same", "other"} {
				if e.commitAlg(id, role, a) == c {
					return id, a
				}
			}
		}

		return -1, "unknown"
	}

	p.Upd, p.UpdAlg = find(rm.UpdateCommitment, "upd")
	p.Rec, p.RecAlg = find(rm.RecoveryCommitment, "rec")

	switch ao := rm.AnchorOrigin.(type) {
	case nil:
		p.Ao = 0
	case string:
		if m := reOrig.FindStringSubmatch(ao); m != nil {
			p.Ao = atoi(m[1])
		} else {
			p.Ao = -1
		}
	case map[string]interface{}:
		p.Ao = -1

		if name, ok := ao["origin"].(string); ok {
			if m := reOrig.FindStringSubmatch(name); m != nil && digestJSON(ao) == digestJSON(aoValue(atoi(m[1]), 1)) {
				p.Ao = atoi(m[1])
			}
		}
	default:
		p.Ao = -1
	}

	return p, extras
}

func lifeKey(kind string, st *lStep) string {
	u := &st.Req.Upd

	extra := ""
	if st.Alg == "other" {
		extra += ":alg=other"
	}

	if st.Ty != 0 {
		extra += ":type"
	}

	return fmt.Sprintf("%s:%s:win=%s:ao=%d:refused=%s:doc=%d,%d,%d:upd=%d,%d,%d,%d,%d,%d", kind+extra, st.Op, st.Win, st.Ao, st.Refused,
		len(st.Req.Doc.Keys), len(st.Req.Doc.Svcs), len(st.Req.Doc.Aka),
		len(u.AddKeys), len(u.RemKeys), len(u.AddSvcs), len(u.RemSvcs), len(u.AddAka), len(u.RemAka))
}

// step executes one lifecycle step at both levels against the pre-state and judges it against
// `want` (nil: no judgement, the step is only replayed to rebuild a state).
func (e *lifeEnv) step(pre *lifeState, st *lStep, t int, want *lPost) lifeOutcome {
	out := lifeOutcome{next: pre}

	fail := func(kind, level, detail string, exp, act interface{}, req []byte) {
		out.problems = append(out.problems, mismatch{Kind: kind, Key: lifeKey(kind, st) + ":" + level, Detail: level + ": " + detail,
			Expected: exp, Actual: act, Concrete: map[string]interface{}{"request": string(req), "did": pre.did}})
	}

	did := pre.did
	if st.Op == "create" {
		did = lifeNS + ":pending"
	}

	var builts []built

	func() {
		defer func() {
			if r := recover(); r != nil {
				fail("panic", "builders", fmt.Sprint(r), nil, nil, nil)
			}
		}()

		svcProps := lifeSvcProps()
		propsBefore := digestJSON(svcProps)

		builts = e.build(st, t, did, pre, svcProps)

		if after := digestJSON(svcProps); after != propsBefore {
			fail("input-mutated", "sidetree_client", "the Properties map of the caller's services was written to", propsBefore, generic(svcProps), nil)
		}
	}()

	advanced := false

	for _, b := range builts {
		if b.skipped {
			continue
		}

		if st.Refused != "" {
			if b.err == nil {
				fail("builder-does-not-refuse", b.level, "input '"+st.Refused+"' must be refused, a request was built", "error", "request", b.req)
			}

			continue
		}

		if b.err != nil || b.req == nil {
			fail("builder-refuses-valid-input", b.level, fmt.Sprint(b.err), "request", "error", nil)
			continue
		}

		// 1. accepted by a parser configured with the matching protocol
		mop, perr := e.parser.ParseOperation(lifeNS, b.req, false)
		if perr != nil {
			fail("request-rejected", b.level, perr.Error(), "accepted", "rejected", b.req)
			continue
		}

		pop, perr2 := e.parser.Parse(lifeNS, b.req)
		if perr2 != nil || string(pop.Type) != st.Op {
			fail("request-rejected", b.level, fmt.Sprint(perr2), st.Op, pop, b.req)
			continue
		}

		// the request addresses the DID the caller named (its suffix is everything after the namespace)
		if st.Op != "create" && mop.UniqueSuffix != did[len(lifeNS+":"):] {
			fail("wrong-did", b.level, "the request is for another DID than the one asked for", did[len(lifeNS+":"):], mop.UniqueSuffix, b.req)
			continue
		}

		// ... also under a protocol whose limits are exactly this request's sizes (the request as sent, its delta in
		// canonical form): a request of the builders fits the limits it was built for
		{
			var carried struct {
				Delta map[string]interface{} `json:"delta"`
			}

			if json.Unmarshal(b.req, &carried) == nil && carried.Delta != nil {
				tight := e.proto
				tight.MaxDeltaSize = uint(len(refJCSSimple(carried.Delta)))
				tight.MaxOperationSize = uint(len(b.req))

				if _, terr := operationparser.New(tight).Parse(lifeNS, b.req); terr != nil {
					fail("request-rejected", b.level, fmt.Sprintf("under limits that are the request's own sizes (request %d bytes, canonical delta %d bytes): %v",
						tight.MaxOperationSize, tight.MaxDeltaSize, terr), "accepted", "rejected", b.req)
					continue
				}
			}
		}

		// 2. the anchored form is the canonical encoding of the same request
		anch, aerr := model.GetAnchoredOperation(mop)
		if aerr != nil {
			fail("anchored-form", b.level, aerr.Error(), nil, nil, b.req)
			continue
		}

		canon, cerr := refJCSFromJSON(b.req)
		if cerr != nil || string(anch.OperationRequest) != string(canon) {
			fail("anchored-form", b.level, "anchored bytes are not the canonical encoding of the request", string(canon), string(anch.OperationRequest), b.req)
			continue
		}

		// ... also when the request arrives in another serialization (indented, as a proxy or a log may leave it): the anchored
		// bytes are the canonical encoding of the request, not the bytes that arrived
		{
			var pretty bytes.Buffer

			if json.Indent(&pretty, b.req, " ", "\t") == nil {
				if pop2, e := e.parser.ParseOperation(lifeNS, pretty.Bytes(), false); e == nil {
					if a2, e2 := model.GetAnchoredOperation(pop2); e2 != nil || string(a2.OperationRequest) != string(canon) {
						fail("anchored-form", b.level, "the request arrived indented: anchored bytes are not the canonical encoding of the request", string(canon), fmt.Sprint(e2, " ", a2), b.req)
						continue
					}
				} else {
					fail("request-rejected", b.level, "the same request, indented: "+e.Error(), "accepted", "rejected", pretty.Bytes())
					continue
				}
			}
		}

		if anch.Type != mop.Type || anch.UniqueSuffix != mop.UniqueSuffix || digestJSON(anch.AnchorOrigin) != digestJSON(mop.AnchorOrigin) {
			fail("anchored-form", b.level, "type / suffix / anchor origin not preserved", mop, anch, b.req)
			continue
		}

		wantAo := interface{}(nil)
		if (st.Op == "create" || st.Op == "recover") && st.Ao != 0 {
			wantAo = aoString(st.Ao)

			if b.level == "request_builders" {
				wantAo = aoValue(st.Ao, t)
			}
		}

		if digestJSON(anch.AnchorOrigin) != digestJSON(wantAo) {
			fail("anchored-form", b.level, "anchor origin of the request", wantAo, anch.AnchorOrigin, b.req)
			continue
		}

		// 3. original bytes and anchored bytes apply to the same state
		apply := func(reqBytes []byte) (*protocol.ResolutionModel, error) {
			return e.applier.Apply(&operation.AnchoredOperation{Type: anch.Type, UniqueSuffix: anch.UniqueSuffix, OperationRequest: reqBytes,
				TransactionTime: uint64(t), TransactionNumber: uint64(t), AnchorOrigin: anch.AnchorOrigin}, pre.rm)
		}

		r1, e1 := apply(b.req)
		r2, e2 := apply(anch.OperationRequest)

		if e1 != nil || e2 != nil {
			fail("apply-refused", b.level, fmt.Sprint(e1, " / ", e2), "applied", "refused", b.req)
			continue
		}

		maxKey := st.Nu + st.Nr + st.Signer + 4
		p1, x1 := e.projectState(r1, maxKey)
		p2, x2 := e.projectState(r2, maxKey)

		if !reflect.DeepEqual(p1, p2) || len(x1)+len(x2) > 0 {
			fail("anchored-form", b.level, fmt.Sprintf("original and anchored bytes apply differently (unexpected members %v %v)", x1, x2), p1, p2, b.req)
			continue
		}

		if want != nil {
			w := *want
			w.Doc.Other = nil
			w.Doc.norm(0)
			w.Doc.Other = nil

			// a cleared commitment has no algorithm
			if w.Upd == 0 {
				w.UpdAlg = ""
			}

			if w.Rec == 0 {
				w.RecAlg = ""
			}

			if !reflect.DeepEqual(p1, w) {
				fail("state", b.level, "the resolved state is not what the caller asked for", w, p1, b.req)
				continue
			}
		}

		if !advanced {
			advanced = true
			nd := pre.did

			if st.Op == "create" {
				nd = lifeNS + ":" + mop.UniqueSuffix
			}

			ns := &lifeState{rm: r1, did: nd, updAlg: pre.updAlg, recAlg: pre.recAlg}

			switch st.Op {
			case "create":
				ns.updAlg, ns.recAlg = "same", "same"
			case "update":
				ns.updAlg = st.Alg
			case "recover":
				ns.updAlg, ns.recAlg = st.Alg, st.Alg
			}

			out.next = ns
		}
	}

	return out
}

type lifeCache struct {
	mu sync.Mutex
	m  map[string]*lifeState
}

func (e *lifeEnv) stateFor(c *lifeCache, path []lStep) *lifeState {
	kb, _ := json.Marshal(path)
	k := string(kb)

	c.mu.Lock()
	s, ok := c.m[k]
	c.mu.Unlock()

	if ok {
		return s
	}

	if len(path) == 0 {
		s = &lifeState{rm: &protocol.ResolutionModel{}, did: "", updAlg: "same", recAlg: "same"}
	} else {
		pre := e.stateFor(c, path[:len(path)-1])
		s = e.step(pre, &path[len(path)-1], len(path), nil).next
	}

	c.mu.Lock()
	if old, ok := c.m[k]; ok {
		s = old
	} else {
		c.m[k] = s
	}
	c.mu.Unlock()

	return s
}

func clientReplay(args []string) {
	fl := parseFlags(args)
	seed := int64(fl.int("seed", envInt("VERIF_SEED", 1)))
	env := newLifeEnv(seed, fl.str("ukt", "p256"), fl.str("rkt", "ed"), fl.int("h", 256))
	cache := &lifeCache{m: map[string]*lifeState{}}
	col := newCollector("client", fl.str("only", ""))
	lines := make(chan []byte, 256)

	var (
		wg    sync.WaitGroup
		first int32
	)

	for w := 0; w < runtime.NumCPU(); w++ {
		wg.Add(1)

		go func() {
			defer wg.Done()

			for line := range lines {
				var ed lEdge
				if err := json.Unmarshal(line, &ed); err != nil {
					fatalf("bad edge: %v: %.300s", err, line)
				}

				if atomic.CompareAndSwapInt32(&first, 0, 1) {
					if f := fl.str("first-edge", ""); f != "" {
						_ = os.WriteFile(f, append(line, '\n'), 0o644)
					}
				}

				pre := env.stateFor(cache, ed.Path)
				res := env.step(pre, &ed.Step, len(ed.Path)+1, &ed.Post)

				atomic.AddInt64(&col.nCases, 1)
				col.kind(lifeKey("", &ed.Step))
				col.sample(map[string]interface{}{"path_length": len(ed.Path), "step": ed.Step, "post": ed.Post})

				for _, m := range res.problems {
					m.Case = map[string]interface{}{"path": ed.Path, "step": ed.Step}
					m.Replay = map[string]interface{}{"cmd": append([]string{"client-replay"}, args...), "stdin": string(line)}
					col.report(m)
				}
			}
		}()
	}

	readTagged(os.Stdin, "EDGE", fl.str("tlclog", ""), func(line []byte) { lines <- line })
	close(lines)
	wg.Wait()

	col.sum.Extra["states"] = len(cache.m)
	col.sum.Extra["ukt"], col.sum.Extra["rkt"], col.sum.Extra["h"] = env.ukt, env.rkt, env.h
	col.finish()
}

// ---------------------------------------------------------------------------------------------
// trace driver: random lifecycles on the real builders / parser / applier, logged for ClientTrace.tla

func clientTrace(args []string) {
	fl := parseFlags(args)
	seed := int64(fl.int("seed", envInt("VERIF_SEED", 1)))
	n, maxSteps := fl.int("n", 40), fl.int("steps", 24)
	r := rand.New(rand.NewSource(seed))

	f, err := os.Create(fl.str("o", "client_trace.ndjson"))
	if err != nil {
		fatalf("%v", err)
	}

	defer f.Close()

	w := bufio.NewWriter(f)
	defer w.Flush()

	enc := json.NewEncoder(w)
	kts := []string{"p256", "ed", "k1", "p384", "p521"}
	events, problems := 0, 0

	ents := func(ids, vers, max int) []CEnt {
		out := []CEnt{}

		for _, id := range r.Perm(ids) {
			if len(out) < max && r.Intn(2) == 0 {
				out = append(out, CEnt{ID: id + 1, Ver: 1 + r.Intn(vers)})
			}
		}

		return out
	}

	ints := func(ids, max int) []int {
		out := []int{}

		for _, id := range r.Perm(ids) {
			if len(out) < max && r.Intn(2) == 0 {
				out = append(out, id+1)
			}
		}

		return out
	}

	randDoc := func() CDoc {
		for {
			d := CDoc{Keys: ents(3, 3, 3), Svcs: ents(2, 2, 2), Aka: ints(2, 2)}
			if len(d.Keys)+len(d.Svcs)+len(d.Aka) > 0 {
				return d
			}
		}
	}

	randUpd := func() lUpd {
		for {
			u := lUpd{AddKeys: ents(3, 3, 2), RemKeys: ints(3, 2), AddSvcs: ents(2, 2, 1), RemSvcs: ints(2, 2), AddAka: ints(2, 1), RemAka: ints(2, 2)}

			// (one URI is not added and removed by the same update: the two patches would contradict each other)
			for _, r := range u.RemAka {
				if len(u.AddAka) > 0 && u.AddAka[0] == r {
					u.RemAka = []int{}
				}
			}

			if len(u.AddKeys)+len(u.RemKeys)+len(u.AddSvcs)+len(u.RemSvcs)+len(u.AddAka)+len(u.RemAka) > 0 {
				return u
			}
		}
	}

	emptyReq := func() lReq {
		return lReq{Doc: CDoc{Keys: []CEnt{}, Svcs: []CEnt{}, Aka: []int{}}, Upd: lUpd{AddKeys: []CEnt{}, RemKeys: []int{}, AddSvcs: []CEnt{}, RemSvcs: []int{}, AddAka: []int{}, RemAka: []int{}}}
	}

	for h := 0; h < n; h++ {
		env := newLifeEnv(seed+int64(h), kts[h%5], kts[(h+2)%5], []int{256, 512}[h%2])
		state := &lifeState{rm: &protocol.ResolutionModel{}, did: "", updAlg: "same", recAlg: "same"}
		phase, nk, upd, rec := "start", 0, 0, 0

		_ = enc.Encode(map[string]interface{}{"event": "Reset"})
		events++

		for t := 1; t <= maxSteps && phase != "done"; t++ {
			st := lStep{Win: "none", Alg: "same", Req: emptyReq()}
			event := ""

			win := func() string {
				if r.Intn(3) == 0 {
					return []string{"in", "from_only", "late"}[r.Intn(3)]
				}

				return "none"
			}

			switch {
			case phase == "start" && r.Intn(6) == 0:
				event = "refuse"
				st.Op, st.Refused = "create", []string{"equal_commitments", "wrong_algorithm"}[r.Intn(2)]
			case phase == "start":
				event, st.Op = "create", "create"
				st.Nu, st.Nr, st.Ao, st.Ty = nk+1, nk+2, r.Intn(2), r.Intn(2)
				st.Req.Doc = randDoc()
			case r.Intn(10) == 0:
				event = "refuse"
				st.Op, st.Refused = []string{"update", "recover"}[r.Intn(2)], "reused_key"
			case r.Intn(12) == 0 || t == maxSteps:
				event, st.Op = "deactivate", "deactivate"
				st.Signer = rec
			case r.Intn(4) == 0:
				event, st.Op = "recover", "recover"
				st.Signer, st.Nu, st.Nr, st.Ao, st.Win = rec, nk+1, nk+2, r.Intn(2), win()
				st.Req.Doc = randDoc()
			default:
				event, st.Op = "update", "update"
				st.Signer, st.Nu, st.Win = upd, nk+1, win()
				st.Req.Upd = randUpd()
			}

			if st.Win == "none" && (st.Op == "update" || st.Op == "recover") && st.Refused == "" && r.Intn(4) == 0 {
				st.Alg = "other"
			}

			if event == "refuse" {
				// the request of a refusal is the one the specification uses
				st.Signer, st.Nu, st.Nr = rec, nk+1, nk+2
				if st.Op == "update" {
					st.Signer = upd
				}

				st.Req.Doc.Keys = []CEnt{{ID: 1, Ver: 1}}
				st.Req.Upd.AddKeys = []CEnt{{ID: 3, Ver: 1}}
			}

			res := env.step(state, &st, t, nil)
			state = res.next

			bad := ""
			if len(res.problems) > 0 {
				bad = res.problems[0].Kind + ": " + res.problems[0].Detail
				problems++
			}

			post, extras := env.projectState(state.rm, nk+4)
			if len(extras) > 0 && bad == "" {
				bad = fmt.Sprintf("unexpected members %v", extras)
			}

			post.Doc.Other = nil
			post.Doc.norm(0)
			post.Doc.Other = []CVal{}

			// (no JSON null in the log)
			logged := st.Req
			logged.Doc.Other = []CVal{}

			for _, l := range []*[]CEnt{&logged.Doc.Keys, &logged.Doc.Svcs, &logged.Upd.AddKeys, &logged.Upd.AddSvcs} {
				if *l == nil {
					*l = []CEnt{}
				}
			}

			for _, l := range []*[]int{&logged.Doc.Aka, &logged.Upd.RemKeys, &logged.Upd.RemSvcs, &logged.Upd.AddAka, &logged.Upd.RemAka} {
				if *l == nil {
					*l = []int{}
				}
			}

			ev := map[string]interface{}{"event": event, "op": st.Op, "signer": st.Signer, "nu": st.Nu, "nr": st.Nr, "ao": st.Ao, "win": st.Win, "alg": st.Alg,
				"ty": st.Ty, "refused": st.Refused, "req": logged, "post": post, "bad": bad, "kt": []string{env.ukt, env.rkt}, "h": env.h}
			_ = enc.Encode(ev)
			events++

			// the driver's own bookkeeping of key numbers follows the specification's
			switch event {
			case "create":
				upd, rec, nk, phase = nk+1, nk+2, nk+2, "created"
			case "update":
				upd, nk = nk+1, nk+1
			case "recover":
				upd, rec, nk, phase = nk+1, nk+2, nk+2, "recovered"
			case "deactivate":
				phase = "done"
			}
		}
	}

	writeJSON(os.Stdout, map[string]interface{}{"histories": n, "events": events, "steps_with_problems": problems})
}
