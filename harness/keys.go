package main

import (
	"crypto"
	"crypto/ecdsa"
	"crypto/ed25519"
	"crypto/elliptic"
	"crypto/rand"
	"crypto/sha256"
	"crypto/sha512"
	"encoding/base64"
	"encoding/binary"
	"fmt"
	"hash/fnv"
	"math/big"
	"strings"
	"sync"

	"github.com/btcsuite/btcd/btcec/v2"
	"github.com/trustbloc/bbs-signature-go/bbs12381g2pub"

	"github.com/trustbloc/sidetree-go/pkg/jws"
	"github.com/trustbloc/sidetree-go/pkg/util/pubkey"
)

// Key types of the abstract models.
var allKTs = []string{"ed", "p256", "p384", "p521", "k1"}

// Key is a concrete key pair of the pool.
type Key struct {
	KT   string
	Name string
	Priv crypto.PrivateKey
	Pub  crypto.PublicKey
	JWK  *jws.JWK
	Alg  string // JWS algorithm label
}

func curveOf(kt string) elliptic.Curve {
	switch kt {
	case "p256":
		return elliptic.P256()
	case "p384":
		return elliptic.P384()
	case "p521":
		return elliptic.P521()
	case "k1":
		return btcec.S256()
	}

	return nil
}

func algOf(kt string) string {
	switch kt {
	case "ed":
		return "EdDSA"
	case "p256":
		return "ES256"
	case "p384":
		return "ES384"
	case "p521":
		return "ES512"
	case "k1":
		return "ES256K"
	}

	return ""
}

func crvOf(kt string) string {
	switch kt {
	case "ed":
		return "Ed25519"
	case "p256":
		return "P-256"
	case "p384":
		return "P-384"
	case "p521":
		return "P-521"
	case "k1":
		return "secp256k1"
	}

	return ""
}

// seedBytes derives n deterministic bytes from (seed, label).
func seedBytes(seed int64, label string, n int) []byte {
	var out []byte

	var ctr uint32

	for len(out) < n {
		h := sha512.New()

		var b [12]byte

		binary.BigEndian.PutUint64(b[:8], uint64(seed))
		binary.BigEndian.PutUint32(b[8:], ctr)
		h.Write(b[:])
		h.Write([]byte(label))
		out = append(out, h.Sum(nil)...)
		ctr++
	}

	return out[:n]
}

// newKeyNoJWK derives the key pair only (for searches over many candidates).
func newKeyNoJWK(seed int64, kt, name string) *Key {
	k := &Key{KT: kt, Name: name, Alg: algOf(kt)}
	c := curveOf(kt)
	n := c.Params().N
	d := new(big.Int).SetBytes(seedBytes(seed, kt+"/"+name, (n.BitLen()+7)/8+8))
	d.Mod(d, new(big.Int).Sub(n, big.NewInt(1)))
	d.Add(d, big.NewInt(1))
	x, y := c.ScalarBaseMult(d.Bytes())
	priv := &ecdsa.PrivateKey{PublicKey: ecdsa.PublicKey{Curve: c, X: x, Y: y}, D: d}
	k.Priv = priv
	k.Pub = &priv.PublicKey

	return k
}

// newKey deterministically derives a key pair of the given type from (seed, name).
func newKey(seed int64, kt, name string) *Key {
	k := &Key{KT: kt, Name: name, Alg: algOf(kt)}

	if kt == "bls" {
		// a BLS12-381 G2 key (a document key only: nothing is signed with it here); as JWK it is kty EC with x alone
		pub, priv, err := bbs12381g2pub.GenerateKeyPair(sha256.New, seedBytes(seed, "bls/"+name, 32))
		if err != nil {
			panic(fmt.Sprintf("harness: BLS key: %v", err))
		}

		raw, err := pub.Marshal()
		if err != nil {
			panic(fmt.Sprintf("harness: BLS key: %v", err))
		}

		k.Priv, k.Pub = priv, pub
		k.JWK = &jws.JWK{Kty: "EC", Crv: "BLS12381_G2", X: b64(raw)}

		return k
	}

	if kt == "ed" {
		priv := ed25519.NewKeyFromSeed(seedBytes(seed, "ed/"+name, 32))
		k.Priv = priv
		k.Pub = priv.Public().(ed25519.PublicKey)
	} else {
		c := curveOf(kt)
		n := c.Params().N
		width := (c.Params().BitSize + 7) / 8

		// every fourth key (by name) is one whose x or y coordinate starts with a zero byte: an encoding that
		// drops or misplaces leading zeros then shows wherever such a key signs, reveals or commits
		rare := rareShape(kt, name)

		for try := 0; ; try++ {
			label := kt + "/" + name
			if try > 0 {
				label = fmt.Sprintf("%s#%d", label, try)
			}

			d := new(big.Int).SetBytes(seedBytes(seed, label, (n.BitLen()+7)/8+8))
			d.Mod(d, new(big.Int).Sub(n, big.NewInt(1)))
			d.Add(d, big.NewInt(1))
			x, y := c.ScalarBaseMult(d.Bytes())

			if rare && try < 4000 && len(x.Bytes()) == width && len(y.Bytes()) == width {
				continue
			}

			priv := &ecdsa.PrivateKey{PublicKey: ecdsa.PublicKey{Curve: c, X: x, Y: y}, D: d}
			k.Priv = priv
			k.Pub = &priv.PublicKey

			break
		}
	}

	jwk, err := pubkey.GetPublicKeyJWK(k.Pub)
	if err != nil {
		panic(fmt.Sprintf("harness: GetPublicKeyJWK(%s): %v", kt, err))
	}

	k.JWK = jwk

	return k
}

func rareShape(kt, name string) bool {
	h := fnv.New32a()
	h.Write([]byte(kt + "/" + name))

	return strings.HasPrefix(name, "rare:") || h.Sum32()%4 == 0
}

// Sign produces a raw JWS signature (r||s fixed width, or Ed25519) over msg. This is the
// harness's own reference signer (standard library only).
func (k *Key) Sign(msg []byte) []byte {
	switch p := k.Priv.(type) {
	case ed25519.PrivateKey:
		return ed25519.Sign(p, msg)
	case *ecdsa.PrivateKey:
		var digest []byte

		switch k.KT {
		case "p384":
			d := sha512.Sum384(msg)
			digest = d[:]
		case "p521":
			d := sha512.Sum512(msg)
			digest = d[:]
		default:
			d := sha256.Sum256(msg)
			digest = d[:]
		}

		r, s, err := ecdsa.Sign(rand.Reader, p, digest)
		if err != nil {
			panic(err)
		}

		w := (p.Curve.Params().BitSize + 7) / 8
		out := make([]byte, 2*w)
		r.FillBytes(out[:w])
		s.FillBytes(out[w:])

		return out
	}

	panic("harness: unknown key")
}

// KeyPool hands out deterministic keys by (type, name).
type KeyPool struct {
	seed int64
	mu   sync.Mutex
	m    map[string]*Key
}

func newKeyPool(seed int64) *KeyPool {
	return &KeyPool{seed: seed, m: map[string]*Key{}}
}

func (p *KeyPool) Get(kt, name string) *Key {
	p.mu.Lock()
	defer p.mu.Unlock()

	id := kt + "/" + name
	if k, ok := p.m[id]; ok {
		return k
	}

	k := newKey(p.seed, kt, name)
	p.m[id] = k

	return k
}

func b64(b []byte) string { return base64.RawURLEncoding.EncodeToString(b) }

func cloneJWK(j *jws.JWK) *jws.JWK {
	c := *j
	return &c
}
