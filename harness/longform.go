package main

// LongForm family (C17): VDR.Create / VDR.Read, dochandler.ResolveDocument / ProcessOperation.

import (
	"bytes"
	"crypto/ecdsa"
	"crypto/ed25519"
	"encoding/base64"
	"encoding/json"
	"fmt"
	"github.com/trustbloc/sidetree-go/pkg/document"
	"github.com/trustbloc/sidetree-go/pkg/util/pubkey"
	"math/big"
	"os"
	"sort"
	"strings"

	docdid "github.com/trustbloc/did-go/doc/did"
	"github.com/trustbloc/did-go/doc/did/endpoint"
	vdrapi "github.com/trustbloc/did-go/vdr/api"
	"github.com/trustbloc/kms-go/doc/jose/jwk/jwksupport"

	"github.com/trustbloc/sidetree-go/pkg/vdr/sidetreelongform"
	"github.com/trustbloc/sidetree-go/pkg/vdr/sidetreelongform/dochandler"
)

type lfProbe struct {
	Doc  int    `json:"doc"`
	Ns   string `json:"ns"`
	Enc  string `json:"enc"`
	Sfx  string `json:"sfx"`
	Form string `json:"form"`
}

type lfCase struct {
	Kind     string  `json:"kind"`
	Doc      int     `json:"doc"`
	Keys     int     `json:"keys"`
	Call     int     `json:"call"`
	Resolves bool    `json:"resolves"`
	Probe    lfProbe `json:"probe"`
	Shape    string  `json:"shape"`
	Same     bool    `json:"same"`
	Decided  *bool   `json:"decided"`
	Refused  bool    `json:"refused"`
}

// what the caller supplies for document variant d
type lfKey struct {
	id       string
	kt       string
	purposes []docdid.VerificationRelationship
}

type lfDoc struct {
	keys []lfKey
	svcs []string
	aka  []string
}

var lfDocs = map[int]lfDoc{
	1: {keys: []lfKey{{"key-1", "p256", []docdid.VerificationRelationship{docdid.Authentication}}}},
	2: {keys: []lfKey{
		{"signing", "ed", []docdid.VerificationRelationship{docdid.Authentication, docdid.AssertionMethod, docdid.CapabilityInvocation}},
		{"agreement", "p384", []docdid.VerificationRelationship{docdid.KeyAgreement}},
		{"delegate", "k1", []docdid.VerificationRelationship{docdid.CapabilityDelegation, docdid.Authentication}}},
		svcs: []string{"https://hub.example/a"}, aka: []string{"https://me.example/"}},
	// 3: key ids that differ in case only, characters that HTML-minded JSON writers escape, a member name order that
	// differs between UTF-8 and UTF-16
	3: {keys: []lfKey{{"a", "p521", []docdid.VerificationRelationship{docdid.AssertionMethod}}, {"b", "p256", []docdid.VerificationRelationship{docdid.Authentication, docdid.KeyAgreement}},
		{"A", "k1", []docdid.VerificationRelationship{docdid.Authentication}}, {"B", "ed", []docdid.VerificationRelationship{docdid.Authentication}}},
		svcs: []string{"https://one.example/x?a=1&b=2", "did:example:123"}, aka: []string{"https://first.example/?q=<1>&r=2", "HTTPS://Second.Example/zoë\u2028"}},
	4: {svcs: []string{"https://only-a-service.example/"}},
	// 5: the largest document the VDR accepts (its endpoint is lengthened at start-up until Create refuses)
	5: {keys: []lfKey{{"key-1", "ed", []docdid.VerificationRelationship{docdid.Authentication}}}, svcs: []string{"https://hub.example/"}},
}

var relName = map[docdid.VerificationRelationship]string{
	docdid.Authentication: "authentication", docdid.AssertionMethod: "assertionMethod", docdid.KeyAgreement: "keyAgreement",
	docdid.CapabilityDelegation: "capabilityDelegation", docdid.CapabilityInvocation: "capabilityInvocation",
}

func (d lfDoc) build(pool *KeyPool) (*docdid.Doc, error) {
	doc := &docdid.Doc{}

	for _, k := range d.keys {
		pk := pool.Get(k.kt, "lf-"+k.id)

		j, err := jwksupport.JWKFromKey(pk.Pub)
		if err != nil {
			return nil, err
		}

		// (the keys of the multi-key documents carry the optional JWK members a caller may set: they are part of the key as supplied)
		if len(d.keys) == 3 && k.id == d.keys[0].id {
			j.KeyID, j.Algorithm, j.Use = "kid-of-"+k.id, pk.Alg, "sig"
		}

		vm, err := docdid.NewVerificationMethodFromJWK(k.id, "JsonWebKey2020", "", j)
		if err != nil {
			return nil, err
		}

		for _, r := range k.purposes {
			v := *docdid.NewReferencedVerification(vm, r)

			switch r {
			case docdid.Authentication:
				doc.Authentication = append(doc.Authentication, v)
			case docdid.AssertionMethod:
				doc.AssertionMethod = append(doc.AssertionMethod, v)
			case docdid.KeyAgreement:
				doc.KeyAgreement = append(doc.KeyAgreement, v)
			case docdid.CapabilityDelegation:
				doc.CapabilityDelegation = append(doc.CapabilityDelegation, v)
			case docdid.CapabilityInvocation:
				doc.CapabilityInvocation = append(doc.CapabilityInvocation, v)
			}
		}
	}

	for i, u := range d.svcs {
		svc := docdid.Service{ID: fmt.Sprintf("svc-%d", i+1), Type: fmt.Sprintf("Type%d", i+1), ServiceEndpoint: endpoint.NewDIDCommV1Endpoint(u)}

		// the first service of a multi-key document carries the optional members and a property of its own
		if i == 0 && len(d.keys) > 1 {
			svc.Priority = lfPriority(len(d.keys))
			svc.RecipientKeys = []string{"did:example:123#recipient"}
			svc.RoutingKeys = []string{"did:example:123#routing"}
			svc.Accept = []string{"didcomm/v2"}
			// (names whose UTF-16 order differs from their UTF-8 / code point order)
			svc.Properties = map[string]interface{}{"custom": "v", "\U0001f600": 1, "\ufb33": 2, "weight": 5e-7}
		}

		// the last service of a multi-key document has a structured endpoint (DIDComm v2: a list of objects)
		if i == len(d.svcs)-1 && len(d.keys) == 99 {
			svc.ServiceEndpoint = endpoint.NewDIDCommV2Endpoint([]endpoint.DIDCommV2Endpoint{{URI: u, Accept: []string{"didcomm/v2"}, RoutingKeys: []string{"did:example:1#r"}}})
		}

		doc.Service = append(doc.Service, svc)
	}

	doc.AlsoKnownAs = d.aka

	return doc, nil
}

// summary of a resolved document in the terms of the supplied one ("equivalent document")
type lfSummary struct {
	ID   string              `json:"id"`
	Keys map[string][]string `json:"keys"` // key id fragment -> sorted relationships
	JWKX map[string]string   `json:"jwk_x"`
	Svcs []string            `json:"services"` // id|type|endpoint
	Aka  []string            `json:"alsoKnownAs"`
}

func summarize(raw map[string]interface{}) lfSummary {
	s := lfSummary{Keys: map[string][]string{}, JWKX: map[string]string{}}
	s.ID, _ = raw["id"].(string)

	frag := func(id string) string {
		if i := strings.LastIndex(id, "#"); i >= 0 {
			return id[i+1:]
		}

		return id
	}

	if l, ok := raw["verificationMethod"].([]interface{}); ok {
		for _, x := range l {
			m, _ := x.(map[string]interface{})
			id, _ := m["id"].(string)
			s.Keys[frag(id)] = []string{}

			if j, ok := m["publicKeyJwk"].(map[string]interface{}); ok {
				s.JWKX[frag(id)], _ = j["x"].(string)

				// (the optional members, where the caller set them)
				if kid, has := j["kid"]; has {
					s.JWKX[frag(id)] += fmt.Sprintf("|kid=%v|alg=%v|use=%v", kid, j["alg"], j["use"])
				}
			}
		}
	}

	for _, rel := range relNames {
		if l, ok := raw[rel].([]interface{}); ok {
			for _, x := range l {
				id, _ := x.(string)
				if m, isMap := x.(map[string]interface{}); isMap {
					id, _ = m["id"].(string)
				}

				s.Keys[frag(id)] = append(s.Keys[frag(id)], rel)
			}
		}
	}

	for k := range s.Keys {
		sort.Strings(s.Keys[k])
	}

	if l, ok := raw["service"].([]interface{}); ok {
		for _, x := range l {
			m, _ := x.(map[string]interface{})
			id, _ := m["id"].(string)
			ep, _ := json.Marshal(m["serviceEndpoint"])

			rest := map[string]interface{}{}
			for k, v := range m {
				if k != "id" && k != "type" && k != "serviceEndpoint" {
					rest[k] = v
				}
			}

			s.Svcs = append(s.Svcs, fmt.Sprintf("%s|%v|%s|%s", frag(id), m["type"], ep, refJCSSimple(rest)))
		}
	}

	if l, ok := raw["alsoKnownAs"].([]interface{}); ok {
		for _, x := range l {
			u, _ := x.(string)
			s.Aka = append(s.Aka, u)
		}
	}

	return s
}

func (d lfDoc) expected(pool *KeyPool, id string) lfSummary {
	s := lfSummary{ID: id, Keys: map[string][]string{}, JWKX: map[string]string{}}

	for _, k := range d.keys {
		var rels []string
		for _, r := range k.purposes {
			rels = append(rels, relName[r])
		}

		sort.Strings(rels)
		s.Keys[k.id] = rels
		s.JWKX[k.id] = pool.Get(k.kt, "lf-"+k.id).JWK.X

		if len(d.keys) == 3 && k.id == d.keys[0].id {
			s.JWKX[k.id] += fmt.Sprintf("|kid=kid-of-%s|alg=%s|use=sig", k.id, pool.Get(k.kt, "lf-"+k.id).Alg)
		}
	}

	for i, u := range d.svcs {
		ep, _ := json.Marshal(u)

		rest := map[string]interface{}{}
		if i == 0 && len(d.keys) > 1 {
			rest = map[string]interface{}{"priority": lfPriority(len(d.keys)), "recipientKeys": []string{"did:example:123#recipient"},
				"routingKeys": []string{"did:example:123#routing"}, "accept": []string{"didcomm/v2"}, "custom": "v", "\U0001f600": 1, "\ufb33": 2,
				"weight": 5e-7}
		}

		if i == len(d.svcs)-1 && len(d.keys) == 99 {
			ep, _ = json.Marshal([]interface{}{map[string]interface{}{"uri": u, "accept": []string{"didcomm/v2"}, "routingKeys": []string{"did:example:1#r"}}})
		}

		s.Svcs = append(s.Svcs, fmt.Sprintf("svc-%d|Type%d|%s|%s", i+1, i+1, ep, refJCSSimple(rest)))
	}

	s.Aka = d.aka

	return s
}

func longformReplay(args []string) {
	fl := parseFlags(args)
	seed := int64(fl.int("seed", envInt("VERIF_SEED", 1)))
	pool := newKeyPool(seed)
	col := newCollector("longform", fl.str("only", ""))
	seen := map[string]bool{}
	first := true

	vdr, err := sidetreelongform.New()
	if err != nil {
		fatalf("vdr: %v", err)
	}

	handler, err := dochandler.New("did:ion")
	if err != nil {
		fatalf("dochandler: %v", err)
	}

	vdr3, err := sidetreelongform.New(sidetreelongform.WithDIDMethod("ion:test"))
	if err != nil {
		fatalf("vdr: %v", err)
	}

	handler3, err := dochandler.New("did:ion:test")
	if err != nil {
		fatalf("dochandler: %v", err)
	}

	// document 5: the longest service endpoint for which Create still succeeds (what is created must resolve,
	// however large it is)
	{
		accepted := func(n int) bool {
			d5 := lfDocs[5]
			d5.svcs = []string{"https://hub.example/" + strings.Repeat("a", n)}
			lfDocs[5] = d5

			dd, err := d5.build(pool)
			if err != nil {
				return false
			}

			upd := pool.Get("ed", "lf-upd-1").Pub.(ed25519.PublicKey)
			rec := pool.Get("ed", "lf-rec-1").Pub.(ed25519.PublicKey)
			_, err = vdr.Create(dd, vdrapi.WithOption(sidetreelongform.UpdatePublicKeyOpt, upd), vdrapi.WithOption(sidetreelongform.RecoveryPublicKeyOpt, rec))

			return err == nil
		}

		lo, hi := 0, 20000 // accepted(lo), !accepted(hi)
		if !accepted(lo) || accepted(hi) {
			fatalf("document 5: no size limit found")
		}

		for hi-lo > 1 {
			if mid := (lo + hi) / 2; accepted(mid) {
				lo = mid
			} else {
				hi = mid
			}
		}

		accepted(lo)
		col.sum.Extra["largest_endpoint_accepted"] = lo
	}

	createdDID := map[string]string{}

	// -log <file>: trace mode (see the resolve case)
	var traceEnc *json.Encoder

	if lp := fl.str("log", ""); lp != "" {
		lf, lerr := os.Create(lp)
		if lerr != nil {
			fatalf("%v", lerr)
		}

		defer lf.Close()

		traceEnc = json.NewEncoder(lf)
	}

	// results handed out earlier stay what they were, whatever the handler / VDR serves afterwards
	type heldResult struct {
		what string
		now  func() string
		then string
	}

	var held []heldResult

	hold := func(what string, now func() string) {
		if len(held) < 3000 {
			held = append(held, heldResult{what, now, now()})
		}
	}

	var singleChar int64

	createOnce := func(docID, keys int) (*docdid.DocResolution, error) {
		d, err := lfDocs[docID].build(pool)
		if err != nil {
			return nil, err
		}

		upd := pool.Get("ed", fmt.Sprintf("lf-upd-%d", keys)).Pub.(ed25519.PublicKey)
		rec := pool.Get("ed", fmt.Sprintf("lf-rec-%d", keys)).Pub.(ed25519.PublicKey)

		before := lfDocDigest(d)
		res, cerr := vdr.Create(d, vdrapi.WithOption(sidetreelongform.UpdatePublicKeyOpt, upd), vdrapi.WithOption(sidetreelongform.RecoveryPublicKeyOpt, rec))

		// the caller's document is the caller's: what was supplied stays what it was
		if after := lfDocDigest(d); after != before && cerr == nil {
			return nil, fmt.Errorf("VDR.Create changed the document it was given: %s -> %s", before, after)
		}

		return res, cerr
	}

	readTagged(os.Stdin, "CASE", fl.str("tlclog", ""), func(line []byte) {
		if seen[string(line)] {
			return
		}

		seen[string(line)] = true

		var c lfCase
		if err := json.Unmarshal(line, &c); err != nil {
			fatalf("bad case: %v: %.300s", err, line)
		}

		if first {
			first = false

			if f := fl.str("first-edge", ""); f != "" {
				_ = os.WriteFile(f, append(line, '\n'), 0o644)
			}
		}

		col.nCases++

		k := fmt.Sprintf("longform:%s:doc=%d", c.Kind, c.Doc)
		if c.Kind == "resolve" {
			k += fmt.Sprintf(":ns=%s:enc=%s:sfx=%s:form=%s", c.Probe.Ns, c.Probe.Enc, c.Probe.Sfx, c.Probe.Form)
		} else if c.Kind == "process" {
			k += ":shape=" + c.Shape
		} else {
			k += fmt.Sprintf(":keys=%d", c.Keys)
		}

		col.kind(k)

		rp := map[string]interface{}{"cmd": append([]string{"longform-replay"}, args...), "stdin": string(line)}
		failed := false
		fail := func(kind, detail string, e, a interface{}) {
			if failed {
				return
			}

			failed = true
			col.report(mismatch{Kind: kind, Key: kind + ":" + strings.TrimPrefix(k, "longform:"), Case: c, Detail: detail, Expected: e, Actual: a, Replay: rp})
		}

		defer func() {
			if r := recover(); r != nil {
				fail("panic", fmt.Sprint(r), nil, nil)
			}
		}()

		switch c.Kind {
		case "create":
			res, err := createOnce(c.Doc, c.Keys)
			if err != nil {
				fail("create-error", err.Error(), nil, nil)
				return
			}

			did := res.DIDDocument.ID
			ak := fmt.Sprintf("%d/%d", c.Doc, c.Keys)
			col.sample(map[string]interface{}{"case": c, "did": did})

			// determinism: the same document and keys always give the same DID
			if prev, ok := createdDID[ak]; ok && prev != did {
				fail("create-not-deterministic", fmt.Sprintf("call %d gives another DID than an earlier call with the same arguments", c.Call), prev, did)
				return
			}

			createdDID[ak] = did

			parts := strings.Split(did, ":")
			if len(parts) != 4 || parts[0] != "did" || parts[1] != "ion" {
				fail("did-shape", "", "did:ion:<suffix>:<state>", did)
				return
			}

			short := strings.Join(parts[:3], ":")

			// the created document, and what it resolves to, are the supplied one
			want := lfDocs[c.Doc].expected(pool, did)

			check := func(what string, r *docdid.DocResolution) bool {
				raw, _ := r.DIDDocument.JSONBytes()

				var g map[string]interface{}

				_ = json.Unmarshal(raw, &g)

				got := summarize(g)
				if digestJSON(got) != digestJSON(want) {
					fail("document", what+": not equivalent to the supplied document", want, got)
					return false
				}

				return true
			}

			if !check("created", res) {
				return
			}

			// the same document under a method whose namespace has three segments (did:ion:test): created, it resolves
			if c.Call == 1 {
				d3, _ := lfDocs[c.Doc].build(pool)
				upd := pool.Get("ed", fmt.Sprintf("lf-upd-%d", c.Keys)).Pub.(ed25519.PublicKey)
				rec := pool.Get("ed", fmt.Sprintf("lf-rec-%d", c.Keys)).Pub.(ed25519.PublicKey)

				r3, e3 := vdr3.Create(d3, vdrapi.WithOption(sidetreelongform.UpdatePublicKeyOpt, upd), vdrapi.WithOption(sidetreelongform.RecoveryPublicKeyOpt, rec))
				if e3 != nil || !strings.HasPrefix(r3.DIDDocument.ID, "did:ion:test:") || strings.Count(r3.DIDDocument.ID, ":") != 4 {
					fail("create-error", "namespace did:ion:test: "+fmt.Sprint(e3), "did:ion:test:<suffix>:<state>", r3)
					return
				}

				did3 := r3.DIDDocument.ID
				if rd3, e := vdr3.Read(did3); e != nil || rd3.DIDDocument.ID != did3 {
					fail("read-error", "namespace did:ion:test: "+fmt.Sprint(e), did3, nil)
					return
				}

				if rr3, e := handler3.ResolveDocument(did3); e != nil || rr3.Document.ID() != did3 {
					fail("read-error", "handler for did:ion:test: "+fmt.Sprint(e), did3, nil)
					return
				}

				// (whether the did:ion handler also resolves did:ion:test:<suffix>:<state> - it does: the DID begins
				// with its namespace and ends with a matching suffix and state - is not excluded by the statement)
			}

			rd, err := vdr.Read(did)
			if err != nil {
				fail("read-error", err.Error(), nil, did)
				return
			}

			if !check("read", rd) {
				return
			}

			hold("VDR.Read "+did, func() string { b, _ := rd.DIDDocument.JSONBytes(); return string(b) })
			hold("VDR.Create "+did, func() string { b, _ := res.DIDDocument.JSONBytes(); return string(b) })

			// metadata: the short form is an equivalent id, the commitments are those of the keys supplied
			md := rd.DocumentMetadata
			if md == nil || md.Method == nil {
				fail("metadata", "missing", nil, nil)
				return
			}

			foundShort := false
			for _, e := range md.EquivalentID {
				if e == short {
					foundShort = true
				}
			}

			upd := pool.Get("ed", fmt.Sprintf("lf-upd-%d", c.Keys))
			rec := pool.Get("ed", fmt.Sprintf("lf-rec-%d", c.Keys))
			wantMD := map[string]interface{}{"equivalent_id_has_short_form": true, "updateCommitment": refCommitment(jwkMap(upd.JWK), sha2_256),
				"recoveryCommitment": refCommitment(jwkMap(rec.JWK), sha2_256)}
			gotMD := map[string]interface{}{"equivalent_id_has_short_form": foundShort, "updateCommitment": md.Method.UpdateCommitment,
				"recoveryCommitment": md.Method.RecoveryCommitment}

			if md.Method.Published {
				col.beyond("metadata-published", "a DID resolved from its initial state alone is reported as published", c, false, true)
			}

			if digestJSON(wantMD) != digestJSON(gotMD) {
				fail("metadata", "", wantMD, gotMD)
				return
			}

			// the same document with update keys that share everything but one member: an EC key and its mirror image (same
			// x), and the same key with two nonces apart... each pair of keys gives two DIDs, and each DID reports the
			// commitment of ITS key
			if c.Call == 1 {
				base := pool.Get("p256", "lf-twin").Pub.(*ecdsa.PublicKey)
				mirror := &ecdsa.PublicKey{Curve: base.Curve, X: base.X, Y: new(big.Int).Sub(base.Curve.Params().P, base.Y)}
				recK := pool.Get("ed", "lf-rec-1").Pub.(ed25519.PublicKey)

				var twinDIDs []string

				for _, uk := range []*ecdsa.PublicKey{base, mirror} {
					d2, _ := lfDocs[c.Doc].build(pool)

					tr, terr := vdr.Create(d2, vdrapi.WithOption(sidetreelongform.UpdatePublicKeyOpt, uk), vdrapi.WithOption(sidetreelongform.RecoveryPublicKeyOpt, recK))
					if terr != nil {
						fail("create-error", "update key on P-256: "+terr.Error(), nil, nil)
						return
					}

					trd, rerr := vdr.Read(tr.DIDDocument.ID)
					if rerr != nil || trd.DocumentMetadata == nil || trd.DocumentMetadata.Method == nil {
						fail("create-error", "the DID created with a P-256 update key does not resolve: "+fmt.Sprint(rerr), nil, tr.DIDDocument.ID)
						return
					}

					ukJWK, _ := pubkey.GetPublicKeyJWK(uk)
					if want := refCommitment(jwkMap(ukJWK), sha2_256); trd.DocumentMetadata.Method.UpdateCommitment != want {
						fail("metadata", "the update commitment reported is not the commitment of the update key supplied (a key and its mirror image share x)",
							want, trd.DocumentMetadata.Method.UpdateCommitment)
						return
					}

					twinDIDs = append(twinDIDs, tr.DIDDocument.ID)
				}

				if twinDIDs[0] == twinDIDs[1] {
					fail("create-not-deterministic", "two different update keys (a key and its mirror image) give one DID", "two DIDs", twinDIDs[0])
					return
				}
			}

			// the suffix is the model hash of the suffix data of the state; the state is the exact
			// unpadded base64url of the canonical create request
			state, derr := base64.RawURLEncoding.DecodeString(parts[3])
			if derr != nil {
				fail("did-shape", "initial state is not unpadded base64url", nil, parts[3])
				return
			}

			canon, _ := refJCSFromJSON(state)
			if string(canon) != string(state) {
				fail("did-shape", "initial state is not canonical JSON", string(canon), string(state))
				return
			}

			var reqm struct {
				SuffixData map[string]interface{} `json:"suffixData"`
			}

			_ = json.Unmarshal(state, &reqm)

			if refModelHash(reqm.SuffixData, sha2_256) != parts[2] {
				fail("did-shape", "suffix is not the model hash of the suffix data", refModelHash(reqm.SuffixData, sha2_256), parts[2])
				return
			}

			// the same DID is returned when the create request itself is processed
			create := state
			if !strings.Contains(string(state), `"type":"create"`) {
				create = append([]byte(`{"type":"create",`), state[1:]...)
			}

			pres, perr := handler.ProcessOperation(create)
			if perr != nil || pres.Document.ID() != did {
				fail("process-operation", fmt.Sprint(perr), did, pres)
				return
			}

			// a valid operation of another type is answered with an error
			uo := ROp{Type: "update", Wf: "ok", Reveal: "ok", Sig: "ok", Dhash: true, Dv: "ok", Sfx: true, Delta: Delta{"addkey", 1}, Nu: 1, Nr: 2, Kt: "p256", H: 256, Nuv: "norm"}
			ureq, _ := newConcretizer(seed).buildRequest(&uo, 0)

			// (C17 speaks of create requests only; that other types are answered with an error is pinned, not stated;
			// the panic this call once caused is C19's business)
			if r, e := handler.ProcessOperation(ureq); e == nil {
				col.beyond("process-operation", "an update request was processed by the long-form handler", c, "error", r)
			}

			// every single-character change of the DID is rejected
			if c.Call == 1 {
				alphabet := "Ab0_-:=.#/ ?&;%"
				for i := 0; i < len(did); i++ {
					for _, ch := range alphabet {
						if byte(ch) == did[i] {
							continue
						}

						mut := did[:i] + string(ch) + did[i+1:]
						if i == len(did)-1 {
							// ... and every character appended
							appended := did + string(ch)
							singleChar++

							if r, e := handler.ResolveDocument(appended); e == nil {
								fail("single-character-change-resolves", fmt.Sprintf("%q appended", ch), "rejected", r.Document.ID())
								return
							}

							if _, e := vdr.Read(appended); e == nil {
								fail("single-character-change-resolves", fmt.Sprintf("VDR.Read, %q appended", ch), "rejected", appended)
								return
							}
						}

						singleChar++

						if r, e := handler.ResolveDocument(mut); e == nil {
							fail("single-character-change-resolves", fmt.Sprintf("position %d: %q -> %q", i, did[i], ch), "rejected", r.Document.ID())
							return
						}

						if _, e := vdr.Read(mut); e == nil {
							fail("single-character-change-resolves", fmt.Sprintf("VDR.Read, position %d: %q -> %q", i, did[i], ch), "rejected", mut)
							return
						}
					}
				}
			}
		case "process":
			res, err := createOnce(c.Doc, 1)
			if err != nil {
				fail("create-error", err.Error(), nil, nil)
				return
			}

			did := res.DIDDocument.ID
			parts := strings.Split(did, ":")
			state, _ := base64.RawURLEncoding.DecodeString(parts[3])

			var req map[string]interface{}
			if err := json.Unmarshal(state, &req); err != nil {
				fatalf("initial state: %v", err)
			}

			req["type"] = "create"
			canon, _ := refJCS(req)

			var text []byte

			switch c.Shape {
			case "as_built":
				text = canon
			case "whitespace":
				var buf bytes.Buffer

				_ = json.Indent(&buf, canon, " ", "\t")
				text = append([]byte("\n "), append(buf.Bytes(), ' ', '\n')...)
			case "member_order":
				// members in descending order
				text = []byte(fmt.Sprintf(`{"type":"create","suffixData":%s,"delta":%s}`, mustJCS(req["suffixData"]), mustJCS(req["delta"])))
			case "further_member":
				req["further"] = map[string]interface{}{"a": 1}
				text, _ = refJCS(req)
			case "further_delta_member":
				req["delta"].(map[string]interface{})["further"] = "x"
				text, _ = refJCS(req)
			case "further_suffix_member":
				req["suffixData"].(map[string]interface{})["further"] = "x"
				text, _ = refJCS(req)
			case "member_case":
				text = []byte(strings.Replace(strings.Replace(string(canon), `"delta":`, `"Delta":`, 1), `"suffixData":`, `"SuffixData":`, 1))
			case "truncated_commitment", "empty_commitment":
				// the code and length bytes of SHA-256, followed by too few digest bytes / by none
				bad := "EiA"
				if c.Shape == "empty_commitment" {
					bad = "Eg"
				}

				if c.Doc%2 == 0 {
					req["suffixData"].(map[string]interface{})["recoveryCommitment"] = bad
				} else {
					// (the delta hash of the suffix data follows the delta: only the commitment is wrong)
					req["delta"].(map[string]interface{})["updateCommitment"] = bad
					req["suffixData"].(map[string]interface{})["deltaHash"] = refModelHash(req["delta"], sha2_256)
				}

				text, _ = refJCS(req)
			case "escaped_member_name":
				text = []byte(strings.Replace(string(canon), `"delta":`, `"\u0064elta":`, 1))
			default:
				fatalf("unknown request shape %q", c.Shape)
			}

			sent := string(text)
			pres, perr := handler.ProcessOperation(text)

			if string(text) != sent {
				fail("process-operation", "the request bytes were modified", sent, string(text))
				return
			}

			col.sample(map[string]interface{}{"case": c, "accepted": perr == nil})

			if c.Refused {
				if perr == nil {
					fail("process-operation", "a create request whose commitment is no multihash ("+c.Shape+") is answered with a DID", "refused", pres.Document.ID())
				}

				return
			}

			if perr != nil {
				if c.Same {
					fail("process-operation", "the client's request in another spelling is refused: "+perr.Error(), "accepted", "refused")
				}

				return
			}

			got := pres.Document.ID()

			if c.Same && got != did {
				fail("process-operation", "the same request in another spelling is answered with another DID", did, got)
				return
			}

			// what the handler hands out resolves, to the same document, under that id
			rr, rerr := handler.ResolveDocument(got)
			if rerr != nil {
				fail("processed-did-does-not-resolve", "shape "+c.Shape+": "+rerr.Error(), "resolves", got)
				return
			}

			if rr.Document.ID() != got {
				fail("processed-did-does-not-resolve", "resolves under another id", got, rr.Document.ID())
				return
			}

			strip := func(r *document.ResolutionResult) string {
				return digestJSON(generic(r.Document))
			}

			if strip(rr) != strip(pres) {
				fail("processed-did-does-not-resolve", "resolves to another document than the one ProcessOperation answered with", generic(pres.Document), generic(rr.Document))
				return
			}

			if _, e := vdr.Read(got); e != nil {
				fail("processed-did-does-not-resolve", "VDR.Read: "+e.Error(), "resolves", got)
			}
		case "resolve":
			// (trace mode: a probe that cannot even be set up - a document that the VDR does not create any more - is logged
			// as a probe whose answer is wrong in every respect, for TLC to reject)
			probeLogged := false

			defer func() {
				if traceEnc != nil && !probeLogged {
					_ = traceEnc.Encode(map[string]interface{}{"event": "Resolve", "probe": c.Probe, "resolved": false, "read": false, "id_ok": false,
						"bad": "the probe could not be set up (a document is not created, or a call panicked)"})
				}
			}()

			res, err := createOnce(c.Doc, 1)
			if err != nil {
				fail("create-error", err.Error(), nil, nil)
				return
			}

			parts := strings.Split(res.DIDDocument.ID, ":")
			suffix, stateB64 := parts[2], parts[3]
			state, _ := base64.RawURLEncoding.DecodeString(stateB64)

			other, err := createOnce(c.Doc%len(lfDocs)+1, 2)
			if err != nil {
				fail("create-error", err.Error(), nil, nil)
				return
			}

			oparts := strings.Split(other.DIDDocument.ID, ":")

			ns := map[string]string{"same": "did:ion", "extended": "did:ionx", "truncated": "did:io", "other_method": "did:web",
				"method_prefix_only": "did:i", "upper_case": "DID:ION", "no_did_scheme": "ion"}[c.Probe.Ns]

			var g map[string]interface{}

			_ = json.Unmarshal(state, &g)

			enc := func(b []byte) string { return base64.RawURLEncoding.EncodeToString(b) }

			switch c.Probe.Enc {
			case "canonical":
			case "whitespace":
				stateB64 = enc(encodeStyled(g, "whitespace"))
			case "member_order":
				stateB64 = enc(encodeStyled(g, "member_order"))
			case "padded":
				stateB64 = base64.URLEncoding.EncodeToString(state)
				if !strings.HasSuffix(stateB64, "=") {
					stateB64 += "="
				}
			case "trailing_bits":
				// another spelling of the last sextet that decodes to the same bytes
				last := strings.IndexByte("ABCDEFGHIJKLMNOPQRSTUVWXYZabcdefghijklmnopqrstuvwxyz0123456789-_", stateB64[len(stateB64)-1])
				alt := ""

				for _, delta := range []int{1, 2, 3} {
					cand := stateB64[:len(stateB64)-1] + string("ABCDEFGHIJKLMNOPQRSTUVWXYZabcdefghijklmnopqrstuvwxyz0123456789-_"[(last+delta)%64])
					if b, e := base64.RawURLEncoding.DecodeString(cand); e == nil && string(b) == string(state) {
						alt = cand
					}
				}

				if alt == "" {
					// the length leaves no unused bits: nothing to probe
					alt = stateB64 + "A"
				}

				stateB64 = alt
			case "tampered_char":
				b := []byte(stateB64)
				if b[len(b)/2] == 'A' {
					b[len(b)/2] = 'B'
				} else {
					b[len(b)/2] = 'A'
				}

				stateB64 = string(b)
			case "not_base64url":
				stateB64 = stateB64[:10] + "+/" + stateB64[12:]
			case "other_request":
				stateB64 = oparts[3]
			case "update_request":
				o := ROp{Type: "update", Wf: "ok", Reveal: "ok", Sig: "ok", Dhash: true, Dv: "ok", Sfx: true, Delta: Delta{"addkey", 1}, Nu: 1, Nr: 2, Kt: "p256", H: 256, Nuv: "norm"}
				req, _ := newConcretizer(seed).buildRequest(&o, 0)
				canon, _ := refJCSFromJSON(req)
				stateB64 = enc(canon)
			case "empty":
				stateB64 = ""
			case "typeless":
				delete(g, "type")
				canon, _ := refJCS(g)
				stateB64 = enc(canon)
			case "type_member_added":
				g["type"] = "create"
				canon, _ := refJCS(g)
				stateB64 = enc(canon)
			default:
				fatalf("encoding %s", c.Probe.Enc)
			}

			switch c.Probe.Sfx {
			case "matching":
			case "other":
				suffix = oparts[2]
			case "empty":
				suffix = ""
			case "prefixed":
				suffix = "x" + suffix
			case "suffixed":
				suffix += "x"
			case "doubled":
				suffix += suffix
			case "other_algorithm":
				suffix = refModelHash(g["suffixData"], sha2_512)
			}

			did := ns + ":" + suffix + ":" + stateB64

			switch c.Probe.Form {
			case "short":
				did = ns + ":" + suffix
			case "extra_segment":
				did = ns + ":extra:" + suffix + ":" + stateB64
			}

			r1, e1 := handler.ResolveDocument(did)
			_, e2 := vdr.Read(did)

			// trace mode: what happened is logged for LongFormTrace.tla, nothing is judged here
			if traceEnc != nil {
				_ = traceEnc.Encode(map[string]interface{}{"event": "Resolve", "probe": c.Probe, "resolved": e1 == nil, "read": e2 == nil,
					"id_ok": e1 != nil || r1.Document.ID() == did})
				probeLogged = true

				return
			}

			col.sample(map[string]interface{}{"case": c, "did": did, "resolved": e1 == nil})

			if c.Decided != nil && !*c.Decided {
				// the statement leaves open whether this DID resolves; a document that comes back carries the DID asked for
				if e1 == nil && r1.Document.ID() != did {
					fail("document-id", "enc="+c.Probe.Enc, did, r1.Document.ID())
				}

				if e1 != nil {
					col.beyond("resolve-typeless", "a long-form DID whose initial state has no type member does not resolve", c, "resolves", e1.Error())
				}

				return
			}

			if (e1 == nil) != c.Resolves || (e2 == nil) != c.Resolves {
				fail("resolve-verdict", fmt.Sprintf("ResolveDocument: %v / VDR.Read: %v", e1, e2), map[string]interface{}{"resolves": c.Resolves},
					map[string]interface{}{"did": did, "ResolveDocument": e1 == nil, "VDR.Read": e2 == nil})
				return
			}

			if c.Resolves && r1.Document.ID() != did {
				fail("document-id", "", did, r1.Document.ID())
			}

			if c.Resolves {
				hold("ResolveDocument "+did, func() string { return digestJSON(r1) })
			}
		}
	})

	for _, h := range held {
		if now := h.now(); now != h.then {
			col.report(mismatch{Kind: "result-changed-later", Key: "result-changed-later:" + strings.SplitN(h.what, " ", 2)[0], Case: h.what,
				Detail: "a result handed out earlier was modified by later calls on the same handler / VDR", Expected: h.then, Actual: now})
		}
	}

	col.sum.Extra["single_character_changes"] = singleChar
	col.finish()
}

// lfDocDigest: everything of a supplied document that Create could write into.
func lfDocDigest(d *docdid.Doc) string {
	raw, _ := d.JSONBytes()

	var props []interface{}
	for i := range d.Service {
		props = append(props, d.Service[i].Properties, d.Service[i].Priority, d.Service[i].RecipientKeys, d.Service[i].RoutingKeys, d.Service[i].Accept)
	}

	return digestJSON([]interface{}{json.RawMessage(raw), props})
}

func mustJCS(v interface{}) []byte {
	b, err := refJCS(v)
	if err != nil {
		fatalf("jcs: %v", err)
	}

	return b
}

// lfPriority: the priority of the first service of a multi-key document (zero is a priority like any other)
func lfPriority(nKeys int) int {
	if nKeys == 4 {
		return 0
	}

	return 7
}
