package main

// Versions family: the client-version registry, the client version provider and the namespace
// provider, replayed sequentially from the transitions of Versions.tla.

import (
	"encoding/json"
	"fmt"
	"os"
	"sort"
	"strings"

	"github.com/trustbloc/sidetree-go/pkg/api/protocol"
	"github.com/trustbloc/sidetree-go/pkg/vdr/sidetreelongform/dochandler/protocol/nsprovider"
	"github.com/trustbloc/sidetree-go/pkg/vdr/sidetreelongform/dochandler/protocol/verprovider"
	"github.com/trustbloc/sidetree-go/pkg/vdr/sidetreelongform/dochandler/protocolversion/clientregistry"
	vercommon "github.com/trustbloc/sidetree-go/pkg/vdr/sidetreelongform/dochandler/protocolversion/common"
	"github.com/trustbloc/sidetree-go/pkg/vdr/sidetreelongform/dochandler/protocolversion/versions/common"
)

type vEntry struct {
	Label string `json:"label"`
	Gen   uint64 `json:"gen"`
}

type vProv struct {
	Vers []vEntry `json:"vers"`
	Cur  int      `json:"cur"`
}

type vCase struct {
	Reg      [][]string      `json:"reg"`
	Provs    []vProv         `json:"provs"`
	Ns       map[string]int  `json:"ns"`
	Call     string          `json:"call"`
	Arg      json.RawMessage `json:"arg"`
	Ok       bool            `json:"ok"`
	Out      json.RawMessage `json:"out"`
	RegAfter [][]string      `json:"regafter"`
	NProvs   int             `json:"nprovs"`
	NsAfter  map[string]int  `json:"nsafter"`
	Cands    [][]string      `json:"cands"`
}

type mockFactory struct{ name string }

func (m *mockFactory) Create(version string, _ *common.ProtocolConfig) (protocol.Version, error) {
	return &common.ProtocolVersion{VersionStr: "mock:" + m.name + "|" + version}, nil
}

func verStr(parts []string) string { return strings.Join(parts, ".") }

// the provider's versions carry their abstract identity in the version string: label/gen/#input index
func provVersions(es []vEntry) []protocol.Version {
	var out []protocol.Version
	for i, e := range es {
		out = append(out, &common.ProtocolVersion{VersionStr: fmt.Sprintf("%s/%d/#%d", e.Label, e.Gen, i), P: protocol.Protocol{GenesisTime: e.Gen * 1000}})
	}

	return out
}

func entryOf(v protocol.Version) vEntry {
	var e vEntry

	var idx int

	fmt.Sscanf(strings.ReplaceAll(v.Version(), "/", " "), "%s %d #%d", &e.Label, &e.Gen, &idx)

	return e
}

func versionsReplay(args []string) {
	fl := parseFlags(args)
	col := newCollector("versions", fl.str("only", ""))
	seen := map[string]bool{}
	first := true

	readTagged(os.Stdin, "CASE", fl.str("tlclog", ""), func(line []byte) {
		if seen[string(line)] {
			return
		}

		seen[string(line)] = true

		var c vCase
		if err := json.Unmarshal(line, &c); err != nil {
			fatalf("bad case: %v: %.300s", err, line)
		}

		if first {
			first = false

			if f := fl.str("first-edge", ""); f != "" {
				_ = os.WriteFile(f, append(line, '\n'), 0o644)
			}
		}

		col.nCases++
		k := fmt.Sprintf("versions:%s:ok=%v", c.Call, c.Ok)
		col.kind(k + fmt.Sprintf(":reg=%d:provs=%d", len(c.Reg), len(c.Provs)))

		rp := map[string]interface{}{"cmd": append([]string{"versions-replay"}, args...), "stdin": string(line)}
		fail := func(kind, detail string, exp, act interface{}) {
			col.report(mismatch{Kind: kind, Key: kind + ":" + c.Call + ":" + string(c.Arg), Case: c, Detail: detail, Expected: exp, Actual: act, Replay: rp})
		}

		defer func() {
			if r := recover(); r != nil {
				fail("panic", fmt.Sprint(r), nil, nil)
			}
		}()

		// ---- the pre-state, rebuilt on the real objects
		reg := clientregistry.New()

		regs := make([]string, 0, len(c.Reg))
		for _, r := range c.Reg {
			regs = append(regs, verStr(r))
		}

		sort.Strings(regs)

		for _, r := range regs {
			if r != "1.0" {
				reg.Register(r, &mockFactory{name: r})
			}
		}

		var provs []*verprovider.ClientVersionProvider

		// a provider of the model is the result of New on SOME input list; its sorted list is such an input
		for _, p := range c.Provs {
			var opts []verprovider.Option
			if p.Cur != len(p.Vers) {
				// only reachable through the option naming that version's label... rebuilt below from the label
				opts = append(opts, verprovider.WithCurrentProtocolVersion(fmt.Sprintf("%s/%d/#%d", p.Vers[p.Cur-1].Label, p.Vers[p.Cur-1].Gen, p.Cur-1)))
			}

			vp, err := verprovider.New(provVersions(p.Vers), opts...)
			if err != nil {
				fatalf("pre-state provider: %v", err)
			}

			provs = append(provs, vp)
		}

		nsp := nsprovider.New()

		nss := make([]string, 0, len(c.Ns))
		for n := range c.Ns {
			nss = append(nss, n)
		}

		sort.Strings(nss)

		for _, n := range nss {
			if c.Ns[n] != 0 {
				nsp.Add(n, provs[c.Ns[n]-1])
			}
		}

		// ---- the call
		switch c.Call {
		case "register":
			var parts []string

			_ = json.Unmarshal(c.Arg, &parts)
			v := verStr(parts)

			panicked := func() (p bool) {
				defer func() {
					if recover() != nil {
						p = true
					}
				}()
				reg.Register(v, &mockFactory{name: v})

				return false
			}()

			if panicked == c.Ok {
				fail("register-verdict", "a second factory under one version string is refused, a new string is accepted", c.Ok, !panicked)
				return
			}

			// afterwards the string itself finds a factory, and (when added) its own factory is a candidate
			got, err := reg.CreateClientVersion(v, &common.ProtocolConfig{})
			if err != nil {
				fail("register-lost", "the registered version does not find a factory", "factory", fmt.Sprint(err))
				return
			}

			col.sample(map[string]interface{}{"call": "register", "version": v, "then_create": got.Version()})
		case "create":
			var parts []string

			_ = json.Unmarshal(c.Arg, &parts)
			q := verStr(parts)

			// independent statement of the matching rule on the strings themselves
			want := false
			var cands []string

			for _, r := range regs {
				if vercommon.Version(r).Matches(q) != refMatches(r, q) || vercommon.Version(q).Matches(r) != refMatches(r, q) {
					fail("matches", fmt.Sprintf("Version(%q).Matches(%q)", r, q), refMatches(r, q), vercommon.Version(r).Matches(q))
					return
				}

				if refMatches(r, q) {
					want = true
					cands = append(cands, r)
				}
			}

			if want != c.Ok || len(cands) != len(c.Cands) {
				fatalf("model and reference matching disagree on %q against %v (model ok=%v cands=%v)", q, regs, c.Ok, c.Cands)
			}

			// map iteration order: repeat the call
			for rep := 0; rep < 4; rep++ {
				got, err := reg.CreateClientVersion(q, &common.ProtocolConfig{MethodContext: []string{"ctx"}})
				if (err == nil) != c.Ok {
					fail("create-verdict", "a factory is found exactly when a registered version matches the requested one", c.Ok, fmt.Sprint(err))
					return
				}

				if err != nil {
					continue
				}

				used := ""
				if strings.HasPrefix(got.Version(), "mock:") {
					rest := strings.TrimPrefix(got.Version(), "mock:")
					i := strings.LastIndex(rest, "|")
					used = rest[:i]

					if rest[i+1:] != q {
						fail("create-arg", "the factory receives the requested version string", q, rest[i+1:])
						return
					}
				} else {
					used = "1.0"

					if got.Version() != q || got.OperationParser() == nil || got.OperationApplier() == nil || got.DocumentTransformer() == nil || got.DocumentValidator() == nil {
						fail("create-builtin", "the 1.0 factory returns a complete version carrying the requested version string", q, got.Version())
						return
					}
				}

				found := false
				for _, cd := range cands {
					found = found || cd == used
				}

				if !found {
					fail("create-factory", "the factory used is registered under a version matching the request", cands, used)
					return
				}

				col.sample(map[string]interface{}{"call": "create", "registered": regs, "requested": q, "factory": used})
			}

			if err := vercommon.Version(q).Validate(); (err == nil) != (parts[0] != "" && len(parts) <= 2) {
				fail("validate", fmt.Sprintf("Version(%q).Validate()", q), parts[0] != "" && len(parts) <= 2, err == nil)
			}
		case "new":
			var a struct {
				Es  []vEntry `json:"es"`
				Opt string   `json:"opt"`
			}

			_ = json.Unmarshal(c.Arg, &a)

			in := provVersions(a.Es)
			// the option names a LABEL: give every version of that label the same version string
			for i, e := range a.Es {
				in[i].(*common.ProtocolVersion).VersionStr = e.Label
			}

			keep := append([]protocol.Version(nil), in...)

			var opts []verprovider.Option
			if a.Opt != "none" {
				opts = append(opts, verprovider.WithCurrentProtocolVersion(a.Opt))
			}

			vp, err := verprovider.New(in, opts...)
			if (err == nil) != c.Ok {
				fail("new-verdict", "a provider needs at least one version", c.Ok, fmt.Sprint(err))
				return
			}

			for i := range keep {
				if keep[i] != in[i] {
					fail("new-mutates-input", "the caller's list is reordered", nil, nil)
					return
				}
			}

			if err != nil {
				return
			}

			// expected provider = last provider of the post-state: not dumped, recomputed here from the model's rule
			exp := refSortEntries(a.Es)
			cur, _ := vp.Current()

			expCur := exp[len(exp)-1]
			if a.Opt != "none" {
				for _, e := range exp {
					if e.Label == a.Opt {
						expCur = e
						break
					}
				}
			}

			if cur == nil || cur.Version() != expCur.Label || cur.Protocol().GenesisTime != expCur.Gen*1000 {
				fail("new-current", "Current is the last version by genesis time unless an existing version is named", expCur, fmt.Sprint(cur))
				return
			}

			for _, e := range exp {
				got, err := vp.Get(e.Gen * 1000)
				// the last version (in stable order) with that genesis time
				var want vEntry
				for _, x := range exp {
					if x.Gen == e.Gen {
						want = x
					}
				}

				if err != nil || got.Version() != want.Label {
					fail("new-get", "Get(t) is the last version with genesis time t", want, fmt.Sprint(got, err))
					return
				}
			}

			col.sample(map[string]interface{}{"call": "new", "entries": a.Es, "option": a.Opt, "current": cur.Version()})
		case "current", "get", "add", "for":
			var a struct {
				P int    `json:"p"`
				T uint64 `json:"t"`
				N string `json:"n"`
			}

			_ = json.Unmarshal(c.Arg, &a)

			var outE []vEntry

			var outI []int

			if c.Call == "for" {
				_ = json.Unmarshal(c.Out, &outI)
			} else {
				_ = json.Unmarshal(c.Out, &outE)
			}

			switch c.Call {
			case "current":
				got, err := provs[a.P-1].Current()
				if err != nil || got == nil || entryOf(got) != outE[0] {
					fail("current", "Current returns the provider's current version", outE, fmt.Sprint(got, err))
				}
			case "get":
				got, err := provs[a.P-1].Get(a.T * 1000)
				if (err == nil) != c.Ok {
					fail("get-verdict", "Get(t) answers exactly when a version has genesis time t", c.Ok, fmt.Sprint(err))
					return
				}

				if err == nil && entryOf(got) != outE[0] {
					fail("get-value", "Get(t) is the last version with genesis time t", outE[0], entryOf(got))
				}

				col.sample(map[string]interface{}{"call": "get", "versions": c.Provs[a.P-1].Vers, "t": a.T, "ok": err == nil})
			case "add":
				nsp.Add(a.N, provs[a.P-1])

				for _, n := range nss {
					got, err := nsp.ForNamespace(n)
					want := c.NsAfter[n]

					if (err == nil) != (want != 0) || (err == nil && got != nsprovider.ClientVersionProvider(provs[want-1])) {
						fail("add-then-for", "after Add(n, p) the namespace n names p and the others are unchanged", want, fmt.Sprint(err))
						return
					}
				}
			case "for":
				got, err := nsp.ForNamespace(a.N)
				if (err == nil) != c.Ok {
					fail("for-verdict", "an unknown namespace is an error", c.Ok, fmt.Sprint(err))
					return
				}

				if err == nil && got != nsprovider.ClientVersionProvider(provs[outI[0]-1]) {
					fail("for-value", "ForNamespace returns the provider added last under that namespace", outI[0], "another provider")
				}
			}
		default:
			fatalf("unknown call %q", c.Call)
		}
	})

	col.finish()
}

// major and minor part compared, a missing minor part counts as "0" (reference, on strings)
func refMatches(a, b string) bool {
	pa, pb := strings.Split(a, "."), strings.Split(b, ".")
	mi := func(p []string) string {
		if len(p) > 1 {
			return p[1]
		}

		return "0"
	}

	return pa[0] == pb[0] && mi(pa) == mi(pb)
}

func refSortEntries(es []vEntry) []vEntry {
	out := append([]vEntry(nil), es...)
	// insertion sort: stable
	for i := 1; i < len(out); i++ {
		for j := i; j > 0 && out[j-1].Gen > out[j].Gen; j-- {
			out[j-1], out[j] = out[j], out[j-1]
		}
	}

	return out
}
