package main

// DocAccess family (extension specification DocAccess.tla): every accessor of pkg/document x every shape of the
// member it reads.

import (
	"encoding/json"
	"fmt"
	"os"
	"reflect"
	"strings"

	"github.com/trustbloc/sidetree-go/pkg/document"
)

type daCase struct {
	Acc     string   `json:"acc"`
	On      string   `json:"on"`
	Member  string   `json:"member"`
	Reader  string   `json:"reader"`
	Shape   string   `json:"shape"`
	Entries []string `json:"entries"`
	Result  struct {
		Kind string `json:"kind"`
		Keep []int  `json:"keep"`
	} `json:"result"`
}

// accessor name -> the call on the real type (the object is handed over as the generic map it is)
var daCalls = map[string]func(m map[string]interface{}) interface{}{
	"DocumentID":             func(m map[string]interface{}) interface{} { return document.Document(m).ID() },
	"DocumentContext":        func(m map[string]interface{}) interface{} { return document.Document(m).Context() },
	"DocumentPublicKeys":     func(m map[string]interface{}) interface{} { return document.Document(m).PublicKeys() },
	"DocumentStringValue":    func(m map[string]interface{}) interface{} { return document.Document(m).GetStringValue("didSuffix") },
	"DidID":                  func(m map[string]interface{}) interface{} { return document.DIDDocument(m).ID() },
	"DidContext":             func(m map[string]interface{}) interface{} { return document.DIDDocument(m).Context() },
	"DidPublicKeys":          func(m map[string]interface{}) interface{} { return document.DIDDocument(m).PublicKeys() },
	"DidVerificationMethods": func(m map[string]interface{}) interface{} { return document.DIDDocument(m).VerificationMethods() },
	"DidAlsoKnownAs":         func(m map[string]interface{}) interface{} { return document.DIDDocument(m).AlsoKnownAs() },
	"DidServices":            func(m map[string]interface{}) interface{} { return document.DIDDocument(m).Services() },
	"DidAuthentications":     func(m map[string]interface{}) interface{} { return document.DIDDocument(m).Authentications() },
	"DidAssertionMethods":    func(m map[string]interface{}) interface{} { return document.DIDDocument(m).AssertionMethods() },
	"DidAgreementKeys":       func(m map[string]interface{}) interface{} { return document.DIDDocument(m).AgreementKeys() },
	"DidDelegationKeys":      func(m map[string]interface{}) interface{} { return document.DIDDocument(m).DelegationKeys() },
	"DidInvocationKeys":      func(m map[string]interface{}) interface{} { return document.DIDDocument(m).InvocationKeys() },
	"ReplacePublicKeys":      func(m map[string]interface{}) interface{} { return document.ReplaceDocument(m).PublicKeys() },
	"ReplaceServices":        func(m map[string]interface{}) interface{} { return document.ReplaceDocument(m).Services() },
	"KeyID":                  func(m map[string]interface{}) interface{} { return document.PublicKey(m).ID() },
	"KeyType":                func(m map[string]interface{}) interface{} { return document.PublicKey(m).Type() },
	"KeyController":          func(m map[string]interface{}) interface{} { return document.PublicKey(m).Controller() },
	"KeyJwk":                 func(m map[string]interface{}) interface{} { return document.PublicKey(m).PublicKeyJwk() },
	"KeyBase58":              func(m map[string]interface{}) interface{} { return document.PublicKey(m).PublicKeyBase58() },
	"KeyMultibase":           func(m map[string]interface{}) interface{} { return document.PublicKey(m).PublicKeyMultibase() },
	"KeyPurpose":             func(m map[string]interface{}) interface{} { return document.PublicKey(m).Purpose() },
	"ServiceID":              func(m map[string]interface{}) interface{} { return document.Service(m).ID() },
	"ServiceType":            func(m map[string]interface{}) interface{} { return document.Service(m).Type() },
	"ServiceEndpoint":        func(m map[string]interface{}) interface{} { return document.Service(m).ServiceEndpoint() },
	"JwkKty":                 func(m map[string]interface{}) interface{} { return document.JWK(m).Kty() },
	"JwkCrv":                 func(m map[string]interface{}) interface{} { return document.JWK(m).Crv() },
	"JwkX":                   func(m map[string]interface{}) interface{} { return document.JWK(m).X() },
	"JwkY":                   func(m map[string]interface{}) interface{} { return document.JWK(m).Y() },
	"JwkN":                   func(m map[string]interface{}) interface{} { return document.JWK(m).N() },
	"JwkE":                   func(m map[string]interface{}) interface{} { return document.JWK(m).E() },
}

// members that accessors of an object read (the decoys put into the other ones), plus names that resemble them
var daMembersOf = map[string][]string{
	"Document":        {"id", "@context", "publicKey", "didSuffix", "verificationMethod", "publicKeys", "Id", "ID", "context"},
	"DIDDocument":     {"id", "@context", "publicKey", "verificationMethod", "alsoKnownAs", "service", "authentication", "assertionMethod", "keyAgreement", "capabilityDelegation", "capabilityInvocation", "services", "publicKeys"},
	"ReplaceDocument": {"publicKeys", "services", "publicKey", "service", "verificationMethod"},
	"PublicKey":       {"id", "type", "controller", "publicKeyJwk", "publicKeyBase58", "publicKeyMultibase", "purposes", "purpose", "ID"},
	"Service":         {"id", "type", "serviceEndpoint", "endpoint", "ID"},
	"JWK":             {"kty", "crv", "x", "y", "n", "e", "d", "X", "Kty"},
}

func daEntry(kind string, i int) interface{} {
	switch kind {
	case "s":
		return fmt.Sprintf("#entry-%d", i)
	case "o":
		return map[string]interface{}{"id": fmt.Sprintf("entry-%d", i), "type": "T", "n": float64(i)}
	}

	return []interface{}{nil, 7.0, []interface{}{"nested"}, true}[i%4]
}

func docaccessReplay(args []string) {
	fl := parseFlags(args)
	col := newCollector("docaccess", fl.str("only", ""))
	seen := map[string]bool{}
	first := true

	readTagged(os.Stdin, "CASE", fl.str("tlclog", ""), func(line []byte) {
		if seen[string(line)] {
			return
		}

		seen[string(line)] = true

		var c daCase
		if err := json.Unmarshal(line, &c); err != nil {
			fatalf("bad case: %v: %.300s", err, line)
		}

		if first {
			first = false

			if f := fl.str("first-edge", ""); f != "" {
				_ = os.WriteFile(f, append(line, '\n'), 0o644)
			}
		}

		col.nCases++

		k := fmt.Sprintf("docaccess:%s:%s", c.Acc, c.Shape)
		col.kind(k)

		rp := map[string]interface{}{"cmd": append([]string{"docaccess-replay"}, args...), "stdin": string(line)}
		fail := func(kind, detail string, e, a interface{}) {
			col.report(mismatch{Kind: kind, Key: kind + ":" + strings.TrimPrefix(k, "docaccess:"), Case: c, Detail: detail, Expected: e, Actual: a, Replay: rp})
		}

		defer func() {
			if r := recover(); r != nil {
				fail("panic", fmt.Sprint(r), nil, nil)
			}
		}()

		call, ok := daCalls[c.Acc]
		if !ok {
			fatalf("no call for accessor %q", c.Acc)
		}

		// the member's value
		var (
			val     interface{}
			present = true
		)

		switch c.Shape {
		case "absent":
			present = false
		case "null":
			val = nil
		case "string":
			val = "#A string value, as it is: \t<&>\u00e9 " // (nothing is trimmed, folded or unescaped)
		case "empty_string":
			val = ""
		case "number":
			val = 7.0
		case "bool":
			val = true
		case "object":
			val = map[string]interface{}{"id": "inner", "kty": "EC", "x": "inner-x"}
		case "empty_object":
			val = map[string]interface{}{}
		case "empty_list":
			val = []interface{}{}
		default:
			var l []interface{}
			for i, e := range c.Entries {
				l = append(l, daEntry(e, i+1))
			}

			val = l
		}

		build := func(rot int) map[string]interface{} {
			m := map[string]interface{}{}
			decoys := rot >= 0

			if decoys {
				for i, name := range daMembersOf[c.On] {
					if name == c.Member {
						continue
					}

					// (a string, a list of objects, a list of strings, an object, in turn)
					switch (i + rot) % 4 {
					case 0:
						m[name] = "decoy-" + name
					case 1:
						m[name] = []interface{}{map[string]interface{}{"id": "decoy-" + name, "type": "D"}}
					case 2:
						m[name] = []interface{}{"decoy-" + name}
					case 3:
						m[name] = map[string]interface{}{"id": "decoy-" + name, "kty": "decoy"}
					}
				}
			}

			if present {
				m[c.Member] = deepCopyGeneric(val)
			}

			return m
		}

		// the expected result, as a JSON value
		var want interface{}

		switch c.Result.Kind {
		case "value":
			want = val
		case "entries":
			l := []interface{}{}
			for _, i := range c.Result.Keep {
				l = append(l, daEntry(c.Entries[i-1], i))
			}

			want = l
		case "empty":
			switch c.Reader {
			case "string":
				want = ""
			default:
				want = nil
			}
		default:
			fatalf("unknown result kind %q", c.Result.Kind)
		}

		norm := func(v interface{}) interface{} {
			g := generic(v)

			// (no entries and nothing are the same answer)
			if l, isList := g.([]interface{}); isList && len(l) == 0 && c.Result.Kind != "value" {
				return nil
			}

			return g
		}

		if l, isList := want.([]interface{}); isList && len(l) == 0 && c.Result.Kind != "value" {
			want = nil
		}

		// (rotation -1: the member alone; 0..3: every other member holds, in turn, a value of each kind)
		for rot := -1; rot < 4; rot++ {
			decoys := rot >= 0
			m := build(rot)
			before := digestJSON(m)
			got := norm(call(m))

			if digestJSON(m) != before {
				fail("input-changed", "the accessor modified its object", nil, m)
				return
			}

			if !reflect.DeepEqual(got, generic(want)) {
				detail := "the member alone"
				if decoys {
					detail = "with other members holding values of every kind (an accessor reads its own member only)"
				}

				fail("accessor-result", detail, want, got)

				return
			}
		}

		col.sample(map[string]interface{}{"case": c.Acc + "/" + c.Shape, "result": want})
	})

	col.finish()
}
