package main

// Applier family: replay of TLC-generated edges into operationapplier.Apply, projection of
// the real ResolutionModel to the abstract record of Applier.tla, and a trace driver.

import (
	"bufio"
	"crypto/sha256"
	"encoding/hex"
	"encoding/json"
	"fmt"
	"math/rand"
	"os"
	"reflect"
	"regexp"
	"runtime"
	"sort"
	"sync"
	"sync/atomic"

	"github.com/trustbloc/sidetree-go/pkg/api/operation"
	"github.com/trustbloc/sidetree-go/pkg/api/protocol"
	"github.com/trustbloc/sidetree-go/pkg/document"
	"github.com/trustbloc/sidetree-go/pkg/patch"
	"github.com/trustbloc/sidetree-go/pkg/versions/1_0/doccomposer"
	"github.com/trustbloc/sidetree-go/pkg/versions/1_0/operationapplier"
	"github.com/trustbloc/sidetree-go/pkg/versions/1_0/operationparser"
)

// ADoc / ARM mirror the records of Applier.tla.
type ADoc struct {
	Keys []int `json:"keys"`
	Mem  []int `json:"mem"`
}

type ARM struct {
	Exists  bool   `json:"exists"`
	Doc     ADoc   `json:"doc"`
	Upd     int    `json:"upd"`
	Rec     int    `json:"rec"`
	Deact   bool   `json:"deact"`
	Ao      int    `json:"ao"`
	Created uint64 `json:"created"`
	Updated uint64 `json:"updated"`
	LastT   uint64 `json:"lastT"`
	LastN   uint64 `json:"lastN"`
	LastPV  uint64 `json:"lastPV"`
	Ver     int    `json:"ver"`
	Canon   int    `json:"canon"`
	Equiv   int    `json:"equiv"`
	Pub     int    `json:"pub"`
	Unpub   int    `json:"unpub"`
}

func (a *ARM) norm() {
	if a.Doc.Keys == nil {
		a.Doc.Keys = []int{}
	}

	if a.Doc.Mem == nil {
		a.Doc.Mem = []int{}
	}

	sort.Ints(a.Doc.Mem)
}

type applierEnv struct {
	proto   protocol.Protocol
	conc    *Concretizer
	applier *operationapplier.Applier
	pubOps  []*operation.AnchoredOperation
	unpub   []*operation.AnchoredOperation

	tightMu sync.Mutex
	tight   map[uint]*operationapplier.Applier
}

// protocolVariant changes one numeric limit other than the maximum operation time delta
// (C09: the window depends on no other protocol parameter). Variant 0 is the base protocol.
func protocolVariant(p protocol.Protocol, v int) protocol.Protocol {
	switch v {
	case 1:
		p.MaxOperationCount *= 2
	case 2:
		p.MaxOperationSize *= 2
	case 3:
		p.MaxOperationHashLength *= 2
	case 4:
		p.MaxDeltaSize *= 2
	case 5:
		p.MaxDeltaSize = p.MaxDeltaSize/2 + 200
	case 6:
		p.MaxCasURILength *= 2
	case 7:
		p.MaxCoreIndexFileSize *= 2
	case 8:
		p.MaxProofFileSize *= 2
	case 9:
		p.MaxProvisionalIndexFileSize *= 2
	case 10:
		p.MaxChunkFileSize *= 2
	case 11:
		p.MaxMemoryDecompressionFactor *= 2
	case 12:
		p.GenesisTime *= 2
	case 13:
		p.NonceSize *= 2
	}

	return p
}

const nProtocolVariants = 14

func newApplierEnv(seed int64, td uint64, variant int) *applierEnv {
	// (the model's "longer than any history" - 2 * 10^9 ticks, what TLC's integers hold - stands for 2 * 10^10 seconds)
	if td >= 1000000000 {
		td *= 10
	}

	p := protocolVariant(testProtocol(td), variant)

	return &applierEnv{
		conc:  newConcretizer(seed),
		proto: p,
		// (the applier parses ANCHORED operations: a time validator, which judges requests that are not anchored
		// yet, has no say - the one installed refuses everything)
		applier: operationapplier.New(p, operationparser.New(p, operationparser.WithAnchorTimeValidator(refusingTimeValidator{}), operationparser.WithAnchorOriginValidator(refusingOriginValidator{})), doccomposer.New()),
		// (published operations that are NOT in anchoring order, one canonical reference twice: the list is the caller's)
		pubOps: []*operation.AnchoredOperation{{Type: operation.TypeUpdate, UniqueSuffix: "pub", CanonicalReference: "p2", TransactionTime: 5, TransactionNumber: 1},
			{Type: operation.TypeCreate, UniqueSuffix: "pub", CanonicalReference: "p0", TransactionTime: 1},
			{Type: operation.TypeUpdate, UniqueSuffix: "pub", CanonicalReference: "p2", TransactionTime: 3, TransactionNumber: 2}},
		unpub: []*operation.AnchoredOperation{{Type: operation.TypeUpdate, UniqueSuffix: "unpub", TransactionTime: 2}},
	}
}

func (e *applierEnv) initRM(pub, unpub int) *protocol.ResolutionModel {
	rm := &protocol.ResolutionModel{}
	if pub == 1 {
		rm.PublishedOperations = e.pubOps
	}

	if unpub == 1 {
		rm.UnpublishedOperations = e.unpub
	}

	return rm
}

var (
	reKeyID = regexp.MustCompile(`^k([0-9]+)$`)
	reMem   = regexp.MustCompile(`^m([0-9]+)$`)
	reCanon = regexp.MustCompile(`^canon-([0-9]+)$`)
	reOrig  = regexp.MustCompile(`^origin-([0-9]+)$`)
)

func atoi(s string) int {
	n := 0
	for _, c := range s {
		n = n*10 + int(c-'0')
	}

	return n
}

// unmethod hands the values of the library's own map types to the encoder as the plain maps they are: a digest must
// not go through a MarshalJSON method of the code under test (which could write to the value, or leave members out).
func unmethod(v interface{}) interface{} {
	switch t := v.(type) {
	case document.Document:
		return map[string]interface{}(t)
	case patch.Patch:
		return map[patch.Key]interface{}(t)
	case []patch.Patch:
		out := make([]map[patch.Key]interface{}, len(t))
		for i := range t {
			out[i] = map[patch.Key]interface{}(t[i])
		}

		return out
	case *protocol.ResolutionModel:
		if t == nil {
			return nil
		}

		type plainModel struct {
			M   protocol.ResolutionModel
			Doc map[string]interface{}
		}

		cp := *t
		cp.Doc = nil

		return plainModel{M: cp, Doc: map[string]interface{}(t.Doc)}
	}

	return v
}

func digestJSON(v interface{}) string {
	raw, err := json.Marshal(unmethod(v))
	if err != nil {
		return "marshal-error:" + err.Error()
	}

	d := sha256.Sum256(raw)

	return hex.EncodeToString(d[:8])
}

// digestValue is digestJSON of the JSON VALUE (canonical form: -0 is 0, 1.0 is 1).
func digestValue(v interface{}) string {
	raw, err := refJCS(generic(v))
	if err != nil {
		return "jcs-error:" + err.Error()
	}

	d := sha256.Sum256(raw)

	return hex.EncodeToString(d[:8])
}

// project maps a real resolution model to the abstract record. Anything the abstraction
// cannot name becomes a negative / 1000+ id, which never equals a specification value.
func (e *applierEnv) project(rm *protocol.ResolutionModel) (a ARM) {
	// (states are shared between the goroutines of a replay: a library that writes into the state it is given makes
	// another goroutine read torn values here; that is reported as the mutation it is - see stepVariant - and as a
	// state no specification value equals)
	defer func() {
		if r := recover(); r != nil {
			a = ARM{Ao: -99}
		}
	}()
	a.Exists = rm.Doc != nil

	for _, pk := range rm.Doc.PublicKeys() {
		m := reKeyID.FindStringSubmatch(pk.ID())
		if m == nil {
			a.Doc.Keys = append(a.Doc.Keys, -1)
			continue
		}

		i := atoi(m[1])
		if digestJSON(map[string]interface{}(pk)) != digestJSON(e.conc.docKeyJSON(i)) {
			i += 1000 // right id, wrong content
		}

		a.Doc.Keys = append(a.Doc.Keys, i)
	}

	for name, v := range rm.Doc {
		switch name {
		case "publicKey":
			continue
		case "service", "alsoKnownAs":
			if v == nil {
				continue
			}
		}

		if m := reMem.FindStringSubmatch(name); m != nil {
			i := atoi(m[1])
			if digestJSON(v) != digestJSON(memValue(i)) {
				i += 1000
			}

			a.Doc.Mem = append(a.Doc.Mem, i)

			continue
		}

		a.Doc.Mem = append(a.Doc.Mem, -1) // a member nobody asked for
	}

	a.Upd = e.conc.commitmentID(rm.UpdateCommitment)
	a.Rec = e.conc.commitmentID(rm.RecoveryCommitment)
	a.Deact = rm.Deactivated

	switch ao := rm.AnchorOrigin.(type) {
	case nil:
		a.Ao = 0
	case string:
		if m := reOrig.FindStringSubmatch(ao); m != nil {
			a.Ao = atoi(m[1])
		} else {
			a.Ao = -1
		}
	case map[string]interface{}:
		if f, ok := ao["o"].(float64); ok && digestValue(ao) == digestValue(anchorOrigin(100+int(f))) {
			a.Ao = 100 + int(f)
		} else {
			a.Ao = -1
		}
	default:
		a.Ao = -1
	}

	a.Created, a.Updated = unoffT(rm.CreatedTime), unoffT(rm.UpdatedTime)
	a.LastT, a.LastN, a.LastPV = unoffT(rm.LastOperationTransactionTime), rm.LastOperationTransactionNumber, rm.LastOperationProtocolVersion

	ref := func(s string) int {
		if s == "" {
			return 0
		}

		if m := reCanon.FindStringSubmatch(s); m != nil {
			return atoi(m[1])
		}

		return -1
	}

	a.Ver, a.Canon = ref(rm.VersionID), ref(rm.CanonicalReference)

	a.Equiv = -1
	if len(rm.EquivalentReferences) == 0 {
		a.Equiv = 0
	} else {
		for i := 1; i < 200; i++ {
			if reflect.DeepEqual(rm.EquivalentReferences, equivRefs(i)) {
				a.Equiv = i
				break
			}
		}
	}

	opl := func(l, want []*operation.AnchoredOperation) int {
		if len(l) == 0 {
			return 0
		}

		if reflect.DeepEqual(l, want) {
			return 1
		}

		return -1
	}

	a.Pub, a.Unpub = opl(rm.PublishedOperations, e.pubOps), opl(rm.UnpublishedOperations, e.unpub)

	a.norm()

	return a
}

// cstate is a concrete state with the digest it had when it was produced (C12: versions held
// by the caller stay valid) and its ancestry.
type cstate struct {
	rm     *protocol.ResolutionModel
	digest string
	parent *cstate
}

func newCState(rm *protocol.ResolutionModel, parent *cstate) *cstate {
	cs := &cstate{rm: rm, digest: digestJSON(rm), parent: parent}

	heldMu.Lock()
	if len(heldStates) < 40000 {
		heldStates = append(heldStates, cs)
	}
	heldMu.Unlock()

	return cs
}

// every state a call handed out is held until the end of the run and digested again then: what a later call on a
// neighbouring state does must not reach it (slices with spare capacity, maps handed on)
var (
	heldMu     sync.Mutex
	heldStates []*cstate
)

// stepResult is what one real Apply call did.
type stepResult struct {
	next     *cstate // state in force afterwards
	err      bool
	mutated  string // non-empty: which input was modified by the call (C12)
	partial  bool   // error together with a non-nil result (C12)
	panicked string
	tight    string // non-empty: the result changes when the delta size limit is the delta's exact size
}

func (e *applierEnv) step(cs *cstate, o *ROp) (res stepResult) {
	return e.stepVariant(cs, o, 0)
}

func (e *applierEnv) stepVariant(cs *cstate, o *ROp, variant int) (res stepResult) {
	op, _ := e.conc.BuildVariant(o, variant)
	opDigest := digestJSON(op)

	defer func() {
		if r := recover(); r != nil {
			res = stepResult{next: cs, err: true, panicked: fmt.Sprint(r)}
		}
	}()

	out, err := e.applier.Apply(op, cs.rm)

	if d := digestJSON(op); d != opDigest {
		res.mutated = "anchored operation"
	}

	for s := cs; s != nil; s = s.parent {
		if digestJSON(s.rm) != s.digest {
			res.mutated = "previous resolution model"
		}
	}

	// the same call on a state that still lists this very request among its unpublished operations (a request that was
	// submitted, is anchored now, and has not been pruned from the pending store): the state's entries are the caller's
	if variant == 0 && cs.rm != nil && res.mutated == "" {
		pending := &operation.AnchoredOperation{Type: op.Type, UniqueSuffix: op.UniqueSuffix, OperationRequest: append([]byte(nil), op.OperationRequest...),
			TransactionTime: op.TransactionTime, ProtocolVersion: op.ProtocolVersion, AnchorOrigin: op.AnchorOrigin}
		with := *cs.rm
		with.UnpublishedOperations = append(append([]*operation.AnchoredOperation(nil), cs.rm.UnpublishedOperations...), pending)
		before, listBefore := digestJSON(pending), digestJSON(with.UnpublishedOperations)

		var (
			pout *protocol.ResolutionModel
			perr error
		)

		func() {
			defer func() {
				if r := recover(); r != nil {
					perr = fmt.Errorf("panic: %v", r)
				}
			}()

			// (as it is anchored - the entries of the state must not be written to - and anchored without a canonical
			// reference, as the pending entry is)
			_, _ = e.applier.Apply(op, &with)

			bare := *op
			bare.CanonicalReference = ""
			pout, perr = e.applier.Apply(&bare, &with)
		}()

		if digestJSON(pending) != before || digestJSON(with.UnpublishedOperations) != listBefore {
			res.mutated = "an unpublished operation that the previous state holds (the same request, pending)"
		}

		// ... and being listed as pending earns an operation nothing: it is accepted or refused as it is otherwise
		if (perr == nil && pout != nil) != (err == nil && out != nil) {
			res.tight = fmt.Sprintf("the same operation, listed among the state's unpublished operations and anchored without a canonical reference, is judged differently: error %v / %v", err, perr)
		}
	}

	// a delta whose canonical size is exactly the maximum delta size is within the limit: the same call under a
	// protocol whose limit is that size must give the same result (the limits are inclusive, measured on the
	// canonical form)
	if o.Dv == "ok" && variant == 0 {
		if d := e.conc.buildDelta(o); d != nil {
			size := uint(len(refJCSSimple(d)))
			if size < e.proto.MaxDeltaSize {
				out2, err2 := e.tightApplier(size).Apply(op, cs.rm)
				if (err == nil) != (err2 == nil) || digestJSON(out) != digestJSON(out2) {
					res.tight = fmt.Sprintf("maximum delta size %d = the canonical size of this delta: error %v / %v", size, err, err2)
				}
			}
		}
	}

	if err != nil {
		res.err = true
		res.partial = out != nil
		res.next = cs

		return res
	}

	if out == nil {
		res.err = true
		res.partial = true
		res.next = cs

		return res
	}

	res.next = newCState(out, cs)

	return res
}

func (e *applierEnv) tightApplier(size uint) *operationapplier.Applier {
	e.tightMu.Lock()
	defer e.tightMu.Unlock()

	if a, ok := e.tight[size]; ok {
		return a
	}

	if e.tight == nil {
		e.tight = map[uint]*operationapplier.Applier{}
	}

	p := e.proto
	p.MaxDeltaSize = size
	a := operationapplier.New(p, operationparser.New(p, operationparser.WithAnchorTimeValidator(refusingTimeValidator{}), operationparser.WithAnchorOriginValidator(refusingOriginValidator{})), doccomposer.New())
	e.tight[size] = a

	return a
}

// ---------------------------------------------------------------------------------------------
// replay of TLC edges

type acceptingOriginValidator struct{}

func (acceptingOriginValidator) Validate(interface{}) error { return nil }

type edgeWin struct {
	From  int64 `json:"from"`
	Until int64 `json:"until"`
	Inw   bool  `json:"inw"`
}

type edge struct {
	Path    []ROp           `json:"path"`
	Op      ROp             `json:"op"`
	Post    json.RawMessage `json:"post"`
	Refused bool            `json:"refused"`
	Win     edgeWin         `json:"win"`
}

type mismatch struct {
	Kind     string      `json:"kind"`
	Key      string      `json:"key"`
	Case     interface{} `json:"case"`
	Expected interface{} `json:"expected,omitempty"`
	Actual   interface{} `json:"actual,omitempty"`
	Detail   string      `json:"detail,omitempty"`
	Concrete interface{} `json:"concrete,omitempty"`
	Replay   interface{} `json:"replay,omitempty"`
	// Beyond: the observed behaviour differs from the pinned one in a point the property's statement does
	// not speak about: recorded in the evidence, never a verdict
	Beyond bool `json:"beyond,omitempty"`
}

type replaySummary struct {
	Family     string                 `json:"family"`
	Cases      int64                  `json:"cases"`
	Distinct   int                    `json:"distinct"`
	Mismatches []mismatch             `json:"mismatches"`
	NMismatch  int64                  `json:"n_mismatch"`
	Samples    []interface{}          `json:"samples"`
	Extra      map[string]interface{} `json:"extra,omitempty"`
}

// collector gathers mismatches, samples and counts from concurrent workers.
type collector struct {
	mu        sync.Mutex
	sum       replaySummary
	maxReport int
	only      map[string]bool
	kinds     map[string]int
	keyCounts map[string]int
	nCases    int64
	nMismatch int64
}

func newCollector(family string, only string) *collector {
	c := &collector{maxReport: 300, kinds: map[string]int{}, keyCounts: map[string]int{}}
	c.sum.Family = family
	c.sum.Extra = map[string]interface{}{}

	if only != "" {
		c.only = map[string]bool{}
		for _, k := range splitComma(only) {
			c.only[k] = true
		}
	}

	return c
}

func splitComma(s string) []string {
	var out []string

	cur := ""
	for _, ch := range s {
		if ch == ',' {
			if cur != "" {
				out = append(out, cur)
			}

			cur = ""
		} else {
			cur += string(ch)
		}
	}

	if cur != "" {
		out = append(out, cur)
	}

	return out
}

func (c *collector) report(m mismatch) {
	if c.only != nil && !c.only[m.Kind] {
		return
	}

	atomic.AddInt64(&c.nMismatch, 1)
	c.mu.Lock()
	// the first instance of every distinct key is kept (known findings are matched by key)
	if c.keyCounts[m.Key] == 0 && len(c.sum.Mismatches) < c.maxReport {
		c.sum.Mismatches = append(c.sum.Mismatches, m)
	}
	c.keyCounts[m.Key]++
	c.mu.Unlock()
}

// beyond records a difference in a point the property's statement does not speak about (no verdict).
func (c *collector) beyond(kind, detail string, cs, exp, act interface{}) {
	c.report(mismatch{Kind: kind, Key: "beyond:" + kind, Case: cs, Detail: detail, Expected: exp, Actual: act, Beyond: true})
}

func (c *collector) sample(v interface{}) {
	c.mu.Lock()
	if len(c.sum.Samples) < 3 {
		c.sum.Samples = append(c.sum.Samples, v)
	}
	c.mu.Unlock()
}

func (c *collector) kind(k string) {
	c.mu.Lock()
	c.kinds[k]++
	c.mu.Unlock()
}

func (c *collector) finish() {
	c.sum.Cases = c.nCases
	c.sum.NMismatch = c.nMismatch
	c.sum.Distinct = len(c.kinds)
	c.sum.Extra["mismatch_keys"] = c.keyCounts
	writeJSON(os.Stdout, c.sum)
}

type stateCache struct {
	mu sync.Mutex
	m  map[string]*cstate
}

func pathKey(init [2]int, path []ROp) string {
	b, _ := json.Marshal(path)
	return fmt.Sprintf("%d,%d|%s", init[0], init[1], b)
}

// stateFor rebuilds (or finds) the concrete state reached by path from the initial state.
func (e *applierEnv) stateFor(c *stateCache, init [2]int, path []ROp) *cstate {
	k := pathKey(init, path)

	c.mu.Lock()
	cs, ok := c.m[k]
	c.mu.Unlock()

	if ok {
		return cs
	}

	if len(path) == 0 {
		cs = newCState(e.initRM(init[0], init[1]), nil)
	} else {
		prev := e.stateFor(c, init, path[:len(path)-1])
		cs = e.step(prev, &path[len(path)-1]).next
	}

	c.mu.Lock()
	if old, ok := c.m[k]; ok {
		cs = old
	} else {
		c.m[k] = cs
	}
	c.mu.Unlock()

	return cs
}

type recordingTimeValidator struct {
	called      bool
	from, until int64
}

func (r *recordingTimeValidator) Validate(from, until int64) error {
	r.called, r.from, r.until = true, from, until
	return nil
}

func opKey(kind string, o *ROp) string {
	return fmt.Sprintf("%s:%s:wf=%s:sig=%s:reveal=%s:dhash=%v:dv=%s:sfx=%v:delta=%s:win=%d,%d,%d",
		kind, o.Type, o.Wf, o.Sig, o.Reveal, o.Dhash, o.Dv, o.Sfx, o.Delta.K, o.From, o.Until, o.T)
}

func allOK(o *ROp) bool {
	return o.Wf == "ok" && o.Sig == "ok" && o.Reveal == "ok" && o.Dhash && o.Dv == "ok" && o.Sfx
}

func applierReplay(args []string) {
	fl := parseFlags(args)
	seed := int64(fl.int("seed", envInt("VERIF_SEED", 1)))
	td := uint64(fl.int("td", 1))
	timeOffset = uint64(fl.int("toffset", 0))
	pvariant := fl.int("pvariant", 0)
	expand := fl.bool("expand")
	withParser := fl.bool("parser")
	expandMaxPath := fl.int("expand-maxpath", 1)

	env := newApplierEnv(seed, td, pvariant)
	sharedCache := &stateCache{m: map[string]*cstate{}}
	// C12: with -private-states every worker rebuilds its own states, so that code which writes into
	// its inputs cannot turn into a data race between workers (it is caught by the digests instead)
	privateStates := fl.bool("private-states")
	col := newCollector("applier", fl.str("only", ""))

	lines := make(chan []byte, 1024)

	var (
		wg                sync.WaitGroup
		accepted, refused int64
		tampers, tvChecks int64
		negDone           int32
		expandedOps       sync.Map
	)

	for w := 0; w < runtime.NumCPU(); w++ {
		wg.Add(1)

		go func() {
			defer wg.Done()

			cache := sharedCache
			if privateStates {
				cache = &stateCache{m: map[string]*cstate{}}
			}

			for line := range lines {
				var ed edge
				if err := json.Unmarshal(line, &ed); err != nil {
					fatalf("bad edge line: %v: %.300s", err, line)
				}

				var want ARM
				if err := json.Unmarshal(ed.Post, &want); err != nil {
					fatalf("bad post: %v", err)
				}

				want.norm()

				// the initial operation lists are carried unchanged, so the expected post
				// state names the initial state the path started from
				init := [2]int{want.Pub, want.Unpub}

				pre := env.stateFor(cache, init, ed.Path)
				res := env.step(pre, &ed.Op)
				got := env.project(res.next.rm)

				atomic.AddInt64(&col.nCases, 1)

				if res.err {
					atomic.AddInt64(&refused, 1)
				} else {
					atomic.AddInt64(&accepted, 1)
				}

				cs := map[string]interface{}{"path": ed.Path, "op": ed.Op}
				rp := map[string]interface{}{"cmd": append([]string{"applier-replay"}, args...), "stdin": string(line)}

				col.sample(map[string]interface{}{"path": ed.Path, "op": ed.Op, "post": want, "refused": ed.Refused})
				col.kind(ed.Op.Type + "/" + ed.Op.Wf + "/" + ed.Op.Sig + "/" + ed.Op.Reveal + "/" + ed.Op.Dv + "/" + ed.Op.Delta.K)

				conc := func(v int) interface{} {
					a, _ := env.conc.BuildVariant(&ed.Op, v)
					return map[string]interface{}{"anchored_operation": a, "request": string(a.OperationRequest), "variant": v}
				}

				judge := func(res stepResult, got ARM, variant int, kindPrefix string) {
					switch {
					case res.panicked != "":
						col.report(mismatch{Kind: "panic", Key: opKey("panic", &ed.Op), Case: cs, Detail: res.panicked, Concrete: conc(variant), Replay: rp})
					case res.mutated != "":
						col.report(mismatch{Kind: "input-mutated", Key: opKey("input-mutated", &ed.Op), Case: cs, Detail: res.mutated, Concrete: conc(variant), Replay: rp})
					case res.partial:
						col.report(mismatch{Kind: "error-with-state", Key: opKey("error-with-state", &ed.Op), Case: cs, Concrete: conc(variant), Replay: rp})
					case res.tight != "":
						col.report(mismatch{Kind: kindPrefix + "limit-exactness", Key: opKey(kindPrefix+"limit-exactness", &ed.Op), Case: cs, Detail: res.tight, Concrete: conc(variant), Replay: rp})
					case !reflect.DeepEqual(got, want):
						col.report(mismatch{Kind: kindPrefix + "state", Key: opKey(kindPrefix+"state", &ed.Op), Case: cs, Expected: want, Actual: got, Concrete: conc(variant), Replay: rp})
					case res.err != ed.Refused:
						col.report(mismatch{Kind: kindPrefix + "verdict", Key: opKey(kindPrefix+"verdict", &ed.Op), Case: cs,
							Expected: map[string]interface{}{"error": ed.Refused}, Actual: map[string]interface{}{"error": res.err}, Concrete: conc(variant), Replay: rp})
					}
				}

				judge(res, got, 0, "")

				if atomic.CompareAndSwapInt32(&negDone, 0, 1) {
					if f := fl.str("first-edge", ""); f != "" {
						_ = os.WriteFile(f, append(line, '\n'), 0o644)
					}
				}

				// C02: expand the operation's tamper class to every concrete instance
				if expand && len(ed.Path) <= expandMaxPath && ed.Op.Sig != "ok" && ed.Op.Sig != "otherkey" {
					k := pathKey(init, ed.Path) + ed.Op.key()
					if _, dup := expandedOps.LoadOrStore(k, true); !dup {
						// the untampered twin first: what a verifier may remember from it must not help the forgeries
						twin := ed.Op
						twin.Sig = "ok"
						env.stepVariant(pre, &twin, 0)

						// the same forgeries with an anchoring window that excludes the anchoring time: a window is not a
						// way around the signature (the window of an operation nobody signed means nothing)
						if ed.Op.From == 0 && ed.Op.Until == 0 {
							late := ed.Op
							late.From = 90

							for v := 0; v < 3; v++ {
								r2 := env.stepVariant(pre, &late, v)
								g2 := env.project(r2.next.rm)
								atomic.AddInt64(&tampers, 1)
								judge(r2, g2, v, "late-window-")
							}
						}

						n := env.conc.variants(&ed.Op)
						for v := 1; v < n; v++ {
							r2 := env.stepVariant(pre, &ed.Op, v)
							g2 := env.project(r2.next.rm)
							atomic.AddInt64(&tampers, 1)
							judge(r2, g2, v, "tamper-")
						}

						// the first instances of the class once more under every other key type (the signature formats
						// and their verifiers differ by type)
						for _, kt := range allKTs {
							if kt == ed.Op.Kt {
								continue
							}

							alt := ed.Op
							alt.Kt = kt

							altTwin := alt
							altTwin.Sig = "ok"
							env.stepVariant(pre, &altTwin, 0)

							for v := 0; v < n && v < 5; v++ {
								r2 := env.stepVariant(pre, &alt, v)
								g2 := env.project(r2.next.rm)
								atomic.AddInt64(&tampers, 1)
								judge(r2, g2, v, "keytype-"+kt+"-")
							}
						}
					}
				}

				// C02: every concrete shape of an unbound delta hash / a foreign reveal value / a foreign signed suffix
				if expand && len(ed.Path) <= expandMaxPath && (!ed.Op.Dhash || ed.Op.Reveal == "other" || !ed.Op.Sfx) && ed.Op.Sig == "ok" {
					k := pathKey(init, ed.Path) + ed.Op.key() + "/ways"
					if _, dup := expandedOps.LoadOrStore(k, true); !dup {
						for w := 1; w <= 6; w++ {
							shaped := ed.Op
							shaped.ForceWay = w
							r2 := env.stepVariant(pre, &shaped, 0)
							g2 := env.project(r2.next.rm)
							atomic.AddInt64(&tampers, 1)
							judge(r2, g2, 0, fmt.Sprintf("shape%d-", w))
						}
					}
				}

				// C09: the (from, until) pair handed to the time validator by the parser
				if withParser && allOK(&ed.Op) && (ed.Op.Type == "update" || ed.Op.Type == "recover" || ed.Op.Type == "deactivate") {
					rec := &recordingTimeValidator{}
					// (both optional validators configured, in either order of the options: each option sets its own validator)
					popts := []operationparser.Option{operationparser.WithAnchorTimeValidator(rec), operationparser.WithAnchorOriginValidator(acceptingOriginValidator{})}
					if (ed.Op.From+ed.Op.Until)%2 != 0 {
						popts[0], popts[1] = popts[1], popts[0]
					}

					parser := operationparser.New(env.proto, popts...)
					op := env.conc.Build(&ed.Op)
					// (the same bytes are first read the way anchored operations are, on the same parser: what that call learnt
					// does not spare the request the time validator)
					_, _ = parser.GetRevealValue(op.OperationRequest)
					_, _ = parser.ParseOperation("did:test", op.OperationRequest, true)
					rec.called = false

					_, perr := parser.Parse("did:test", op.OperationRequest)
					atomic.AddInt64(&tvChecks, 1)

					// a request may still be rejected by a later rule (e.g. equal next commitments);
					// what is specified here is the pair the time validator is handed
					wantUntil := ed.Win.Until
					if td >= 1000000000 && ed.Op.From != 0 && ed.Op.Until == 0 {
						wantUntil = ed.Win.From + int64(env.proto.MaxOperationTimeDelta) // (the model's ticks stand for seconds times ten there)
					}

					// (moved up with the times of the request: a bound that is set, and the default that derives from one)
					wantFrom := ed.Win.From
					if ed.Op.From != 0 {
						wantFrom += int64(timeOffset)
					}

					if ed.Op.Until != 0 || ed.Op.From != 0 {
						wantUntil += int64(timeOffset)
					}

					if !rec.called || rec.from != wantFrom || rec.until != wantUntil {
						col.report(mismatch{Kind: "time-validator", Key: opKey("time-validator", &ed.Op), Case: cs,
							Expected: map[string]interface{}{"called": true, "from": wantFrom, "until": wantUntil},
							Actual:   map[string]interface{}{"called": rec.called, "from": rec.from, "until": rec.until, "parse_error": fmt.Sprint(perr)},
							Concrete: conc(0), Replay: rp})
					}
				}
			}
		}()
	}

	save := newSaver(fl.str("save", ""))
	readTagged(os.Stdin, "EDGE", fl.str("tlclog", ""), func(line []byte) { save.line(line); lines <- line })
	save.close()

	close(lines)
	wg.Wait()

	changedLater := 0

	heldMu.Lock()
	for _, cs := range heldStates {
		if cs.rm != nil && digestJSON(cs.rm) != cs.digest && changedLater < 3 {
			changedLater++
			col.report(mismatch{Kind: "input-mutated", Key: fmt.Sprintf("input-mutated:result-changed-later:%d", changedLater),
				Detail:   "a state handed out by an earlier Apply call reads differently at the end of the run: a later call wrote into memory it shares",
				Expected: cs.digest, Actual: generic(cs.rm)})
		}
	}

	col.sum.Extra["states_held_and_digested_again"] = len(heldStates)
	heldMu.Unlock()

	col.sum.Extra["accepted"] = accepted
	col.sum.Extra["refused"] = refused
	col.sum.Extra["concrete_states"] = len(sharedCache.m)
	col.sum.Extra["td"] = td
	col.sum.Extra["seed"] = seed
	col.sum.Extra["pvariant"] = pvariant
	col.sum.Extra["tamper_instances"] = tampers
	col.sum.Extra["time_validator_checks"] = tvChecks
	col.finish()
}

// ---------------------------------------------------------------------------------------------
// trace driver: random histories on the real code, logged for ApplierTrace.tla

func randomOp(r *rand.Rand, pos int, kts []string) ROp {
	pick := func(ok string, bad []string, pBad float64) string {
		if r.Float64() < pBad {
			return bad[r.Intn(len(bad))]
		}

		return ok
	}

	types := []string{"create", "update", "update", "update", "recover", "recover", "deactivate", "bogus"}
	ty := types[r.Intn(len(types))]

	if pos == 1 && r.Float64() < 0.8 {
		ty = "create"
	}

	if ty == "deactivate" && r.Float64() < 0.5 {
		ty = "update"
	}

	o := ROp{Type: ty, Wf: "ok", Reveal: "ok", Sig: "ok", Dhash: true, Dv: "ok", Sfx: true, Nuv: "norm"}

	wfCommon := []string{"badjson", "nosuffix", "nosigneddata", "noreveal", "reveal_mh", "badjws", "extrahdr", "extrahdr_b64true", "extrahdr_b64false", "extrahdr_crit", "algnone", "algdisallowed", "noalg", "nokey", "badkey", "crv", "nonce", "payloadjson", "rsakey"}

	switch ty {
	case "create", "bogus":
		o.Wf = pick("ok", []string{"badjson", "nosuffixdata", "rc_mh", "dh_mh"}, 0.1)
	case "update":
		o.Wf = pick("ok", append(wfCommon, "dh_mh"), 0.1)
	case "recover":
		o.Wf = pick("ok", append(wfCommon, "dh_mh", "rc_mh", "reuse", "reuse_other_alg"), 0.1)
	case "deactivate":
		o.Wf = pick("ok", wfCommon, 0.1)
	}

	if ty != "create" && ty != "bogus" {
		o.Reveal = pick("ok", []string{"other"}, 0.07)
		o.Sig = pick("ok", []string{"bitflip", "otherkey"}, 0.1)
	}

	if ty != "deactivate" {
		o.Dhash = r.Float64() >= 0.1
		o.Dv = pick("ok", []string{"nodelta", "nopatches", "disabled", "invalidpatch", "noaction", "upd_mh", "toolarge"}, 0.12)
	} else {
		o.Sfx = r.Float64() >= 0.15
	}

	kinds := []string{"addkey", "addkey", "remkey", "replace", "addmem", "remmem", "addkey_remmem", "remmem_replace", "renmem_addkey"}
	o.Delta = Delta{K: kinds[r.Intn(len(kinds))], I: 1 + r.Intn(3)}

	if o.Delta.K == "addmem" || o.Delta.K == "remmem" {
		o.Delta.I = 1 + r.Intn(2)
	}

	o.T = uint64(r.Intn(8))
	o.N = uint64(r.Intn(50))
	o.Pv = uint64(r.Intn(3))
	o.Ref = r.Intn(6)
	o.Eq = r.Intn(4)
	o.Nu = 1 + r.Intn(8)
	o.Nr = 1 + r.Intn(8)

	if r.Float64() < 0.1 {
		o.Nu = o.Nr
		o.Nuv = "equal"
	}

	if ty != "create" && ty != "bogus" && r.Float64() < 0.5 {
		o.From = int64(r.Intn(8))
		o.Until = int64(r.Intn(8))
	}

	switch r.Intn(4) {
	case 0:
		o.Ao = 0
	case 1:
		o.Ao = 100 + r.Intn(5)
	default:
		o.Ao = 1 + r.Intn(9)
	}

	if ty == "update" || ty == "deactivate" {
		o.Ao = 0 // these operations carry no anchor origin
	}

	o.Kt = kts[r.Intn(len(kts))]
	o.H = []int{256, 512}[r.Intn(2)]

	if ty == "create" || ty == "bogus" {
		o.Kt = "p256"
	}

	return o
}

func applierTrace(args []string) {
	fl := parseFlags(args)
	seed := int64(fl.int("seed", envInt("VERIF_SEED", 1)))
	td := uint64(fl.int("td", 1))
	n, maxLen := fl.int("n", 100), fl.int("maxlen", 40)
	out := fl.str("o", "-")
	kts := allKTs

	env := newApplierEnv(seed, td, 0)
	r := rand.New(rand.NewSource(seed))

	w := bufio.NewWriter(os.Stdout)
	if out != "-" {
		f, err := os.Create(out)
		if err != nil {
			fatalf("%v", err)
		}

		defer f.Close()

		w = bufio.NewWriter(f)
	}

	defer w.Flush()

	enc := json.NewEncoder(w)
	events := 0

	for h := 0; h < n; h++ {
		pub, unpub := r.Intn(2), r.Intn(2)
		cs := newCState(env.initRM(pub, unpub), nil)

		_ = enc.Encode(map[string]interface{}{"event": "Reset", "pub": pub, "unpub": unpub})
		events++

		l := 1 + r.Intn(maxLen)
		for pos := 1; pos <= l; pos++ {
			o := randomOp(r, pos, kts)
			res := env.step(cs, &o)
			post := env.project(res.next.rm)

			bad := ""

			switch {
			case res.panicked != "":
				bad = "panic: " + res.panicked
			case res.mutated != "":
				bad = "mutated: " + res.mutated
			case res.partial:
				bad = "error with state"
			}

			_ = enc.Encode(map[string]interface{}{"event": "Apply", "op": o, "post": post, "err": res.err, "bad": bad})
			events++

			cs = res.next

			if post.Deact {
				break
			}
		}
	}

	fmt.Fprintf(os.Stderr, "applier trace: %d histories, %d events\n", n, events)
}

// refusingOriginValidator: an anchor origin validator judges requests that are not anchored yet; anchored
// operations are applied whatever their origin (every node must reach the same state).
type refusingOriginValidator struct{}

func (refusingOriginValidator) Validate(_ interface{}) error {
	return fmt.Errorf("anchor origin not allowed here")
}
