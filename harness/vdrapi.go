package main

// VdrApi family: Accept / Update / Deactivate / Close of the long-form VDR (VdrApi.tla).

import (
	"encoding/json"
	"fmt"
	"os"
	"strings"

	docdid "github.com/trustbloc/did-go/doc/did"
	vdrapi "github.com/trustbloc/did-go/vdr/api"

	"github.com/trustbloc/sidetree-go/pkg/vdr/sidetreelongform"
)

type vaCase struct {
	Kind   string `json:"kind"`
	M      string `json:"m"`
	H      string `json:"h"`
	D      string `json:"d"`
	Ok     bool   `json:"ok"`
	Closed bool   `json:"closed"`
}

func vdrapiReplay(args []string) {
	fl := parseFlags(args)
	col := newCollector("vdrapi", fl.str("only", ""))
	seen := map[string]bool{}
	first := true

	const own = "ion"

	readTagged(os.Stdin, "CASE", fl.str("tlclog", ""), func(line []byte) {
		if seen[string(line)] {
			return
		}

		seen[string(line)] = true

		var c vaCase
		if err := json.Unmarshal(line, &c); err != nil {
			fatalf("bad case: %v: %.300s", err, line)
		}

		if first {
			first = false

			if f := fl.str("first-edge", ""); f != "" {
				_ = os.WriteFile(f, append(line, '\n'), 0o644)
			}
		}

		col.nCases++
		k := fmt.Sprintf("vdrapi:%s:m=%s:h=%s:d=%s:closed=%v", c.Kind, c.M, c.H, c.D, c.Closed)
		col.kind(k)

		rp := map[string]interface{}{"cmd": append([]string{"vdrapi-replay"}, args...), "stdin": string(line)}
		fail := func(kind, detail string, exp, act interface{}) {
			col.report(mismatch{Kind: kind, Key: kind + ":" + strings.TrimPrefix(k, "vdrapi:"), Case: c, Detail: detail, Expected: exp, Actual: act, Replay: rp})
		}

		defer func() {
			if r := recover(); r != nil {
				fail("panic", fmt.Sprint(r), nil, nil)
			}
		}()

		// the VDR is created for the namespace "did:<own>"; WithDIDMethod names the method
		vdr, err := sidetreelongform.New(sidetreelongform.WithDIDMethod(own))
		if err != nil {
			fatalf("vdr: %v", err)
		}

		if c.Closed {
			if err := vdr.Close(); err != nil {
				fail("close", "Close always succeeds", nil, fmt.Sprint(err))
				return
			}
		}

		switch c.Kind {
		case "accept":
			method := map[string]string{"own": own, "other": "ionx", "own_upper": "ION", "empty": ""}[c.M]

			var opts []vdrapi.DIDMethodOption

			switch c.H {
			case "absent":
			case "nonstring":
				opts = append(opts, vdrapi.WithOption(sidetreelongform.VDRAcceptOpt, 7))
			case "empty":
				opts = append(opts, vdrapi.WithOption(sidetreelongform.VDRAcceptOpt, ""))
			default:
				opts = append(opts, vdrapi.WithOption(sidetreelongform.VDRAcceptOpt, c.H))
			}

			switch c.D {
			case "absent":
			case "nonstring":
				opts = append(opts, vdrapi.WithOption(sidetreelongform.DIDAcceptOpt, []string{"did", "ion", "a", "b"}))
			default:
				n := int(c.D[0] - '0')
				parts := []string{"did", own, "EiDsuffix", "eyJzdGF0ZSI6MX0", "extra"}[:n]
				opts = append(opts, vdrapi.WithOption(sidetreelongform.DIDAcceptOpt, strings.Join(parts, ":")))
			}

			// option order must not matter
			got := vdr.Accept(method, opts...)

			for i, j := 0, len(opts)-1; i < j; i, j = i+1, j-1 {
				opts[i], opts[j] = opts[j], opts[i]
			}

			got2 := vdr.Accept(method, opts...)

			if got != c.Ok || got2 != c.Ok {
				fail("accept", "own method, then the hint if it is a string, else more than three DID parts", c.Ok, []bool{got, got2})
				return
			}

			col.sample(map[string]interface{}{"call": "accept", "method": method, "hint": c.H, "did_parts": c.D, "accepted": got})
		case "update":
			if err := vdr.Update(&docdid.Doc{ID: "did:ion:x:y"}); err == nil {
				fail("update", "Update is not supported by the long-form VDR", "error", "nil")
			}
		case "deactivate":
			if err := vdr.Deactivate("did:ion:x:y"); err == nil {
				fail("deactivate", "Deactivate is not supported by the long-form VDR", "error", "nil")
			}
		case "close":
			if err := vdr.Close(); err != nil {
				fail("close", "Close always succeeds", nil, fmt.Sprint(err))
			}
		default:
			fatalf("unknown kind %q", c.Kind)
		}
	})

	col.finish()
}
