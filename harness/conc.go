package main

// C20: shared components under concurrent use. Built with -race by the driver.
//   registry-trace : histories of concurrent Add / Lookup calls on the namespace provider and the
//                    client-version registry, logged for RegistryTrace.tla (linearizability by TLC)
//   concurrent-run : parser / applier / composer / transformers / document handler / VDR / version
//                    provider shared by N goroutines; results must equal the sequential ones

import (
	"bufio"
	"crypto/ed25519"
	"encoding/json"
	"fmt"
	"math/rand"
	"os"
	"runtime"
	"sort"
	"strings"
	"sync"
	"sync/atomic"
	"time"

	vdrapi "github.com/trustbloc/did-go/vdr/api"

	"github.com/trustbloc/sidetree-go/pkg/api/operation"
	"github.com/trustbloc/sidetree-go/pkg/api/protocol"
	"github.com/trustbloc/sidetree-go/pkg/document"
	"github.com/trustbloc/sidetree-go/pkg/patch"
	"github.com/trustbloc/sidetree-go/pkg/vdr/sidetreelongform"
	"github.com/trustbloc/sidetree-go/pkg/vdr/sidetreelongform/dochandler"
	"github.com/trustbloc/sidetree-go/pkg/vdr/sidetreelongform/dochandler/protocol/nsprovider"
	"github.com/trustbloc/sidetree-go/pkg/vdr/sidetreelongform/dochandler/protocol/verprovider"
	"github.com/trustbloc/sidetree-go/pkg/vdr/sidetreelongform/dochandler/protocolversion/clientregistry"
	"github.com/trustbloc/sidetree-go/pkg/vdr/sidetreelongform/dochandler/protocolversion/versions/common"
	"github.com/trustbloc/sidetree-go/pkg/versions/1_0/doccomposer"
	"github.com/trustbloc/sidetree-go/pkg/versions/1_0/doctransformer/didtransformer"
	"github.com/trustbloc/sidetree-go/pkg/versions/1_0/doctransformer/doctransformer"
	"github.com/trustbloc/sidetree-go/pkg/versions/1_0/model"
	"github.com/trustbloc/sidetree-go/pkg/versions/1_0/operationapplier"
	"github.com/trustbloc/sidetree-go/pkg/versions/1_0/operationparser"
	"github.com/trustbloc/sidetree-go/pkg/versions/1_0/operationparser/patchvalidator"
)

// ---- registry histories ----------------------------------------------------------------------

type idProvider struct{ id int }

func (p *idProvider) Current() (protocol.Version, error)   { return nil, fmt.Errorf("id %d", p.id) }
func (p *idProvider) Get(uint64) (protocol.Version, error) { return nil, fmt.Errorf("id %d", p.id) }

// providerID tells which registered provider a lookup handed out, by asking it (both of its answers must come from the
// same registration; -1: they do not - no single registration explains the lookup)
func providerID(p interface {
	Current() (protocol.Version, error)
	Get(uint64) (protocol.Version, error)
}) int {
	parse := func(err error) int {
		if err == nil {
			return -1
		}

		s := err.Error()
		if i := strings.LastIndex(s, "id "); i >= 0 {
			return atoi(s[i+3:])
		}

		return -1
	}

	_, e1 := p.Get(0)
	_, e2 := p.Current()

	if a, b := parse(e1), parse(e2); a == b {
		return a
	}

	return -1
}

type idFactory struct{ id int }

func (f *idFactory) Create(version string, _ *common.ProtocolConfig) (protocol.Version, error) {
	return &common.ProtocolVersion{VersionStr: fmt.Sprint(f.id)}, nil
}

type regEvent struct {
	Seq   int64  `json:"-"`
	Event string `json:"event"`
	G     int    `json:"g"`
	Op    string `json:"op"`
	Key   int    `json:"key"`
	Val   int    `json:"val"`
	Res   int    `json:"res"`
}

func registryTrace(args []string) {
	fl := parseFlags(args)
	seed := int64(fl.int("seed", envInt("VERIF_SEED", 1)))
	n, g, ops := fl.int("n", 50), fl.int("g", 4), fl.int("ops", 6)
	r := rand.New(rand.NewSource(seed))

	f, err := os.Create(fl.str("o", "registry_trace.ndjson"))
	if err != nil {
		fatalf("%v", err)
	}

	defer f.Close()

	w := bufio.NewWriter(f)
	defer w.Flush()

	enc := json.NewEncoder(w)

	for h := 0; h < n; h++ {
		_ = enc.Encode(map[string]interface{}{"event": "Reset", "g": 0, "op": "", "key": 0, "val": 0, "res": 0})

		kind := h % 2 // 0: namespace provider, 1: client-version registry
		nsp := nsprovider.New()
		reg := clientregistry.New()

		var clock int64

		// per goroutine: the calls it will make (registry versions are registered at most once)
		type callT struct {
			op       string
			key, val int
		}

		plans := make([][]callT, g)
		registered := map[int]bool{}

		for i := range plans {
			for j := 0; j < ops; j++ {
				key := 2 + r.Intn(3)

				if r.Intn(2) == 0 {
					registered[key] = true

					// the registry refuses a second factory under one version: "register" (test and set)
					op := "add"
					if kind == 1 {
						op = "register"
					}

					plans[i] = append(plans[i], callT{op, key, 10*(i+1) + j})
				} else {
					plans[i] = append(plans[i], callT{"lookup", key, 0})
				}
			}
		}

		events := make([][]regEvent, g)

		var wg sync.WaitGroup

		start := make(chan struct{})

		for i := 0; i < g; i++ {
			wg.Add(1)

			go func(i int) {
				defer wg.Done()
				<-start

				for _, c := range plans[i] {
					events[i] = append(events[i], regEvent{Seq: atomic.AddInt64(&clock, 1), Event: "Invoke", G: i + 1, Op: c.op, Key: c.key, Val: c.val})
					res := 0

					if kind == 0 {
						ns := fmt.Sprintf("did:ns%d", c.key)
						if c.op == "add" {
							nsp.Add(ns, &idProvider{c.val})
						} else if p, err := nsp.ForNamespace(ns); err == nil {
							res = providerID(p)
						}
					} else {
						ver := fmt.Sprintf("%d.0", c.key)
						if c.op == "register" {
							res = tryRegister(reg, ver, &idFactory{c.val})
						} else if v, err := reg.CreateClientVersion(ver, &common.ProtocolConfig{}); err == nil {
							res = atoi(v.Version())
						}
					}

					events[i] = append(events[i], regEvent{Seq: atomic.AddInt64(&clock, 1), Event: "Return", G: i + 1, Op: c.op, Key: c.key, Val: c.val, Res: res})

					if r := c.key; r%2 == 0 {
						runtime.Gosched()
					}
				}
			}(i)
		}

		close(start)

		// every call returns (a reader that re-acquires the lock it holds while a writer waits never does)
		finished := make(chan struct{})

		go func() { wg.Wait(); close(finished) }()

		select {
		case <-finished:
		case <-time.After(60 * time.Second):
			fmt.Fprintf(os.Stderr, "fatal error: registry history %d (kind %d): calls on github.com/trustbloc/sidetree-go/pkg/vdr/sidetreelongform/dochandler/protocolversion/clientregistry.(*Registry) / nsprovider.(*Provider) did not return within 60 s (deadlock)\n", h, kind)
			os.Exit(3)
		}

		var all []regEvent
		for _, e := range events {
			all = append(all, e...)
		}

		sort.Slice(all, func(a, b int) bool { return all[a].Seq < all[b].Seq })

		for _, e := range all {
			_ = enc.Encode(e)
		}
	}
}

// tryRegister: 1 when the registration was accepted, 0 when it was refused (the registry panics).
func tryRegister(reg *clientregistry.Registry, ver string, f *idFactory) (res int) {
	defer func() {
		if recover() != nil {
			res = 0
		}
	}()

	reg.Register(ver, f)

	return 1
}

// registerRace: G goroutines released together register ONE version with different factories, round after
// round; performed one at a time exactly one of them is accepted and a later lookup finds that one's factory.
// The rounds in which that is not so (and a few others) are written out as histories for TLC to judge.
func registerRace(args []string) {
	fl := parseFlags(args)
	rounds, g := fl.int("rounds", 2000), fl.int("g", 16)

	f, err := os.Create(fl.str("o", "register_race.ndjson"))
	if err != nil {
		fatalf("%v", err)
	}

	defer f.Close()

	w := bufio.NewWriter(f)
	defer w.Flush()

	enc := json.NewEncoder(w)
	odd, written := 0, 0

	for round := 0; round < rounds; round++ {
		reg := clientregistry.New()
		events := make([][]regEvent, g)

		var (
			clock int64
			wg    sync.WaitGroup
			ready sync.WaitGroup
		)

		start := make(chan struct{})
		ready.Add(g)

		for i := 0; i < g; i++ {
			wg.Add(1)

			go func(i int) {
				defer wg.Done()
				ready.Done()
				<-start

				val := 100 + i
				events[i] = append(events[i], regEvent{Seq: atomic.AddInt64(&clock, 1), Event: "Invoke", G: i + 1, Op: "register", Key: 9, Val: val})
				res := tryRegister(reg, "9.0", &idFactory{val})
				events[i] = append(events[i], regEvent{Seq: atomic.AddInt64(&clock, 1), Event: "Return", G: i + 1, Op: "register", Key: 9, Val: val, Res: res})
			}(i)
		}

		ready.Wait()
		close(start)

		// every call returns (a registration that is refused while holding the lock must give it back)
		finished := make(chan struct{})

		go func() { wg.Wait(); close(finished) }()

		select {
		case <-finished:
		case <-time.After(60 * time.Second):
			fmt.Fprintf(os.Stderr, "fatal error: round %d of racing registrations: calls on github.com/trustbloc/sidetree-go/pkg/vdr/sidetreelongform/dochandler/protocolversion/clientregistry.(*Registry).Register did not return within 60 s (deadlock)\n", round)
			os.Exit(3)
		}

		var all []regEvent

		accepted := 0

		for _, e := range events {
			all = append(all, e...)

			if e[1].Res == 1 {
				accepted++
			}
		}

		sort.Slice(all, func(a, b int) bool { return all[a].Seq < all[b].Seq })

		// afterwards a lookup finds the factory that was accepted
		found := 0
		looked := make(chan int, 1)

		go func() {
			f := 0
			if v, err := reg.CreateClientVersion("9.0", &common.ProtocolConfig{}); err == nil {
				f = atoi(v.Version())
			}

			looked <- f
		}()

		select {
		case found = <-looked:
		case <-time.After(60 * time.Second):
			fmt.Fprintf(os.Stderr, "fatal error: round %d of racing registrations: github.com/trustbloc/sidetree-go/pkg/vdr/sidetreelongform/dochandler/protocolversion/clientregistry.(*Registry).CreateClientVersion did not return within 60 s after the registrations (a lock was never given back)\n", round)
			os.Exit(3)
		}

		all = append(all, regEvent{Seq: clock + 1, Event: "Invoke", G: g + 1, Op: "lookup", Key: 9},
			regEvent{Seq: clock + 2, Event: "Return", G: g + 1, Op: "lookup", Key: 9, Res: found})

		if accepted != 1 {
			odd++
		}

		if (accepted != 1 && odd <= 20) || round < 25 {
			_ = enc.Encode(map[string]interface{}{"event": "Reset", "g": 0, "op": "", "key": 0, "val": 0, "res": 0})

			for _, e := range all {
				_ = enc.Encode(e)
			}

			written++
		}
	}

	writeJSON(os.Stdout, map[string]interface{}{"rounds": rounds, "goroutines": g, "rounds_not_exactly_one_accepted": odd, "histories_written": written})
}

// ---- stateless components shared by goroutines -----------------------------------------------

var freshIDs int64

type job struct {
	name string
	run  func() interface{}
}

func concurrentRun(args []string) {
	fl := parseFlags(args)
	seed := int64(fl.int("seed", envInt("VERIF_SEED", 1)))
	g, rounds := fl.int("g", 8), fl.int("rounds", 3)
	r := rand.New(rand.NewSource(seed))
	col := newCollector("concurrent", "")

	// every call returns: a watchdog ends the run when no job has finished for two minutes (on one processor as on many)
	var progress int64

	go func() {
		last, idle := int64(-1), 0

		for {
			time.Sleep(10 * time.Second)

			now := atomic.LoadInt64(&progress) + atomic.LoadInt64(&col.nCases)
			if now != last {
				last, idle = now, 0
				continue
			}

			idle++
			if idle >= 12 {
				fmt.Fprintf(os.Stderr, "fatal error: shared instances of github.com/trustbloc/sidetree-go/pkg (parser, applier, composer, transformers, document handler, VDR): no call has returned for 120 s with GOMAXPROCS=%d (a call that never returns)\n", runtime.GOMAXPROCS(0))
				os.Exit(3)
			}
		}
	}()

	conc := newConcretizer(seed)
	cenv := newComposerEnv(seed)
	pool := newKeyPool(seed)

	// build makes FRESH shared instances and the jobs that use them: the reference results come from one set
	// (used sequentially), every concurrent round gets a set of its own whose very first uses overlap
	build := func() []job {
		p := testProtocol(1)
		parser := operationparser.New(p)
		applier := operationapplier.New(p, parser, doccomposer.New())
		composer := doccomposer.New()

		handler, err := dochandler.New("did:ion")
		if err != nil {
			fatalf("%v", err)
		}

		vdr, err := sidetreelongform.New()
		if err != nil {
			fatalf("%v", err)
		}

		var jobs []job

		errStr := func(e error) string {
			if e != nil {
				return "error"
			}

			return ""
		}

		// distinct requests, states, documents
		for i := 1; i <= 6; i++ {
			i := i
			o := ROp{Type: []string{"create", "update", "recover", "deactivate"}[i%4], Wf: "ok", Reveal: "ok", Sig: "ok", Dhash: true, Dv: "ok", Sfx: true,
				Delta: Delta{"addkey", i}, T: uint64(i), N: uint64(i), Nu: i, Nr: i + 10, Ao: []int{100 + i, i}[i%2], Kt: allKTs[i%5], H: 256, Nuv: "norm", Ref: i, Eq: i}
			op := conc.Build(&o)

			jobs = append(jobs, job{fmt.Sprintf("Parser.Parse#%d", i), func() interface{} {
				res, e := parser.Parse("did:sidetree", op.OperationRequest)
				return []interface{}{res, errStr(e)}
			}})

			rm := &protocol.ResolutionModel{}
			if o.Type != "create" {
				rm = &protocol.ResolutionModel{Doc: document.Document{"publicKey": []interface{}{cenv.keyJSON(CEnt{i, 1})}}, UpdateCommitment: "u", RecoveryCommitment: "r"}
			}

			jobs = append(jobs, job{fmt.Sprintf("Applier.Apply#%d", i), func() interface{} {
				res, e := applier.Apply(op, rm)
				return []interface{}{res, errStr(e)}
			}})

			doc := document.Document{"publicKey": []interface{}{cenv.keyJSON(CEnt{i, 1}), cenv.keyJSON(CEnt{i + 1, 2})}, "service": []interface{}{cenv.svcJSON(CEnt{i, 2})},
				"alsoKnownAs": []interface{}{uriOf(i % 4)}}

			var patches []patch.Patch

			raw, _ := json.Marshal([]interface{}{cenv.patchJSON(&CPatch{A: "add-public-keys", Ents: []CEnt{{i + 2, 1}}}),
				cenv.patchJSON(&CPatch{A: "remove-services", IDs: []int{i}}),
				jsonPatch(map[string]interface{}{"op": "add", "path": "/o1", "value": i})})
			_ = json.Unmarshal(raw, &patches)

			jobs = append(jobs, job{fmt.Sprintf("Composer.ApplyPatches#%d", i), func() interface{} {
				res, e := composer.ApplyPatches(deepCopyGeneric(map[string]interface{}(doc)).(map[string]interface{}), patches)
				return []interface{}{res, errStr(e)}
			}})
		}

		// transformers with 0..6 method contexts, with and without @base, shared by all goroutines
		for nctx := 0; nctx <= 6; nctx++ {
			for _, base := range []bool{false, true} {
				var ctxs []string
				for c := 0; c < nctx; c++ {
					ctxs = append(ctxs, fmt.Sprintf("https://example.com/ctx/%d", c))
				}

				tr := didtransformer.New(didtransformer.WithMethodContext(ctxs), didtransformer.WithBase(base),
					didtransformer.WithIncludePublishedOperations(true), didtransformer.WithIncludeUnpublishedOperations(true))
				dtr := doctransformer.New(doctransformer.WithIncludePublishedOperations(true))

				for i := 1; i <= 7; i++ {
					i := i
					keyType := []string{"JsonWebKey2020", "EcdsaSecp256k1VerificationKey2019", "Bls12381G2Key2020", "JsonWebKey2020",
						"Ed25519VerificationKey2018", "Ed25519VerificationKey2020", "Ed25519VerificationKey2018"}[i-1]
					k := cenv.keyJSON(CEnt{i, 1})
					k["type"] = keyType

					if i >= 5 {
						// Ed25519 keys held as JWK, a different key per document (the transformer converts them to base58 / multibase)
						ek := pool.Get("ed", fmt.Sprintf("conc-tr-ed-%d", i))
						delete(k, "publicKeyBase58")
						k["publicKeyJwk"] = map[string]interface{}{"kty": ek.JWK.Kty, "crv": ek.JWK.Crv, "x": ek.JWK.X}
						k["purposes"] = []interface{}{"authentication"}
					}

					doc := document.Document{"publicKey": []interface{}{k}, "service": []interface{}{cenv.svcJSON(CEnt{i, 1})}}
					if i == 4 {
						doc = document.Document{"service": []interface{}{cenv.svcJSON(CEnt{i, 1})}}
					}

					ops := []*operation.AnchoredOperation{{Type: "update", TransactionTime: uint64(3 - i%3), TransactionNumber: uint64(i), CanonicalReference: fmt.Sprint("c", i)},
						{Type: "create", TransactionTime: 1, TransactionNumber: uint64(5 - i), CanonicalReference: "c0"}}

					did := fmt.Sprintf("did:sidetree:doc%d", i)

					jobs = append(jobs, job{fmt.Sprintf("DIDTransformer(ctx=%d,base=%v)#%d", nctx, base, i), func() interface{} {
						// distinct inputs per call: every call gets its own copy of the document
						rm := &protocol.ResolutionModel{Doc: deepCopyGeneric(map[string]interface{}(doc)).(map[string]interface{}), PublishedOperations: append([]*operation.AnchoredOperation(nil), ops...)}
						res, e := tr.TransformDocument(rm, protocol.TransformationInfo{"id": did, "published": true})

						return []interface{}{res, errStr(e)}
					}})

					if nctx == 0 {
						jobs = append(jobs, job{fmt.Sprintf("DocTransformer(base=%v)#%d", base, i), func() interface{} {
							rm := &protocol.ResolutionModel{Doc: deepCopyGeneric(map[string]interface{}(doc)).(map[string]interface{}), PublishedOperations: append([]*operation.AnchoredOperation(nil), ops...)}
							res, e := dtr.TransformDocument(rm, protocol.TransformationInfo{"id": did, "published": true})

							return []interface{}{res, errStr(e)}
						}})
					}
				}
			}
		}

		// the versions of ONE document: resolution models whose published operations share one backing array, as the
		// operation applier hands them out (every result takes over the slice of the state it was applied to) - in
		// anchoring order, as a store returns them, with operations that were anchored twice (the same canonical reference)
		{
			tr := didtransformer.New(didtransformer.WithIncludePublishedOperations(true), didtransformer.WithIncludeUnpublishedOperations(true))
			chain := make([]*operation.AnchoredOperation, 0, 16)

			for i, ref := range []string{"c0", "c1", "c1", "c2", "c3", "c3", "c4", "c5", "c5", "c6"} {
				chain = append(chain, &operation.AnchoredOperation{Type: "update", UniqueSuffix: "versions", TransactionTime: uint64(1 + i/2), TransactionNumber: uint64(i),
					CanonicalReference: ref, OperationRequest: []byte(fmt.Sprintf(`{"n":%d}`, i))})
			}

			for k := 2; k <= len(chain); k++ {
				k := k

				jobs = append(jobs, job{fmt.Sprintf("DIDTransformer(versions)#%d", k), func() interface{} {
					rm := &protocol.ResolutionModel{Doc: document.Document{"service": []interface{}{cenv.svcJSON(CEnt{1, 1})}}, PublishedOperations: chain[:k]}
					res, e := tr.TransformDocument(rm, protocol.TransformationInfo{"id": "did:sidetree:versions", "published": true})

					return []interface{}{res, errStr(e)}
				}})
			}
		}

		// ids nobody has validated yet (every call brings its own), deltas with several refused patches (the answer names
		// the first), and components made inside the call (making one must not disturb the use of another)
		{
			vp := testProtocol(1)
			vparser := operationparser.New(vp)

			for i := 1; i <= 3; i++ {
				i := i

				jobs = append(jobs, job{fmt.Sprintf("Validate(fresh ids)#%d", i), func() interface{} {
					n := atomic.AddInt64(&freshIDs, 1)
					raw := fmt.Sprintf(`{"action":"add-services","services":[{"id":"fresh-%d-%d","type":"T","serviceEndpoint":"https://fresh.example/"},{"id":"also-%d","type":"T","serviceEndpoint":"https://fresh.example/"}]}`, i, n, n)

					var p patch.Patch

					_ = json.Unmarshal([]byte(raw), &p)

					return errStr(patchvalidator.Validate(p))
				}})

				jobs = append(jobs, job{fmt.Sprintf("ValidateDelta(three refused patches)#%d", i), func() interface{} {
					raw := fmt.Sprintf(`[{"action":"add-services","services":[{"id":"bad id %d!","type":"T","serviceEndpoint":"https://x.example/"}]},`+
						`{"action":"remove-public-keys","ids":[]},{"action":"add-also-known-as","uris":["::no uri %d::"]},{"action":"add-services","services":[{"id":"ok","type":"%s","serviceEndpoint":"https://x.example/"}]}]`,
						i, i, strings.Repeat("T", 31))

					var ps []patch.Patch

					_ = json.Unmarshal([]byte(raw), &ps)

					return errStr(vparser.ValidateDelta(&model.DeltaModel{UpdateCommitment: refCommitment(map[string]interface{}{"kty": "EC", "crv": "P-256", "x": "x", "y": "y"}, sha2_256), Patches: ps}))
				}})

				jobs = append(jobs, job{fmt.Sprintf("doccomposer.New().ApplyPatches#%d", i), func() interface{} {
					var ps []patch.Patch

					_ = json.Unmarshal([]byte(fmt.Sprintf(`[{"action":"add-also-known-as","uris":["https://made-here-%d.example/"]}]`, i)), &ps)
					out, e := doccomposer.New().ApplyPatches(document.Document{"alsoKnownAs": []interface{}{"https://before.example/"}}, ps)

					return []interface{}{out, errStr(e)}
				}})
			}
		}

		// long-form DIDs: create (deterministic), read, resolve
		for d := 1; d <= 4; d++ {
			d := d

			jobs = append(jobs, job{fmt.Sprintf("VDR.Create+Read#%d", d), func() interface{} {
				doc, e := lfDocs[d].build(pool)
				if e != nil {
					return "build error"
				}

				upd := pool.Get("ed", "lf-upd-1").Pub.(ed25519.PublicKey)
				rec := pool.Get("ed", "lf-rec-1").Pub.(ed25519.PublicKey)

				res, e := vdr.Create(doc, vdrapi.WithOption(sidetreelongform.UpdatePublicKeyOpt, upd), vdrapi.WithOption(sidetreelongform.RecoveryPublicKeyOpt, rec))
				if e != nil {
					return "create error"
				}

				rd, e := vdr.Read(res.DIDDocument.ID)
				if e != nil {
					return "read error"
				}

				rr, e := handler.ResolveDocument(res.DIDDocument.ID)
				if e != nil {
					return "resolve error"
				}

				b, _ := rd.DIDDocument.JSONBytes()
				md := rr.DocumentMetadata["method"]

				return []interface{}{res.DIDDocument.ID, string(b), rr.Document, md}
			}})
		}

		// version provider: lookups by genesis time
		var versions []protocol.Version
		for i := uint64(0); i < 4; i++ {
			versions = append(versions, &common.ProtocolVersion{VersionStr: fmt.Sprint(i, ".0"), P: protocol.Protocol{GenesisTime: i * 10}})
		}

		vp, _ := verprovider.New(versions)

		for i := uint64(0); i < 5; i++ {
			i := i
			jobs = append(jobs, job{fmt.Sprintf("VersionProvider.Get#%d", i), func() interface{} {
				v, e := vp.Get(i * 10)
				c, _ := vp.Current()

				if e != nil {
					return []interface{}{"error", c.Version()}
				}

				return []interface{}{v.Version(), c.Version()}
			}})
		}

		return jobs
	}

	jobs := build()

	// ---- sequential reference
	want := make([]string, len(jobs))
	for i, j := range jobs {
		atomic.AddInt64(&progress, 1)
		want[i] = digestJSON(j.run())
	}

	// ---- concurrent rounds: every goroutine runs every job in its own order; results are digested
	// at once and once more when everybody is done (results must not change afterwards)
	type held struct {
		job int
		res interface{}
	}

	for round := 0; round < rounds; round++ {
		var wg sync.WaitGroup

		// odd rounds: instances nobody has used yet
		if round%2 == 1 {
			jobs = build()
		}

		start := make(chan struct{})
		kept := make([][]held, g)

		for w := 0; w < g; w++ {
			order := r.Perm(len(jobs))

			wg.Add(1)

			go func(w int, order []int) {
				defer wg.Done()
				<-start

				for _, ji := range order {
					var res interface{}

					// (the same call made alone - the reference pass above - returned: a panic here is the concurrency's)
					func() {
						defer func() {
							if p := recover(); p != nil {
								res = fmt.Sprintf("panic: %v", p)
							}
						}()

						res = jobs[ji].run()
					}()

					atomic.AddInt64(&col.nCases, 1)

					if d := digestJSON(res); d != want[ji] {
						col.report(mismatch{Kind: "concurrent-result", Key: "concurrent-result:" + jobs[ji].name, Case: jobs[ji].name,
							Detail: "a call on a shared instance returned something else than the same call made alone", Actual: res})
					}

					kept[w] = append(kept[w], held{ji, res})
				}
			}(w, order)
		}

		close(start)
		wg.Wait()

		for w := range kept {
			for _, h := range kept[w] {
				if d := digestJSON(h.res); d != want[h.job] {
					col.report(mismatch{Kind: "result-changed-later", Key: "result-changed-later:" + jobs[h.job].name, Case: jobs[h.job].name,
						Detail: "a result handed out earlier was modified by later calls on the shared instance", Actual: h.res})
				}
			}
		}
	}

	// ---- one handler, DIDs that share their suffix: the genuine long-form DID and forgeries that carry its suffix
	// with another initial state; resolved at the same moment by many goroutines, each must get its own answer
	{
		handler, herr := dochandler.New("did:ion")
		vdr, verr := sidetreelongform.New()

		if herr != nil || verr != nil {
			fatalf("%v %v", herr, verr)
		}

		upd := pool.Get("ed", "lf-upd-1").Pub.(ed25519.PublicKey)
		rec := pool.Get("ed", "lf-rec-1").Pub.(ed25519.PublicKey)

		var dids []string

		for d := 1; d <= 2; d++ {
			doc, _ := lfDocs[d].build(pool)

			res, e := vdr.Create(doc, vdrapi.WithOption(sidetreelongform.UpdatePublicKeyOpt, upd), vdrapi.WithOption(sidetreelongform.RecoveryPublicKeyOpt, rec))
			if e != nil {
				fatalf("create: %v", e)
			}

			dids = append(dids, res.DIDDocument.ID)
		}

		p1, p2 := strings.Split(dids[0], ":"), strings.Split(dids[1], ":")
		probes := []string{dids[0], dids[1], strings.Join([]string{"did", "ion", p1[2], p2[3]}, ":"), strings.Join([]string{"did", "ion", p2[2], p1[3]}, ":")}
		wantP := make([]string, len(probes))

		resolve := func(did string) string {
			rr, e := handler.ResolveDocument(did)
			if e != nil {
				return "error"
			}

			return digestJSON(rr)
		}

		for i, did := range probes {
			wantP[i] = resolve(did)
		}

		if wantP[0] == "error" || wantP[2] != "error" {
			fatalf("hot pairs: unexpected sequential results %v", wantP)
		}

		var wg sync.WaitGroup

		start := make(chan struct{})

		for w := 0; w < g; w++ {
			wg.Add(1)

			go func(w int) {
				defer wg.Done()
				defer concGuard(col, "ResolveDocument:same-suffix")
				<-start

				for it := 0; it < 300*rounds; it++ {
					i := (it + w) % len(probes)
					atomic.AddInt64(&col.nCases, 1)

					if got := resolve(probes[i]); got != wantP[i] {
						col.report(mismatch{Kind: "concurrent-result", Key: "concurrent-result:ResolveDocument:same-suffix", Case: probes[i],
							Detail: "DIDs sharing a suffix, resolved at the same time on one handler: a call returned something else than the same call made alone"})

						return
					}
				}
			}(w)
		}

		close(start)
		wg.Wait()
	}

	// ---- one VDR, Create calls that leave the update and / or recovery key to the VDR (it draws them itself): every
	// call succeeds as it does alone, what it returns resolves, and no two calls are given the same DID
	{
		vdr, verr := sidetreelongform.New()
		if verr != nil {
			fatalf("%v", verr)
		}

		upd := pool.Get("ed", "lf-upd-1").Pub.(ed25519.PublicKey)

		var (
			wg   sync.WaitGroup
			mu   sync.Mutex
			seen = map[string]bool{}
		)

		start := make(chan struct{})

		for w := 0; w < g; w++ {
			wg.Add(1)

			go func(w int) {
				defer wg.Done()

				bad := func(detail string) {
					col.report(mismatch{Kind: "concurrent-result", Key: "concurrent-result:VDR.Create:default-keys", Case: "VDR.Create without explicit keys",
						Detail: detail})
				}

				defer func() {
					if r := recover(); r != nil {
						bad(fmt.Sprintf("panic: %v", r))
					}
				}()

				<-start

				for it := 0; it < 30*rounds; it++ {
					atomic.AddInt64(&col.nCases, 1)

					doc, _ := lfDocs[1+(it+w)%2].build(pool)

					var opts []vdrapi.DIDMethodOption
					if (it+w)%3 == 0 {
						opts = append(opts, vdrapi.WithOption(sidetreelongform.UpdatePublicKeyOpt, upd))
					}

					res, e := vdr.Create(doc, opts...)
					if e != nil {
						bad("Create fails when made at the same time as others (alone it succeeds): " + e.Error())
						return
					}

					rd, e := vdr.Read(res.DIDDocument.ID)
					if e != nil || rd.DIDDocument.ID != res.DIDDocument.ID {
						bad("what Create returned does not resolve: " + fmt.Sprint(e))
						return
					}

					mu.Lock()
					dup := seen[res.DIDDocument.ID]
					seen[res.DIDDocument.ID] = true
					mu.Unlock()

					if dup {
						bad("two Create calls with keys drawn by the VDR were given the same DID")
						return
					}
				}
			}(w)
		}

		close(start)
		wg.Wait()
	}

	for _, j := range jobs {
		col.kind(j.name)
	}

	col.sample(map[string]interface{}{"jobs": len(jobs), "goroutines": g, "rounds": rounds, "gomaxprocs": runtime.GOMAXPROCS(0), "first_jobs": []string{jobs[0].name, jobs[20].name, jobs[len(jobs)-1].name}})
	col.sum.Extra["gomaxprocs"] = runtime.GOMAXPROCS(0)
	col.sum.Extra["goroutines"] = g
	col.sum.Extra["jobs"] = len(jobs)
	col.finish()
}

// concGuard: a panic in a call that returned when it was made alone (every stage makes its calls sequentially first)
// is the concurrency's; it is reported instead of ending the run.
func concGuard(col *collector, what string) {
	if p := recover(); p != nil {
		col.report(mismatch{Kind: "concurrent-panic", Key: "concurrent-panic:" + what, Case: what,
			Detail: fmt.Sprintf("a call that returns when made alone panicked when made at the same time as others: %v", p)})
	}
}
