package main

// Robust family (C19): corruption plans of Robust.tla and random inputs, executed in worker
// subprocesses under recover and a deadline; a panic, a fatal error of the process or a missed
// deadline is attributed to the plan that was running.

import (
	"bufio"
	"bytes"
	"crypto/ed25519"
	"encoding/json"
	"fmt"
	"io"
	"math/rand"
	"os"
	"os/exec"
	"runtime"
	"sort"
	"strings"
	"sync"
	"time"

	"github.com/trustbloc/sidetree-go/pkg/api/operation"
	"github.com/trustbloc/sidetree-go/pkg/api/protocol"
	"github.com/trustbloc/sidetree-go/pkg/canonicalizer"
	"github.com/trustbloc/sidetree-go/pkg/document"
	"github.com/trustbloc/sidetree-go/pkg/jws"
	"github.com/trustbloc/sidetree-go/pkg/jwsutil"
	"github.com/trustbloc/sidetree-go/pkg/patch"
	"github.com/trustbloc/sidetree-go/pkg/vdr/sidetreelongform/dochandler"
	"github.com/trustbloc/sidetree-go/pkg/versions/1_0/doccomposer"
	"github.com/trustbloc/sidetree-go/pkg/versions/1_0/doctransformer/didtransformer"
	"github.com/trustbloc/sidetree-go/pkg/versions/1_0/docvalidator/didvalidator"
	"github.com/trustbloc/sidetree-go/pkg/versions/1_0/docvalidator/docvalidator"
	"github.com/trustbloc/sidetree-go/pkg/versions/1_0/operationapplier"
	"github.com/trustbloc/sidetree-go/pkg/versions/1_0/operationparser"
	"github.com/trustbloc/sidetree-go/pkg/versions/1_0/operationparser/patchvalidator"
)

const robustDeadline = 20 * time.Second

type rPlan struct {
	Ep       string `json:"ep"`
	Template string `json:"template"`
	Pos      int    `json:"pos"`
	Repl     string `json:"repl"`
	Chain    []struct {
		Op   string `json:"op"`
		From string `json:"from"`
		Path string `json:"path"`
	} `json:"chain,omitempty"`
	// random mode
	Random bool   `json:"random,omitempty"`
	Raw    []byte `json:"raw,omitempty"`
	Seq    int    `json:"seq,omitempty"`
}

func (p *rPlan) id() string {
	if p.Random {
		return fmt.Sprintf("%s:random:%s", p.Ep, digestJSON(p.Raw))
	}

	if p.Template == "copy_growth" {
		return fmt.Sprintf("%s:copy_growth:%d", p.Ep, p.Pos)
	}

	if len(p.Chain) > 0 {
		s := p.Ep + ":alias_chain"
		for _, c := range p.Chain {
			s += fmt.Sprintf(":%s(%s->%s)", c.Op, c.From, c.Path)
		}

		return s
	}

	return fmt.Sprintf("%s:%s:%d:%s", p.Ep, p.Template, p.Pos, p.Repl)
}

// wid identifies a plan on the wire between parent and worker
func (p *rPlan) wid() string { return fmt.Sprintf("%d", p.Seq) }

// ---- templates as virtual JSON trees ---------------------------------------------------------

type robustEnv struct {
	conc    *Concretizer
	cenv    *composerEnv
	proto   protocol.Protocol
	parser  *operationparser.Parser
	applier *operationapplier.Applier
	handler *dochandler.DocumentHandler
	signer  *Key
	existRM *protocol.ResolutionModel

	followUps []patch.Patch
}

func newRobustEnv(seed int64) *robustEnv {
	p := testProtocol(1)
	p.Patches = append(p.Patches, "remove-also-known-as")
	p.MaxOperationSize, p.MaxDeltaSize = 2000000, 1000000

	parser := operationparser.New(p)

	h, err := dochandler.New("did:ion")
	if err != nil {
		fatalf("dochandler: %v", err)
	}

	e := &robustEnv{conc: newConcretizer(seed), cenv: newComposerEnv(seed), proto: p, parser: parser, handler: h,
		applier: operationapplier.New(p, parser, doccomposer.New())}
	e.signer = e.conc.pool.Get("p256", "sig2")
	e.existRM = &protocol.ResolutionModel{Doc: document.Document{"publicKey": []interface{}{e.cenv.keyJSON(CEnt{1, 1})}},
		UpdateCommitment: e.conc.commitment(1, 256), RecoveryCommitment: e.conc.commitment(2, 256)}

	return e
}

func (e *robustEnv) template(name string) interface{} {
	base := ROp{Wf: "ok", Reveal: "ok", Sig: "ok", Dhash: true, Dv: "ok", Sfx: true, Delta: Delta{"addkey", 1}, T: 1, N: 1, Nu: 1, Nr: 2, Ao: 1, Kt: "p256", H: 256, Nuv: "norm"}

	// (the signing keys of the templates carry a nonce: one more node to corrupt)
	base.KeyNonce = true

	switch name {
	case "create", "update", "recover", "deactivate", "update_disabled", "create_disabled", "recover_object_origin", "create_object_origin":
		if strings.HasSuffix(name, "_object_origin") {
			base.Ao = 102
			name = strings.TrimSuffix(name, "_object_origin")
		}

		base.Type = strings.TrimSuffix(name, "_disabled")
		if strings.HasSuffix(name, "_disabled") {
			// a patch action that the test protocol knows but does not enable; the delta of the create template
			// uses ietf-json-patch as well, which the long-form protocol does not enable
			base.Dv = "disabled"
			if base.Type == "create" {
				base.Dv = "ok"
				base.Delta = Delta{"addmem", 1}
			}
		}

		req, _ := e.conc.buildRequest(&base, 0)
		tree := generic(json.RawMessage(req)).(map[string]interface{})

		if sd, ok := tree["signedData"].(string); ok {
			parts := strings.Split(sd, ".")
			hdr, _ := b64dec(parts[0])
			payload, _ := b64dec(parts[1])
			tree["signedData"] = map[string]interface{}{"$jws": true, "protected": generic(json.RawMessage(hdr)), "payload": generic(json.RawMessage(payload))}
		}

		return tree
	case "longform", "longform_disabled":
		base.Type = "create"

		if name == "longform_disabled" {
			base.Delta = Delta{"addmem", 1} // an ietf-json-patch: not enabled by the long-form protocol
		}

		req, _ := e.conc.buildRequest(&base, 0)
		tree := generic(json.RawMessage(req)).(map[string]interface{})
		delete(tree, "type")

		return map[string]interface{}{"$did": true, "ns": "did:ion", "suffix": refModelHash(tree["suffixData"], sha2_256), "state": tree}
	case "jws":
		return map[string]interface{}{"$jws": true, "protected": map[string]interface{}{"alg": "ES256", "kid": "k"},
			"payload": map[string]interface{}{"deltaHash": "EiA", "updateKey": jwkMap(e.signer.JWK)}}
	case "jwk":
		return jwkMap(e.signer.JWK)
	case "escapes":
		return map[string]interface{}{"a\x01\x1f": "\x02<>&\x1e\u2028", "\x7f": []interface{}{"\x00", "\x0b\x0c", map[string]interface{}{"<&>": "\x03"}}, "plain": "\u00e9\U0001f600"}
	case "jwk_ed":
		ed := e.conc.pool.Get("ed", "robust-ed")

		return map[string]interface{}{"kty": "OKP", "crv": "Ed25519", "x": ed.JWK.X}
	case "jwk_k1":
		k1 := e.conc.pool.Get("k1", "robust-k1")

		return map[string]interface{}{"kty": "EC", "crv": "secp256k1", "x": k1.JWK.X, "y": k1.JWK.Y}
	case "document":
		return map[string]interface{}{
			"publicKey":   []interface{}{e.cenv.keyJSON(CEnt{1, 1}), e.cenv.keyJSON(CEnt{2, 2})},
			"service":     []interface{}{e.cenv.svcJSON(CEnt{1, 2})},
			"alsoKnownAs": []interface{}{uriOf(1), uriOf(2)},
			"other":       map[string]interface{}{"a": 1, "arr": []interface{}{1, 2, 3}},
		}
	case "patch_keys":
		return e.cenv.patchJSON(&CPatch{A: "add-public-keys", Ents: []CEnt{{1, 1}, {2, 2}}})
	case "patch_keys_ed":
		ed := e.conc.pool.Get("ed", "robust-ed")
		okp := func() map[string]interface{} {
			return map[string]interface{}{"kty": "OKP", "crv": "Ed25519", "x": ed.JWK.X}
		}

		return map[string]interface{}{"action": "add-public-keys", "publicKeys": []interface{}{
			map[string]interface{}{"id": "e1", "type": "Ed25519VerificationKey2018", "purposes": []interface{}{"authentication"}, "publicKeyJwk": okp()},
			map[string]interface{}{"id": "e2", "type": "Ed25519VerificationKey2020", "purposes": []interface{}{"assertionMethod"}, "publicKeyJwk": okp()},
			map[string]interface{}{"id": "e3", "type": "Ed25519VerificationKey2018", "publicKeyBase58": refBase58([]byte(ed.Pub.(ed25519.PublicKey)))}}}
	case "patch_keys_multibase":
		ed := e.conc.pool.Get("ed", "robust-ed")

		return map[string]interface{}{"action": "add-public-keys", "publicKeys": []interface{}{
			map[string]interface{}{"id": "m1", "type": "Ed25519VerificationKey2020", "purposes": []interface{}{"authentication"},
				"publicKeyMultibase": "z" + refBase58([]byte(ed.Pub.(ed25519.PublicKey)))}}}
	case "patch_services":
		return e.cenv.patchJSON(&CPatch{A: "add-services", Ents: []CEnt{{1, 2}}})
	case "patch_services_objects":
		// service endpoints that are objects / lists of objects (DIDComm v2 style)
		return map[string]interface{}{"action": "add-services", "services": []interface{}{
			map[string]interface{}{"id": "s1", "type": "T", "serviceEndpoint": map[string]interface{}{"uri": "https://a.example/x"}},
			map[string]interface{}{"id": "s2", "type": "T", "serviceEndpoint": []interface{}{map[string]interface{}{"uri": "https://b.example/y"}}}}}
	case "patch_aka":
		return e.cenv.patchJSON(&CPatch{A: "add-also-known-as", IDs: []int{1, 2}})
	case "patch_replace":
		return e.cenv.patchJSON(&CPatch{A: "replace", Ents: []CEnt{{1, 1}}, Ents2: []CEnt{{1, 1}}})
	case "patch_remove_keys":
		// more ids than any document holds, stale ones among them
		return e.cenv.patchJSON(&CPatch{A: "remove-public-keys", IDs: []int{1, 0, 7, 8}})
	case "patch_remove_services":
		return e.cenv.patchJSON(&CPatch{A: "remove-services", IDs: []int{0, 1, 7}})
	case "patch_remove_aka":
		return e.cenv.patchJSON(&CPatch{A: "remove-also-known-as", IDs: []int{1, 0, 3, 4}})
	case "patch_jsonpatch":
		return jsonPatch(map[string]interface{}{"op": "add", "path": "/other/b", "value": map[string]interface{}{"x": 1}},
			map[string]interface{}{"op": "copy", "from": "/other", "path": "/copy"},
			map[string]interface{}{"op": "test", "path": "/other/a", "value": 1})
	case "patch_jsonpatch_protected":
		return jsonPatch(map[string]interface{}{"op": "replace", "path": "/service/0/serviceEndpoint", "value": "https://replaced.example/"},
			map[string]interface{}{"op": "replace", "path": "/publicKey/0/purposes", "value": []interface{}{"keyAgreement"}},
			map[string]interface{}{"op": "replace", "path": "/other/a", "value": map[string]interface{}{"x": 1}})
	case "patch_jsonpatch_array":
		return jsonPatch(map[string]interface{}{"op": "replace", "path": "/other/arr/0", "value": 5},
			map[string]interface{}{"op": "move", "from": "/other/arr/1", "path": "/other/arr/0"},
			map[string]interface{}{"op": "remove", "path": "/alsoKnownAs/0"})
	}

	panic("harness: template " + name)
}

type nodeRef struct {
	parent interface{} // map[string]interface{} or *[]interface{} holder
	key    string
	idx    int
	holder *interface{} // where the parent slice lives (to shrink / grow it)
}

// nodes lists every node of the tree in a stable order (the root first).
func nodes(root *interface{}) []nodeRef {
	var out []nodeRef

	var walk func(v *interface{})

	walk = func(v *interface{}) {
		switch t := (*v).(type) {
		case map[string]interface{}:
			keys := make([]string, 0, len(t))
			for k := range t {
				if !strings.HasPrefix(k, "$") {
					keys = append(keys, k)
				}
			}

			sort.Strings(keys)

			for _, k := range keys {
				out = append(out, nodeRef{parent: t, key: k})
				child := t[k]
				walk(&child)
				t[k] = child
			}
		case []interface{}:
			for i := range t {
				out = append(out, nodeRef{parent: t, idx: i, holder: v})
				walk(&t[i])
			}
		}
	}

	out = append(out, nodeRef{})
	walk(root)

	return out
}

func replacement(repl string, old interface{}) (interface{}, bool) {
	switch repl {
	case "null":
		return nil, true
	case "true":
		return true, true
	case "zero":
		return 0, true
	case "minus_one":
		return -1, true
	case "huge_number":
		return json.Number("1e400"), true
	case "empty_string":
		return "", true
	case "long_string":
		return strings.Repeat("a", 60000), true
	case "empty_array":
		return []interface{}{}, true
	case "empty_object":
		return map[string]interface{}{}, true
	case "deep_nesting":
		return json.RawMessage(strings.Repeat("[", 5000) + strings.Repeat("]", 5000)), true
	case "one_char":
		return "u", true
	case "three_chars":
		return "fed", true
	case "deep_list_bad_leaf":
		return json.RawMessage(strings.Repeat("[", 48) + `""` + strings.Repeat("]", 48)), true
	case "deep_object_bad_leaf":
		return json.RawMessage(strings.Repeat(`{"uri":`, 48) + `null` + strings.Repeat("}", 48)), true
	case "other_type":
		if s, ok := old.(string); ok && (s == "create" || s == "update" || s == "recover" || s == "deactivate") {
			return map[string]string{"create": "deactivate", "update": "create", "recover": "update", "deactivate": "recover"}[s], true
		}

		return "bogus-type", true
	case "string_of_number":
		return "123", true
	case "array_of_self":
		return []interface{}{old, old}, true
	case "negative_index":
		return "/other/arr/-1", true
	case "huge_index":
		return "/other/arr/99999999999999999999", true
	case "varint_overflow":
		// where a multihash is expected: bytes whose leading varint never ends within 64 bits
		return b64(append(bytes.Repeat([]byte{0xff}, 11), 0x01, 0x20, 0x00)), true
	case "large_index":
		// fits an int: a library that sizes an array by a destination index allocates 800 GB
		return "/other/arr/99999999999", true
	case "stray_tilde":
		return "/other/a~b/arr~/0~2/~", true
	case "same_shape_other_value":
		switch v := old.(type) {
		case string:
			if v == "" {
				return "A", true
			}

			// one character in the middle exchanged for its neighbour in the alphabet
			b := []byte(v)
			i := len(b) / 2

			switch {
			case b[i] >= 'a' && b[i] < 'z', b[i] >= 'A' && b[i] < 'Z', b[i] >= '0' && b[i] < '9':
				b[i]++
			case b[i] == 'z', b[i] == 'Z', b[i] == '9':
				b[i]--
			default:
				b[i] = 'A'
			}

			return string(b), true
		case float64:
			return v + 1, true
		case int:
			return v + 1, true
		case bool:
			return !v, true
		}

		return old, true
	case "pointer_into_own_source":
		return "/other/arr/0/../../other", true
	case "non_string_key_value":
		return map[string]interface{}{"1": 2, "": nil}, true
	case "unicode_garbage":
		return "\xed\xa0\x80\x00\xff‮", true
	}

	return nil, false
}

// corrupt applies (pos, repl) to a copy of the template tree.
func corrupt(tree interface{}, pos int, repl string) interface{} {
	root := deepCopyGeneric(tree)
	refs := nodes(&root)
	ref := refs[pos%len(refs)]

	var old interface{}

	switch p := ref.parent.(type) {
	case nil:
		old = root
	case map[string]interface{}:
		old = p[ref.key]
	case []interface{}:
		old = p[ref.idx]
	}

	switch repl {
	case "removed":
		switch p := ref.parent.(type) {
		case nil:
			return nil
		case map[string]interface{}:
			delete(p, ref.key)
		case []interface{}:
			*ref.holder = append(append([]interface{}{}, p[:ref.idx]...), p[ref.idx+1:]...)
			fixHolder(&root, p, *ref.holder)
		}

		return root
	case "duplicated":
		switch p := ref.parent.(type) {
		case nil:
			return []interface{}{root, root}
		case map[string]interface{}:
			p[ref.key+" "] = deepCopyGeneric(old)
			p[strings.ToUpper(ref.key)] = deepCopyGeneric(old)
		case []interface{}:
			*ref.holder = append(append([]interface{}{}, p...), deepCopyGeneric(old))
			fixHolder(&root, p, *ref.holder)
		}

		return root
	}

	nv, ok := replacement(repl, old)
	if !ok {
		fatalf("replacement %s", repl)
	}

	switch p := ref.parent.(type) {
	case nil:
		return nv
	case map[string]interface{}:
		p[ref.key] = nv
	case []interface{}:
		p[ref.idx] = nv
	}

	return root
}

// fixHolder re-links a resized slice into its parent (slices are values inside maps / slices).
func fixHolder(root *interface{}, old []interface{}, nw interface{}) {
	var walk func(v *interface{}) bool

	same := func(a, b []interface{}) bool {
		return len(a) == len(b) && (len(a) == 0 || &a[0] == &b[0])
	}

	walk = func(v *interface{}) bool {
		switch t := (*v).(type) {
		case []interface{}:
			if same(t, old) {
				*v = nw
				return true
			}

			for i := range t {
				if walk(&t[i]) {
					return true
				}
			}
		case map[string]interface{}:
			for k, c := range t {
				child := c
				if walk(&child) {
					t[k] = child
					return true
				}
			}
		}

		return false
	}

	walk(root)
}

func deepCopyGeneric(v interface{}) interface{} {
	switch t := v.(type) {
	case map[string]interface{}:
		m := make(map[string]interface{}, len(t))
		for k, c := range t {
			m[k] = deepCopyGeneric(c)
		}

		return m
	case []interface{}:
		l := make([]interface{}, len(t))
		for i, c := range t {
			l[i] = deepCopyGeneric(c)
		}

		return l
	}

	return v
}

// realize turns the virtual nodes ($jws, $did) into the strings they stand for.
func (e *robustEnv) realize(v interface{}) interface{} {
	switch t := v.(type) {
	case map[string]interface{}:
		if _, ok := t["$jws"]; ok {
			hdr, _ := json.Marshal(e.realize(t["protected"]))
			payload, _ := json.Marshal(e.realize(t["payload"]))
			input := b64(hdr) + "." + b64(payload)

			return input + "." + b64(e.signer.Sign([]byte(input)))
		}

		if _, ok := t["$did"]; ok {
			state, _ := json.Marshal(e.realize(t["state"]))
			if canon, err := refJCSFromJSON(state); err == nil {
				state = canon
			}

			return fmt.Sprintf("%v:%v:%s", e.realize(t["ns"]), e.realize(t["suffix"]), b64(state))
		}

		m := make(map[string]interface{}, len(t))
		for k, c := range t {
			m[k] = e.realize(c)
		}

		return m
	case []interface{}:
		l := make([]interface{}, len(t))
		for i, c := range t {
			l[i] = e.realize(c)
		}

		return l
	}

	return v
}

// ---- calling the entry points ----------------------------------------------------------------

func asBytes(v interface{}) []byte {
	if s, ok := v.(string); ok {
		return []byte(s)
	}

	b, err := json.Marshal(v)
	if err != nil {
		return []byte("null")
	}

	return b
}

func asString(v interface{}) string {
	if s, ok := v.(string); ok {
		return s
	}

	return string(asBytes(v))
}

// call runs the entry point on the concrete input; "ok" / "err" are the only legitimate outcomes.
func (e *robustEnv) call(ep, template string, input interface{}) (outcome string) {
	defer func() {
		if r := recover(); r != nil {
			outcome = "panic: " + fmt.Sprint(r)
		}
	}()

	res := func(err error) string {
		if err != nil {
			return "err"
		}

		return "ok"
	}

	raw := asBytes(input)

	opType := operation.Type(strings.TrimSuffix(strings.TrimSuffix(template, "_disabled"), "_object_origin"))
	if m, ok := input.(map[string]interface{}); ok {
		if t, ok := m["type"].(string); ok {
			opType = operation.Type(t)
		}
	}

	switch ep {
	case "Parse":
		_, err := e.parser.Parse("did:sidetree", raw)
		return res(err)
	case "GetRevealValue":
		_, err := e.parser.GetRevealValue(raw)
		return res(err)
	case "GetCommitment":
		_, err := e.parser.GetCommitment(raw)
		return res(err)
	case "ParseDID":
		_, _, err := e.parser.ParseDID("did:ion", asString(input))
		return res(err)
	case "ResolveDocument":
		_, err := e.handler.ResolveDocument(asString(input))
		return res(err)
	case "ProcessOperation":
		_, err := e.handler.ProcessOperation(raw)
		return res(err)
	case "ParseJWS":
		_, err := jwsutil.ParseJWS(asString(input))
		return res(err)
	case "VerifyJWS":
		if template == "jwk" {
			var k jws.JWK
			if json.Unmarshal(raw, &k) != nil {
				return "err"
			}

			good := compactJWS(map[string]interface{}{"alg": "ES256"}, []byte(`{"a":1}`), e.signer)
			_, err := jwsutil.VerifyJWS(good, &k)

			return res(err)
		}

		_, err := jwsutil.VerifyJWS(asString(input), e.signer.JWK)

		return res(err)
	case "ParseJWK":
		var k jwsutil.JWK

		return res(k.UnmarshalJSON(raw))
	case "MarshalCanonical":
		_, err := canonicalizer.MarshalCanonical(raw)

		// every prefix of the text, each in a buffer of exactly its size (a text may end anywhere, also inside an escape)
		if template == "escapes" && len(raw) < 800 {
			for n := 1; n < len(raw); n++ {
				exact := make([]byte, n)
				copy(exact, raw[:n])

				_, _ = canonicalizer.MarshalCanonical(exact)
			}
		}

		return res(err)
	case "PatchFromBytes":
		_, err := patch.FromBytes(raw)
		return res(err)
	case "Validate":
		var p patch.Patch
		if json.Unmarshal(raw, &p) != nil || p == nil {
			return "err"
		}

		return res(patchvalidator.Validate(p))
	case "ApplyPatches":
		doc := document.Document(deepCopyGeneric(e.template("document")).(map[string]interface{}))

		if template == "document" {
			d, ok := input.(map[string]interface{})
			if !ok {
				return "err"
			}

			var all []patch.Patch

			for _, t := range []string{"patch_keys", "patch_services", "patch_aka", "patch_jsonpatch", "patch_jsonpatch_array", "patch_replace",
				"patch_remove_keys", "patch_remove_services", "patch_remove_aka"} {
				var p patch.Patch

				_ = json.Unmarshal(asBytes(e.template(t)), &p)
				all = append(all, p)
			}

			worst := "ok"

			for _, p := range all {
				if _, err := doccomposer.New().ApplyPatches(document.Document(deepCopyGeneric(d).(map[string]interface{})), []patch.Patch{p}); err != nil {
					worst = "err"
				}
			}

			return worst
		}

		var p patch.Patch
		if json.Unmarshal(raw, &p) != nil || p == nil {
			return "err"
		}

		if template == "copy_growth" {
			_, err := doccomposer.New().ApplyPatches(document.Document{}, []patch.Patch{p})

			return res(err)
		}

		if template == "alias_chain" {
			d := document.Document{"other": map[string]interface{}{"a": 1, "x": map[string]interface{}{"z": 1}, "arr": []interface{}{map[string]interface{}{"k": 1}, 2}}}
			_, err := doccomposer.New().ApplyPatches(d, []patch.Patch{p})

			return res(err)
		}

		worst := "ok"

		// the ordinary patches that follow a hostile one: what it leaves behind is the document they work on
		if e.followUps == nil {
			for _, t := range []string{"patch_keys", "patch_services", "patch_aka", "patch_jsonpatch", "patch_replace", "patch_remove_keys", "patch_remove_services"} {
				var fp patch.Patch

				_ = json.Unmarshal(asBytes(e.template(t)), &fp)
				e.followUps = append(e.followUps, fp)
			}
		}

		// (the third document: lists with entries that are no objects in front of, between and behind well-formed ones)
		junk := document.Document{"publicKey": []interface{}{7.0, e.cenv.keyJSON(CEnt{1, 1}), nil, "x", e.cenv.keyJSON(CEnt{2, 1})},
			"service": []interface{}{nil, e.cenv.svcJSON(CEnt{1, 1}), 5.0}, "alsoKnownAs": []interface{}{1.0, "https://aka1.example/"}}

		for _, d := range []document.Document{doc, {}, {"publicKey": []interface{}{e.cenv.keyJSON(CEnt{1, 1})}}, junk,
			{"id": "did:example:123", "other": map[string]interface{}{"a": 1.0, "arr": []interface{}{1.0, 2.0}}}} {
			beforeDoc, beforePatch := digestJSON(d), digestJSON(p)

			out, err := doccomposer.New().ApplyPatches(d, []patch.Patch{p})
			if err != nil {
				worst = "err"
			}

			if err == nil && out != nil {
				for _, fp := range e.followUps {
					_, _ = doccomposer.New().ApplyPatches(out, []patch.Patch{fp})
				}
			}

			// the patch as the LAST of a list that adds keys and services first (one call): what it does to the document
			// does not reach the values of the patches before it
			if mutationMode() && len(e.followUps) >= 2 {
				list := []patch.Patch{e.followUps[0], e.followUps[1], p}
				before := digestJSON(list)

				_, _ = doccomposer.New().ApplyPatches(d, list)

				if digestJSON(list) != before {
					return "mutated: ApplyPatches changed the value of a patch of the list it was given"
				}
			}

			// a call answers with a document or with an error
			if err == nil && out == nil {
				return "mutated: ApplyPatches returned neither a document nor an error"
			}

			// C12 (mutation mode): a failing patch list yields an error and no (partial) document
			if mutationMode() && err != nil && out != nil {
				return "mutated: ApplyPatches returned an error together with a document"
			}

			// C12 (mutation mode): whatever the outcome, the caller's document and patch are as they were
			if mutationMode() {
				if digestJSON(d) != beforeDoc {
					return "mutated: ApplyPatches changed the document it was given"
				}

				if digestJSON(p) != beforePatch {
					return "mutated: ApplyPatches changed the patch it was given"
				}
			}
		}

		return worst
	case "Apply":
		rm := e.existRM
		if opType == operation.TypeCreate {
			rm = &protocol.ResolutionModel{}
		}

		op := &operation.AnchoredOperation{Type: opType, UniqueSuffix: testSuffix, OperationRequest: raw, TransactionTime: 1}
		beforeOp, beforeRM := digestJSON(op), digestJSON(rm)

		_, err := e.applier.Apply(op, rm)

		// the same request anchored under each of the other operation types (what a ledger says an operation is and what the
		// request says need not agree), against the empty and against an existing state
		for _, ty := range []operation.Type{operation.TypeCreate, operation.TypeUpdate, operation.TypeRecover, operation.TypeDeactivate, "bogus", ""} {
			if ty == opType {
				continue
			}

			for _, st := range []*protocol.ResolutionModel{{}, e.existRM} {
				alt := *st
				_, _ = e.applier.Apply(&operation.AnchoredOperation{Type: ty, UniqueSuffix: testSuffix, OperationRequest: raw, TransactionTime: 1}, &alt)
			}
		}

		// the same operation against states whose anchor origin is a string, an object, a list (what a state holds is
		// compared with what a request brings: every pairing of kinds has to be survived)
		if opType != operation.TypeCreate {
			for _, ao := range []interface{}{"origin-1", map[string]interface{}{"o": 1.0, "l": []interface{}{1.0}}, []interface{}{"a", map[string]interface{}{"b": 1.0}}, 7.0, true} {
				alt := *rm
				alt.AnchorOrigin = ao
				_, _ = e.applier.Apply(op, &alt)
			}
		}

		if mutationMode() {
			if digestJSON(op) != beforeOp {
				return "mutated: Apply changed the anchored operation it was given"
			}

			if digestJSON(rm) != beforeRM {
				return "mutated: Apply changed the previous resolution model"
			}
		}

		return res(err)
	case "TransformDocument":
		var doc document.Document

		if template == "document" {
			d, ok := input.(map[string]interface{})
			if !ok {
				return "err"
			}

			doc = d
		} else {
			// a document assembled from the (corrupted, unvalidated) patch
			var p patch.Patch
			if json.Unmarshal(raw, &p) != nil || p == nil {
				return "err"
			}

			d, err := doccomposer.New().ApplyPatches(document.Document{}, []patch.Patch{p})
			if err != nil {
				return "err"
			}

			doc = d
		}

		_, err := didtransformer.New(didtransformer.WithBase(true)).TransformDocument(&protocol.ResolutionModel{Doc: doc},
			protocol.TransformationInfo{"id": tDID, "published": true})

		return res(err)
	case "OriginalDocument":
		e1 := docvalidator.New().IsValidOriginalDocument(raw)
		e2 := didvalidator.New().IsValidOriginalDocument(raw)
		e3 := docvalidator.New().IsValidPayload(raw)

		if e1 != nil || e2 != nil || e3 != nil {
			return "err"
		}

		return "ok"
	}

	return "panic: harness: unknown entry point " + ep
}

func (e *robustEnv) concreteInput(p *rPlan) interface{} {
	if p.Random {
		switch p.Ep {
		case "ParseDID", "ResolveDocument":
			if len(p.Raw)%2 == 0 {
				return string(p.Raw) // an identifier of some other kind
			}

			return "did:ion:" + string(p.Raw)
		case "ParseJWS", "VerifyJWS":
			return string(p.Raw)
		case "ApplyPatches", "TransformDocument", "Validate":
			var g interface{}
			if json.Unmarshal(p.Raw, &g) != nil {
				return string(p.Raw)
			}

			return g
		}

		return string(p.Raw)
	}

	if p.Template == "copy_growth" {
		ops := []map[string]interface{}{{"op": "add", "path": "/a", "value": map[string]interface{}{"x": 1}}, {"op": "add", "path": "/b", "value": map[string]interface{}{"y": 1}}}
		for i := 0; i < p.Pos; i++ {
			if i%2 == 0 {
				ops = append(ops, map[string]interface{}{"op": "copy", "from": "/a", "path": fmt.Sprintf("/b/k%d", i)})
			} else {
				ops = append(ops, map[string]interface{}{"op": "copy", "from": "/b", "path": fmt.Sprintf("/a/k%d", i)})
			}
		}

		return jsonPatch(ops...)
	}

	if p.Template == "alias_chain" {
		ops := []map[string]interface{}{{"op": "add", "path": "/c", "value": map[string]interface{}{"b": map[string]interface{}{"y": 1}}}}
		for _, c := range p.Chain {
			ops = append(ops, map[string]interface{}{"op": c.Op, "from": c.From, "path": c.Path})
		}

		return jsonPatch(ops...)
	}

	return e.realize(corrupt(e.template(p.Template), p.Pos, p.Repl))
}

// ---- worker subprocess -----------------------------------------------------------------------

func robustWorker(args []string) {
	fl := parseFlags(args)
	env := newRobustEnv(int64(fl.int("seed", 1)))
	out := bufio.NewWriter(os.Stdout)
	sc := bufio.NewScanner(os.Stdin)
	sc.Buffer(make([]byte, 1<<20), 1<<26)

	for sc.Scan() {
		var p rPlan
		if err := json.Unmarshal(sc.Bytes(), &p); err != nil {
			fatalf("worker: bad plan: %v", err)
		}

		fmt.Fprintf(out, "S %s\n", p.wid())
		out.Flush()

		input := env.concreteInput(&p)
		template := p.Template

		if p.Random {
			template = "random"
		}

		done := make(chan string, 1)

		// every call is made twice: what an input leaves behind in the library (a cache entry, a pooled buffer) meets
		// the same input again
		go func() {
			oc := env.call(p.Ep, template, input)

			if again := env.call(p.Ep, template, env.concreteInput(&p)); strings.HasPrefix(again, "panic") && !strings.HasPrefix(oc, "panic") {
				oc = "panic on the second call with the same input: " + strings.TrimPrefix(again, "panic: ")
			}

			done <- oc
		}()

		select {
		case oc := <-done:
			fmt.Fprintf(out, "D %s\t%s\n", p.wid(), strings.ReplaceAll(oc, "\n", " "))
			out.Flush()
		case <-time.After(robustDeadline):
			fmt.Fprintf(out, "D %s\ttimeout: no answer within %s\n", p.wid(), robustDeadline)
			out.Flush()
			os.Exit(3) // the call cannot be stopped: the parent starts a fresh worker
		}
	}
}

type robustResult struct {
	plan    rPlan
	outcome string
}

// runPlans executes the plans in worker subprocesses and returns every outcome.
func runPlans(plans []rPlan, seed int64) []robustResult {
	self, err := os.Executable()
	if err != nil {
		fatalf("%v", err)
	}

	nw := runtime.NumCPU()
	chunks := make([][]rPlan, nw)

	for i, p := range plans {
		p.Seq = i + 1
		chunks[i%nw] = append(chunks[i%nw], p)
	}

	var (
		mu  sync.Mutex
		all []robustResult
		wg  sync.WaitGroup
	)

	for _, chunk := range chunks {
		wg.Add(1)

		go func(rest []rPlan) {
			defer wg.Done()

			for len(rest) > 0 {
				cmd := exec.Command(self, "robust-worker", "-seed", fmt.Sprint(seed))

				var stderr bytes.Buffer

				cmd.Stderr = &limitedWriter{w: &stderr, n: 4000}
				stdin, _ := cmd.StdinPipe()
				stdout, _ := cmd.StdoutPipe()

				if err := cmd.Start(); err != nil {
					fatalf("worker: %v", err)
				}

				go func(batch []rPlan) {
					w := bufio.NewWriter(stdin)
					for i := range batch {
						b, _ := json.Marshal(&batch[i])
						w.Write(b)
						w.WriteByte('\n')
					}

					w.Flush()
					stdin.Close()
				}(rest)

				byID := map[string]int{}
				for i := range rest {
					byID[rest[i].wid()] = i
				}

				started, doneN := "", 0
				sc := bufio.NewScanner(stdout)
				sc.Buffer(make([]byte, 1<<20), 1<<24)

				var local []robustResult

				for sc.Scan() {
					line := sc.Text()

					switch {
					case strings.HasPrefix(line, "S "):
						started = line[2:]
					case strings.HasPrefix(line, "D "):
						id, oc, _ := strings.Cut(line[2:], "\t")
						local = append(local, robustResult{plan: rest[byID[id]], outcome: oc})
						doneN = byID[id] + 1
						started = ""
					}
				}

				werr := cmd.Wait()

				if started != "" {
					// the worker died while this plan was running
					first := strings.SplitN(strings.TrimSpace(stderr.String()), "\n", 2)[0]
					local = append(local, robustResult{plan: rest[byID[started]], outcome: "crash: " + first})
					doneN = byID[started] + 1
				} else if werr != nil && doneN == 0 {
					fatalf("worker failed before running anything: %v: %s", werr, stderr.String())
				}

				mu.Lock()
				all = append(all, local...)
				mu.Unlock()

				rest = rest[doneN:]
			}
		}(chunk)
	}

	wg.Wait()

	return all
}

type limitedWriter struct {
	w io.Writer
	n int
}

func (l *limitedWriter) Write(p []byte) (int, error) {
	if l.n > 0 {
		k := len(p)
		if k > l.n {
			k = l.n
		}

		l.w.Write(p[:k])
		l.n -= k
	}

	return len(p), nil
}

func robustReplay(args []string) {
	fl := parseFlags(args)
	seed := int64(fl.int("seed", envInt("VERIF_SEED", 1)))
	col := newCollector("robust", fl.str("only", ""))
	seen := map[string]bool{}

	var plans []rPlan

	first := true

	readTagged(os.Stdin, "PLAN", fl.str("tlclog", ""), func(line []byte) {
		if seen[string(line)] {
			return
		}

		seen[string(line)] = true

		var p rPlan
		if err := json.Unmarshal(line, &p); err != nil {
			fatalf("bad plan: %v: %.200s", err, line)
		}

		if first {
			first = false

			if f := fl.str("first-edge", ""); f != "" {
				_ = os.WriteFile(f, append(line, '\n'), 0o644)
			}
		}

		if eps := fl.str("eps", ""); eps != "" && !strings.Contains(","+eps+",", ","+p.Ep+",") {
			return
		}

		plans = append(plans, p)
	})

	results := runPlans(plans, seed)
	env := newRobustEnv(seed)
	outcomes := map[string]int{}

	for _, r := range results {
		col.nCases++
		col.kind(r.plan.Ep + ":" + r.plan.Template + ":" + r.plan.Repl)

		if len(col.sum.Samples) < 3 {
			col.sample(map[string]interface{}{"plan": r.plan, "input": truncate(asString(env.concreteInput(&r.plan)), 300), "outcome": r.outcome})
		}

		if r.outcome == "ok" || r.outcome == "err" {
			outcomes[r.outcome]++
			continue
		}

		kind := strings.SplitN(r.outcome, ":", 2)[0]

		// in mutation mode (C12) only modified inputs count: panics and crashes are C19's business
		if mutationMode() != (kind == "mutated") {
			outcomes["other:"+kind]++
			continue
		}
		outcomes[kind]++
		b, _ := json.Marshal(&r.plan)
		col.report(mismatch{Kind: kind, Key: kind + ":" + r.plan.id(), Case: r.plan, Detail: r.outcome, Expected: "ok or err",
			Concrete: truncate(asString(env.concreteInput(&r.plan)), 2000),
			Replay:   map[string]interface{}{"cmd": append([]string{"robust-replay"}, args...), "stdin": string(b)}})
	}

	if int(col.nCases) != len(plans) {
		fatalf("%d plans, %d outcomes", len(plans), col.nCases)
	}

	col.sum.Extra["outcomes"] = outcomes
	col.finish()
}

// mutationMode: the calls also compare their inputs before and after (C12 over the hostile input space).
func mutationMode() bool { return os.Getenv("VERIF_ROBUST_MUTATION") == "1" }

func truncate(s string, n int) string {
	if len(s) > n {
		return s[:n] + fmt.Sprintf("... (%d bytes)", len(s))
	}

	return s
}

// robustTrace: seeded random byte strings and bit-flipped valid inputs for every entry point.
func robustTrace(args []string) {
	fl := parseFlags(args)
	seed := int64(fl.int("seed", envInt("VERIF_SEED", 1)))
	n := fl.int("n", 200)
	r := rand.New(rand.NewSource(seed))
	env := newRobustEnv(seed)

	eps := map[string][]string{
		"Parse": {"create", "update", "recover", "deactivate"}, "GetRevealValue": {"update"}, "GetCommitment": {"recover"},
		"ParseDID": {"longform"}, "ResolveDocument": {"longform"}, "ProcessOperation": {"create"}, "ParseJWS": {"jws"}, "VerifyJWS": {"jws"},
		"MarshalCanonical": {"document"}, "PatchFromBytes": {"patch_keys", "patch_jsonpatch"}, "Validate": {"patch_keys", "patch_jsonpatch"},
		"ApplyPatches": {"patch_jsonpatch", "patch_jsonpatch_array"}, "Apply": {"update", "recover"}, "OriginalDocument": {"document"},
	}

	names := make([]string, 0, len(eps))
	for k := range eps {
		names = append(names, k)
	}

	sort.Strings(names)

	var plans []rPlan

	for _, ep := range names {
		for i := 0; i < n; i++ {
			t := eps[ep][r.Intn(len(eps[ep]))]
			valid := asBytes(env.realize(env.template(t)))

			if ep == "ParseDID" || ep == "ResolveDocument" {
				valid = []byte(strings.TrimPrefix(string(valid), "did:ion:"))
			}

			var raw []byte

			if (ep == "ParseDID" || ep == "ResolveDocument") && r.Intn(3) == 0 {
				ids := []string{"a:b", ":", "::", "did:key:z6Mk", "urn:uuid:1234", "did:ion", "did:ion:", "did", "", "did:sidetree", "x:", ":x", "did:ionx:a:b"}
				raw = []byte(ids[r.Intn(len(ids))])
				if len(raw)%2 == 1 {
					raw = append(raw, ':')[:len(raw)] // keep; parity only selects the prefixing
				}

				plans = append(plans, rPlan{Ep: ep, Random: true, Raw: raw})

				continue
			}

			switch r.Intn(4) {
			case 0: // random bytes
				raw = make([]byte, r.Intn(200))
				r.Read(raw)
			case 1: // random printable JSON-ish soup
				soup := `{}[]",:\0123456789truefalsnu.-+eE /`
				raw = make([]byte, r.Intn(120))

				for j := range raw {
					raw[j] = soup[r.Intn(len(soup))]
				}
			default: // a valid input with a few flipped bits / a truncation
				raw = append([]byte(nil), valid...)
				for k := 1 + r.Intn(3); k > 0 && len(raw) > 0; k-- {
					raw[r.Intn(len(raw))] ^= 1 << uint(r.Intn(8))
				}

				if r.Intn(4) == 0 && len(raw) > 0 {
					raw = raw[:r.Intn(len(raw))]
				}
			}

			plans = append(plans, rPlan{Ep: ep, Random: true, Raw: raw})
		}
	}

	results := runPlans(plans, seed)

	f, err := os.Create(fl.str("o", "robust_trace.ndjson"))
	if err != nil {
		fatalf("%v", err)
	}

	defer f.Close()

	w := bufio.NewWriter(f)
	defer w.Flush()

	enc := json.NewEncoder(w)

	for _, res := range results {
		_ = enc.Encode(map[string]interface{}{"event": "Call", "ep": res.plan.Ep, "outcome": strings.SplitN(res.outcome, ":", 2)[0],
			"detail": res.outcome, "input_b64": b64(res.plan.Raw)})
	}
}
