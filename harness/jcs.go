package main

// Jcs family (C05): values of Jcs.tla spelled in every surface style -> canonicalizer.MarshalCanonical.

import (
	"bufio"
	"bytes"
	"encoding/json"
	"fmt"
	"math"
	"math/big"
	"math/rand"
	"os"
	"reflect"
	"strconv"
	"strings"
	"unicode/utf8"

	"github.com/trustbloc/sidetree-go/pkg/canonicalizer"
)

// JV is the uniformly tagged value of Jcs.tla.
type JV struct {
	T   string `json:"t"`
	S   []int  `json:"s"`
	D   []int  `json:"d"`
	N   int    `json:"n"`
	Neg bool   `json:"neg"`
	L   string `json:"l"`
	A   []JV   `json:"a"`
	O   []JM   `json:"o"`
}

type JM struct {
	K []int `json:"k"`
	V JV    `json:"v"`
}

type jcsCase struct {
	V     JV    `json:"v"`
	Canon []int `json:"canon"`
}

type jstyle struct {
	esc   string // literal | upper | lower | short
	ws    bool
	num   int // number spelling variant
	label string
}

var jstyles = []jstyle{
	{"literal", false, 0, "literal"}, {"upper", true, 1, "u-upper+ws+num1"}, {"lower", false, 2, "u-lower+num2"},
	{"short", true, 3, "short+ws+num3"}, {"literal", true, 4, "literal+ws+num4"},
	{"literal", false, 5, "literal+num5"}, {"lower", true, 6, "u-lower+ws+num6"}, {"short", false, 7, "short+num7"},
}

func spellString(cps []int, esc string) string {
	var b strings.Builder

	b.WriteByte('"')

	u := func(x int, upper bool) {
		if upper {
			fmt.Fprintf(&b, `\u%04X`, x)
		} else {
			fmt.Fprintf(&b, `\u%04x`, x)
		}
	}

	for _, cp := range cps {
		switch {
		case esc == "upper" || esc == "lower":
			if cp >= 0x10000 {
				u(0xD800+((cp-0x10000)>>10), esc == "upper")
				u(0xDC00+((cp-0x10000)&0x3FF), esc == "upper")
			} else {
				u(cp, esc == "upper")
			}
		case cp == '"':
			b.WriteString(`\"`)
		case cp == '\\':
			b.WriteString(`\\`)
		case cp == '/' && esc == "short":
			b.WriteString(`\/`)
		case cp < 0x20:
			short := map[int]string{8: `\b`, 12: `\f`, 10: `\n`, 13: `\r`, 9: `\t`}
			if s, ok := short[cp]; ok && esc == "short" {
				b.WriteString(s)
			} else {
				u(cp, false)
			}
		default:
			b.WriteRune(rune(cp))
		}
	}

	b.WriteByte('"')

	return b.String()
}

// spellNumber writes the double 0.d1..dk x 10^n in one of several decimal spellings.
func spellNumber(v *JV, variant int) string {
	sign := ""
	if v.Neg {
		sign = "-"
	}

	ds := ""
	for _, d := range v.D {
		ds += strconv.Itoa(d)
	}

	if ds == "0" {
		return sign + []string{"0", "0.0", "0e0", "0E+5", "0.00e-3", "0", "0.0", "0e0"}[variant%8]
	}

	// plain integer literals (no fraction, no exponent) of whole numbers: the shortest digits followed by zeros,
	// the exact decimal expansion of the double (2^60 = 1152921504606846976), and a neighbouring integer that
	// rounds to the same double (9007199254740993)
	if variant%8 >= 5 {
		k := len(ds)
		if v.N >= k && v.N <= 25 {
			plain := ds + strings.Repeat("0", v.N-k)
			f, _ := strconv.ParseFloat(plain, 64)
			exact := new(big.Float).SetFloat64(f).Text('f', 0)

			switch variant % 8 {
			case 5:
				return sign + plain
			case 6:
				return sign + exact
			default:
				x, _ := new(big.Int).SetString(exact, 10)
				x.Add(x, big.NewInt(1))

				if g, _ := strconv.ParseFloat(x.String(), 64); g == f {
					return sign + x.String()
				}

				return sign + exact
			}
		}

		return spellNumber(v, variant%8-5)
	}

	switch variant % 8 {
	case 0: // d1.d2..dk e(n-1)
		if len(ds) == 1 {
			return fmt.Sprintf("%s%se%d", sign, ds, v.N-1)
		}

		return fmt.Sprintf("%s%s.%se%d", sign, ds[:1], ds[1:], v.N-1)
	case 1: // 0.d1..dk E+n
		if v.N >= 0 {
			return fmt.Sprintf("%s0.%sE+%d", sign, ds, v.N)
		}

		return fmt.Sprintf("%s0.%sE%d", sign, ds, v.N)
	case 2: // d1..dk e(n-k), with trailing zeros in the mantissa
		return fmt.Sprintf("%s%s.000e%d", sign, ds, v.N-len(ds))
	case 3: // d1..dk 0 e(n-k-1)
		return fmt.Sprintf("%s%s0e%d", sign, ds, v.N-len(ds)-1)
	default: // written out when that is short, else as variant 0
		k := len(ds)
		if v.N >= k && v.N <= 25 {
			return sign + ds + strings.Repeat("0", v.N-k) + ".0"
		}

		if v.N > 0 && v.N < k {
			return sign + ds[:v.N] + "." + ds[v.N:]
		}

		if v.N <= 0 && v.N > -12 {
			return sign + "0." + strings.Repeat("0", -v.N) + ds
		}

		return spellNumber(v, 0)
	}
}

func spell(v *JV, st jstyle) string {
	ws := func(s string) string {
		if st.ws {
			return " \n\t" + s + "\r "
		}

		return s
	}

	switch v.T {
	case "str":
		return spellString(v.S, st.esc)
	case "num":
		return spellNumber(v, st.num)
	case "lit":
		return v.L
	case "arr":
		var parts []string
		for i := range v.A {
			parts = append(parts, ws(spell(&v.A[i], st)))
		}

		return "[" + ws(strings.Join(parts, ",")) + "]"
	case "obj":
		var parts []string
		for i := range v.O {
			parts = append(parts, ws(spellString(v.O[i].K, st.esc))+":"+ws(spell(&v.O[i].V, st)))
		}

		return "{" + strings.Join(parts, ",") + ws("") + "}"
	}

	panic("harness: spell " + v.T)
}

func cpsToUTF8(cps []int) []byte {
	var b []byte
	for _, cp := range cps {
		b = utf8.AppendRune(b, rune(cp))
	}

	return b
}

func utf8ToCps(b []byte) []int {
	out := []int{}
	for _, r := range string(b) {
		out = append(out, int(r))
	}

	return out
}

// checkNumberDigits makes sure the (digits, exponent) of every number of a value are the shortest
// round-trip digits of the double they denote (else the case itself is wrong, not the code).
func checkNumberDigits(v *JV) {
	switch v.T {
	case "num":
		f, err := strconv.ParseFloat(spellNumber(v, 0), 64)
		if err != nil {
			fatalf("number does not parse: %v", err)
		}

		d, n := es6Digits(f)
		ds := ""

		for _, x := range v.D {
			ds += strconv.Itoa(x)
		}

		if f != 0 && (d != ds || n != v.N) {
			fatalf("case number %s x 10^%d is not in shortest round-trip form (%s, %d)", ds, v.N, d, n)
		}
	case "arr":
		for i := range v.A {
			checkNumberDigits(&v.A[i])
		}
	case "obj":
		for i := range v.O {
			checkNumberDigits(&v.O[i].V)
		}
	}
}

func jcsKey(v *JV) string {
	switch v.T {
	case "obj":
		return fmt.Sprintf("obj%d", len(v.O))
	case "arr":
		return fmt.Sprintf("arr%d", len(v.A))
	}

	return v.T
}

func jcsReplay(args []string) {
	fl := parseFlags(args)
	col := newCollector("jcs", fl.str("only", ""))
	seen := map[string]bool{}
	first := true

	var spellings int64

	readTagged(os.Stdin, "CASE", fl.str("tlclog", ""), func(line []byte) {
		if seen[string(line)] {
			return
		}

		seen[string(line)] = true

		var c jcsCase
		if err := json.Unmarshal(line, &c); err != nil {
			fatalf("bad case: %v: %.300s", err, line)
		}

		if first {
			first = false

			if f := fl.str("first-edge", ""); f != "" {
				_ = os.WriteFile(f, append(line, '\n'), 0o644)
			}
		}

		checkNumberDigits(&c.V)
		col.nCases++

		want := cpsToUTF8(c.Canon)
		k := fmt.Sprintf("jcs:%s:%s", jcsKey(&c.V), digestJSON(c.V))
		col.kind(k)

		rp := map[string]interface{}{"cmd": append([]string{"jcs-replay"}, args...), "stdin": string(line)}
		fail := func(kind, detail string, e, a interface{}, in string) {
			col.report(mismatch{Kind: kind, Key: kind + ":" + jcsKey(&c.V) + ":" + string(want), Case: c.V, Detail: detail, Expected: e, Actual: a,
				Concrete: map[string]interface{}{"input": in}, Replay: rp})
		}

		for _, st := range jstyles {
			in := spell(&c.V, st)
			spellings++

			var (
				out      []byte
				err      error
				panicked string
			)

			func() {
				defer func() {
					if r := recover(); r != nil {
						panicked = fmt.Sprint(r)
					}
				}()

				// (a text that is refused half-way goes first: what it leaves behind must not reach the next call)
				jcsDisturb(int(spellings))

				out, err = canonicalizer.MarshalCanonical([]byte(in))
			}()

			switch {
			case panicked != "":
				fail("panic", panicked, nil, nil, in)
				return
			case err != nil:
				fail("canonicalization-error", st.label+": "+err.Error(), string(want), nil, in)
				return
			case !bytes.Equal(out, want):
				fail("canonical-form", st.label, string(want), string(out), in)
				return
			}

			// a fixed point, and the same JSON value as the input
			again, err2 := canonicalizer.MarshalCanonical(out)
			if err2 != nil || !bytes.Equal(again, out) {
				fail("not-a-fixed-point", st.label, string(out), string(again), in)
				return
			}

			var gi, go2 interface{}

			e1 := json.Unmarshal([]byte(in), &gi)
			e2 := json.Unmarshal(out, &go2)

			if e1 != nil || e2 != nil || !reflect.DeepEqual(gi, go2) {
				fail("value-changed", fmt.Sprint(st.label, e1, e2), gi, go2, in)
				return
			}
		}

		col.sample(map[string]interface{}{"value": c.V, "spelled": spell(&c.V, jstyles[1]), "canonical": string(want)})
	})

	col.sum.Extra["spellings"] = spellings
	// number literals that are long: more digits than a double has, close to the midpoint between two doubles, longer
	// than any shortest form - a literal denotes the double nearest to it, rounded once (the reference: strconv)
	for _, lit := range []string{"1.00000000000000011102230246251565404236316680908203126", "9007199254740993.0000001", "9007199254740992.9999999",
		"1000000000000000000000000", "1.0000000000000000000000e5", "0.000000000000000000000000001", "0.1000000000000000055511151231257827021181583404541015625",
		"5e-324", "2.2250738585072011e-308", "-0.00000000000000000000000000000000000000000000000000001e53", "123456789012345678901234567890", "4.35", "0.000001", "1e21",
		"1.7976931348623157e308", "0.30000000000000004440892098500626", "100000000000000000000.00000000000000000000000001"} {
		in := `{"n":[` + lit + `],"` + "\ufffd�" + `":"` + "� \ufffd \u00e9\u00FF\u0080 é" + `"}`
		want, rerr := refJCSFromJSON([]byte(in))

		if rerr != nil {
			fatalf("reference canonicalization of %s: %v", in, rerr)
		}

		col.nCases++
		col.kind("long-literal:" + lit)
		jcsDisturb(len(lit))

		out, err := canonicalizer.MarshalCanonical([]byte(in))
		if err != nil || !bytes.Equal(out, want) {
			col.report(mismatch{Kind: "canonical-form", Key: "canonical-form:long-literal:" + lit, Case: in, Detail: fmt.Sprint(err), Expected: string(want), Actual: string(out),
				Replay: map[string]interface{}{"cmd": append([]string{"jcs-replay"}, args...), "stdin": ""}})
		}
	}

	col.finish()
}

// ---------------------------------------------------------------------------------------------
// trace: random values and sampled doubles, canonicalized by the library, logged for JcsTrace.tla

func randomJV(r *rand.Rand, depth int) JV {
	cps := []int{97, 98, 34, 92, 47, 8, 9, 10, 12, 13, 0, 31, 32, 127, 128, 233, 8364, 55295, 57344, 64307, 65533, 65536, 128512, 1114111, 60, 62, 38, 8232, 8233}
	str := func(max int) []int {
		n := r.Intn(max + 1)
		s := make([]int, n)

		for i := range s {
			if r.Float64() < 0.2 {
				s[i] = 32 + r.Intn(95)
			} else {
				s[i] = cps[r.Intn(len(cps))]
			}
		}

		return s
	}

	empty := func(v JV) JV {
		if v.S == nil {
			v.S = []int{}
		}

		if v.D == nil {
			v.D = []int{}
		}

		if v.A == nil {
			v.A = []JV{}
		}

		if v.O == nil {
			v.O = []JM{}
		}

		return v
	}

	k := r.Intn(10)
	if depth <= 0 && k >= 6 {
		k = r.Intn(6)
	}

	switch {
	case k < 2:
		return empty(JV{T: "str", S: str(6)})
	case k < 5:
		return empty(numberJV(randomDouble(r)))
	case k < 6:
		return empty(JV{T: "lit", L: []string{"true", "false", "null"}[r.Intn(3)]})
	case k < 8:
		n := r.Intn(4)
		v := JV{T: "arr"}

		for i := 0; i < n; i++ {
			v.A = append(v.A, randomJV(r, depth-1))
		}

		return empty(v)
	default:
		n := r.Intn(5)
		v := JV{T: "obj"}
		seen := map[string]bool{}

		for i := 0; i < n; i++ {
			name := str(3)
			if seen[fmt.Sprint(name)] {
				continue
			}

			seen[fmt.Sprint(name)] = true
			v.O = append(v.O, JM{K: name, V: randomJV(r, depth-1)})
		}

		return empty(v)
	}
}

func randomDouble(r *rand.Rand) float64 {
	for {
		var f float64

		switch r.Intn(8) {
		case 0:
			f = math.Float64frombits(r.Uint64())
		case 1:
			f = float64(r.Intn(2000) - 1000)
		case 2:
			f = float64(r.Int63()) * math.Pow(10, float64(r.Intn(40)-20))
		case 3:
			// neighbours of the layout boundaries 1e21, 1e-6, 1e-7
			b := []float64{1e21, 1e-6, 1e-7, 1e20, 1e22, 1e-5, 9007199254740992, 0.1, 123456789012345680000}[r.Intn(9)]
			f = b

			for i := r.Intn(4); i > 0; i-- {
				f = math.Nextafter(f, []float64{0, math.Inf(1)}[r.Intn(2)])
			}
		case 4:
			f = math.Float64frombits(uint64(r.Intn(1 << 20))) // subnormals
		case 5:
			f = math.Float64frombits(0x7FEFFFFFFFFFFFFF - uint64(r.Intn(1000)))
		case 6:
			f = math.Round(r.Float64()*1e6) / 1e3
		default:
			f = r.NormFloat64() * math.Pow(10, float64(r.Intn(600)-300))
		}

		if r.Intn(2) == 0 {
			f = -f
		}

		if !math.IsNaN(f) && !math.IsInf(f, 0) {
			return f
		}
	}
}

func numberJV(f float64) JV {
	if f == 0 {
		return JV{T: "num", D: []int{0}, N: 1, Neg: math.Signbit(f)}
	}

	d, n := es6Digits(f)
	v := JV{T: "num", N: n, Neg: f < 0}

	for _, c := range d {
		v.D = append(v.D, int(c-'0'))
	}

	return v
}

func jcsTrace(args []string) {
	fl := parseFlags(args)
	seed := int64(fl.int("seed", envInt("VERIF_SEED", 1)))
	n := fl.int("n", 1000)
	r := rand.New(rand.NewSource(seed))

	f, err := os.Create(fl.str("o", "jcs_trace.ndjson"))
	if err != nil {
		fatalf("%v", err)
	}

	defer f.Close()

	w := bufio.NewWriter(f)
	defer w.Flush()

	enc := json.NewEncoder(w)
	enc.SetEscapeHTML(false)

	for i := 0; i < n; i++ {
		var v JV

		if i%3 == 0 {
			// a bare number inside an array: the layout of sampled doubles
			v = JV{T: "arr", S: []int{}, D: []int{}, O: []JM{}, A: []JV{randomJVNumber(r)}}
		} else {
			v = randomJV(r, 3)
			if v.T != "obj" && v.T != "arr" {
				v = JV{T: "arr", S: []int{}, D: []int{}, O: []JM{}, A: []JV{v}}
			}
		}

		in := spell(&v, jstyles[r.Intn(len(jstyles))])

		var (
			out []byte
			bad string
		)

		func() {
			defer func() {
				if rec := recover(); rec != nil {
					bad = fmt.Sprint("panic: ", rec)
				}
			}()

			var e error

			jcsDisturb(len(in))

			out, e = canonicalizer.MarshalCanonical([]byte(in))
			if e != nil {
				bad = "error: " + e.Error()
			}
		}()

		_ = enc.Encode(map[string]interface{}{"event": "Canon", "v": v, "out": utf8ToCps(out), "bad": bad})
	}
}

// texts that the canonicalizer refuses after it has read part of them
var jcsRefused = []string{`{"stale":1,"x":}`, `[1,2,`, `{"a":{"b":[1,{"c":2},`, `{"k":"v" "k2":1}`, `{"s":"unterminated`, `{"dup":1,"dup":2}`, `[1e400]`,
	`{"deep":[[[[{"x":1,"y":[2,3,{"z":`, "{\"esc\":\"\\u12\"}", `{"a":1}{"b":2}`, `{"a":tru}`}

func jcsDisturb(i int) {
	defer func() { _ = recover() }()

	_, _ = canonicalizer.MarshalCanonical([]byte(jcsRefused[i%len(jcsRefused)]))
}

func randomJVNumber(r *rand.Rand) JV {
	v := numberJV(randomDouble(r))
	v.S, v.A, v.O = []int{}, []JV{}, []JM{}

	return v
}
