package main

// ClientSend family (EXT): how sidetree.Client delivers a built request (ClientSend.tla).

import (
	"encoding/json"
	"fmt"
	"io"
	"net/http"
	"net/http/httptest"
	"os"
	"reflect"
	"strings"
	"sync"

	"github.com/trustbloc/sidetree-go/pkg/vdr/sidetreelongform/sidetree"
	"github.com/trustbloc/sidetree-go/pkg/vdr/sidetreelongform/sidetree/option/deactivate"
)

type csCfg struct {
	Cached string `json:"cached"`
	Fresh  string `json:"fresh"`
	Auth   string `json:"auth"`
}

type csPost struct {
	Node string `json:"node"`
	Auth string `json:"auth"`
}

type csCase struct {
	Cfg   csCfg    `json:"cfg"`
	Calls []bool   `json:"calls"`
	Posts []csPost `json:"posts"`
	Res   string   `json:"res"`
}

type csTokenProvider struct{ fail bool }

func (p csTokenProvider) AuthToken() (string, error) {
	if p.fail {
		return "", fmt.Errorf("no token")
	}

	return "provided-token", nil
}

func clientsendReplay(args []string) {
	fl := parseFlags(args)
	seed := int64(fl.int("seed", envInt("VERIF_SEED", 1)))
	pool := newKeyPool(seed)
	col := newCollector("clientsend", fl.str("only", ""))
	seen := map[string]bool{}
	first := true

	// the nodes: one answers 200, one answers 500, one is not there
	var (
		mu    sync.Mutex
		posts []csPost
		notes []string
	)

	node := func(name string, status int) *httptest.Server {
		return httptest.NewServer(http.HandlerFunc(func(w http.ResponseWriter, r *http.Request) {
			body, _ := io.ReadAll(r.Body)
			auth := r.Header.Get("Authorization")

			if auth == "" {
				auth = "absent"
			}

			mu.Lock()
			posts = append(posts, csPost{name, auth})

			var req map[string]interface{}
			if r.Method != http.MethodPost || r.Header.Get("Content-Type") != "application/json" || json.Unmarshal(body, &req) != nil || req["type"] != "deactivate" {
				notes = append(notes, fmt.Sprintf("%s %s %q", r.Method, r.Header.Get("Content-Type"), body))
			}
			mu.Unlock()

			w.WriteHeader(status)
			_, _ = w.Write([]byte(`{}`))
		}))
	}

	good, bad := node("good", http.StatusOK), node("bad_status", http.StatusInternalServerError)
	down := httptest.NewServer(http.NotFoundHandler())
	downURL := down.URL
	down.Close()

	defer good.Close()
	defer bad.Close()

	signerKey := pool.Get("p256", "cs-signer")

	readTagged(os.Stdin, "CASE", fl.str("tlclog", ""), func(line []byte) {
		if seen[string(line)] {
			return
		}

		seen[string(line)] = true

		var c csCase
		if err := json.Unmarshal(line, &c); err != nil {
			fatalf("bad case: %v: %.300s", err, line)
		}

		if first {
			first = false

			if f := fl.str("first-edge", ""); f != "" {
				_ = os.WriteFile(f, append(line, '\n'), 0o644)
			}
		}

		col.nCases++
		k := fmt.Sprintf("clientsend:cached=%s:fresh=%s:auth=%s", c.Cfg.Cached, c.Cfg.Fresh, c.Cfg.Auth)
		col.kind(k)

		rp := map[string]interface{}{"cmd": append([]string{"clientsend-replay"}, args...), "stdin": string(line)}
		fail := func(kind, detail string, exp, act interface{}) {
			col.report(mismatch{Kind: kind, Key: kind + ":" + strings.TrimPrefix(k, "clientsend:"), Case: c, Detail: detail, Expected: exp, Actual: act, Replay: rp})
		}

		mu.Lock()
		posts, notes = nil, nil
		mu.Unlock()

		var calls []bool

		endpoints := func(what string) ([]string, error) {
			switch what {
			case "good":
				return []string{good.URL, bad.URL}, nil
			case "bad_status":
				return []string{bad.URL, good.URL}, nil
			case "down":
				return []string{downURL, good.URL}, nil
			case "empty":
				return []string{}, nil
			}

			return nil, fmt.Errorf("discovery failed")
		}

		getEndpoints := func(disableCache bool) ([]string, error) {
			calls = append(calls, disableCache)

			if disableCache {
				return endpoints(c.Cfg.Fresh)
			}

			return endpoints(c.Cfg.Cached)
		}

		var opts []sidetree.Option

		switch c.Cfg.Auth {
		case "static":
			opts = append(opts, sidetree.WithAuthToken("static-token"))
		case "provider":
			opts = append(opts, sidetree.WithAuthTokenProvider(csTokenProvider{}))
		case "both":
			opts = append(opts, sidetree.WithAuthToken("static-token"), sidetree.WithAuthTokenProvider(csTokenProvider{}))
		case "provider_error":
			opts = append(opts, sidetree.WithAuthTokenProvider(csTokenProvider{fail: true}))
		}

		cl := sidetree.New(opts...)
		commit := refCommitment(jwkMap(signerKey.JWK), sha2_256)

		res := func() (res string) {
			defer func() {
				if recover() != nil {
					res = "panic"
				}
			}()

			err := cl.DeactivateDID("did:ion:"+testSuffix, deactivate.WithSidetreeEndpoint(getEndpoints),
				deactivate.WithSigner(&apiSigner{libSigner: librarySigner(signerKey), jwk: signerKey.JWK}), deactivate.WithOperationCommitment(commit))
			if err != nil {
				return "err"
			}

			return "ok"
		}()

		mu.Lock()
		gotPosts, gotNotes := append([]csPost(nil), posts...), append([]string(nil), notes...)
		mu.Unlock()

		col.sample(map[string]interface{}{"case": c.Cfg, "outcome": res, "discovery_calls": calls, "posts": gotPosts})

		switch {
		case res != c.Res:
			fail("outcome", "", c.Res, res)
		case !reflect.DeepEqual(calls, c.Calls) && !(len(calls) == 0 && len(c.Calls) == 0):
			fail("discovery-calls", "GetEndpoints(disableCache) calls", c.Calls, calls)
		case !reflect.DeepEqual(gotPosts, c.Posts) && !(len(gotPosts) == 0 && len(c.Posts) == 0):
			fail("posts", "requests that reached a node (node, Authorization header)", c.Posts, gotPosts)
		case len(gotNotes) > 0:
			fail("request-shape", "POST, Content-Type application/json, the deactivate request as body", nil, gotNotes)
		}
	})

	col.finish()
}
