package main

// Hash family: C06 (model hashes are content addresses) and C04 (commitment algebra, chains).

import (
	"bytes"
	"encoding/json"
	"fmt"
	"os"
	"strings"

	"github.com/trustbloc/sidetree-go/pkg/commitment"
	"github.com/trustbloc/sidetree-go/pkg/docutil"
	"github.com/trustbloc/sidetree-go/pkg/hashing"
	"github.com/trustbloc/sidetree-go/pkg/jws"
	"github.com/trustbloc/sidetree-go/pkg/versions/1_0/operationparser"
)

// concrete JSON values: base spelling, another spelling of the same value, a single-point modification
var hashValues = [][3]string{
	{`{"a":1,"b":"x"}`, "{ \"b\" : \"x\",\n \"a\" : 1.0 }", `{"a":2,"b":"x"}`},
	{`[]`, "[ ]", `[null]`},
	{`{"nested":{"k":[1,2,{"z":true}]},"s":"é"}`, `{"s":"é","nested":{"k":[1,2,{"z":true}]}}`, `{"nested":{"k":[2,1,{"z":true}]},"s":"é"}`},
	{`{"n":[1e21,0.000001,1.5e-7,100,-0,1e-7,123456789012345680000]}`, `{"n":[1000000000000000000000,1e-6,0.00000015,1E2,0,0.0000001,1.2345678901234568e20]}`, `{"n":[1e21,0.000001,1.5e-7,100,1,1e-7,123456789012345680000]}`},
	{`{"\ud83d\ude00":1,"\ufb33":2,"a":3}`, `{"a":3,"\ufb33":2,"\ud83d\ude00":1}`, `{"\ud83d\ude00":1,"\ufb33":2,"a":4}`},
	{`{"s":"\"\\\/\b\f\n\r\t\u001f\u007f<>&"}`, `{"s":"\u0022\u005c\u002f\u0008\u000c\u000a\u000d\u0009\u001F\u007F\u003c\u003e\u0026"}`, `{"s":"\"\\\/\b\f\n\r\t\u001e\u007f<>&"}`},
	{`{"a":{"b":{"c":{"d":[[[[1]]]]}}}}`, "{\"a\":\n{\"b\":\t{\"c\": {\"d\":[[[ [1] ]]]}}}}", `{"a":{"b":{"c":{"d":[[[[1,1]]]]}}}}`},
	{`{"kty":"EC","crv":"P-256","x":"pJ4TN9IqCV8KUtzzIwhQpHat0noUoeHXcpXwescMaoY","y":"qe1ZO8bSdcnp1-Jyq-VsyZoouJhD8AjUOsguXSEudYs"}`,
		`{"y":"qe1ZO8bSdcnp1-Jyq-VsyZoouJhD8AjUOsguXSEudYs","x":"pJ4TN9IqCV8KUtzzIwhQpHat0noUoeHXcpXwescMaoY","kty":"EC","crv":"P-256"}`,
		`{"kty":"EC","crv":"P-256","x":"pJ4TN9IqCV8KUtzzIwhQpHat0noUoeHXcpXwescMaoY","y":"qe1ZO8bSdcnp1-Jyq-VsyZoouJhD8AjUOsguXSEudYs","nonce":"AA"}`},
	{`{"patches":[{"action":"add-public-keys","publicKeys":[{"id":"k1","type":"JsonWebKey2020"}]}],"updateCommitment":"EiA"}`,
		`{"updateCommitment":"EiA","patches":[{"publicKeys":[{"type":"JsonWebKey2020","id":"k1"}],"action":"add-public-keys"}]}`,
		`{"patches":[{"action":"add-public-keys","publicKeys":[{"id":"k2","type":"JsonWebKey2020"}]}],"updateCommitment":"EiA"}`},
	{`{}`, "{ }", `{"x":null}`},
	{`[1,"1",true,null,{"1":1},[1]]`, `[1.0,"1",true,null,{"1":1e0},[10e-1]]`, `[1,"1",false,null,{"1":1},[1]]`},
	{`{"":"empty name","a b":"space","€":"euro","\r":"cr"}`, `{"\r":"cr","€":"euro","a b":"space","":"empty name"}`, `{"":"empty name","a b":"space","€":"Euro","\r":"cr"}`},
	// control characters that have no short escape, in strings and names that hold nothing else to escape
	{`{"c":"a\u0001b","\u001b":"\u0000","e":"\u000e\u001f","n":[1e-6,1e21,1e-7,999999999999999900000,295147905179352830000]}`,
		`{"n":[0.000001,1000000000000000000000,0.0000001,999999999999999868928,295147905179352825856],"e":"\u000E\u001F","\u001B":"\u0000","c":"a\u0001b"}`,
		`{"c":"a\u0002b","\u001b":"\u0000","e":"\u000e\u001f","n":[1e-6,1e21,1e-7,999999999999999900000,295147905179352830000]}`},
	// numbers spelled with more digits than any shortest form, \u escapes of Latin-1 characters
	{`{"n":[1e24,100000,1e-27,1.0000000000000002,9007199254740994],"s":"café ÿ"}`,
		`{"s":"caf\u00e9 \u00FF","n":[1000000000000000000000000,1.0000000000000000000000e5,0.000000000000000000000000001,1.00000000000000011102230246251565404236316680908203126,9007199254740993.0000001]}`,
		`{"n":[1e24,100000,1e-27,1.0000000000000002,9007199254740994],"s":"cafe ÿ"}`},
	// member names that need escaping, next to names on either side of the backslash (0x5C) they are escaped with
	{`{"\"q\"":1,"A":2,"\n":3,"\t":4,"\\":5,"a":6,"]":7,"[":8,"1":9,"\u0000":10,"\\n":11,"^":12,"\u007f":{"\"":1,"!":2,"#":3}}`,
		`{"\u007f":{"#":3,"!":2,"\u0022":1},"^":12,"\u005cn":11,"\u0000":10,"1":9,"[":8,"]":7,"a":6,"\u005c":5,"\u0009":4,"\u000a":3,"A":2,"\u0022q\u0022":1}`,
		`{"\"q\"":1,"A":2,"\n":3,"\t":4,"\\":5,"a":6,"]":7,"[":8,"1":9,"\u0000":10,"\\n":11,"^":12,"\u007f":{"\"":1,"!":2,"#":4}}`},
}

func mhCode(c int) uint {
	switch c {
	case 256:
		return sha2_256
	case 512:
		return sha2_512
	case 3256:
		return 0x16
	case 160:
		return 0x11
	case 9999:
		return 0x7f
	}

	return uint(c)
}

type hCaseIn struct {
	V     int    `json:"v"`
	Rel   string `json:"rel"`
	Kind  string `json:"kind"`
	Code  int    `json:"code"`
	Alg   int    `json:"alg"`
	Class string `json:"class"`
	Codes []int  `json:"codes"`
}

type hExpected struct {
	Ok           bool `json:"ok"`
	ReportsCode  bool `json:"reportsCode"`
	Code         int  `json:"code"`
	ComputedWith bool `json:"computedWith"`
}

type hCase struct {
	C        hCaseIn   `json:"c"`
	Expected hExpected `json:"expected"`
}

func decodeGeneric(text string) interface{} {
	var g interface{}
	if err := json.Unmarshal([]byte(text), &g); err != nil {
		fatalf("hash value does not parse: %v: %s", err, text)
	}

	return g
}

// hashString builds the encoded string of the given class from the model hash of value v.
func hashString(class string, v int, alg int) string {
	canon, err := refJCSFromJSON([]byte(hashValues[v-1][0]))
	if err != nil {
		fatalf("reference JCS: %v", err)
	}

	code := algCode(alg)
	digest := refHash(code, canon)
	good := refMultihash(code, digest)

	switch class {
	case "wellformed":
		return b64(good)
	case "bad_base64url_char":
		s := b64(good)
		return s[:5] + "+" + s[6:]
	case "padded":
		return b64(good) + "="
	case "empty":
		return ""
	case "not_a_multihash":
		return b64([]byte("h"))
	case "wrong_length_field":
		bad := append([]byte(nil), good...)
		bad[1]--
		return b64(bad)
	case "truncated_digest":
		return b64(good[:len(good)-1])
	case "trailing_bytes":
		return b64(append(append([]byte(nil), good...), 0))
	case "unsupported_sha3":
		return b64(refMultihash(0x16, digest[:32]))
	case "unsupported_sha1":
		return b64(refMultihash(0x11, digest[:20]))
	case "unknown_code":
		return b64(refMultihash(0x7f, digest[:32]))
	case "unsupported_two_byte_code":
		// 0x1012 as a varint (0x92 0x20), length 32, the SHA-256 digest of the value
		d := refHash(sha2_256, canon)
		return b64(append([]byte{0x92, 0x20, 0x20}, d...))
	case "short_digest_supported_code":
		return b64(refMultihash(code, digest[:20]))
	}

	panic("harness: hash class " + class)
}

func hashReplay(args []string) {
	fl := parseFlags(args)
	col := newCollector("hashcases", fl.str("only", ""))
	seen := map[string]bool{}
	first := true

	readTagged(os.Stdin, "CASE", fl.str("tlclog", ""), func(line []byte) {
		if seen[string(line)] {
			return
		}

		seen[string(line)] = true

		var hc hCase
		if err := json.Unmarshal(line, &hc); err != nil {
			fatalf("bad case: %v: %.300s", err, line)
		}

		if first {
			first = false

			if f := fl.str("first-edge", ""); f != "" {
				_ = os.WriteFile(f, append(line, '\n'), 0o644)
			}
		}

		c := hc.C
		if c.V > len(hashValues) {
			fatalf("value %d not in the table", c.V)
		}

		col.nCases++
		k := fmt.Sprintf("hash:%s:v=%d:rel=%s:code=%d:alg=%d:class=%s:codes=%v", c.Kind, c.V, c.Rel, c.Code, c.Alg, c.Class, c.Codes)
		col.kind(k)

		rp := map[string]interface{}{"cmd": append([]string{"hash-replay"}, args...), "stdin": string(line)}
		fail := func(kind, detail string, exp, act interface{}, conc interface{}) {
			col.report(mismatch{Kind: kind, Key: kind + ":" + strings.TrimPrefix(k, "hash:"), Case: hc, Detail: detail, Expected: exp, Actual: act, Concrete: conc, Replay: rp})
		}

		defer func() {
			if r := recover(); r != nil {
				fail("panic", fmt.Sprint(r), nil, nil, nil)
			}
		}()

		base := hashValues[c.V-1]

		switch c.Kind {
		case "calc":
			// the value is handed over in three forms: decoded, as JSON bytes, in another spelling
			forms := []interface{}{decodeGeneric(base[0]), []byte(base[0]), []byte(base[1])}
			canon, _ := refJCSFromJSON([]byte(base[0]))

			for fi, v := range forms {
				got, err := hashing.CalculateModelMultihash(v, mhCode(c.Code))
				col.sample(map[string]interface{}{"kind": "calc", "value": base[0], "code": mhCode(c.Code), "result": got})

				if (err == nil) != hc.Expected.Ok {
					fail("calc-verdict", fmt.Sprint(err), map[string]interface{}{"ok": hc.Expected.Ok}, map[string]interface{}{"ok": err == nil, "form": fi}, base[0])
					return
				}

				if err == nil {
					want := b64(refMultihash(int(mhCode(c.Code)), refHash(int(mhCode(c.Code)), canon)))
					if got != want {
						fail("calc-value", "model hash is not B64(MH(code, H(JCS(value))))", want, got, map[string]interface{}{"value": base[0], "form": fi})
						return
					}

					// the document id helper is the namespaced model hash
					id, ierr := docutil.CalculateID("did:sidetree", v, mhCode(c.Code))
					if ierr != nil || id != "did:sidetree:"+want {
						fail("calc-value", "docutil.CalculateID", "did:sidetree:"+want, map[string]interface{}{"id": id, "err": fmt.Sprint(ierr)}, base[0])
						return
					}
				}
			}
			// a value handed over by pointer, changed in place and hashed again: the hash is that of the value now
			if m, isObj := decodeGeneric(base[0]).(map[string]interface{}); isObj && hc.Expected.Ok {
				ptr := &m

				h1, e1 := hashing.CalculateModelMultihash(ptr, mhCode(c.Code))
				(*ptr)["added-later"] = []interface{}{1.0, "x"}
				h2, e2 := hashing.CalculateModelMultihash(ptr, mhCode(c.Code))
				want2 := b64(refMultihash(int(mhCode(c.Code)), refHash(int(mhCode(c.Code)), refJCSSimple(m))))

				if e1 != nil || e2 != nil || h2 != want2 || h1 == h2 {
					fail("calc-value", "a value changed in place keeps its old hash", want2, []string{h1, h2, fmt.Sprint(e1, e2)}, base[0])
					return
				}

				if err := hashing.IsValidModelMultihash(ptr, h1); err == nil {
					fail("valid-verdict", "the changed value validates against the hash of the unchanged one", "invalid", "valid", base[0])
					return
				}
			}
		case "valid":
			h := hashString(c.Class, c.V, c.Alg)
			rel := map[string]int{"same": 0, "reserialized": 1, "modified": 2}[c.Rel]

			for fi, v := range []interface{}{decodeGeneric(base[rel]), []byte(base[rel])} {
				err := hashing.IsValidModelMultihash(v, h)
				col.sample(map[string]interface{}{"kind": "valid", "value": base[rel], "hash": h, "valid": err == nil})

				if (err == nil) != hc.Expected.Ok {
					fail("valid-verdict", fmt.Sprint(err), map[string]interface{}{"valid": hc.Expected.Ok}, map[string]interface{}{"valid": err == nil, "form": fi},
						map[string]interface{}{"value": base[rel], "hash": h})
					return
				}
			}
		case "code":
			h := hashString(c.Class, c.V, c.Alg)
			code, err := hashing.GetMultihashCode(h)

			var codes []uint
			for _, x := range c.Codes {
				codes = append(codes, mhCode(x))
			}

			cw := hashing.IsComputedUsingMultihashAlgorithms(h, codes)
			col.sample(map[string]interface{}{"kind": "code", "hash": h, "code": code, "computed_with": cw, "codes": codes})

			switch {
			case (err == nil) != hc.Expected.ReportsCode:
				fail("code-verdict", fmt.Sprint(err), map[string]interface{}{"reports": hc.Expected.ReportsCode}, map[string]interface{}{"reports": err == nil, "code": code}, h)
			case err == nil && uint(code) != mhCode(hc.Expected.Code):
				fail("code-value", "", mhCode(hc.Expected.Code), code, h)
			case cw != hc.Expected.ComputedWith:
				fail("computed-with", "", hc.Expected.ComputedWith, cw, map[string]interface{}{"hash": h, "codes": codes})
			}
		}
	})

	col.finish()
}

// ---------------------------------------------------------------------------------------------
// C04: chains

type chOp struct {
	Type   string `json:"type"`
	Signer int    `json:"signer"`
	Nu     int    `json:"nu"`
	Nr     int    `json:"nr"`
	From   int    `json:"from"`
	Where  string `json:"where"`
}

type chLine struct {
	Ops []chOp `json:"ops"`
}

func chainReplay(args []string) {
	fl := parseFlags(args)
	seed := int64(fl.int("seed", envInt("VERIF_SEED", 1)))
	kts := splitComma(fl.str("kts", "p256,ed"))
	pool := newKeyPool(seed)
	col := newCollector("chain", fl.str("only", ""))
	seen := map[string]bool{}
	first := true

	var links, algebra int64

	// (the parsers are made per chain, see below; what the parser reports for ANCHORED operations does not depend on the
	// time validator - which judges requests that are not anchored yet: a validator that refuses everything)
	p := testProtocol(1)

	readTagged(os.Stdin, "CHAIN", fl.str("tlclog", ""), func(line []byte) {
		if seen[string(line)] {
			return
		}

		seen[string(line)] = true

		var cl chLine
		if err := json.Unmarshal(line, &cl); err != nil {
			fatalf("bad chain: %v: %.300s", err, line)
		}

		if first {
			first = false

			if f := fl.str("first-edge", ""); f != "" {
				_ = os.WriteFile(f, append(line, '\n'), 0o644)
			}
		}

		shape := ""
		for _, o := range cl.Ops {
			shape += o.Type[:1]
		}

		rp := map[string]interface{}{"cmd": append([]string{"chain-replay"}, args...), "stdin": string(line)}

		for _, kt := range kts {
			// h = 0: a chain that migrates from SHA-256 (the keys of the create operation) to SHA-512 (all later keys)
			for _, h := range []int{256, 512, 0} {
				// keys without nonce, keys with nonces, and ONE key material throughout whose instances differ in the nonce
				// only (key 3 has none): such keys are different keys
				for _, mode := range []int{0, 1, 2} {
					nonce := mode != 0
					col.nCases++
					k := fmt.Sprintf("chain:%s:kt=%s:h=%d:nonce=%v", shape, kt, h, []string{"false", "true", "same-material"}[mode])
					col.kind(k)

					fail := func(kind, detail string, exp, act interface{}) {
						col.report(mismatch{Kind: kind, Key: kind + ":" + strings.TrimPrefix(k, "chain:"), Case: cl, Detail: detail, Expected: exp, Actual: act, Replay: rp})
					}

					alg := algCode(h)

					// (the configured algorithms in either order: the one a chain uses is the LAST of the list in the SHA-256
					// chains and in the chains of keys with nonces)
					p := p
					if h == 256 || mode == 1 {
						p.MultihashAlgorithms = []uint{sha2_512, sha2_256}
					}

					parser := operationparser.New(p)
					anchoredParser := operationparser.New(p, operationparser.WithAnchorTimeValidator(refusingTimeValidator{}))

					algOfKey := func(id int) int {
						if h != 0 {
							return alg
						}

						if id <= 2 {
							return sha2_256
						}

						return sha2_512
					}

					if h == 0 {
						alg = sha2_512 // delta hashes of the migrating chain
					}

					material := func(id int) *Key {
						if mode == 2 {
							id = 1
						}

						// (every third key of a chain has a coordinate that begins with a zero byte)
						if id%3 == 0 && kt != "ed" {
							return pool.Get(kt, fmt.Sprintf("rare:chain%d", id))
						}

						return pool.Get(kt, fmt.Sprintf("chain%d", id))
					}

					keyOf := func(id int) *jws.JWK {
						j := cloneJWK(material(id).JWK)
						if nonce && !(mode == 2 && id == 3) {
							j.Nonce = b64(seedBytes(seed, fmt.Sprintf("chain-nonce/%d", id), 16))
						}

						return j
					}

					// ---- the algebra for every key of the chain, against the reference evaluation
					for id := 1; id <= 2*len(cl.Ops)+2; id++ {
						j := keyOf(id)
						rv, e1 := commitment.GetRevealValue(j, uint(alg))
						cm, e2 := commitment.GetCommitment(j, uint(alg))
						cfr, e3 := commitment.GetCommitmentFromRevealValue(rv)
						algebra++

						wantRV, wantCM := refReveal(jwkMap(j), alg), refCommitment(jwkMap(j), alg)

						switch {
						case e1 != nil || e2 != nil || e3 != nil:
							fail("algebra-error", fmt.Sprint(e1, e2, e3), nil, nil)
							return
						case rv != wantRV:
							fail("reveal-value", "reveal is not B64(MH(a, H(a, JCS(jwk))))", wantRV, rv)
							return
						case cm != wantCM:
							fail("commitment", "commitment is not B64(MH(a, H(a, H(a, JCS(jwk)))))", wantCM, cm)
							return
						case cfr != cm:
							fail("commitment-from-reveal", "", cm, cfr)
							return
						case cm == rv:
							fail("commitment-equals-reveal", "", nil, cm)
							return
						}

						// a key differing only in its nonce has another commitment
						j2 := cloneJWK(j)
						j2.Nonce = b64(seedBytes(seed, fmt.Sprintf("other-nonce/%d", id), 16))

						if cm2, _ := commitment.GetCommitment(j2, uint(alg)); cm2 == cm {
							fail("nonce-ignored", "keys differing only in the nonce have the same commitment", nil, cm)
							return
						}
					}

					// an RSA key (member names n / nonce: one is a prefix of the other), with and without nonce
					{
						rsa := &jws.JWK{Kty: "RSA", N: "sXchDaQebHnPiGvyDOAT4saGEUetSyo9MKLOoWFsueri23bOdgWp4Dy1WlUzewbgBHod5pcM9H95GQRV3JDXboIRROSBigeC5yjU1hGzHHyXss8UDprecbAYxknTcQkhslANGRUZmdTOQ5qTRsLAt6BTYuyvVRdhS8exSZEy_c4gs_7svlJJQ4H9_NxsiIoLwAEk7-Q3UXERGYw_75IDrGA84-lA_-Ct4eTlXHBIY2EaV7t7LjJaynVJCpkv4LKjTTAumiGUIuQhrNhZLuF_RJLqHpM2kgWFLU7-VTdL1VbC2tejvcI2BlMkEpk1BzBZI0KQB0GaDWFLN-aEAw3vRw", E: "AQAB"}
						if nonce {
							rsa.Nonce = b64(seedBytes(seed, "chain-nonce/rsa", 16))
						}

						rv, e1 := commitment.GetRevealValue(rsa, uint(alg))
						cm, e2 := commitment.GetCommitment(rsa, uint(alg))

						if e1 != nil || e2 != nil || rv != refReveal(jwkMap(rsa), alg) || cm != refCommitment(jwkMap(rsa), alg) {
							fail("reveal-value", "RSA key: reveal / commitment are not the hashes of the canonical JWK", []string{refReveal(jwkMap(rsa), alg), refCommitment(jwkMap(rsa), alg)}, []string{rv, cm, fmt.Sprint(e1, e2)})
							return
						}
					}

					// ---- the chain as real signed requests
					reqs := make([][]byte, len(cl.Ops))
					oddDelta := map[int]bool{}
					commitOf := func(id int) string { return refCommitment(jwkMap(keyOf(id)), algOfKey(id)) }

					for i, o := range cl.Ops {
						delta := map[string]interface{}{
							"updateCommitment": "",
							"patches":          []interface{}{jsonPatch(map[string]interface{}{"op": "add", "path": fmt.Sprintf("/step%d", i), "value": i})},
						}

						if o.Nu != 0 {
							delta["updateCommitment"] = commitOf(o.Nu)
						}

						// an anchored operation stays readable whatever its delta holds: every third recover / update carries a patch
						// that is no patch of this protocol version (an action of a later version, a replace without its document,
						// no action at all) - it is a link of its chain all the same
						if o.Type != "create" && (i+len(cl.Ops))%3 == 0 {
							oddDelta[i] = true
							delta["patches"] = []interface{}{
								map[string]interface{}{"action": "add-verification-relationships", "relationships": []interface{}{"x"}},
								map[string]interface{}{"action": "replace"},
								map[string]interface{}{"publicKeys": []interface{}{}},
							}[i%3 : i%3+1]
						}

						if o.Type == "create" {
							sd := map[string]interface{}{"deltaHash": refModelHash(delta, algOfKey(1)), "recoveryCommitment": commitOf(o.Nr)}

							// (an anchor origin is any JSON value: a list of origins in the chains whose keys carry nonces)
							if nonce {
								sd["anchorOrigin"] = []interface{}{"https://origin-a.example/", map[string]interface{}{"ledger": "main"}}
							}

							reqs[i], _ = json.Marshal(map[string]interface{}{"type": "create", "suffixData": sd, "delta": delta})

							continue
						}

						signer := material(o.Signer)
						jwk := keyOf(o.Signer)
						signed := map[string]interface{}{"anchorFrom": 1 + i, "anchorUntil": 3 + i}

						// (windows with one bound only, and without bounds)
						switch (i + len(cl.Ops)) % 4 {
						case 1:
							delete(signed, "anchorUntil")
						case 2:
							delete(signed, "anchorFrom")
						case 3:
							delete(signed, "anchorFrom")
							delete(signed, "anchorUntil")
						}
						req := map[string]interface{}{"type": o.Type, "didSuffix": testSuffix, "revealValue": refReveal(jwkMap(jwk), algOfKey(o.Signer))}

						switch o.Type {
						case "update":
							signed["updateKey"] = jwkMap(jwk)
							signed["deltaHash"] = refModelHash(delta, alg)
							req["delta"] = delta
						case "recover":
							signed["recoveryKey"] = jwkMap(jwk)
							signed["deltaHash"] = refModelHash(delta, alg)
							signed["recoveryCommitment"] = commitOf(o.Nr)
							req["delta"] = delta

							if nonce {
								signed["anchorOrigin"] = map[string]interface{}{"ledger": "main", "shards": []interface{}{1, 2}}

								// (a list of objects with the same member names, objects inside an object likewise)
								if i%2 == 0 {
									signed["anchorOrigin"] = []interface{}{map[string]interface{}{"uri": "https://a.example/", "w": 1}, map[string]interface{}{"uri": "https://b.example/", "w": 2},
										map[string]interface{}{"primary": map[string]interface{}{"uri": "x"}, "backup": map[string]interface{}{"uri": "y"}}}
								}
							}
						case "deactivate":
							signed["recoveryKey"] = jwkMap(jwk)
							signed["didSuffix"] = testSuffix
						}

						req["signedData"] = compactJWS(map[string]interface{}{"alg": signer.Alg}, refJCSSimple(signed), signer)
						reqs[i], _ = json.Marshal(req)

						// the same request whose signed data carries members that this type of operation does not use (values
						// that mean something elsewhere): if the parser takes it, it reports what it reports for the plain one
						{
							stray := map[string]interface{}{}
							for name, v := range signed {
								stray[name] = v
							}

							otherAlg := sha2_256 + sha2_512 - algOfKey(o.Signer)

							for name, v := range map[string]interface{}{"revealValue": refReveal(jwkMap(jwk), otherAlg), "recoveryCommitment": commitOf(2*len(cl.Ops) + 2),
								"updateCommitment": commitOf(2*len(cl.Ops) + 1), "deltaHash": refModelHash(delta, alg), "updateKey": jwkMap(keyOf(2*len(cl.Ops) + 2)),
								"recoveryKey": jwkMap(keyOf(2*len(cl.Ops) + 2))} {
								if _, used := stray[name]; !used {
									stray[name] = v
								}
							}

							sreq := map[string]interface{}{}
							for name, v := range req {
								sreq[name] = v
							}

							sreq["signedData"] = compactJWS(map[string]interface{}{"alg": signer.Alg}, refJCSSimple(stray), signer)
							sb, _ := json.Marshal(sreq)

							if _, perr := parser.ParseOperation("did:sidetree", sb, true); perr == nil {
								c1, e1 := anchoredParser.GetCommitment(reqs[i])
								c2, e2 := anchoredParser.GetCommitment(sb)
								r1, e3 := anchoredParser.GetRevealValue(reqs[i])
								r2, e4 := anchoredParser.GetRevealValue(sb)

								if c1 != c2 || r1 != r2 || (e1 == nil) != (e2 == nil) || (e3 == nil) != (e4 == nil) {
									fail("get-commitment", fmt.Sprintf("operation %d (%s): members of the signed data that this operation type does not use change what the parser reports", i+1, o.Type),
										map[string]interface{}{"commitment": c1, "reveal": r1, "errors": fmt.Sprint(e1, e3)},
										map[string]interface{}{"commitment": c2, "reveal": r2, "errors": fmt.Sprint(e2, e4)})
									return
								}
							}
						}

						if i%2 == 1 {
							// (with insignificant white space: an anchored operation is whatever bytes were anchored)
							reqs[i], _ = json.MarshalIndent(req, " ", "\t")
						}
					}

					orig := make([][]byte, len(reqs))
					for i := range reqs {
						orig[i] = append([]byte(nil), reqs[i]...)
					}

					defer func() {
						for i := range reqs {
							if !bytes.Equal(orig[i], reqs[i]) {
								fail("request-bytes-changed", fmt.Sprintf("operation %d: the parser wrote into the bytes it was given", i+1), string(orig[i]), string(reqs[i]))
								return
							}
						}
					}()

					col.sample(map[string]interface{}{"chain": cl.Ops, "kt": kt, "h": h, "nonce": nonce, "requests": []string{string(reqs[0]), string(reqs[len(reqs)-1])}})

					// the operations read, one after the other, into ONE buffer that the caller uses again (as a reader of a batch
					// file does): every answer is the answer for the bytes that are in the buffer at that moment
					{
						buf := make([]byte, 0, 1<<16)

						for i := 1; i < len(reqs); i++ {
							want1, werr1 := operationparser.New(p).GetRevealValue(append([]byte(nil), reqs[i]...))
							want2, werr2 := operationparser.New(p).GetCommitment(append([]byte(nil), reqs[i]...))

							// (padded with blanks to one length: the buffer is filled to the same mark every time)
							buf = append(buf[:0], reqs[i]...)
							for len(buf) < 6000 {
								buf = append(buf, ' ')
							}

							got1, gerr1 := anchoredParser.GetRevealValue(buf)
							got2, gerr2 := anchoredParser.GetCommitment(buf)

							if got1 != want1 || got2 != want2 || (gerr1 == nil) != (werr1 == nil) || (gerr2 == nil) != (werr2 == nil) {
								fail("get-commitment", fmt.Sprintf("operation %d read into a buffer that held operation %d before: the parser answers for another operation", i+1, i),
									map[string]interface{}{"reveal": want1, "commitment": want2}, map[string]interface{}{"reveal": got1, "commitment": got2})
								return
							}
						}
					}

					// an operation of exactly the maximum operation size is within the limit: it is a link of its chain like any other
					for i := 1; i < len(reqs); i++ {
						exact := p
						exact.MaxOperationSize = uint(len(reqs[i]))

						want1, werr1 := anchoredParser.GetRevealValue(reqs[i])
						got1, gerr1 := operationparser.New(exact).GetRevealValue(reqs[i])
						want2, werr2 := anchoredParser.GetCommitment(reqs[i])
						got2, gerr2 := operationparser.New(exact).GetCommitment(reqs[i])

						if got1 != want1 || got2 != want2 || (gerr1 == nil) != (werr1 == nil) || (gerr2 == nil) != (werr2 == nil) {
							fail("get-commitment", fmt.Sprintf("operation %d under a maximum operation size that is its own size (%d bytes)", i+1, len(reqs[i])),
								map[string]interface{}{"reveal": want1, "commitment": want2}, map[string]interface{}{"reveal": got1, "commitment": got2, "errors": fmt.Sprint(gerr1, gerr2)})
							return
						}
					}

					for i, o := range cl.Ops {
						// (a request whose delta holds no patch of this version is not accepted at submission; it is read when anchored)
						if _, err := parser.Parse("did:sidetree", reqs[i]); err != nil && !oddDelta[i] {
							fail("chain-request-rejected", fmt.Sprintf("operation %d (%s): %v", i+1, o.Type, err), nil, string(reqs[i]))
							return
						}

						next, err := anchoredParser.GetCommitment(reqs[i])

						switch o.Type {
						case "create":
							// (pinned, not stated: the commitments of a create are read from its suffix data / delta)
							if err == nil {
								col.beyond("get-commitment-create", "GetCommitment answers a create request", nil, "error", next)
							}
						case "deactivate":
							if err == nil && next != "" {
								fail("get-commitment", "deactivate must report no next commitment", "", map[string]interface{}{"commitment": next, "err": fmt.Sprint(err)})
								return
							}
						case "update":
							if err != nil || next != commitOf(o.Nu) {
								fail("get-commitment", "update", commitOf(o.Nu), map[string]interface{}{"commitment": next, "err": fmt.Sprint(err)})
								return
							}
						case "recover":
							if err != nil || next != commitOf(o.Nr) {
								fail("get-commitment", "recover", commitOf(o.Nr), map[string]interface{}{"commitment": next, "err": fmt.Sprint(err)})
								return
							}

							// an anchored recover whose delta is missing still advances the recovery chain (it is applied
							// with an empty document): it reports the same recovery commitment and reveal value
							var m map[string]interface{}

							_ = json.Unmarshal(reqs[i], &m)
							delete(m, "delta")
							bare, _ := json.Marshal(m)

							if _, perr := anchoredParser.ParseOperation("did:sidetree", bare, true); perr == nil {
								n2, e2 := anchoredParser.GetCommitment(bare)
								r2, e3 := anchoredParser.GetRevealValue(bare)
								r1, _ := anchoredParser.GetRevealValue(reqs[i])

								if e2 != nil || e3 != nil || n2 != next || r2 != r1 {
									fail("get-commitment", "recover without delta", map[string]interface{}{"commitment": next, "reveal": r1},
										map[string]interface{}{"commitment": n2, "reveal": r2, "err": fmt.Sprint(e2, e3)})
									return
								}
							}
						}

						if i == 0 {
							if _, err := anchoredParser.GetRevealValue(reqs[i]); err == nil {
								col.beyond("get-reveal-value-create", "GetRevealValue answers a create request", nil, "error", nil)
							}

							continue
						}

						// the link: reveal(op) maps to the commitment its predecessor on the chain reports
						rv, err := anchoredParser.GetRevealValue(reqs[i])
						if err != nil {
							fail("get-reveal-value", err.Error(), nil, nil)
							return
						}

						derived, err := commitment.GetCommitmentFromRevealValue(rv)
						if err != nil {
							fail("commitment-from-reveal", err.Error(), nil, rv)
							return
						}

						links++

						var reported string

						pre := reqs[o.From-1]

						switch o.Where {
						case "GetCommitment":
							reported, err = anchoredParser.GetCommitment(pre)
							if err != nil {
								fail("get-commitment", err.Error(), nil, nil)
								return
							}
						default:
							// the parsed predecessor's model (through the parser, batch mode)
							op, perr := anchoredParser.ParseOperation("did:sidetree", pre, true)
							if perr != nil {
								fail("chain-request-rejected", perr.Error(), nil, string(pre))
								return
							}

							if o.Where == "delta.updateCommitment" {
								reported = op.Delta.UpdateCommitment
							} else {
								reported = op.SuffixData.RecoveryCommitment
							}
						}

						if derived != reported {
							fail("link", fmt.Sprintf("operation %d (%s) does not link to operation %d via %s", i+1, o.Type, o.From, o.Where), reported, derived)
							return
						}
					}
				}
			}
		}
	})

	col.sum.Extra["links_checked"] = links
	col.sum.Extra["algebra_checks"] = algebra
	col.finish()
}

type refusingTimeValidator struct{}

func (refusingTimeValidator) Validate(_, _ int64) error { return fmt.Errorf("operation expired") }
