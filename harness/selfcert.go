package main

// SelfCert family (C03): create requests, their re-serializations and single-member modifications.

import (
	"bytes"
	"encoding/json"
	"fmt"
	"github.com/trustbloc/sidetree-go/pkg/versions/1_0/model"
	"os"
	"sort"
	"strings"

	"github.com/trustbloc/sidetree-go/pkg/docutil"
	"github.com/trustbloc/sidetree-go/pkg/versions/1_0/operationparser"
)

type scExpected struct {
	Accepted     bool `json:"accepted"`
	SameDID      bool `json:"sameDID"`
	BaseAccepted bool `json:"baseAccepted"`
	SuffixAlg    int  `json:"suffixAlg"`
}

type scCase struct {
	Patch    string     `json:"patch"`
	Ao       int        `json:"ao"`
	Ty       int        `json:"ty"`
	H        int        `json:"h"`
	Algs     []int      `json:"algs"`
	Mod      string     `json:"mod"`
	Ns       string     `json:"ns"`
	Expected scExpected `json:"expected"`
}

func scPatches(env *composerEnv, kind string, ver int) []interface{} {
	one := func(a string) interface{} {
		p := CPatch{A: a}

		switch a {
		case "add-public-keys":
			p.Ents = []CEnt{{1, ver}}
		case "remove-public-keys", "remove-services":
			p.IDs = []int{ver}
		case "add-services":
			p.Ents = []CEnt{{1, ver}}
		case "add-also-known-as", "remove-also-known-as":
			p.IDs = []int{ver}
		case "replace":
			p.Ents, p.Ents2 = []CEnt{{1, ver}}, []CEnt{{1, ver}}
		case "ietf-json-patch":
			p.Ops = []CJOp{{Op: "add", Path: CPath{Name: 1}, From: CPath{Name: 1}, Val: CVal{T: "int", V: ver}}}
		}

		g := env.patchJSON(&p)

		// a second key that has no purposes member (a general-purpose key)
		plain := env.keyJSON(CEnt{3, ver})
		delete(plain, "purposes")

		switch a {
		case "add-public-keys":
			g["publicKeys"] = append(g["publicKeys"].([]interface{}), plain)
		case "replace":
			d := g["document"].(map[string]interface{})
			d["publicKeys"] = append(d["publicKeys"].([]interface{}), plain)
		}

		return g
	}

	if kind == "mixed" {
		var l []interface{}
		for _, a := range []string{"replace", "add-public-keys", "remove-public-keys", "add-services", "remove-services",
			"add-also-known-as", "remove-also-known-as", "ietf-json-patch"} {
			l = append(l, one(a))
		}

		return l
	}

	return []interface{}{one(kind)}
}

// encodeStyled serializes a generic JSON value with the given surface style.
func encodeStyled(v interface{}, style string) []byte {
	var buf bytes.Buffer

	var enc func(v interface{}, depth int)

	str := func(s string) {
		b, _ := json.Marshal(s)

		if style == "escapes" && len(s) > 2 {
			// spell the second character as a \u escape (an ASCII letter or digit)
			c := s[1]
			if (c >= 'a' && c <= 'z') || (c >= 'A' && c <= 'Z') || (c >= '0' && c <= '9') {
				b = []byte(fmt.Sprintf(`"%s\u%04x%s"`, s[:1], c, s[2:]))
			}
		}

		buf.Write(b)
	}

	sp := func() {
		if style == "whitespace" {
			buf.WriteString(" \n\t ")
		}
	}

	enc = func(v interface{}, depth int) {
		switch t := v.(type) {
		case map[string]interface{}:
			keys := make([]string, 0, len(t))
			for k := range t {
				keys = append(keys, k)
			}

			sort.Strings(keys)

			if style == "member_order" {
				for i, j := 0, len(keys)-1; i < j; i, j = i+1, j-1 {
					keys[i], keys[j] = keys[j], keys[i]
				}
			}

			buf.WriteByte('{')

			for i, k := range keys {
				if i > 0 {
					buf.WriteByte(',')
				}

				sp()
				str(k)
				sp()
				buf.WriteByte(':')
				sp()
				enc(t[k], depth+1)
			}

			sp()
			buf.WriteByte('}')
		case []interface{}:
			buf.WriteByte('[')

			for i, e := range t {
				if i > 0 {
					buf.WriteByte(',')
				}

				sp()
				enc(e, depth+1)
			}

			sp()
			buf.WriteByte(']')
		case string:
			str(t)
		default:
			b, _ := json.Marshal(t)
			buf.Write(b)
		}
	}

	if style == "outer_whitespace" {
		buf.WriteString("\n \t")
	}

	enc(v, 0)

	if style == "outer_whitespace" {
		buf.WriteString(" \r\n")
	}

	return buf.Bytes()
}

func generic(v interface{}) interface{} {
	raw, _ := json.Marshal(v)

	var g interface{}

	_ = json.Unmarshal(raw, &g)

	return g
}

func selfcertReplay(args []string) {
	fl := parseFlags(args)
	seed := int64(fl.int("seed", envInt("VERIF_SEED", 1)))
	conc := newConcretizer(seed)
	env := newComposerEnv(seed)
	col := newCollector("selfcert", fl.str("only", ""))
	seen := map[string]bool{}
	first := true

	readTagged(os.Stdin, "CASE", fl.str("tlclog", ""), func(line []byte) {
		if seen[string(line)] {
			return
		}

		seen[string(line)] = true

		var c scCase
		if err := json.Unmarshal(line, &c); err != nil {
			fatalf("bad case: %v: %.300s", err, line)
		}

		if first {
			first = false

			if f := fl.str("first-edge", ""); f != "" {
				_ = os.WriteFile(f, append(line, '\n'), 0o644)
			}
		}

		alg := algCode(c.H)

		mk := func(uc int, patches []interface{}) map[string]interface{} {
			return map[string]interface{}{"updateCommitment": conc.commitment(uc, c.H), "patches": patches}
		}

		delta := mk(1, scPatches(env, c.Patch, 1))
		sd := map[string]interface{}{"deltaHash": refModelHash(delta, alg), "recoveryCommitment": conc.commitment(2, c.H)}

		switch c.Ao {
		case 1:
			sd["anchorOrigin"] = "  https://origin-1.example/path/?a=1&b=<2>\u2028\u2029  "
		case 2:
			sd["anchorOrigin"] = anchorOrigin(102)
		}

		if c.Ty == 1 {
			sd["type"] = "0001"
		}

		base := map[string]interface{}{"type": "create", "suffixData": sd, "delta": delta}
		baseBytes := encodeStyled(generic(base), "none")
		if c.Mod != "none" {
			baseBytes = spellDigits(baseBytes) // (the changed request is compared with a base in this spelling ...)
		}

		// the changed request
		msd := map[string]interface{}{}
		for k, v := range sd {
			msd[k] = v
		}

		mdelta := delta
		style := "none"
		envelope := map[string]interface{}{}

		switch c.Mod {
		case "none", "member_order", "whitespace", "outer_whitespace", "escapes":
			style = c.Mod
		case "sd_deltahash":
			msd["deltaHash"] = refModelHash(mk(9, scPatches(env, c.Patch, 1)), alg)
		case "sd_deltahash_truncated", "sd_deltahash_empty_digest":
			// the right algorithm code, a digest that is a (possibly empty) prefix of the real one
			canon, _ := refJCS(generic(delta))
			dig := refHash(alg, canon)
			n := 12
			if c.Mod == "sd_deltahash_empty_digest" {
				n = 0
			}

			msd["deltaHash"] = b64(refMultihash(alg, dig[:n]))
		case "sd_deltahash_respelled":
			r := respell(refModelHash(delta, alg))
			if r == refModelHash(delta, alg) {
				// (a SHA-512 multihash leaves no unused bits: the nearest thing is a truncated digest)
				canon, _ := refJCS(generic(delta))
				r = b64(refMultihash(alg, refHash(alg, canon)[:63]))
			}

			msd["deltaHash"] = r
		case "sd_recoverycommitment":
			msd["recoveryCommitment"] = conc.commitment(9, c.H)
		case "sd_anchororigin":
			if c.Ao == 2 {
				delete(msd, "anchorOrigin")
			} else {
				msd["anchorOrigin"] = "origin-9"
			}
		case "sd_type":
			if c.Ty == 1 {
				delete(msd, "type")
			} else {
				msd["type"] = "0099"
			}
		case "sd_type_wrong_kind":
			msd["type"] = []interface{}{7, true, []interface{}{"0001"}, map[string]interface{}{"t": "0001"}}[(c.Ao+c.H/256+len(c.Algs))%4]
		case "sd_recoverycommitment_wrong_kind":
			msd["recoveryCommitment"] = []interface{}{7, []interface{}{conc.commitment(2, c.H)}}[c.Ao%2]
		case "envelope_didsuffix":
			envelope["didSuffix"] = []interface{}{"EiAnotherSuffixAnotherSuffixAnotherSuffixAnoth", refModelHash(map[string]interface{}{"other": 1}, alg), ""}[(c.Ao+c.Ty)%3]
		case "delta_updatecommitment":
			mdelta = mk(9, scPatches(env, c.Patch, 1))
		case "delta_patch_content":
			mdelta = mk(1, scPatches(env, c.Patch, 2))
		case "delta_patch_added":
			mdelta = mk(1, append(scPatches(env, c.Patch, 1), scPatches(env, "add-also-known-as", 3)...))
		case "delta_patch_removed":
			l := scPatches(env, c.Patch, 1)
			mdelta = mk(1, l[:len(l)-1])
		case "delta_null_member_added":
			// a null member added inside the first patch (a key's purposes, or the patch itself)
			l := generic(scPatches(env, c.Patch, 1)).([]interface{})
			first := l[0].(map[string]interface{})
			target := first

			pick := func(arr []interface{}) {
				// the entry that lacks the optional member, else the first one
				target = arr[0].(map[string]interface{})

				for _, x := range arr {
					if m := x.(map[string]interface{}); m["publicKeyJwk"] != nil && m["purposes"] == nil {
						target = m
					}
				}
			}

			for _, name := range []string{"publicKeys", "services"} {
				if arr, ok := first[name].([]interface{}); ok && len(arr) > 0 {
					pick(arr)
				}
			}

			if doc, ok := first["document"].(map[string]interface{}); ok {
				if arr, ok := doc["publicKeys"].([]interface{}); ok && len(arr) > 0 {
					pick(arr)
				}
			}

			if _, isKey := target["publicKeyJwk"]; isKey {
				target["purposes"] = nil // null where the member is optional
			} else {
				target["note"] = nil
			}

			mdelta = mk(1, l)
		default:
			fatalf("unknown modification %s", c.Mod)
		}

		envelope["type"], envelope["suffixData"], envelope["delta"] = "create", msd, mdelta
		modBytes := encodeStyled(generic(envelope), style)
		if c.Mod == "none" || c.Mod == "whitespace" {
			modBytes = spellDigits(modBytes) // (... and the unchanged one, spelled digit by digit, with the base as encoded)
		}

		p := testProtocol(1)
		p.Patches = append(p.Patches, "remove-also-known-as")
		p.MultihashAlgorithms = nil
		// (sizes are C07's subject: the limits are out of the way of the largest delta of this family)
		p.MaxDeltaSize, p.MaxOperationSize = 6000, 20000

		for _, a := range c.Algs {
			p.MultihashAlgorithms = append(p.MultihashAlgorithms, uint(algCode(a)))
		}

		parser := operationparser.New(p)

		type outcome struct {
			Accepted bool   `json:"accepted"`
			Suffix   string `json:"suffix,omitempty"`
			ID       string `json:"id,omitempty"`
			Error    string `json:"error,omitempty"`
		}

		parse := func(b []byte, sdOf map[string]interface{}) (o outcome) {
			defer func() {
				if r := recover(); r != nil {
					o = outcome{Error: fmt.Sprint("panic: ", r)}
				}
			}()

			// (the namespace is an argument of the call: the same parser is asked under another one first)
			other, oerr := parser.Parse("did:other:net", b)

			ns := map[string]string{"plain": "did:sidetree", "trailing_colon": "did:sidetree:", "three_parts": "did:sidetree:test", "empty_part": "did::net",
				"one_part": "sidetree", "outer_blanks": " did:sidetree "}[c.Ns]

			op, err := parser.Parse(ns, b)
			if err != nil {
				return outcome{Error: err.Error()}
			}

			// (the DID is the namespace, a colon and the suffix, whatever the namespace looks like)
			if want := ns + ":" + op.UniqueSuffix; op.ID != want {
				return outcome{Accepted: true, Suffix: op.UniqueSuffix, ID: op.ID + " under the namespace " + fmt.Sprintf("%q", ns)}
			}

			if sdOf != nil {
				if id, e := docutil.CalculateID(ns, sdOf, p.MultihashAlgorithms[0]); e != nil || id != op.ID {
					return outcome{Accepted: true, Suffix: op.UniqueSuffix, ID: fmt.Sprintf("CalculateID(%q, suffix data) = %s %v, the parser says %s", ns, id, e, op.ID)}
				}
			}

			if c.Ns != "plain" {
				// (reported relative to the plain namespace, which the comparisons below use)
				return outcome{Accepted: true, Suffix: op.UniqueSuffix, ID: "did:sidetree:" + op.UniqueSuffix}
			}

			if oerr != nil || other.ID != "did:other:net:"+other.UniqueSuffix || other.UniqueSuffix != op.UniqueSuffix {
				return outcome{Accepted: true, Suffix: op.UniqueSuffix, ID: "under did:other:net: " + fmt.Sprint(oerr, " ", other)}
			}

			return outcome{Accepted: true, Suffix: op.UniqueSuffix, ID: op.ID}
		}

		gb, gm := parse(baseBytes, sd), parse(modBytes, msd)

		col.nCases++
		k := fmt.Sprintf("selfcert:%s:ao=%d:ty=%d:h=%d:algs=%v:%s:%s", c.Patch, c.Ao, c.Ty, c.H, c.Algs, c.Mod, c.Ns)
		col.kind(k)
		col.sample(map[string]interface{}{"case": c, "base_request": string(baseBytes), "changed_request": string(modBytes)})

		fail := func(kind, detail string, exp, act interface{}) {
			col.report(mismatch{Kind: kind, Key: kind + ":" + strings.TrimPrefix(k, "selfcert:"), Case: c, Detail: detail, Expected: exp, Actual: act,
				Concrete: map[string]interface{}{"base": string(baseBytes), "changed": string(modBytes)},
				Replay:   map[string]interface{}{"cmd": append([]string{"selfcert-replay"}, args...), "stdin": string(line)}})
		}

		// the suffix term of the specification, evaluated with the reference primitives
		sfxAlg := algCode(c.Expected.SuffixAlg)
		wantBase := refModelHash(sd, sfxAlg)

		switch {
		case gb.Accepted != c.Expected.BaseAccepted:
			fail("base-verdict", gb.Error, map[string]interface{}{"accepted": c.Expected.BaseAccepted}, gb)
		case gb.Accepted && (gb.Suffix != wantBase || gb.ID != "did:sidetree:"+wantBase):
			fail("suffix", "suffix is not B64(MH(a, H(a, JCS(suffixData))))", map[string]interface{}{"suffix": wantBase}, gb)
		case gm.Accepted != c.Expected.Accepted:
			fail("changed-verdict", gm.Error, map[string]interface{}{"accepted": c.Expected.Accepted}, gm)
		case gm.Accepted && (gm.Suffix == gb.Suffix) != c.Expected.SameDID:
			fail("did-relation", "", map[string]interface{}{"same_did": c.Expected.SameDID}, map[string]interface{}{"base": gb, "changed": gm})
		case gm.Accepted && gm.Suffix != refModelHash(msd, sfxAlg):
			fail("suffix", "suffix of the changed request", map[string]interface{}{"suffix": refModelHash(msd, sfxAlg)}, gm)
		}

		// the anchored form of a request is the same request: it denotes the same DID - also when the request carries, in its
		// suffix data, members that do not survive into the anchored form (null, empty, unknown, other letter case)
		if c.Mod == "none" && gb.Accepted {
			variants := map[string]map[string]interface{}{"as it is": sd}

			with := func(label, name string, v interface{}, drop string) {
				m := map[string]interface{}{}
				for k2, v2 := range sd {
					if k2 != drop {
						m[k2] = v2
					}
				}

				m[name] = v
				variants[label] = m
			}

			if _, has := sd["anchorOrigin"]; !has {
				with("anchorOrigin null", "anchorOrigin", nil, "")
			}

			if _, has := sd["type"]; !has {
				with("type empty", "type", "", "")
			}

			with("unknown member", "x-unknown", map[string]interface{}{"a": 1}, "")
			with("member name in another letter case", "RecoveryCommitment", sd["recoveryCommitment"], "recoveryCommitment")

			for label, vsd := range variants {
				vb := encodeStyled(generic(map[string]interface{}{"type": "create", "suffixData": vsd, "delta": delta}), "none")

				op1, e1 := parser.ParseOperation("did:sidetree", vb, false)
				if e1 != nil {
					continue // (whether such a request is accepted is C07's subject)
				}

				anch, e2 := model.GetAnchoredOperation(op1)
				if e2 != nil {
					fail("anchored-form", label+": "+e2.Error(), nil, nil)
					break
				}

				op2, e3 := parser.ParseOperation("did:sidetree", anch.OperationRequest, true)
				if e3 != nil || op2.UniqueSuffix != op1.UniqueSuffix || anch.UniqueSuffix != op1.UniqueSuffix || op2.ID != op1.ID {
					fail("anchored-form", "suffix data with "+label+": the request and its anchored form denote different DIDs ("+fmt.Sprint(e3)+")",
						map[string]interface{}{"suffix": op1.UniqueSuffix}, map[string]interface{}{"anchored": anch.UniqueSuffix, "reparsed": fmt.Sprint(op2)})
					break
				}
			}
		}
	})

	col.finish()
}
