package main

// ParserRules family (C07, acceptance part of C03): requests x relative protocol configurations.

import (
	"bufio"
	"bytes"
	"encoding/json"
	"fmt"
	"math/rand"
	"os"
	"reflect"
	"strings"

	"github.com/trustbloc/sidetree-go/pkg/api/protocol"
	"github.com/trustbloc/sidetree-go/pkg/versions/1_0/operationparser"
)

type pCfg struct {
	OpSize       int    `json:"opSize"`
	DeltaSize    int    `json:"deltaSize"`
	HashLen      int    `json:"hashLen"`
	Algs         string `json:"algs"`
	PatchEnabled bool   `json:"patchEnabled"`
	SigAlg       bool   `json:"sigAlg"`
	KeyAlg       bool   `json:"keyAlg"`
	Nonce        string `json:"nonce"`
	NS           string `json:"ns"`
}

type pReturned struct {
	Type   string `json:"type"`
	Suffix string `json:"suffix"`
	Ao     int    `json:"ao"`
}

type pCase struct {
	Op       ROp       `json:"op"`
	Cfg      pCfg      `json:"cfg"`
	Accept   bool      `json:"accept"`
	Returned pReturned `json:"returned"`
}

func without(l []string, drop ...string) []string {
	var out []string

	for _, x := range l {
		keep := true

		for _, d := range drop {
			if x == d {
				keep = false
			}
		}

		if keep {
			out = append(out, x)
		}
	}

	return out
}

// protocolFor builds the protocol the configuration record describes, relative to the request.
func protocolFor(c *Concretizer, o *ROp, cfg *pCfg, req []byte) protocol.Protocol {
	p := testProtocol(1)

	used, other := uint(algCode(o.H)), uint(sha2_256)
	if used == sha2_256 {
		other = sha2_512
	}

	switch cfg.Algs {
	case "both":
		p.MultihashAlgorithms = []uint{used, other}
	case "both_rev":
		p.MultihashAlgorithms = []uint{other, used}
	case "only_used":
		p.MultihashAlgorithms = []uint{used}
	case "only_other":
		p.MultihashAlgorithms = []uint{other}
	}

	std := 46 // base64url length of a sha2-256 multihash
	if used == sha2_512 || o.Nuv == "reuse_signing_other_alg" || o.Wf == "reuse_other_alg" {
		std = 88 // the longest regular hash of the request
	}

	p.MaxOperationHashLength = uint(std + cfg.HashLen)
	p.MaxOperationSize = uint(len(req) + cfg.OpSize)

	d := c.buildDelta(o)

	// the delta as the request carries it
	var carried struct {
		Delta map[string]interface{} `json:"delta"`
	}

	if json.Unmarshal(req, &carried) == nil && carried.Delta != nil {
		d = carried.Delta
	}

	if d != nil {
		p.MaxDeltaSize = uint(len(refJCSSimple(d)) + cfg.DeltaSize)

		if !cfg.PatchEnabled && o.way(2) == 1 {
			// no action at all is enabled
			p.Patches = nil
		} else if !cfg.PatchEnabled {
			var usedActions []string

			if l, ok := d["patches"].([]interface{}); ok {
				for _, x := range l {
					if m, ok := x.(map[string]interface{}); ok {
						if a, ok := m["action"].(string); ok {
							usedActions = append(usedActions, a)
						}
					}
				}
			}

			p.Patches = without(p.Patches, usedActions...)
		}
	}

	if !cfg.SigAlg {
		p.SignatureAlgorithms = without(p.SignatureAlgorithms, algOf(o.Kt))
	}

	if !cfg.KeyAlg {
		p.KeyAlgorithms = without(p.KeyAlgorithms, crvOf(o.Kt))
	}

	if cfg.Nonce == "wrongsize" {
		p.NonceSize = 17
	}

	if cfg.Nonce == "zero" {
		p.NonceSize = 0
	}

	return p
}

type parseOutcome struct {
	Accepted bool        `json:"accepted"`
	Error    string      `json:"error,omitempty"`
	Type     string      `json:"type,omitempty"`
	Suffix   string      `json:"suffix,omitempty"`
	ID       string      `json:"id,omitempty"`
	SameReq  bool        `json:"same_request_bytes,omitempty"`
	Ao       interface{} `json:"anchor_origin,omitempty"`
	Panicked string      `json:"panicked,omitempty"`
	Shapes   bool        `json:"shapes_judged_differently,omitempty"`
}

// evalParse concretizes (request, configuration), runs the real parser and says what an accepted
// request must carry (computed with the reference primitives).
func evalParse(c *Concretizer, pc *pCase) (got parseOutcome, want parseOutcome, req []byte) {
	o := pc.Op
	o.KeyNonce = pc.Cfg.Nonce != "none"

	// every fourth request for an existing DID names it by a suffix that begins like a DID of the parser's namespace: the
	// suffix of a request is the text the request says, nothing is taken off it
	if o.Type != "create" && o.way(4) == 3 {
		o.SuffixPrefix = pc.Cfg.NS + ":"
	}

	req, _ = c.buildRequest(&o, 0)

	// the same request with insignificant white space around it (a third of the requests each way): the size
	// limit and the bytes reported back are those of the request as it was sent
	switch o.way(3) {
	case 1:
		req = append(append([]byte("\n  "), req...), " \r\n"...)
	case 2:
		req = append(req, "\n\n\n"...)
	}

	p := protocolFor(c, &o, &pc.Cfg, req)
	orig := append([]byte(nil), req...)

	func() {
		defer func() {
			if r := recover(); r != nil {
				got.Panicked = fmt.Sprint(r)
			}
		}()

		parser := operationparser.New(p)

		// the same bytes are first read the way anchored operations are (batch mode: most rules are off), on the
		// SAME parser: what that call learnt must not soften the judgement of the request
		_, _ = parser.ParseOperation(pc.Cfg.NS, req, true) //nolint:errcheck
		_, _ = parser.GetRevealValue(req)                  //nolint:errcheck

		op, err := parser.Parse(pc.Cfg.NS, req)

		// a rule whose violation has several concrete shapes (a foreign signed suffix; a reveal value or delta hash that is
		// not the right one): every shape is judged like the first
		if !o.Sfx || o.Reveal == "other" {
			for w := 1; w <= 6; w++ {
				shaped := o
				shaped.ForceWay = w
				req2, _ := c.buildRequest(&shaped, 0)

				if _, err2 := operationparser.New(protocolFor(c, &shaped, &pc.Cfg, req2)).Parse(pc.Cfg.NS, req2); (err2 == nil) != (err == nil) {
					got.Error = fmt.Sprintf("shape %d of the same deviation is judged differently: %v / %v", w, err, err2)
					got.Accepted = err == nil
					got.Shapes = true

					return
				}
			}
		}

		if err != nil {
			got.Error = err.Error()
			return
		}

		got.Accepted = true
		got.Type = string(op.Type)
		got.Suffix = op.UniqueSuffix
		got.ID = op.ID
		got.SameReq = bytes.Equal(op.OperationRequest, orig)
		got.Ao = op.AnchorOrigin
	}()

	want.Accepted = pc.Accept
	if pc.Accept {
		want.Type = pc.Returned.Type
		want.SameReq = true
		want.Ao = anchorOrigin(pc.Returned.Ao)

		if o.Type == "create" {
			// Suffix = B64(MH(a, H(a, JCS(suffixData)))) with a = the first configured algorithm
			var r struct {
				SuffixData map[string]interface{} `json:"suffixData"`
			}

			_ = json.Unmarshal(req, &r)
			want.Suffix = refModelHash(r.SuffixData, int(p.MultihashAlgorithms[0]))
		} else {
			want.Suffix = o.SuffixPrefix + testSuffix
		}

		want.ID = pc.Cfg.NS + ":" + want.Suffix
	}

	return got, want, req
}

func parserKey(pc *pCase) string {
	o := &pc.Op
	c := &pc.Cfg

	return fmt.Sprintf("parse:%s:wf=%s:reveal=%s:sig=%s:dhash=%v:dv=%s:sfx=%v:nuv=%s:ao=%d|cfg:%d,%d,%d,%s,%v,%v,%v,%s",
		o.Type, o.Wf, o.Reveal, o.Sig, o.Dhash, o.Dv, o.Sfx, o.Nuv, o.Ao, c.OpSize, c.DeltaSize, c.HashLen, c.Algs, c.PatchEnabled, c.SigAlg, c.KeyAlg, c.Nonce)
}

func sameOutcome(got, want parseOutcome) bool {
	if got.Panicked != "" || got.Shapes || got.Accepted != want.Accepted {
		return false
	}

	if !want.Accepted {
		return true
	}

	g, w := got, want
	g.Error, w.Error = "", ""

	// anchor origins are arbitrary JSON: compare them as JSON
	ga, wa := digestValue(g.Ao), digestValue(w.Ao)
	g.Ao, w.Ao = nil, nil

	return reflect.DeepEqual(g, w) && ga == wa
}

func parserReplay(args []string) {
	fl := parseFlags(args)
	conc := newConcretizer(int64(fl.int("seed", envInt("VERIF_SEED", 1))))
	col := newCollector("parserrules", fl.str("only", ""))
	seen := map[string]bool{}
	first := true

	var accepted int64

	readTagged(os.Stdin, "CASE", fl.str("tlclog", ""), func(line []byte) {
		if seen[string(line)] {
			return
		}

		seen[string(line)] = true

		var pc pCase
		if err := json.Unmarshal(line, &pc); err != nil {
			fatalf("bad case: %v: %.300s", err, line)
		}

		if first {
			first = false

			if f := fl.str("first-edge", ""); f != "" {
				_ = os.WriteFile(f, append(line, '\n'), 0o644)
			}
		}

		got, want, req := evalParse(conc, &pc)
		col.nCases++
		col.kind(parserKey(&pc))
		col.sample(map[string]interface{}{"op": pc.Op, "cfg": pc.Cfg, "expected": want, "request": string(req)})

		if got.Accepted {
			accepted++
		}

		if !sameOutcome(got, want) {
			kind := "verdict"
			if got.Accepted == want.Accepted && got.Panicked == "" {
				kind = "returned-operation"
			}

			if got.Panicked != "" {
				kind = "panic"
			}

			col.report(mismatch{Kind: kind, Key: kind + ":" + parserKey(&pc), Case: map[string]interface{}{"op": pc.Op, "cfg": pc.Cfg},
				Expected: want, Actual: got, Concrete: string(req),
				Replay: map[string]interface{}{"cmd": append([]string{"parser-replay"}, args...), "stdin": string(line)}})
		}
	})

	// the maximum hash length applies to every hash of a request, each at its own length: requests whose delta hash is
	// computed with the other configured algorithm (88 characters next to hashes of 46, and the other way round) under
	// limits on either side of each length
	for _, typ := range []string{"update", "recover"} {
		for _, h := range []int{256, 512} {
			for _, limit := range []uint{45, 46, 60, 87, 88, 100} {
				o := ROp{Type: typ, Wf: "ok", Reveal: "ok", Sig: "ok", Dhash: true, Dv: "ok", Sfx: true, Delta: Delta{"addkey", 1}, Nu: 1, Nr: 2,
					Kt: []string{"p256", "ed", "k1"}[int(limit)%3], H: h, Nuv: "norm", DhOtherAlg: true}
				req, _ := conc.buildRequest(&o, 0)

				p := testProtocol(1)
				p.MaxOperationHashLength = limit
				p.MaxOperationSize, p.MaxDeltaSize = 100000, 50000

				_, err := operationparser.New(p).Parse("did:sidetree", req)
				want := limit >= 88 // (the longest hash of the request: one of them is a SHA-512 multihash)
				col.nCases++
				col.kind(fmt.Sprintf("sizelimits:mixed-hashes:%s:h=%d:limit=%d", typ, h, limit))

				if (err == nil) != want {
					col.report(mismatch{Kind: "size-verdict", Key: fmt.Sprintf("size-verdict:mixed-hashes:%s:h=%d:limit=%d", typ, h, limit), Case: o,
						Detail:   fmt.Sprintf("hashes of 46 and 88 characters in one request, maximum hash length %d: %v", limit, err),
						Expected: map[string]interface{}{"accepted": want}, Actual: map[string]interface{}{"accepted": err == nil},
						Concrete: string(req), Replay: map[string]interface{}{"cmd": append([]string{"sizelimits-replay"}, args...), "stdin": ""}})
				}
			}
		}
	}

	col.sum.Extra["accepted"] = accepted
	col.finish()
}

// parserTrace: random requests x random configurations (any number of deviations), logged for
// ParserRulesTrace.tla.
func parserTrace(args []string) {
	fl := parseFlags(args)
	seed := int64(fl.int("seed", envInt("VERIF_SEED", 1)))
	n := fl.int("n", 1000)
	conc := newConcretizer(seed)
	r := rand.New(rand.NewSource(seed))

	f, err := os.Create(fl.str("o", "parser_trace.ndjson"))
	if err != nil {
		fatalf("%v", err)
	}

	defer f.Close()

	w := bufio.NewWriter(f)
	defer w.Flush()

	enc := json.NewEncoder(w)
	three := func() int { return []int{-1, 0, 0, 0, 1}[r.Intn(5)] }

	for i := 0; i < n; i++ {
		o := randomOp(r, 1, allKTs)

		// what the parser specification does not enumerate
		for o.Dv == "toolarge" {
			o.Dv = "ok"
		}

		if o.Sig != "ok" && o.Sig != "bitflip" && o.Sig != "otherkey" {
			o.Sig = "ok"
		}

		o.Nuv = "norm"
		if o.Nu == o.Nr {
			o.Nuv = "equal"
		}

		if o.Type == "update" && r.Float64() < 0.08 {
			o.Nuv = []string{"reuse_signing", "reuse_signing_other_alg"}[r.Intn(2)]
		}

		cfg := pCfg{OpSize: three(), DeltaSize: three(), HashLen: three(),
			Algs:         []string{"both", "both", "both_rev", "only_used", "only_other"}[r.Intn(5)],
			PatchEnabled: r.Float64() < 0.9, SigAlg: r.Float64() < 0.9, KeyAlg: r.Float64() < 0.9,
			Nonce: []string{"none", "none", "ok", "ok", "wrongsize"}[r.Intn(5)],
			NS:    []string{"did:sidetree", "did:ion:test"}[r.Intn(2)]}

		pc := pCase{Op: o, Cfg: cfg}
		pc.Accept = true // so that evalParse computes what an accepted request must carry
		pc.Returned = pReturned{Type: o.Type}

		if o.Type == "create" || o.Type == "recover" {
			pc.Returned.Ao = o.Ao
		}

		got, want, _ := evalParse(conc, &pc)

		// the returned operation is faithful (compared here with the reference values; the
		// specification decides the verdict)
		faithful := true
		if got.Accepted {
			faithful = sameOutcome(got, want)
		}

		_ = enc.Encode(map[string]interface{}{"event": "Parse", "op": o, "cfg": cfg, "accepted": got.Accepted,
			"faithful": faithful, "bad": got.Panicked})
	}
}

// ---- SizeLimits.tla: maximum operation size x maximum delta size, for ordinary and expanding deltas ----

type slCase struct {
	C struct {
		Type     string `json:"type"`
		Shape    string `json:"shape"`
		MaxOp    string `json:"maxOp"`
		MaxDelta string `json:"maxDelta"`
	} `json:"c"`
	Accept bool `json:"accept"`
}

func sizeLimitsReplay(args []string) {
	fl := parseFlags(args)
	seed := int64(fl.int("seed", envInt("VERIF_SEED", 1)))
	col := newCollector("sizelimits", fl.str("only", ""))
	conc := newConcretizer(seed)
	seen := map[string]bool{}
	first := true
	accepted := 0

	readTagged(os.Stdin, "CASE", fl.str("tlclog", ""), func(line []byte) {
		if seen[string(line)] {
			return
		}

		seen[string(line)] = true

		var sc slCase
		if err := json.Unmarshal(line, &sc); err != nil {
			fatalf("bad case: %v: %.300s", err, line)
		}

		if first {
			first = false

			if f := fl.str("first-edge", ""); f != "" {
				_ = os.WriteFile(f, append(line, '\n'), 0o644)
			}
		}

		c := sc.C
		col.nCases++

		k := fmt.Sprintf("sizelimits:%s:%s:maxOp=%s:maxDelta=%s", c.Type, c.Shape, c.MaxOp, c.MaxDelta)
		col.kind(k)

		o := ROp{Type: c.Type, Wf: "ok", Reveal: "ok", Sig: "ok", Dhash: true, Dv: "ok", Sfx: true, Delta: Delta{"addkey", 1}, Nu: 1, Nr: 2,
			Kt: []string{"p256", "ed", "k1"}[col.nCases%3], H: 256, Nuv: "norm"}
		if c.Shape == "expanding" {
			o.Dv = "expanding"
		}

		req, _ := conc.buildRequest(&o, 0)

		// the short spelling of the numbers (the same values: every hash over the canonical form stands)
		req = []byte(strings.ReplaceAll(string(req), "100000000000000000000", "1e20"))

		var carried struct {
			Delta map[string]interface{} `json:"delta"`
		}

		if err := json.Unmarshal(req, &carried); err != nil || carried.Delta == nil {
			fatalf("sizelimits: request without delta: %v", err)
		}

		r, d := len(req), len(refJCSSimple(carried.Delta))
		if (c.Shape == "expanding") != (d > r+1) || (c.Shape == "ordinary" && d >= r-1) {
			fatalf("sizelimits: %s delta of %d canonical bytes in a request of %d bytes", c.Shape, d, r)
		}

		val := map[string]int{"R-1": r - 1, "R": r, "R+1": r + 1, "D-1": d - 1, "D": d, "D+1": d + 1}

		p := testProtocol(1)
		p.MaxOperationSize, p.MaxDeltaSize = uint(val[c.MaxOp]), uint(val[c.MaxDelta])

		_, err := operationparser.New(p).Parse("did:sidetree", req)
		col.sample(map[string]interface{}{"case": c, "request_bytes": r, "canonical_delta_bytes": d, "accepted": err == nil})

		if err == nil {
			accepted++
		}

		if (err == nil) != sc.Accept {
			col.report(mismatch{Kind: "size-verdict", Key: "size-verdict:" + strings.TrimPrefix(k, "sizelimits:"), Case: c,
				Detail:   fmt.Sprintf("request of %d bytes, canonical delta of %d bytes, MaxOperationSize %d, MaxDeltaSize %d: %v", r, d, p.MaxOperationSize, p.MaxDeltaSize, err),
				Expected: map[string]interface{}{"accepted": sc.Accept}, Actual: map[string]interface{}{"accepted": err == nil},
				Replay: map[string]interface{}{"cmd": append([]string{"sizelimits-replay"}, args...), "stdin": string(line)}})
		}
	})

	col.sum.Extra["accepted"] = accepted
	col.finish()
}
