package main

// ClientDoc family (extension specification ClientDoc.tla): the caller's document (sidetree/doc.Doc) -> the
// document of the request.

import (
	"encoding/json"
	"fmt"
	"os"
	"reflect"
	"sort"
	"strings"

	gojose "github.com/go-jose/go-jose/v3"
	docdid "github.com/trustbloc/did-go/doc/did"
	"github.com/trustbloc/did-go/doc/did/endpoint"
	"github.com/trustbloc/kms-go/doc/jose/jwk"

	sdoc "github.com/trustbloc/sidetree-go/pkg/vdr/sidetreelongform/sidetree/doc"
)

type cdCase struct {
	C struct {
		Kind     string `json:"kind"`
		Mat      string `json:"mat"`
		Type     string `json:"type"`
		Purposes string `json:"purposes"`
		Props    string `json:"props"`
		Endpoint string `json:"endpoint"`
		Priority string `json:"priority"`
		Lists    string `json:"lists"`
		Keys     int    `json:"keys"`
		Svcs     int    `json:"svcs"`
		Aka      int    `json:"aka"`
		Broken   bool   `json:"broken"`
	} `json:"c"`
	Ok           bool     `json:"ok"`
	Members      []string `json:"members"`
	FromProperty []string `json:"fromProperty"`
}

func clientdocReplay(args []string) {
	fl := parseFlags(args)
	seed := int64(fl.int("seed", envInt("VERIF_SEED", 1)))
	pool := newKeyPool(seed)
	col := newCollector("clientdoc", fl.str("only", ""))
	seen := map[string]bool{}
	first := true

	readTagged(os.Stdin, "CASE", fl.str("tlclog", ""), func(line []byte) {
		if seen[string(line)] {
			return
		}

		seen[string(line)] = true

		var cc cdCase
		if err := json.Unmarshal(line, &cc); err != nil {
			fatalf("bad case: %v: %.300s", err, line)
		}

		if first {
			first = false

			if f := fl.str("first-edge", ""); f != "" {
				_ = os.WriteFile(f, append(line, '\n'), 0o644)
			}
		}

		c := cc.C
		col.nCases++

		k := fmt.Sprintf("clientdoc:%s:%s:%s:%s:%s:%s:%s:%s:%d/%d/%d/%v", c.Kind, c.Mat, c.Type, c.Purposes, c.Props, c.Endpoint, c.Priority, c.Lists, c.Keys, c.Svcs, c.Aka, c.Broken)
		col.kind(k)

		rp := map[string]interface{}{"cmd": append([]string{"clientdoc-replay"}, args...), "stdin": string(line)}
		fail := func(kind, detail string, e, a interface{}) {
			col.report(mismatch{Kind: kind, Key: kind + ":" + strings.TrimPrefix(k, "clientdoc:"), Case: c, Detail: detail, Expected: e, Actual: a, Replay: rp})
		}

		defer func() {
			if r := recover(); r != nil {
				fail("panic", fmt.Sprint(r), nil, nil)
			}
		}()

		kts := []string{"p256", "ed", "k1", "p384"}
		key := pool.Get(kts[int(col.nCases)%len(kts)], "cd-key")
		goodJWK := jwk.JWK{JSONWebKey: gojose.JSONWebKey{Key: key.Pub}}

		membersOf := func(m map[string]interface{}) []string {
			var out []string
			for name := range m {
				out = append(out, name)
			}

			sort.Strings(out)

			return out
		}

		sorted := func(l []string) []string {
			out := append([]string{}, l...)
			sort.Strings(out)

			return out
		}

		switch c.Kind {
		case "key":
			pk := sdoc.PublicKey{ID: "key-1", Type: c.Type}

			switch c.Purposes {
			case "empty":
				pk.Purposes = []string{}
			case "one":
				pk.Purposes = []string{"authentication"}
			case "two":
				pk.Purposes = []string{"assertionMethod", "authentication"}
			}

			if c.Mat == "jwk" || c.Mat == "both" {
				pk.JWK = goodJWK
			}

			if c.Mat == "b58" || c.Mat == "both" {
				pk.B58Key = "4WSbrgGeR27VH6S57cD1VRmQRNZZ6LNEUat5fC7qryfm"
			}

			before := digestJSON([]interface{}{pk.ID, pk.Type, pk.Purposes, pk.B58Key})
			raw, err := sdoc.PopulateRawPublicKeys([]sdoc.PublicKey{pk})

			if (err == nil) != cc.Ok {
				fail("verdict", "", map[string]interface{}{"ok": cc.Ok}, map[string]interface{}{"ok": err == nil, "error": fmt.Sprint(err)})
				return
			}

			if digestJSON([]interface{}{pk.ID, pk.Type, pk.Purposes, pk.B58Key}) != before {
				fail("input-changed", "the caller's key was modified", nil, nil)
				return
			}

			if err != nil {
				return
			}

			if len(raw) != 1 {
				fail("members", "one key in, one key out", 1, len(raw))
				return
			}

			got := generic(raw[0]).(map[string]interface{})
			col.sample(map[string]interface{}{"case": c, "raw": got})

			want := map[string]interface{}{"id": "key-1", "type": c.Type, "purposes": generic(pk.Purposes)}

			if c.Mat == "jwk" || c.Mat == "both" {
				want["publicKeyJwk"] = map[string]interface{}{"kty": key.JWK.Kty, "crv": key.JWK.Crv, "x": key.JWK.X}
				if key.JWK.Y != "" {
					want["publicKeyJwk"].(map[string]interface{})["y"] = key.JWK.Y
				}
			} else {
				want["publicKeyBase58"] = pk.B58Key
			}

			if !reflect.DeepEqual(membersOf(got), sorted(cc.Members)) {
				fail("members", "", sorted(cc.Members), membersOf(got))
				return
			}

			if !reflect.DeepEqual(got, want) {
				fail("values", "", want, got)
			}
		case "service":
			svc := docdid.Service{ID: "svc-1", Type: "ServiceType"}

			switch c.Props {
			case "custom":
				svc.Properties = map[string]interface{}{"custom": "v"}
			case "shadowing":
				svc.Properties = map[string]interface{}{"custom": "v", "id": "property-id", "type": "property-type", "priority": 99, "serviceEndpoint": "https://property.example/"}
			}

			switch c.Endpoint {
			case "uri":
				svc.ServiceEndpoint = endpoint.NewDIDCommV1Endpoint("https://svc.example/a?b=1&c=2")
			case "objects":
				svc.ServiceEndpoint = endpoint.NewDIDCommV2Endpoint([]endpoint.DIDCommV2Endpoint{{URI: "https://svc.example/v2", Accept: []string{"didcomm/v2"}, RoutingKeys: []string{"did:example:1#k"}}})
			}

			switch c.Priority {
			case "zero":
				svc.Priority = 0
			case "seven":
				svc.Priority = 7
			}

			if c.Lists == "filled" {
				svc.RecipientKeys = []string{"did:example:1#r1", "did:example:1#r2"}
				svc.RoutingKeys = []string{"did:example:1#k"}
				svc.Accept = []string{"didcomm/v2", "didcomm/aip2;env=rfc19"}
			} else if c.Priority == "zero" {
				// (empty, not absent)
				svc.RecipientKeys, svc.RoutingKeys, svc.Accept = []string{}, []string{}, []string{}
			}

			propsBefore := digestJSON(svc.Properties)
			raw, err := sdoc.PopulateRawServices([]docdid.Service{svc})

			if err != nil || len(raw) != 1 {
				fail("verdict", fmt.Sprint(err), "one raw service", len(raw))
				return
			}

			if digestJSON(svc.Properties) != propsBefore {
				fail("input-changed", "the Properties map of the caller's service was written to", nil, generic(svc.Properties))
				return
			}

			got := generic(raw[0]).(map[string]interface{})
			col.sample(map[string]interface{}{"case": c, "raw": got})

			if !reflect.DeepEqual(membersOf(got), sorted(cc.Members)) {
				fail("members", "", sorted(cc.Members), membersOf(got))
				return
			}

			fromProp := map[string]bool{}
			for _, m := range cc.FromProperty {
				fromProp[m] = true
			}

			ep, _ := svc.ServiceEndpoint.MarshalJSON()
			own := map[string]interface{}{"id": "svc-1", "type": "ServiceType", "serviceEndpoint": generic(json.RawMessage(ep)), "priority": generic(svc.Priority),
				"recipientKeys": generic(svc.RecipientKeys), "routingKeys": generic(svc.RoutingKeys), "accept": generic(svc.Accept)}

			for name, v := range got {
				want := own[name]
				if fromProp[name] || name == "custom" {
					want = generic(svc.Properties[name])
				}

				if !reflect.DeepEqual(v, want) {
					fail("values", "member "+name, want, v)
					return
				}
			}
		case "doc":
			d := &sdoc.Doc{}

			for i := 0; i < c.Keys; i++ {
				pk := sdoc.PublicKey{ID: fmt.Sprintf("key-%d", i+1), Type: "JsonWebKey2020", Purposes: []string{"authentication"}, JWK: goodJWK}
				if i == 1 && c.Broken {
					pk.JWK = jwk.JWK{}
				}

				d.PublicKey = append(d.PublicKey, pk)
			}

			for i := 0; i < c.Svcs; i++ {
				d.Service = append(d.Service, docdid.Service{ID: "svc-1", Type: "T", ServiceEndpoint: endpoint.NewDIDCommV1Endpoint("https://svc.example/")})
			}

			for i := 0; i < c.Aka; i++ {
				d.AlsoKnownAs = append(d.AlsoKnownAs, fmt.Sprintf("https://aka%d.example/", i+1))
			}

			b, err := d.JSONBytes()
			if (err == nil) != cc.Ok {
				fail("verdict", "", map[string]interface{}{"ok": cc.Ok}, map[string]interface{}{"ok": err == nil, "error": fmt.Sprint(err)})
				return
			}

			if err != nil {
				return
			}

			var got map[string]interface{}
			if e := json.Unmarshal(b, &got); e != nil {
				fail("members", "JSONBytes is not a JSON object: "+e.Error(), nil, string(b))
				return
			}

			col.sample(map[string]interface{}{"case": c, "document": got})

			if !reflect.DeepEqual(membersOf(got), sorted(cc.Members)) && !(len(got) == 0 && len(cc.Members) == 0) {
				fail("members", "", sorted(cc.Members), membersOf(got))
				return
			}

			count := func(name string) int { l, _ := got[name].([]interface{}); return len(l) }
			if count("publicKey") != c.Keys || count("service") != c.Svcs || count("alsoKnownAs") != c.Aka {
				fail("values", "every key / service / URI of the caller, once", []int{c.Keys, c.Svcs, c.Aka}, []int{count("publicKey"), count("service"), count("alsoKnownAs")})
				return
			}

			for i, u := range d.AlsoKnownAs {
				if got["alsoKnownAs"].([]interface{})[i] != u {
					fail("values", "also-known-as in the caller's order", d.AlsoKnownAs, got["alsoKnownAs"])
					return
				}
			}
		default:
			fatalf("unknown kind %q", c.Kind)
		}
	})

	col.finish()
}
