package main

// ClientApi family (extension specification ClientApi.tla): the four calls of the Sidetree client, from the
// options a caller passes to the request that leaves the client.

import (
	"encoding/json"
	"errors"
	"fmt"
	"os"
	"reflect"
	"strings"

	gojose "github.com/go-jose/go-jose/v3"
	docdid "github.com/trustbloc/did-go/doc/did"
	"github.com/trustbloc/did-go/doc/did/endpoint"
	"github.com/trustbloc/kms-go/doc/jose/jwk"

	"github.com/trustbloc/sidetree-go/pkg/vdr/sidetreelongform/sidetree"
	sdoc "github.com/trustbloc/sidetree-go/pkg/vdr/sidetreelongform/sidetree/doc"
	"github.com/trustbloc/sidetree-go/pkg/vdr/sidetreelongform/sidetree/option/create"
	"github.com/trustbloc/sidetree-go/pkg/vdr/sidetreelongform/sidetree/option/deactivate"
	"github.com/trustbloc/sidetree-go/pkg/vdr/sidetreelongform/sidetree/option/recovery"
	"github.com/trustbloc/sidetree-go/pkg/vdr/sidetreelongform/sidetree/option/update"
)

type caCall struct {
	API    string   `json:"api"`
	Has    []string `json:"has"`
	Did    string   `json:"did"`
	Commit string   `json:"commit"`
	Groups []string `json:"groups"`
	Alg    string   `json:"alg"`
	Reuse  bool     `json:"reuse"`
	Origin bool     `json:"origin"`
	Resp   string   `json:"resp"`
}

type caReq struct {
	Type      string   `json:"type"`
	Suffix    string   `json:"suffix"`
	Patches   []string `json:"patches"`
	RevealAlg string   `json:"revealAlg"`
	NextAlg   string   `json:"nextAlg"`
	Origin    bool     `json:"origin"`
}

type caCase struct {
	Call  caCall `json:"call"`
	Req   caReq  `json:"req"`
	Sends int    `json:"sends"`
	Res   string `json:"res"`
}

const (
	caSuffix = "EiDahaOGH-liLLdDtTxEAdc8i-cfCz-WUcQdRJheMVNn3A"
	caState  = "eyJkZWx0YSI6e319"
	caOrigin = "https://origin.example/services/orb"
)

// the algorithm a multihash string was computed with
func algOfMultihash(s string) string {
	b, err := b64dec(s)
	if err != nil || len(b) < 2 {
		return "unreadable"
	}

	switch {
	case b[0] == 0x12 && int(b[1]) == 32 && len(b) == 34:
		return "sha256"
	case b[0] == 0x13 && int(b[1]) == 64 && len(b) == 66:
		return "sha512"
	}

	return "other"
}

func clientapiReplay(args []string) {
	fl := parseFlags(args)
	seed := int64(fl.int("seed", envInt("VERIF_SEED", 1)))
	pool := newKeyPool(seed)
	col := newCollector("clientapi", fl.str("only", ""))
	seen := map[string]bool{}
	first := true
	n := 0

	readTagged(os.Stdin, "CASE", fl.str("tlclog", ""), func(line []byte) {
		if seen[string(line)] {
			return
		}

		seen[string(line)] = true

		var c caCase
		if err := json.Unmarshal(line, &c); err != nil {
			fatalf("bad case: %v: %.300s", err, line)
		}

		if first {
			first = false

			if f := fl.str("first-edge", ""); f != "" {
				_ = os.WriteFile(f, append(line, '\n'), 0o644)
			}
		}

		col.nCases++
		n++

		call := c.Call
		k := fmt.Sprintf("clientapi:%s:has=%s:did=%s:commit=%s:groups=%s:alg=%s:reuse=%v:origin=%v:resp=%s", call.API, strings.Join(call.Has, "+"), call.Did,
			call.Commit, strings.Join(call.Groups, "+"), call.Alg, call.Reuse, call.Origin, call.Resp)
		col.kind(fmt.Sprintf("clientapi:%s:has=%d:did=%s:commit=%s:groups=%d:reuse=%v:resp=%s", call.API, len(call.Has), call.Did, call.Commit, len(call.Groups),
			call.Reuse, call.Resp))

		rp := map[string]interface{}{"cmd": append([]string{"clientapi-replay"}, args...), "stdin": string(line)}
		fail := func(kind, detail string, e, a interface{}) {
			col.report(mismatch{Kind: kind, Key: kind + ":" + strings.TrimPrefix(k, "clientapi:"), Case: c.Call, Detail: detail, Expected: e, Actual: a, Replay: rp})
		}

		defer func() {
			if r := recover(); r != nil {
				fail("panic", fmt.Sprint(r), nil, nil)
			}
		}()

		has := map[string]bool{}
		for _, h := range call.Has {
			has[h] = true
		}

		// keys of several types, by case number
		kts := []string{"ed", "p256", "p384", "k1", "p521"}
		signerKey := pool.Get(kts[n%len(kts)], "ca-signer")
		nextUpd := pool.Get(kts[(n+1)%len(kts)], "ca-next-upd")
		nextRec := pool.Get(kts[(n+2)%len(kts)], "ca-next-rec")

		if call.Reuse {
			switch call.API {
			case "create":
				nextUpd = nextRec
			case "update":
				nextUpd = signerKey
			case "recover":
				nextRec = signerKey
			}
		}

		algCode := map[string]uint{"sha256": sha2_256, "sha512": sha2_512}
		commitment := "this-is-no-multihash"

		if code, ok := algCode[call.Commit]; ok {
			commitment = refCommitment(jwkMap(signerKey.JWK), int(code))
		}

		did := map[string]string{"short": "did:ion:" + caSuffix, "no_colon": caSuffix, "trailing_colon": "did:ion:", "long": "did:ion:" + caSuffix + ":" + caState}[call.Did]

		var sent [][]byte

		response := map[string]string{
			"resolution": `{"@context":"https://w3id.org/did-resolution/v1","didDocument":{"@context":["https://www.w3.org/ns/did/v1"],"id":"did:ion:` + caSuffix + `"},"didDocumentMetadata":{"canonicalId":"did:ion:` + caSuffix + `"}}`,
			"document":   `{"@context":["https://www.w3.org/ns/did/v1"],"id":"did:ion:` + caSuffix + `"}`,
			"garbage":    `this is not JSON`,
		}

		send := func(req []byte, _ sidetree.GetEndpointsFunc) ([]byte, error) {
			sent = append(sent, append([]byte(nil), req...))

			if call.Resp == "failure" {
				return nil, errors.New("node unreachable")
			}

			return []byte(response[call.Resp]), nil
		}

		cl := sidetree.New(sidetree.WithSidetreeOperationRequestFnc(send))
		signer := &apiSigner{libSigner: librarySigner(signerKey), jwk: signerKey.JWK}

		docKey := func(id string) *sdoc.PublicKey {
			return &sdoc.PublicKey{ID: id, Type: "JsonWebKey2020", Purposes: []string{"authentication"},
				JWK: jwk.JWK{JSONWebKey: gojose.JSONWebKey{Key: pool.Get("p256", "ca-doc-"+id).Pub}}}
		}
		docSvc := func(id string) *docdid.Service {
			return &docdid.Service{ID: id, Type: "T", ServiceEndpoint: endpoint.NewDIDCommV1Endpoint("https://" + id + ".example/")}
		}

		// options in an order that changes from case to case (the request must not depend on it)
		rotate := func(k int, l int) func(i int) int { return func(i int) int { return (i + k) % l } }

		var err error

		switch call.API {
		case "create":
			var opts []create.Option

			if has["recovery_key"] {
				opts = append(opts, create.WithRecoveryPublicKey(nextRec.Pub))
			}

			if has["update_key"] {
				opts = append(opts, create.WithUpdatePublicKey(nextUpd.Pub))
			}

			if call.Alg != "default" {
				opts = append(opts, create.WithMultiHashAlgorithm(algCode[call.Alg]))
			}

			if call.Origin {
				opts = append(opts, create.WithAnchorOrigin(caOrigin))
			}

			opts = append(opts, create.WithPublicKey(docKey("k1")), create.WithService(docSvc("s1")))

			var res *docdid.DocResolution

			res, err = cl.CreateDID(permuted(opts, rotate(n, len(opts)))...)
			if err == nil && (res == nil || res.DIDDocument == nil || res.DIDDocument.ID != "did:ion:"+caSuffix) {
				fail("answer", "a create answers with the document the node returned", "did:ion:"+caSuffix, generic(res))
				return
			}
		case "update":
			var opts []update.Option

			if has["signer"] {
				opts = append(opts, update.WithSigner(signer))
			}

			if has["next_update_key"] {
				opts = append(opts, update.WithNextUpdatePublicKey(nextUpd.Pub))
			}

			if has["commitment"] {
				opts = append(opts, update.WithOperationCommitment(commitment))
			}

			if call.Alg != "default" {
				opts = append(opts, update.WithMultiHashAlgorithm(algCode[call.Alg]))
			}

			// groups in reverse order of departure, two options per group
			for i := len(call.Groups) - 1; i >= 0; i-- {
				switch call.Groups[i] {
				case "remove-also-known-as":
					opts = append(opts, update.WithRemoveAlsoKnownAs("https://old.example/1"), update.WithRemoveAlsoKnownAs("https://old.example/2"))
				case "remove-public-keys":
					opts = append(opts, update.WithRemovePublicKey("old1"), update.WithRemovePublicKey("old2"))
				case "remove-services":
					opts = append(opts, update.WithRemoveService("oldsvc1"), update.WithRemoveService("oldsvc2"))
				case "add-also-known-as":
					opts = append(opts, update.WithAddAlsoKnownAs("https://new.example/1"), update.WithAddAlsoKnownAs("https://new.example/2"))
				case "add-services":
					opts = append(opts, update.WithAddService(docSvc("s1")), update.WithAddService(docSvc("s2")))
				case "add-public-keys":
					opts = append(opts, update.WithAddPublicKey(docKey("k1")), update.WithAddPublicKey(docKey("k2")))
				default:
					fatalf("unknown group %q", call.Groups[i])
				}
			}

			err = cl.UpdateDID(did, opts...)
		case "recover":
			var opts []recovery.Option

			if has["next_recovery_key"] {
				opts = append(opts, recovery.WithNextRecoveryPublicKey(nextRec.Pub))
			}

			if has["next_update_key"] {
				opts = append(opts, recovery.WithNextUpdatePublicKey(nextUpd.Pub))
			}

			if has["signer"] {
				opts = append(opts, recovery.WithSigner(signer))
			}

			if has["commitment"] {
				opts = append(opts, recovery.WithOperationCommitment(commitment))
			}

			if call.Alg != "default" {
				opts = append(opts, recovery.WithMultiHashAlgorithm(algCode[call.Alg]))
			}

			if call.Origin {
				opts = append(opts, recovery.WithAnchorOrigin(caOrigin))
			}

			opts = append(opts, recovery.WithPublicKey(docKey("k1")), recovery.WithService(docSvc("s1")))
			err = cl.RecoverDID(did, permuted(opts, rotate(n, len(opts)))...)
		case "deactivate":
			var opts []deactivate.Option

			if has["signer"] {
				opts = append(opts, deactivate.WithSigner(signer))
			}

			if has["commitment"] {
				opts = append(opts, deactivate.WithOperationCommitment(commitment))
			}

			err = cl.DeactivateDID(did, permuted(opts, rotate(n, len(opts)))...)
		default:
			fatalf("unknown api %q", call.API)
		}

		got := "ok"
		if err != nil {
			got = "err"
		}

		if got != c.Res {
			fail("outcome", "", c.Res, map[string]interface{}{"outcome": got, "error": fmt.Sprint(err)})
			return
		}

		if len(sent) != c.Sends {
			fail("sends", "how often a request was handed to the send function", c.Sends, len(sent))
			return
		}

		if c.Sends == 0 {
			return
		}

		// the request that left the client
		var r struct {
			Type        string `json:"type"`
			DidSuffix   string `json:"didSuffix"`
			RevealValue string `json:"revealValue"`
			Delta       *struct {
				Patches          []map[string]interface{} `json:"patches"`
				UpdateCommitment string                   `json:"updateCommitment"`
			} `json:"delta"`
			SuffixData *struct {
				DeltaHash          string      `json:"deltaHash"`
				RecoveryCommitment string      `json:"recoveryCommitment"`
				AnchorOrigin       interface{} `json:"anchorOrigin"`
			} `json:"suffixData"`
			SignedData string `json:"signedData"`
		}

		if err := json.Unmarshal(sent[0], &r); err != nil {
			fail("request", "what was sent is not a JSON object: "+err.Error(), nil, string(sent[0]))
			return
		}

		gotReq := caReq{Type: r.Type, RevealAlg: "none", NextAlg: "none"}

		suffixOf := map[string]string{caSuffix: "sfx", caState: "state", "": ""}
		if s, ok := suffixOf[r.DidSuffix]; ok {
			gotReq.Suffix = s
		} else {
			gotReq.Suffix = "other: " + r.DidSuffix
		}

		if r.RevealValue != "" {
			gotReq.RevealAlg = algOfMultihash(r.RevealValue)

			if want := refReveal(jwkMap(signerKey.JWK), int(algCode[call.Commit])); r.RevealValue != want {
				fail("request", "the reveal value is the hash of the signing key under the commitment's algorithm", want, r.RevealValue)
				return
			}
		}

		var signed map[string]interface{}

		if r.SignedData != "" {
			parts := strings.Split(r.SignedData, ".")
			if len(parts) == 3 {
				payload, _ := b64dec(parts[1])
				_ = json.Unmarshal(payload, &signed)
			}
		}

		if r.Delta != nil {
			gotReq.NextAlg = algOfMultihash(r.Delta.UpdateCommitment)

			if want := refCommitment(jwkMap(nextUpd.JWK), int(algCode[c.Req.NextAlg])); r.Delta.UpdateCommitment != want {
				fail("request", "the next update commitment is the commitment of the next update key under the algorithm option", want, r.Delta.UpdateCommitment)
				return
			}

			if call.API == "update" {
				for _, p := range r.Delta.Patches {
					a, _ := p["action"].(string)
					gotReq.Patches = append(gotReq.Patches, a)

					// two entries per group, in the order the options were given
					for _, member := range []string{"ids", "uris", "publicKeys", "services"} {
						if l, ok := p[member].([]interface{}); ok && len(l) != 2 {
							fail("request", "a group's patch holds every option of the group", 2, p)
							return
						}
					}
				}
			}
		}

		if call.API == "recover" || call.API == "create" {
			var rc string

			var origin interface{}

			if call.API == "create" && r.SuffixData != nil {
				rc, origin = r.SuffixData.RecoveryCommitment, r.SuffixData.AnchorOrigin
			} else if signed != nil {
				rc, _ = signed["recoveryCommitment"].(string)
				origin = signed["anchorOrigin"]
			}

			if want := refCommitment(jwkMap(nextRec.JWK), int(algCode[c.Req.NextAlg])); rc != want {
				fail("request", "the next recovery commitment is the commitment of the next recovery key under the algorithm option", want, rc)
				return
			}

			gotReq.Origin = origin != nil

			if origin != nil && origin != caOrigin {
				fail("request", "anchor origin as given", caOrigin, origin)
				return
			}
		}

		if len(gotReq.Patches) == 0 {
			gotReq.Patches = []string{}
		}

		want := c.Req
		if len(want.Patches) == 0 {
			want.Patches = []string{}
		}

		col.sample(map[string]interface{}{"call": call, "request": gotReq, "outcome": got})

		if !reflect.DeepEqual(gotReq, want) {
			fail("request", "type, suffix, patches (one per option group, removals first), algorithms, anchor origin", want, gotReq)
		}
	})

	col.finish()
}

func permuted[T any](in []T, at func(int) int) []T {
	out := make([]T, len(in))
	for i := range in {
		out[at(i)] = in[i]
	}

	return out
}
