package main

import (
	"encoding/base64"
	"encoding/json"
	"fmt"
	"io"
	"os"
	"strconv"
)

func fatalf(format string, a ...interface{}) {
	fmt.Fprintf(os.Stderr, "harness: "+format+"\n", a...)
	os.Exit(2)
}

func envInt(name string, def int) int {
	if v := os.Getenv(name); v != "" {
		if n, err := strconv.Atoi(v); err == nil {
			return n
		}
	}

	return def
}

func writeJSON(w io.Writer, v interface{}) {
	enc := json.NewEncoder(w)
	enc.SetEscapeHTML(false)

	if err := enc.Encode(v); err != nil {
		fatalf("encode: %v", err)
	}
}

func b64dec(s string) ([]byte, error) { return base64.RawURLEncoding.DecodeString(s) }

type command func(args []string)

var commands = map[string]command{
	"applier-replay":      applierReplay,
	"applier-trace":       applierTrace,
	"composer-replay":     composerReplay,
	"composer-trace":      composerTrace,
	"rules-replay":        rulesReplay,
	"rules-trace":         rulesTrace,
	"guard-replay":        guardReplay,
	"roundtrip-replay":    roundtripReplay,
	"constructors-replay": constructorsReplay,
	"codec-replay":        codecReplay,
	"parser-replay":       parserReplay,
	"parser-trace":        parserTrace,
	"selfcert-replay":     selfcertReplay,
	"hash-replay":         hashReplay,
	"versions-replay":     versionsReplay,
	"vdrapi-replay":       vdrapiReplay,
	"identifiers-replay":  identifiersReplay,
	"clientapi-replay":    clientapiReplay,
	"clientdoc-replay":    clientdocReplay,
	"builders-replay":     buildersReplay,
	"compactjws-replay":   compactjwsReplay,
	"docaccess-replay":    docaccessReplay,
	"sizelimits-replay":   sizeLimitsReplay,
	"clientsend-replay":   clientsendReplay,
	"patcharray-replay":   patcharrayReplay,
	"chain-replay":        chainReplay,
	"client-trace":        clientTrace,
	"client-replay":       clientReplay,
	"transform-replay":    transformReplay,
	"transform-trace":     transformTrace,
	"longform-replay":     longformReplay,
	"jcs-replay":          jcsReplay,
	"jcs-trace":           jcsTrace,
	"jws-replay":          jwsReplay,
	"robust-replay":       robustReplay,
	"robust-worker":       robustWorker,
	"robust-trace":        robustTrace,
	"registry-trace":      registryTrace,
	"register-race":       registerRace,
	"concurrent-run":      concurrentRun,
}

func main() {
	if len(os.Args) < 2 {
		fatalf("usage: vh <command> [args]")
	}

	c, ok := commands[os.Args[1]]
	if !ok {
		fatalf("unknown command %q", os.Args[1])
	}

	c(os.Args[2:])
}
