package main

// Transform family (C18): resolved state -> DID resolution result.

import (
	"bufio"
	"crypto/ed25519"
	"crypto/sha256"
	"encoding/base64"
	"encoding/json"
	"fmt"
	"math/big"
	"math/rand"
	"os"
	"reflect"
	"strings"
	"sync"
	"time"

	"github.com/trustbloc/sidetree-go/pkg/api/operation"
	"github.com/trustbloc/sidetree-go/pkg/api/protocol"
	"github.com/trustbloc/sidetree-go/pkg/document"
	"github.com/trustbloc/sidetree-go/pkg/versions/1_0/doctransformer/didtransformer"
	"github.com/trustbloc/sidetree-go/pkg/versions/1_0/doctransformer/doctransformer"
)

func b64stdDecode(v interface{}) ([]byte, error) {
	s, _ := v.(string)
	return base64.StdEncoding.DecodeString(s)
}

const b58Alphabet = "123456789ABCDEFGHJKLMNPQRSTUVWXYZabcdefghijkmnopqrstuvwxyz"

// refBase58 is the harness's own base58btc encoder.
func refBase58(b []byte) string {
	x := new(big.Int).SetBytes(b)
	radix, zero, mod := big.NewInt(58), big.NewInt(0), new(big.Int)

	var out []byte

	for x.Cmp(zero) > 0 {
		x.DivMod(x, radix, mod)
		out = append(out, b58Alphabet[mod.Int64()])
	}

	for _, c := range b {
		if c != 0 {
			break
		}

		out = append(out, '1')
	}

	for i, j := 0, len(out)-1; i < j; i, j = i+1, j-1 {
		out[i], out[j] = out[j], out[i]
	}

	return string(out)
}

var typeContexts = map[string]string{
	"did-v1":                            "https://www.w3.org/ns/did/v1",
	"method-context":                    "https://example.com/method/v1",
	"Bls12381G2Key2020":                 "https://w3id.org/security/suites/bls12381-2020/v1",
	"JsonWebKey2020":                    "https://w3id.org/security/suites/jws-2020/v1",
	"EcdsaSecp256k1VerificationKey2019": "https://w3id.org/security/suites/secp256k1-2019/v1",
	"Ed25519VerificationKey2018":        "https://w3id.org/security/suites/ed25519-2018/v1",
	"Ed25519VerificationKey2020":        "https://w3id.org/security/suites/ed25519-2020/v1",
	"X25519KeyAgreementKey2019":         "https://w3id.org/security/suites/x25519-2019/v1",
}

type tKey struct {
	ID   int      `json:"id"`
	Type string   `json:"type"`
	PP   []string `json:"pp"`
	Mat  string   `json:"mat"`
}

type tOp struct {
	T   uint64 `json:"t"`
	N   uint64 `json:"n"`
	Ref int    `json:"ref"`
}

type tCaseIn struct {
	Kind       string `json:"kind"`
	Keys       []tKey `json:"keys"`
	Base       bool   `json:"base"`
	MethodCtx  bool   `json:"methodCtx"`
	KeyCtx     string `json:"keyCtx"`
	Services   int    `json:"services"`
	Ops        []tOp  `json:"ops"`
	Published  bool   `json:"published"`
	InPub      bool   `json:"inPub"`
	InUnpub    bool   `json:"inUnpub"`
	InclPub    bool   `json:"inclPub"`
	InclUnpub  bool   `json:"inclUnpub"`
	Tr         string `json:"tr"`
	Upd        bool   `json:"upd"`
	Rec        bool   `json:"rec"`
	Ao         int    `json:"ao"`
	Deact      bool   `json:"deact"`
	Created    uint64 `json:"created"`
	Updated    uint64 `json:"updated"`
	Ver        bool   `json:"ver"`
	Canonical  bool   `json:"canonical"`
	Equivalent bool   `json:"equivalent"`
}

type tQID struct {
	Relative bool   `json:"relative"`
	Prefix   string `json:"prefix"`
	ID       int    `json:"id"`
}

type tVM struct {
	ID         tQID   `json:"id"`
	Type       string `json:"type"`
	Controller string `json:"controller"`
	Material   string `json:"material"`
}

type tSlot struct {
	T uint64 `json:"t"`
	N uint64 `json:"n"`
}

type tExpected struct {
	VMs           []tVM    `json:"vms"`
	Rels          [][]tQID `json:"rels"`
	Contexts      []string `json:"contexts"`
	Slots         []tSlot  `json:"slots"`
	Deterministic bool     `json:"deterministic"`
	Count         int      `json:"count"`
	PubSlots      []tSlot  `json:"pubSlots"`
	UnpubSlots    []tSlot  `json:"unpubSlots"`

	Created            bool `json:"created"`
	UpdatedP           bool `json:"updated"`
	VersionID          bool `json:"versionId"`
	Deactivated        bool `json:"deactivated"`
	UpdateCommitment   bool `json:"updateCommitment"`
	RecoveryCommitment bool `json:"recoveryCommitment"`
	AnchorOrigin       bool `json:"anchorOrigin"`
	CanonicalID        bool `json:"canonicalId"`
	EquivalentID       bool `json:"equivalentId"`
}

type tCase struct {
	C        tCaseIn         `json:"c"`
	Expected json.RawMessage `json:"expected"`
}

const tDID = "did:sidetree:EiDyOQbbZAa3aiRzeCkV7LOx3SERjjH93EXoIM3UoN4oWg"

var relNames = []string{"authentication", "assertionMethod", "keyAgreement", "capabilityDelegation", "capabilityInvocation"}

func qid(q tQID) string {
	s := fmt.Sprintf("#%s%d", q.Prefix, q.ID)
	if q.Relative {
		return s
	}

	return tDID + s
}

func transformReplay(args []string) {
	fl := parseFlags(args)
	pool := newKeyPool(int64(fl.int("seed", envInt("VERIF_SEED", 1))))
	col := newCollector("transform", fl.str("only", ""))
	seen := map[string]bool{}
	first := true

	// one transformer per option combination is shared by all cases (as a resolver would), and every
	// result is kept: results handed out earlier must not change when the transformer is used again
	shared := map[string]*didtransformer.Transformer{}

	type heldT struct {
		res    *document.ResolutionResult
		digest string
		key    string
		c      tCaseIn
	}

	var held []heldT

	readTagged(os.Stdin, "CASE", fl.str("tlclog", ""), func(line []byte) {
		if seen[string(line)] {
			return
		}

		seen[string(line)] = true

		var tc tCase
		if err := json.Unmarshal(line, &tc); err != nil {
			fatalf("bad case: %v: %.300s", err, line)
		}

		var exp tExpected
		if err := json.Unmarshal(tc.Expected, &exp); err != nil {
			fatalf("bad expectation: %v: %.300s", err, tc.Expected)
		}

		if first {
			first = false

			if f := fl.str("first-edge", ""); f != "" {
				_ = os.WriteFile(f, append(line, '\n'), 0o644)
			}
		}

		c := tc.C
		col.nCases++

		var k string

		switch c.Kind {
		case "keys":
			k = fmt.Sprintf("keys:%v:base=%v:mctx=%v:svc=%d:%s", c.Keys, c.Base, c.MethodCtx, c.Services, c.KeyCtx)
		case "ops":
			k = fmt.Sprintf("ops:%v:published=%v", c.Ops, c.Published)
		case "opts":
			k = fmt.Sprintf("opts:%v:in=%v/%v:include=%v/%v:%s", c.Ops, c.InPub, c.InUnpub, c.InclPub, c.InclUnpub, c.Tr)
		case "meta":
			k = fmt.Sprintf("meta:%v,%v,%d,%v,%v,%d,%d,%v,%v,%v", c.Upd, c.Rec, c.Ao, c.Deact, c.Published, c.Created, c.Updated, c.Ver, c.Canonical, c.Equivalent)
		}

		col.kind(k)

		rp := map[string]interface{}{"cmd": append([]string{"transform-replay"}, args...), "stdin": string(line)}
		failed := false
		fail := func(kind, detail string, e, a interface{}) {
			if failed {
				return
			}

			failed = true
			col.report(mismatch{Kind: kind, Key: kind + ":" + k, Case: tc.C, Detail: detail, Expected: e, Actual: a, Replay: rp})
		}

		// a difference in a point the statement of C18 does not fix (orders, further members): recorded, no verdict
		beyond := func(kind, detail string, e, a interface{}) {
			col.beyond(kind, detail, tc.C, e, a)
		}

		defer func() {
			if r := recover(); r != nil {
				fail("panic", fmt.Sprint(r), nil, nil)
			}
		}()

		switch c.Kind {
		case "keys":
			doc := document.Document{}

			var keysJSON []interface{}

			given := map[int]map[string]interface{}{}

			for _, key := range c.Keys {
				m := map[string]interface{}{"id": fmt.Sprintf("k%d", key.ID), "type": key.Type}

				if len(key.PP) > 0 {
					pp := []interface{}{}
					for _, p := range key.PP {
						pp = append(pp, p)
					}

					m["purposes"] = pp
				}

				ed := trEdKey(pool, key.ID)
				ec := pool.Get("p256", fmt.Sprintf("tr%d", key.ID))

				switch {
				case key.Mat == "b58":
					m["publicKeyBase58"] = refBase58([]byte(ed.Pub.(ed25519.PublicKey)))
				case key.Type == "Ed25519VerificationKey2018" || key.Type == "Ed25519VerificationKey2020":
					m["publicKeyJwk"] = map[string]interface{}{"kty": "OKP", "crv": "Ed25519", "x": ed.JWK.X}

					// (validated keys may carry further JWK members, of any JSON kind: validation asks for kty, crv and x)
					if (key.ID+len(c.Keys)+len(key.PP))%2 == 1 {
						j := m["publicKeyJwk"].(map[string]interface{})
						j["kid"], j["use"], j["x5c"], j["alg"] = 1, map[string]interface{}{"for": "sig"}, []interface{}{"not a certificate"}, "EdDSA"
					}
				default:
					// JWKs of the three families the document validator accepts, with and without the optional
					// public members
					b2i := map[bool]int{true: 1}

					switch (key.ID + len(c.Keys) + b2i[c.Base] + 2*b2i[c.MethodCtx]) % 4 {
					case 0, 1:
						m["publicKeyJwk"] = map[string]interface{}{"kty": "EC", "crv": "P-256", "x": ec.JWK.X, "y": ec.JWK.Y}
					case 2:
						var n []byte
						for i := 0; i < 8; i++ {
							h := sha256.Sum256([]byte(fmt.Sprintf("rsa modulus %d/%d", key.ID, i)))
							n = append(n, h[:]...)
						}

						n[0] |= 0x80
						n[len(n)-1] |= 1
						m["publicKeyJwk"] = map[string]interface{}{"kty": "RSA", "n": b64(n), "e": "AQAB", "alg": "RS256", "kid": "rsa-1", "use": "sig"}
					case 3:
						k1 := pool.Get("k1", fmt.Sprintf("tr%d", key.ID))
						m["publicKeyJwk"] = map[string]interface{}{"kty": "EC", "crv": "secp256k1", "x": k1.JWK.X, "y": k1.JWK.Y, "alg": "ES256K", "key_ops": []interface{}{"verify"}}
					}
				}

				given[key.ID] = m
				keysJSON = append(keysJSON, m)
			}

			if len(keysJSON) > 0 {
				doc["publicKey"] = keysJSON
			}

			var svcs []interface{}

			for i := 1; i <= c.Services; i++ {
				// (the first service has the id of the first key: ids are unique among keys and among services, not across)
				sid := fmt.Sprintf("s%d", i)
				if i == 1 {
					sid = "k1"
				}

				svcs = append(svcs, map[string]interface{}{"id": sid, "type": fmt.Sprintf("T%d", i),
					"serviceEndpoint": []interface{}{"https://a.example/x", map[string]interface{}{"o": i}}, "priority": float64(i), "routingKeys": []interface{}{"r"},
					// members whose values are null / empty / zero are members too
					"description": nil, "accept": []interface{}{}, "weight": 0.0, "label": ""})
			}

			if len(svcs) > 0 {
				doc["service"] = svcs
				doc["alsoKnownAs"] = []interface{}{uriOf(2), uriOf(3)}
			}

			// through bytes, as a document is held after composition
			doc = generic(doc).(map[string]interface{})

			opts := []didtransformer.Option{didtransformer.WithBase(c.Base)}
			if c.MethodCtx {
				opts = append(opts, didtransformer.WithMethodContext([]string{typeContexts["method-context"]}))
			}

			ctxOf := func(name string) string { return typeContexts[name] }

			if c.KeyCtx == "custom" {
				custom := map[string]string{}
				for name := range typeContexts {
					if name != "did-v1" && name != "method-context" {
						custom[name] = "https://custom.example/contexts/" + name
					}
				}

				opts = append(opts, didtransformer.WithKeyContext(custom))
				ctxOf = func(name string) string {
					if v, ok := custom[name]; ok {
						return v
					}

					return typeContexts[name]
				}
			}

			tk := fmt.Sprintf("%v/%v/%s", c.Base, c.MethodCtx, c.KeyCtx)
			if shared[tk] == nil {
				shared[tk] = didtransformer.New(opts...)
			}

			rm := &protocol.ResolutionModel{Doc: doc}

			res, err := shared[tk].TransformDocument(rm, protocol.TransformationInfo{"id": tDID, "published": true})
			if err != nil {
				fail("transform-error", err.Error(), nil, nil)
				return
			}

			// the same state resolved again (a state is resolved many times) gives the same result
			if again, err2 := shared[tk].TransformDocument(rm, protocol.TransformationInfo{"id": tDID, "published": true}); err2 != nil || digestJSON(again) != digestJSON(res) {
				fail("second-resolution-differs", fmt.Sprint(err2), generic(res.Document), generic(again))
				return
			}

			if len(held) < 4000 {
				held = append(held, heldT{res, digestJSON(res), k, tc.C})
			}

			out := generic(res.Document).(map[string]interface{})
			col.sample(map[string]interface{}{"case": tc.C, "internal": doc, "external": out})

			if out["id"] != tDID {
				fail("document-id", "", tDID, out["id"])
			}

			// contexts
			var wantCtx []interface{}

			for _, cx := range exp.Contexts {
				if cx == "@base" {
					wantCtx = append(wantCtx, map[string]interface{}{"@base": tDID})
				} else {
					wantCtx = append(wantCtx, ctxOf(cx))
				}
			}

			// the statement fixes WHICH contexts are listed (each once), not their order
			gotCtx, _ := out["@context"].([]interface{})
			if !sameMultiset(gotCtx, wantCtx) {
				fail("contexts", "the DID context plus one context per key type used, each exactly once", wantCtx, out["@context"])
			} else if !reflect.DeepEqual(out["@context"], wantCtx) {
				beyond("context-order", "contexts are listed in another order than pinned (DID context, @base, key types by first use)", wantCtx, out["@context"])
			}

			// verification methods: every key exactly once
			vms, _ := out["verificationMethod"].([]interface{})
			if len(vms) != len(exp.VMs) {
				fail("verification-methods", "number of verification methods", len(exp.VMs), out["verificationMethod"])
				return
			}

			vmByID := map[string]map[string]interface{}{}
			vmOrder := true

			for i, x := range vms {
				vm, _ := x.(map[string]interface{})
				id, _ := vm["id"].(string)

				if _, dup := vmByID[id]; dup {
					fail("verification-methods", "verification method "+id+" emitted more than once", nil, out["verificationMethod"])
					return
				}

				vmByID[id] = vm
				vmOrder = vmOrder && i < len(exp.VMs) && id == qid(exp.VMs[i].ID)
			}

			if !vmOrder {
				beyond("verification-method-order", "verification methods are not in the order of the internal keys", nil, out["verificationMethod"])
			}

			for i, e := range exp.VMs {
				vm := vmByID[qid(e.ID)]
				want := map[string]interface{}{"id": qid(e.ID), "type": e.Type, "controller": tDID}
				g := given[e.ID.ID]
				ed := trEdKey(pool, e.ID.ID)

				switch e.Material {
				case "jwk-as-given":
					want["publicKeyJwk"] = g["publicKeyJwk"]
				case "base58-as-given":
					want["publicKeyBase58"] = g["publicKeyBase58"]
				case "base58-of-ed25519-key":
					want["publicKeyBase58"] = refBase58([]byte(ed.Pub.(ed25519.PublicKey)))
				case "multibase-base58btc-of-ed25519-key":
					want["publicKeyMultibase"] = "z" + refBase58([]byte(ed.Pub.(ed25519.PublicKey)))
				}

				if !reflect.DeepEqual(vm, want) {
					fail("verification-method", fmt.Sprintf("verification method %d", i), want, vm)
				}
			}

			// relationships: exactly the keys with the purpose, in document order
			for j, name := range relNames {
				var want []interface{}
				for _, q := range exp.Rels[j] {
					want = append(want, qid(q))
				}

				got, _ := out[name].([]interface{})
				if len(want) == 0 && out[name] == nil {
					continue
				}

				// exactly the keys with that purpose, each once; the order is not part of the statement
				if !sameMultiset(got, want) {
					fail("relationship", name, want, out[name])
				} else if !reflect.DeepEqual(got, want) {
					beyond("relationship-order", name+" is not in the order of the internal keys", want, out[name])
				}
			}

			// services with qualified id and all their members; also-known-as as given
			gotSvcs, _ := out["service"].([]interface{})
			if len(gotSvcs) != len(svcs) {
				fail("services", "number of services", len(svcs), out["service"])
				return
			}

			svcByID := map[string]interface{}{}
			for _, x := range gotSvcs {
				m, _ := x.(map[string]interface{})
				id, _ := m["id"].(string)

				if _, dup := svcByID[id]; dup {
					fail("services", "service "+id+" emitted more than once", nil, out["service"])
					return
				}

				svcByID[id] = x
			}

			for i := range svcs {
				want := generic(svcs[i]).(map[string]interface{})
				want["id"] = qid(tQID{Relative: c.Base, Prefix: "s", ID: i + 1})
				if i == 0 {
					want["id"] = qid(tQID{Relative: c.Base, Prefix: "k", ID: 1}) // (the id it shares with the first key)
				}

				if !reflect.DeepEqual(svcByID[want["id"].(string)], want) {
					fail("service", fmt.Sprintf("service %d", i), want, out["service"])
				} else if !reflect.DeepEqual(gotSvcs[i], want) {
					beyond("service-order", "services are not in the order of the internal document", nil, out["service"])
				}
			}

			// (the statement does not speak about also-known-as or about further members)
			if len(svcs) > 0 && !reflect.DeepEqual(out["alsoKnownAs"], doc["alsoKnownAs"]) {
				beyond("also-known-as", "also-known-as URIs are not passed through as given", doc["alsoKnownAs"], out["alsoKnownAs"])
			}

			// nothing else in the document
			for name := range out {
				switch name {
				case "id", "@context", "verificationMethod", "service", "alsoKnownAs", "authentication", "assertionMethod",
					"keyAgreement", "capabilityDelegation", "capabilityInvocation":
				default:
					beyond("unexpected-member", name, nil, out[name])
				}
			}
		case "ops":
			var ops []*operation.AnchoredOperation

			for i, o := range c.Ops {
				ops = append(ops, &operation.AnchoredOperation{Type: operation.TypeUpdate, UniqueSuffix: "s", OperationRequest: []byte(fmt.Sprintf(`{"i":%d}`, i)),
					TransactionTime: o.T, TransactionNumber: o.N, CanonicalReference: fmt.Sprintf("ref%d", o.Ref)})
			}

			// the same list with the times and numbers spread over the whole range of their type (an order-preserving
			// map of 0, 1, 2): it must come out in the same order
			{
				spread := []uint64{0, 1, 1<<63 + 1}

				var wide []*operation.AnchoredOperation

				for _, o := range ops {
					w := *o
					w.TransactionTime, w.TransactionNumber = spread[o.TransactionTime], spread[o.TransactionNumber]
					wide = append(wide, &w)
				}

				order := func(list []*operation.AnchoredOperation) (out []string) {
					rmw := &protocol.ResolutionModel{Doc: document.Document{}}
					if c.Published {
						rmw.PublishedOperations = list
					} else {
						rmw.UnpublishedOperations = list
					}

					res, err := didtransformer.New(didtransformer.WithIncludePublishedOperations(true), didtransformer.WithIncludeUnpublishedOperations(true)).
						TransformDocument(rmw, protocol.TransformationInfo{"id": tDID, "published": true})
					if err != nil {
						return []string{"error: " + err.Error()}
					}

					md := generic(res.DocumentMetadata).(map[string]interface{})
					method, _ := md["method"].(map[string]interface{})

					for _, name := range []string{"publishedOperations", "unpublishedOperations"} {
						l, _ := method[name].([]interface{})
						for _, x := range l {
							mm, _ := x.(map[string]interface{})
							raw, _ := b64stdDecode(mm["operation"])
							out = append(out, string(raw))
						}
					}

					return out
				}

				if exp.Deterministic {
					if a, b := order(ops), order(wide); !reflect.DeepEqual(a, b) {
						fail("operations", "times and numbers spread over the range of uint64 (0, 1, 2^63+1 for 0, 1, 2): another order", a, b)
						return
					}
				}
			}

			rm := &protocol.ResolutionModel{Doc: document.Document{}}
			if c.Published {
				rm.PublishedOperations = ops
			} else {
				rm.UnpublishedOperations = ops
			}

			res, err := didtransformer.New(didtransformer.WithIncludePublishedOperations(true), didtransformer.WithIncludeUnpublishedOperations(true)).
				TransformDocument(rm, protocol.TransformationInfo{"id": tDID, "published": true})
			if err != nil {
				fail("transform-error", err.Error(), nil, nil)
				return
			}

			md := generic(res.DocumentMetadata).(map[string]interface{})
			method, _ := md["method"].(map[string]interface{})

			name := "unpublishedOperations"
			if c.Published {
				name = "publishedOperations"
			}

			list, _ := method[name].([]interface{})

			var got []tSlot

			refs := map[string]int{}

			for _, x := range list {
				m, _ := x.(map[string]interface{})
				t, _ := m["transactionTime"].(float64)
				n, _ := m["transactionNumber"].(float64)

				if !c.Published {
					// unpublished operations do not report a transaction number: recover it from the request
					var r struct {
						I int `json:"i"`
					}

					raw, _ := b64stdDecode(m["operation"])
					_ = json.Unmarshal(raw, &r)
					n = float64(c.Ops[r.I].N)
				}

				got = append(got, tSlot{uint64(t), uint64(n)})

				if ref, ok := m["canonicalReference"].(string); ok {
					refs[ref]++
				}
			}

			col.sample(map[string]interface{}{"case": tc.C, "reported": got, "expected": exp.Slots})

			if len(got) != exp.Count {
				fail("operations", "number of operations listed", exp.Count, got)
				return
			}

			for i := 1; i < len(got); i++ {
				if got[i].T < got[i-1].T || (got[i].T == got[i-1].T && got[i].N < got[i-1].N) {
					fail("operations", "not in anchoring order (time, then number)", exp.Slots, got)
					return
				}
			}

			for ref, n := range refs {
				if c.Published && n > 1 {
					fail("operations", "canonical reference "+ref+" listed more than once", exp.Slots, got)
					return
				}
			}

			if exp.Deterministic && !(len(got) == 0 && len(exp.Slots) == 0) && !reflect.DeepEqual(got, exp.Slots) {
				fail("operations", "", exp.Slots, got)
			}
		case "opts":
			// the two lists hold the same requests in separate objects (as a store hands them out)
			mk := func(published bool) []*operation.AnchoredOperation {
				var l []*operation.AnchoredOperation

				for i, o := range c.Ops {
					a := &operation.AnchoredOperation{Type: operation.TypeUpdate, UniqueSuffix: "s", OperationRequest: []byte(fmt.Sprintf(`{"i":%d}`, i)),
						TransactionTime: o.T, TransactionNumber: o.N}
					if published {
						a.CanonicalReference = fmt.Sprintf("ref%d", o.Ref)
					}

					l = append(l, a)
				}

				return l
			}

			rm := &protocol.ResolutionModel{Doc: document.Document{}}
			if c.InPub {
				rm.PublishedOperations = mk(true)
			}

			if c.InUnpub {
				rm.UnpublishedOperations = mk(false)
			}

			var (
				res *document.ResolutionResult
				err error
			)

			info := protocol.TransformationInfo{"id": tDID, "published": true}

			// (the options in either order: the order of two options of different names is immaterial)
			if c.Tr == "doc" {
				opts := []doctransformer.Option{doctransformer.WithIncludePublishedOperations(c.InclPub), doctransformer.WithIncludeUnpublishedOperations(c.InclUnpub)}
				if len(c.Ops)%2 == 0 {
					opts[0], opts[1] = opts[1], opts[0]
				}

				res, err = doctransformer.New(opts...).TransformDocument(rm, info)
			} else {
				opts := []didtransformer.Option{didtransformer.WithIncludePublishedOperations(c.InclPub), didtransformer.WithIncludeUnpublishedOperations(c.InclUnpub)}
				if len(c.Ops)%2 == 0 {
					opts[0], opts[1] = opts[1], opts[0]
				}

				res, err = didtransformer.New(opts...).TransformDocument(rm, info)
			}

			if err != nil {
				fail("transform-error", err.Error(), nil, nil)
				return
			}

			md := generic(res.DocumentMetadata).(map[string]interface{})
			method, _ := md["method"].(map[string]interface{})

			slotsOf := func(name string) []tSlot {
				out := []tSlot{}
				l, _ := method[name].([]interface{})

				for _, x := range l {
					m, _ := x.(map[string]interface{})
					t, _ := m["transactionTime"].(float64)

					// (unpublished operations do not report a transaction number: recover it from the request)
					var r struct {
						I int `json:"i"`
					}

					raw, _ := b64stdDecode(m["operation"])
					_ = json.Unmarshal(raw, &r)

					n := float64(-1)
					if r.I >= 0 && r.I < len(c.Ops) {
						n = float64(c.Ops[r.I].N)
					}

					if pn, ok := m["transactionNumber"].(float64); ok {
						n = pn
					}

					out = append(out, tSlot{uint64(t), uint64(n)})
				}

				return out
			}

			gotPub, gotUnpub := slotsOf("publishedOperations"), slotsOf("unpublishedOperations")
			col.sample(map[string]interface{}{"case": tc.C, "published": gotPub, "unpublished": gotUnpub})

			norm := func(l []tSlot) []tSlot {
				if l == nil {
					return []tSlot{}
				}

				return l
			}

			if !reflect.DeepEqual(gotUnpub, norm(exp.UnpubSlots)) {
				fail("operations", "unpublished operations listed (the include-unpublished option and the unpublished list decide, nothing else)", norm(exp.UnpubSlots), gotUnpub)
				return
			}

			if len(gotPub) != len(exp.PubSlots) || (exp.Deterministic && !reflect.DeepEqual(gotPub, norm(exp.PubSlots))) {
				fail("operations", "published operations listed (the include-published option and the published list decide, nothing else)", norm(exp.PubSlots), gotPub)
				return
			}
		case "meta":
			rm := &protocol.ResolutionModel{Doc: document.Document{}, Deactivated: c.Deact, CreatedTime: c.Created, UpdatedTime: c.Updated}

			if c.Upd {
				rm.UpdateCommitment = "update-commitment"
			}

			if c.Rec {
				rm.RecoveryCommitment = "recovery-commitment"
			}

			rm.AnchorOrigin = anchorOrigin([]int{0, 1, 102}[c.Ao])

			if c.Ver {
				rm.VersionID = "version-7"
			}

			info := protocol.TransformationInfo{"id": tDID, "published": c.Published}
			if c.Canonical {
				info["canonicalId"] = "did:sidetree:canonical:abc"
			}

			if c.Equivalent {
				info["equivalentId"] = []string{"did:sidetree:eq1:abc", "did:sidetree:eq2:abc"}
			}

			res, err := didtransformer.New().TransformDocument(rm, info)
			if err != nil {
				fail("transform-error", err.Error(), nil, nil)
				return
			}

			md := generic(res.DocumentMetadata).(map[string]interface{})
			method, _ := md["method"].(map[string]interface{})
			col.sample(map[string]interface{}{"case": tc.C, "metadata": md})

			want := map[string]interface{}{}
			wantMethod := map[string]interface{}{"published": c.Published}

			if exp.UpdateCommitment {
				wantMethod["updateCommitment"] = "update-commitment"
			}

			if exp.RecoveryCommitment {
				wantMethod["recoveryCommitment"] = "recovery-commitment"
			}

			if exp.AnchorOrigin {
				wantMethod["anchorOrigin"] = generic(rm.AnchorOrigin)
			}

			want["method"] = wantMethod

			if exp.Deactivated {
				want["deactivated"] = true
			}

			if exp.CanonicalID {
				want["canonicalId"] = "did:sidetree:canonical:abc"
			}

			if exp.EquivalentID {
				want["equivalentId"] = []interface{}{"did:sidetree:eq1:abc", "did:sidetree:eq2:abc"}
			}

			if exp.Created {
				want["created"] = time.Unix(int64(c.Created), 0).UTC().Format(time.RFC3339)
			}

			if exp.VersionID {
				want["versionId"] = "version-7"
			}

			if exp.UpdatedP {
				want["updated"] = time.Unix(int64(c.Updated), 0).UTC().Format(time.RFC3339)
			}

			_ = method

			// every item the state has must be reported, with its value, where resolution metadata carries it;
			// an item the state does not have may be absent or reported as its zero value; further members are
			// not the statement's business
			if !metaCovers(md, want) {
				fail("metadata", "", want, md)
			} else if !reflect.DeepEqual(md, want) {
				beyond("metadata-layout", "metadata carries further members / explicit zero values", want, md)
			}
		}
	})

	for _, h := range held {
		if digestJSON(h.res) != h.digest {
			col.report(mismatch{Kind: "result-changed-later", Key: "result-changed-later:" + h.key, Case: h.c,
				Detail: "a resolution result handed out earlier was modified by later calls on the same transformer", Actual: h.res})
		}
	}

	col.finish()
}

// sameMultiset: equal as multisets of JSON values.
func sameMultiset(a, b []interface{}) bool {
	if len(a) != len(b) {
		return false
	}

	cnt := map[string]int{}
	for _, x := range a {
		cnt[digestJSON(x)]++
	}

	for _, x := range b {
		cnt[digestJSON(x)]--
	}

	for _, n := range cnt {
		if n != 0 {
			return false
		}
	}

	return true
}

func isZeroJSON(v interface{}) bool {
	switch t := v.(type) {
	case nil:
		return true
	case bool:
		return !t
	case string:
		return t == ""
	case float64:
		return t == 0
	case []interface{}:
		return len(t) == 0
	case map[string]interface{}:
		return len(t) == 0
	}

	return false
}

// metaCovers: got reports every member of want with want's value (objects recursively); members of got that
// want does not have must be zero values when they are among the items the statement names.
func metaCovers(got, want map[string]interface{}) bool {
	for k, w := range want {
		g, ok := got[k]
		if !ok {
			return false
		}

		if wm, isObj := w.(map[string]interface{}); isObj {
			gm, ok := g.(map[string]interface{})
			if !ok || !metaCovers(gm, wm) {
				return false
			}

			continue
		}

		if !reflect.DeepEqual(g, w) {
			return false
		}
	}

	named := map[string]bool{"deactivated": true, "canonicalId": true, "equivalentId": true, "created": true, "updated": true,
		"versionId": true, "updateCommitment": true, "recoveryCommitment": true, "anchorOrigin": true, "published": true}

	for k, g := range got {
		if _, ok := want[k]; !ok && named[k] && !isZeroJSON(g) {
			return false
		}
	}

	return true
}

// trEdKey: the Ed25519 key of internal key id; for odd ids a key whose public key starts with a zero byte (found by
// search: base58 and multibase have a digit of their own for leading zero bytes)
var trEdCache sync.Map

func trEdKey(pool *KeyPool, id int) *Key {
	if id%2 == 0 {
		return pool.Get("ed", fmt.Sprintf("tr%d", id))
	}

	if k, ok := trEdCache.Load(id); ok {
		return k.(*Key)
	}

	for i := 0; i < 20000; i++ {
		k := pool.Get("ed", fmt.Sprintf("tr%d-zero-%d", id, i))
		if pk, ok := k.Pub.(ed25519.PublicKey); ok && pk[0] == 0 {
			trEdCache.Store(id, k)
			return k
		}
	}

	fatalf("no Ed25519 key with a leading zero byte found")

	return nil
}

// ---------------------------------------------------------------------------------------------
// trace driver: random operation lists through the real transformer, logged for TransformTrace.tla

func transformTrace(args []string) {
	fl := parseFlags(args)
	seed := int64(fl.int("seed", envInt("VERIF_SEED", 1)))
	n := fl.int("n", 500)
	r := rand.New(rand.NewSource(seed))

	f, err := os.Create(fl.str("o", "transform_trace.ndjson"))
	if err != nil {
		fatalf("%v", err)
	}

	defer f.Close()

	w := bufio.NewWriter(f)
	defer w.Flush()

	enc := json.NewEncoder(w)
	tr := didtransformer.New(didtransformer.WithIncludePublishedOperations(true), didtransformer.WithIncludeUnpublishedOperations(true))

	type slot struct {
		T   uint64 `json:"t"`
		N   uint64 `json:"n"`
		Ref int    `json:"ref,omitempty"`
	}

	for h := 0; h < n; h++ {
		published := r.Intn(2) == 0
		k := r.Intn(13)

		// times and numbers from a small, a medium and a large range (ties are frequent in the small one)
		span := []int{3, 40, 2000000000}[r.Intn(3)]
		logged := []map[string]interface{}{}

		var ops []*operation.AnchoredOperation

		used := map[[3]uint64]bool{}

		for i := 0; i < k; i++ {
			s := slot{T: uint64(r.Intn(span)), N: uint64(r.Intn(span)), Ref: 1 + r.Intn(4)}

			// (two operations of one reference in one slot: which one survives the de-duplication is not determined)
			if published && used[[3]uint64{s.T, s.N, uint64(s.Ref)}] {
				continue
			}

			used[[3]uint64{s.T, s.N, uint64(s.Ref)}] = true
			logged = append(logged, map[string]interface{}{"t": s.T, "n": s.N, "ref": s.Ref})
			ops = append(ops, &operation.AnchoredOperation{Type: operation.TypeUpdate, UniqueSuffix: "s", OperationRequest: []byte(fmt.Sprintf(`{"i":%d}`, len(ops))),
				TransactionTime: s.T, TransactionNumber: s.N, CanonicalReference: fmt.Sprintf("ref%d", s.Ref)})
		}

		// (the transformer sorts the list it is given in place: the driver keeps its own order for the look-up below)
		orig := append([]*operation.AnchoredOperation(nil), ops...)

		rm := &protocol.ResolutionModel{Doc: document.Document{}}
		if published {
			rm.PublishedOperations = ops
		} else {
			rm.UnpublishedOperations = ops
		}

		res, err := tr.TransformDocument(rm, protocol.TransformationInfo{"id": "did:sidetree:abc", "published": true})
		if err != nil {
			// (logged as a list that was not reported: TLC rejects it unless the list is empty)
			_ = enc.Encode(map[string]interface{}{"event": "ops", "ops": logged, "published": published, "reported": []interface{}{}, "bad": "transform error: " + err.Error()})
			continue
		}

		ops = orig

		md := generic(res.DocumentMetadata).(map[string]interface{})
		method, _ := md["method"].(map[string]interface{})

		name := "unpublishedOperations"
		if published {
			name = "publishedOperations"
		}

		list, _ := method[name].([]interface{})
		reported := []map[string]interface{}{}

		for _, x := range list {
			m, _ := x.(map[string]interface{})
			t, _ := m["transactionTime"].(float64)
			nn, _ := m["transactionNumber"].(float64)

			if !published {
				// unpublished operations do not report a transaction number: recover it from the request
				var rq struct {
					I int `json:"i"`
				}

				raw, _ := b64stdDecode(m["operation"])
				_ = json.Unmarshal(raw, &rq)
				nn = float64(ops[rq.I].TransactionNumber)
			}

			reported = append(reported, map[string]interface{}{"t": uint64(t), "n": uint64(nn)})
		}

		_ = enc.Encode(map[string]interface{}{"event": "ops", "ops": logged, "published": published, "reported": reported, "bad": ""})
	}

	transformKeysTrace(enc, r, newKeyPool(seed), n)

	writeJSON(os.Stdout, map[string]interface{}{"lists": n, "key_lists": n})
}

// transformKeysTrace appends "keys" events to the transformer trace: random lists of validated keys.
func transformKeysTrace(enc *json.Encoder, r *rand.Rand, pool *KeyPool, n int) {
	types := []string{"Bls12381G2Key2020", "JsonWebKey2020", "EcdsaSecp256k1VerificationKey2019", "X25519KeyAgreementKey2019", "Ed25519VerificationKey2018", "Ed25519VerificationKey2020"}
	purposes := []string{"authentication", "assertionMethod", "keyAgreement", "capabilityDelegation", "capabilityInvocation"}
	const did = "did:sidetree:abc"

	for h := 0; h < n; h++ {
		base := r.Intn(2) == 0
		nk := r.Intn(6)

		var (
			logged   = []map[string]interface{}{}
			keysJSON []interface{}
			given    = map[int]map[string]interface{}{}
		)

		for _, id := range r.Perm(7)[:nk] {
			id++
			ty := types[r.Intn(len(types))]
			mat := "jwk"

			switch ty {
			case "X25519KeyAgreementKey2019":
				mat = "b58"
			case "Ed25519VerificationKey2018", "Ed25519VerificationKey2020":
				mat = []string{"jwk", "b58"}[r.Intn(2)]
			}

			pp := []string{}
			for _, p := range purposes {
				permitted := ty != "X25519KeyAgreementKey2019"
				if p == "keyAgreement" {
					permitted = ty != "Ed25519VerificationKey2018" && ty != "Ed25519VerificationKey2020"
				}

				if permitted && r.Intn(3) == 0 {
					pp = append(pp, p)
				}
			}

			m := map[string]interface{}{"id": fmt.Sprintf("k%d", id), "type": ty}
			if len(pp) > 0 {
				l := []interface{}{}
				for _, p := range pp {
					l = append(l, p)
				}

				m["purposes"] = l
			}

			ed := trEdKey(pool, id)
			ec := pool.Get("p256", fmt.Sprintf("tr%d", id))

			switch {
			case mat == "b58":
				m["publicKeyBase58"] = refBase58([]byte(ed.Pub.(ed25519.PublicKey)))
			case ty == "Ed25519VerificationKey2018" || ty == "Ed25519VerificationKey2020":
				m["publicKeyJwk"] = map[string]interface{}{"kty": "OKP", "crv": "Ed25519", "x": ed.JWK.X}
			default:
				m["publicKeyJwk"] = map[string]interface{}{"kty": "EC", "crv": "P-256", "x": ec.JWK.X, "y": ec.JWK.Y}
			}

			given[id] = m
			keysJSON = append(keysJSON, m)
			logged = append(logged, map[string]interface{}{"id": id, "type": ty, "pp": pp, "mat": mat})
		}

		doc := document.Document{}
		if len(keysJSON) > 0 {
			doc["publicKey"] = keysJSON
		}

		doc = generic(doc).(map[string]interface{})

		bad := ""
		res, err := didtransformer.New(didtransformer.WithBase(base)).TransformDocument(&protocol.ResolutionModel{Doc: doc}, protocol.TransformationInfo{"id": did, "published": true})

		ev := map[string]interface{}{"event": "keys", "keys": logged, "base": base, "vms": []interface{}{}, "rels": [][]int{{}, {}, {}, {}, {}}, "contexts": []string{}}

		if err != nil {
			bad = "transform error: " + err.Error()
		} else {
			out := generic(res.Document).(map[string]interface{})

			idNum := func(s string) (int, bool, bool) {
				relative := strings.HasPrefix(s, "#")
				rest := strings.TrimPrefix(strings.TrimPrefix(s, did), "#")

				if (!relative && !strings.HasPrefix(s, did+"#")) || len(rest) < 2 || rest[0] != 'k' {
					return 0, relative, false
				}

				return atoi(rest[1:]), relative, true
			}

			var vms []interface{}

			vl, _ := out["verificationMethod"].([]interface{})
			for _, x := range vl {
				vm, _ := x.(map[string]interface{})
				ids, _ := vm["id"].(string)

				n, relative, ok := idNum(ids)
				if !ok {
					bad = "verification method id " + ids
					continue
				}

				g := given[n]
				ed := trEdKey(pool, n)
				edB58 := refBase58([]byte(ed.Pub.(ed25519.PublicKey)))
				material := "unrecognised"

				switch {
				case vm["publicKeyJwk"] != nil && g != nil && reflect.DeepEqual(vm["publicKeyJwk"], g["publicKeyJwk"]) && vm["publicKeyBase58"] == nil && vm["publicKeyMultibase"] == nil:
					material = "jwk-as-given"
				case vm["publicKeyBase58"] != nil && g != nil && g["publicKeyBase58"] != nil && vm["publicKeyBase58"] == g["publicKeyBase58"] && vm["publicKeyJwk"] == nil:
					material = "base58-as-given"
				case vm["publicKeyBase58"] == edB58 && vm["publicKeyJwk"] == nil && vm["publicKeyMultibase"] == nil:
					material = "base58-of-ed25519-key"
				case vm["publicKeyMultibase"] == "z"+edB58 && vm["publicKeyJwk"] == nil && vm["publicKeyBase58"] == nil:
					material = "multibase-base58btc-of-ed25519-key"
				}

				ty, _ := vm["type"].(string)
				vms = append(vms, map[string]interface{}{"id": n, "relative": relative, "type": ty, "controller": vm["controller"] == did, "material": material})
			}

			if vms != nil {
				ev["vms"] = vms
			}

			rels := [][]int{}

			for _, p := range purposes {
				l := []int{}

				rl, _ := out[p].([]interface{})
				for _, x := range rl {
					s, _ := x.(string)

					n, _, ok := idNum(s)
					if !ok {
						bad = "relationship entry " + fmt.Sprint(x)
						continue
					}

					l = append(l, n)
				}

				rels = append(rels, l)
			}

			ev["rels"] = rels

			ctxs := []string{}

			cl, _ := out["@context"].([]interface{})
			for _, x := range cl {
				name := "unrecognised"

				if m, isMap := x.(map[string]interface{}); isMap && len(m) == 1 && m["@base"] == did {
					name = "@base"
				}

				for k, v := range typeContexts {
					if x == v {
						name = k
					}
				}

				ctxs = append(ctxs, name)
			}

			ev["contexts"] = ctxs
		}

		ev["bad"] = bad
		_ = enc.Encode(ev)
	}
}
