package main

import (
	"bufio"
	"bytes"
	"encoding/json"
	"io"
	"os"
)

// readTagged reads raw TLC output from r. Lines printed by the specification as
// <<"TAG", "<json>">> (PrintT of a tuple holding ToJson output) are decoded and handed to
// fn; everything else (TLC's own messages, statistics, errors) is appended to logPath so that
// the driver can inspect it. Plain ndjson lines (starting with '{') are accepted too.
func readTagged(r io.Reader, tag, logPath string, fn func(line []byte)) {
	var logw *bufio.Writer

	if logPath != "" {
		f, err := os.OpenFile(logPath, os.O_CREATE|os.O_WRONLY|os.O_APPEND, 0o644)
		if err != nil {
			fatalf("open log: %v", err)
		}

		defer f.Close()

		logw = bufio.NewWriter(f)
		defer logw.Flush()
	}

	prefix := []byte(`<<"` + tag + `", `)
	rd := bufio.NewReaderSize(r, 1<<20)

	for {
		line, err := rd.ReadBytes('\n')
		line = bytes.TrimRight(line, "\r\n")

		switch {
		case len(line) == 0:
		case bytes.HasPrefix(line, prefix) && bytes.HasSuffix(line, []byte(">>")):
			quoted := line[len(prefix) : len(line)-2]

			var s string
			if e := json.Unmarshal(quoted, &s); e != nil {
				fatalf("cannot decode tagged line: %v: %.200s", e, line)
			}

			fn([]byte(s))
		case line[0] == '{':
			cp := append([]byte(nil), line...)
			fn(cp)
		default:
			if logw != nil {
				logw.Write(line)
				logw.WriteByte('\n')
			}
		}

		if err == io.EOF {
			return
		}

		if err != nil {
			fatalf("read: %v", err)
		}
	}
}

// flags is a tiny "-name value" parser.
type flags map[string]string

func parseFlags(args []string) flags {
	f := flags{}

	for i := 0; i < len(args); i++ {
		if len(args[i]) > 1 && args[i][0] == '-' {
			if i+1 < len(args) && (len(args[i+1]) == 0 || args[i+1][0] != '-') {
				f[args[i][1:]] = args[i+1]
				i++
			} else {
				f[args[i][1:]] = "true"
			}
		}
	}

	return f
}

func (f flags) str(name, def string) string {
	if v, ok := f[name]; ok {
		return v
	}

	return def
}

func (f flags) int(name string, def int) int {
	if v, ok := f[name]; ok {
		n := 0
		neg := false

		for i, c := range v {
			if i == 0 && c == '-' {
				neg = true
				continue
			}

			if c < '0' || c > '9' {
				fatalf("flag -%s: not a number: %q", name, v)
			}

			n = n*10 + int(c-'0')
		}

		if neg {
			return -n
		}

		return n
	}

	return def
}

func (f flags) bool(name string) bool { return f[name] == "true" }

// saver optionally keeps the decoded case lines (to replay them again under other settings).
type saver struct {
	f *os.File
	w *bufio.Writer
}

func newSaver(path string) *saver {
	if path == "" {
		return &saver{}
	}

	f, err := os.Create(path)
	if err != nil {
		fatalf("save: %v", err)
	}

	return &saver{f: f, w: bufio.NewWriterSize(f, 1<<20)}
}

func (s *saver) line(b []byte) {
	if s.w != nil {
		s.w.Write(b)
		s.w.WriteByte('\n')
	}
}

func (s *saver) close() {
	if s.w != nil {
		s.w.Flush()
		s.f.Close()
	}
}
