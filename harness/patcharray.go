package main

// PatchArray family (C10): RFC 6902 operations on an array, replayed through DocumentComposer.ApplyPatches.

import (
	"encoding/json"
	"fmt"
	"os"
	"reflect"

	"github.com/trustbloc/sidetree-go/pkg/document"
	"github.com/trustbloc/sidetree-go/pkg/patch"
	"github.com/trustbloc/sidetree-go/pkg/versions/1_0/doccomposer"
	"github.com/trustbloc/sidetree-go/pkg/versions/1_0/operationparser/patchvalidator"
)

type paOp struct {
	K string `json:"k"`
	I int    `json:"i"`
	J int    `json:"j"`
	V int    `json:"v"`
}

type paState struct {
	Arr []int `json:"arr"`
	X   int   `json:"x"`
}

type paCase struct {
	Arr  []int   `json:"arr"`
	X    int     `json:"x"`
	List []paOp  `json:"list"`
	Ok   bool    `json:"ok"`
	Post paState `json:"post"`
}

const (
	paXName = "x~1y"
	paX     = "/x~01y"
)

func paPtr(i int) string {
	if i == -2 {
		return "/arr/-1" // (no array index)
	}

	if i < 0 {
		return "/arr/-"
	}

	return fmt.Sprintf("/arr/%d", i)
}

// elements are objects (what arrays of a DID document usually hold), recognisable by their value
func paElem(v int) interface{} {
	return map[string]interface{}{"v": float64(v), "tag": fmt.Sprintf("e%d <&> \u2028", v)} // (characters that HTML-minded JSON writers escape)
}

func paValue(v interface{}) int {
	m, ok := v.(map[string]interface{})
	if !ok {
		return -1
	}

	f, ok := m["v"].(float64)
	if !ok || !reflect.DeepEqual(v, paElem(int(f))) {
		return -1
	}

	return int(f)
}

func patcharrayReplay(args []string) {
	fl := parseFlags(args)
	col := newCollector("patcharray", fl.str("only", ""))
	composer := doccomposer.New()
	seen := map[string]bool{}
	first := true

	readTagged(os.Stdin, "CASE", fl.str("tlclog", ""), func(line []byte) {
		if seen[string(line)] {
			return
		}

		seen[string(line)] = true

		var c paCase
		if err := json.Unmarshal(line, &c); err != nil {
			fatalf("bad case: %v: %.300s", err, line)
		}

		if first {
			first = false

			if f := fl.str("first-edge", ""); f != "" {
				_ = os.WriteFile(f, append(line, '\n'), 0o644)
			}
		}

		col.nCases++

		shape := ""
		for _, o := range c.List {
			shape += o.K + ";"
		}

		col.kind(shape)

		var ops []interface{}

		for _, o := range c.List {
			switch o.K {
			case "add", "replace", "test":
				ops = append(ops, map[string]interface{}{"op": o.K, "path": paPtr(o.I), "value": paElem(o.V)})
			case "remove":
				ops = append(ops, map[string]interface{}{"op": "remove", "path": paPtr(o.I)})
			case "copy_x":
				ops = append(ops, map[string]interface{}{"op": "copy", "from": paX, "path": paPtr(o.I)})
			case "move":
				ops = append(ops, map[string]interface{}{"op": "move", "from": paPtr(o.I), "path": paPtr(o.J)})
			case "copy":
				ops = append(ops, map[string]interface{}{"op": "copy", "from": paPtr(o.I), "path": paPtr(o.J)})
			case "copy_to_x":
				ops = append(ops, map[string]interface{}{"op": "copy", "from": paPtr(o.I), "path": paX})
			default:
				fatalf("op %q", o.K)
			}
		}

		arr := []interface{}{}
		for _, v := range c.Arr {
			arr = append(arr, paElem(v))
		}

		// the scalar member is called "x~1y" (JSON pointer /x~01y: "~0" stands for "~", then no "~1" is left to
		// decode); a member "x/y" that the wrong decoding order would address is there as a decoy
		doc := document.Document{"arr": arr, "other": map[string]interface{}{"a": 1.0}, "x/y": "decoy"}
		if c.X != 0 {
			doc[paXName] = paElem(c.X)
		}

		raw, _ := json.Marshal(map[string]interface{}{"action": "ietf-json-patch", "patches": ops})

		var p patch.Patch

		_ = json.Unmarshal(raw, &p)

		// the same operations as a LIST of patches with one operation each (a patch list is a left fold too;
		// two equal patches in a row are two patches)
		var single []patch.Patch

		for _, o := range ops {
			var sp patch.Patch

			sraw, _ := json.Marshal(map[string]interface{}{"action": "ietf-json-patch", "patches": []interface{}{o}})
			_ = json.Unmarshal(sraw, &sp)
			single = append(single, sp)
		}

		key := func(kind string) string {
			return fmt.Sprintf("%s:array:%s:len=%d:x=%v", kind, shape, len(c.Arr), c.X != 0)
		}
		rp := map[string]interface{}{"cmd": append([]string{"patcharray-replay"}, args...), "stdin": string(line)}
		conc := map[string]interface{}{"document": doc, "patch": json.RawMessage(raw)}

		if verr := patchvalidator.Validate(p); verr != nil {
			col.report(mismatch{Kind: "constructed-patch-invalid", Key: key("constructed-patch-invalid"), Case: c, Detail: verr.Error(), Concrete: conc, Replay: rp})
			return
		}

		before := digestJSON(doc)

		var (
			out      document.Document
			err      error
			panicked string
		)

		func() {
			defer func() {
				if r := recover(); r != nil {
					panicked = fmt.Sprint(r)
				}
			}()

			out, err = composer.ApplyPatches(doc, []patch.Patch{p})

			if len(single) > 1 {
				out2, err2 := composer.ApplyPatches(doc, single)
				if (err == nil) != (err2 == nil) || digestJSON(out) != digestJSON(out2) {
					panicked = fmt.Sprintf("one patch with the operations %v and a list of patches with one operation each disagree: %v / %v", ops, err, err2)
				}
			}
		}()

		col.sample(map[string]interface{}{"array": c.Arr, "x": c.X, "operations": ops, "applies": err == nil})

		switch {
		case panicked != "":
			col.report(mismatch{Kind: "panic", Key: key("panic"), Case: c, Detail: panicked, Concrete: conc, Replay: rp})
		case digestJSON(doc) != before:
			col.report(mismatch{Kind: "input-mutated", Key: key("input-mutated"), Case: c, Concrete: conc, Replay: rp})
		case (err == nil) != c.Ok:
			col.report(mismatch{Kind: "verdict", Key: key("verdict"), Case: c, Detail: fmt.Sprint(err), Expected: map[string]interface{}{"applies": c.Ok},
				Actual: map[string]interface{}{"applies": err == nil, "result": out}, Concrete: conc, Replay: rp})
		case err == nil:
			got := paState{Arr: []int{}}

			l, _ := out["arr"].([]interface{})
			for _, e := range l {
				got.Arr = append(got.Arr, paValue(e))
			}

			if xv, has := out[paXName]; has {
				got.X = paValue(xv)
			}

			want := c.Post
			if want.Arr == nil {
				want.Arr = []int{}
			}

			if !reflect.DeepEqual(got, want) || !reflect.DeepEqual(out["other"], doc["other"]) || out["x/y"] != "decoy" || len(out) != len(doc)+map[bool]int{true: 1, false: 0}[c.X == 0 && want.X != 0] {
				col.report(mismatch{Kind: "document", Key: key("document"), Case: c, Expected: want, Actual: got, Concrete: conc, Replay: rp})
			}
		}
	})

	col.finish()
}
