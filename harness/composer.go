package main

// Composer family: replay of Composer.tla edges into doccomposer.ApplyPatches and a trace driver.

import (
	"bufio"
	"crypto/ed25519"
	"encoding/json"
	"fmt"
	"math/rand"
	"os"
	"reflect"
	"regexp"
	"runtime"
	"sort"
	"sync"
	"sync/atomic"

	"github.com/trustbloc/sidetree-go/pkg/document"
	"github.com/trustbloc/sidetree-go/pkg/patch"
	"github.com/trustbloc/sidetree-go/pkg/versions/1_0/doccomposer"
)

// abstract records of Composer.tla

type CEnt struct {
	ID  int `json:"id"`
	Ver int `json:"ver"`
}

type CVal struct {
	T string `json:"t"`
	V int    `json:"v"`
}

type CPath struct {
	Name int  `json:"name"`
	Sub  bool `json:"sub"`
}

type CJOp struct {
	Op   string `json:"op"`
	Path CPath  `json:"path"`
	From CPath  `json:"from"`
	Val  CVal   `json:"val"`
}

type CPatch struct {
	A     string `json:"a"`
	Ents  []CEnt `json:"ents"`
	Ents2 []CEnt `json:"ents2"`
	IDs   []int  `json:"ids"`
	Ops   []CJOp `json:"ops"`
}

type CDoc struct {
	Keys  []CEnt `json:"keys"`
	Svcs  []CEnt `json:"svcs"`
	Aka   []int  `json:"aka"`
	Other []CVal `json:"other"`
}

func (d *CDoc) norm(nOther int) {
	if d.Keys == nil {
		d.Keys = []CEnt{}
	}

	if d.Svcs == nil {
		d.Svcs = []CEnt{}
	}

	if d.Aka == nil {
		d.Aka = []int{}
	}

	for len(d.Other) < nOther {
		d.Other = append(d.Other, CVal{T: "abs"})
	}
}

type composerEnv struct {
	pool     *KeyPool
	composer *doccomposer.DocumentComposer
	mu       sync.Mutex
	keyDig   map[string]CEnt
	svcDig   map[string]CEnt
}

func newComposerEnv(seed int64) *composerEnv {
	return &composerEnv{pool: newKeyPool(seed), composer: doccomposer.New(), keyDig: map[string]CEnt{}, svcDig: map[string]CEnt{}}
}

var keyPurposes = map[int][]interface{}{
	1: {"authentication"},
	2: {"assertionMethod", "keyAgreement"},
	3: {"capabilityInvocation", "capabilityDelegation", "authentication"},
}

func entID(prefix string, id int) string {
	if id == 0 {
		return "zz"
	}

	// service 1 has the id of key 1: keys and services are named independently of each other
	if prefix == "s" && id == 1 {
		return "k1"
	}

	return fmt.Sprintf("%s%d", prefix, id)
}

func (e *composerEnv) keyJSON(k CEnt) map[string]interface{} {
	// the key type goes with the id: JSON Web Key (P-256), Ed25519 2020 with base58 material (verification
	// purposes only), secp256k1 2019 as JWK
	var m map[string]interface{}

	switch k.ID % 3 {
	case 2:
		pk := e.pool.Get("ed", fmt.Sprintf("dock%dv%d", k.ID, k.Ver))
		purposes := keyPurposes[(k.Ver-1)%3+1]

		if (k.Ver-1)%3+1 == 2 {
			purposes = []interface{}{"assertionMethod"}
		}

		m = map[string]interface{}{
			"id":              entID("k", k.ID),
			"type":            "Ed25519VerificationKey2020",
			"purposes":        purposes,
			"publicKeyBase58": refBase58([]byte(pk.Pub.(ed25519.PublicKey))),
		}
	case 0:
		pk := e.pool.Get("k1", fmt.Sprintf("dock%dv%d", k.ID, k.Ver))
		m = map[string]interface{}{
			"id":       entID("k", k.ID),
			"type":     "EcdsaSecp256k1VerificationKey2019",
			"purposes": keyPurposes[(k.Ver-1)%3+1],
			"publicKeyJwk": map[string]interface{}{
				"kty": pk.JWK.Kty, "crv": pk.JWK.Crv, "x": pk.JWK.X, "y": pk.JWK.Y,
			},
		}
	default:
		// (the curve goes with the version: P-521, P-384, P-256, ...)
		pk := e.pool.Get([]string{"p256", "p384", "p521"}[(3000-k.Ver)%3], fmt.Sprintf("dock%dv%d", k.ID, k.Ver))
		m = map[string]interface{}{
			"id":       entID("k", k.ID),
			"type":     "JsonWebKey2020",
			"purposes": keyPurposes[(k.Ver-1)%3+1],
			"publicKeyJwk": map[string]interface{}{
				"kty": pk.JWK.Kty, "crv": pk.JWK.Crv, "x": pk.JWK.X, "y": pk.JWK.Y,
			},
		}
	}

	e.mu.Lock()
	e.keyDig[digestJSON(m)] = k
	e.mu.Unlock()

	return m
}

func (e *composerEnv) svcJSON(s CEnt) map[string]interface{} {
	m := map[string]interface{}{
		"id":   entID("s", s.ID),
		"type": fmt.Sprintf("SvcType%d", s.Ver),
		// (valid URIs come with and without an authority: https, did, urn)
		"serviceEndpoint": []string{fmt.Sprintf("https://svc%d.example/v%d", s.ID, s.Ver), fmt.Sprintf("did:example:svc%d-v%d", s.ID, s.Ver),
			fmt.Sprintf("urn:uuid:00000000-0000-0000-0000-0000000000%d%d", s.ID, s.Ver)}[s.Ver%3],
	}

	if s.Ver%2 == 0 {
		m["priority"] = s.Ver // a further member that must survive
	}

	e.mu.Lock()
	e.svcDig[digestJSON(m)] = s
	e.mu.Unlock()

	return m
}

// Concrete URIs are valid but not all "plain": an upper-case scheme and host, a non-ASCII path
// character, a fragment, a percent escape - whatever the library does with them, it must hand
// them back as given.
var uriTable = []string{
	"https://unknown.example/",
	// (URIs 1 and 2 differ in letter case only - scheme, host, path and query: two URIs all the same)
	"https://aka2.example/ZOë?Q=1",
	"HTTPS://Aka2.Example/zoë?q=1",
	"did:example:123456789abcdefghi#frag",
	"https://aka4.example/a%20b/../c",
}

// twinURIs: URI 2 is spelled so that it differs from URI 1 as a string only (a parser-normalised form - lower-case
// scheme, escaped path - is the same); add / remove-also-known-as compare the URIs they were given
var twinURIs = os.Getenv("VERIF_TWIN_URIS") == "1"

var twinTable = map[int]string{1: "https://aka1.example/zoë?q=1", 2: "HTTPS://aka1.example/zo%C3%AB?q=1"}

func twinInvalid(ps []CPatch) bool {
	for _, p := range ps {
		if p.A != "add-also-known-as" && p.A != "remove-also-known-as" {
			continue
		}

		has := map[int]bool{}
		for _, i := range p.IDs {
			has[i] = true
		}

		if has[1] && has[2] {
			return true
		}
	}

	return false
}

func uriOf(i int) string {
	if t, ok := twinTable[i]; ok && twinURIs {
		return t
	}

	if i < len(uriTable) {
		return uriTable[i]
	}

	return fmt.Sprintf("https://aka%d.example/", i)
}

// uriID maps a concrete URI back (-1: not a URI the harness handed out).
func uriID(s string) int {
	if twinURIs {
		for i, t := range twinTable {
			if t == s {
				return i
			}
		}
	}

	for i := 1; i < len(uriTable); i++ {
		if uriTable[i] == s {
			return i
		}
	}

	if m := reURI.FindStringSubmatch(s); m != nil && atoi(m[1]) >= len(uriTable) {
		return atoi(m[1])
	}

	return -1
}

var reURI = regexp.MustCompile(`^https://aka([0-9]+)\.example/$`)

// Names of further document members: ordinary names, but the second extends the first (sibling
// names sharing a prefix) and carries a space, a non-ASCII letter and a percent sign.
// (the first begins with the letters of a member that IS special - "id" - without being it)
var otherNames = []string{"", "identifier", "identifier é%", "o3"}

func otherName(i int) string {
	if i < len(otherNames) {
		return otherNames[i]
	}

	return fmt.Sprintf("o%d", i)
}

func otherID(name string) int {
	for i := 1; i < len(otherNames); i++ {
		if otherNames[i] == name {
			return i
		}
	}

	if m := reOther.FindStringSubmatch(name); m != nil && atoi(m[1]) >= len(otherNames) {
		return atoi(m[1])
	}

	return -1
}

func valJSON(v CVal) interface{} {
	switch v.T {
	case "int":
		return v.V
	case "null":
		return nil
	case "obj":
		if v.V == 0 {
			return map[string]interface{}{}
		}

		return map[string]interface{}{"n": v.V}
	}

	panic("harness: valJSON " + v.T)
}

func pathJSON(p CPath) string {
	s := "/" + otherName(p.Name)
	if p.Sub {
		s += "/n"
	}

	return s
}

func (e *composerEnv) patchJSON(p *CPatch) map[string]interface{} {
	ents := func(l []CEnt, f func(CEnt) map[string]interface{}) []interface{} {
		out := []interface{}{}
		for _, x := range l {
			out = append(out, f(x))
		}

		return out
	}

	switch p.A {
	case "add-public-keys":
		return map[string]interface{}{"action": p.A, "publicKeys": ents(p.Ents, e.keyJSON)}
	case "add-services":
		return map[string]interface{}{"action": p.A, "services": ents(p.Ents, e.svcJSON)}
	case "remove-public-keys", "remove-services":
		prefix := "k"
		if p.A == "remove-services" {
			prefix = "s"
		}

		ids := []interface{}{}
		for _, i := range p.IDs {
			ids = append(ids, entID(prefix, i))
		}

		return map[string]interface{}{"action": p.A, "ids": ids}
	case "add-also-known-as", "remove-also-known-as":
		uris := []interface{}{}
		for _, i := range p.IDs {
			uris = append(uris, uriOf(i))
		}

		return map[string]interface{}{"action": p.A, "uris": uris}
	case "replace":
		d := map[string]interface{}{}
		// (an empty list is left out or spelled [], depending on the other list)
		if len(p.Ents) > 0 || len(p.Ents2)%2 == 1 {
			d["publicKeys"] = ents(p.Ents, e.keyJSON)
		}

		if len(p.Ents2) > 0 || len(p.Ents)%2 == 1 {
			d["services"] = ents(p.Ents2, e.svcJSON)
		}

		return map[string]interface{}{"action": p.A, "document": d}
	case "ietf-json-patch":
		ops := []interface{}{}

		for _, j := range p.Ops {
			o := map[string]interface{}{"op": j.Op, "path": pathJSON(j.Path)}

			switch j.Op {
			case "add", "replace", "test":
				o["value"] = valJSON(j.Val)

				// a number is the number it denotes, however it is spelled in the patch text (RFC 6902 4.6: equal by value)
				if j.Val.T == "int" && (j.Op == "test" || j.Path.Name%2 == 0) {
					o["value"] = json.RawMessage([]string{"%d.0", "%de0", "%d0e-1", "%d.00"}[(j.Val.V+j.Path.Name)%4])
					o["value"] = json.RawMessage(fmt.Sprintf(string(o["value"].(json.RawMessage)), j.Val.V))
				}
			case "move", "copy":
				o["from"] = pathJSON(j.From)
			}

			ops = append(ops, o)
		}

		return map[string]interface{}{"action": p.A, "patches": ops}
	}

	if p.A == "broken" && len(p.IDs) == 1 {
		switch p.IDs[0] {
		case 1:
			return map[string]interface{}{"publicKeys": []interface{}{e.keyJSON(CEnt{1, 1})}}
		case 2:
			return map[string]interface{}{"action": "rename-public-keys", "publicKeys": []interface{}{e.keyJSON(CEnt{1, 1})}}
		case 3:
			return map[string]interface{}{"action": "replace"}
		case 4:
			return map[string]interface{}{"action": "add-public-keys", "services": []interface{}{e.svcJSON(CEnt{1, 1})}}
		case 5:
			return map[string]interface{}{"action": "ietf-json-patch"}
		case 6:
			return map[string]interface{}{"action": "remove-services", "uris": []interface{}{entID("s", 1)}}
		}
	}

	panic("harness: unknown patch action " + p.A)
}

// realPatches goes through bytes, as patches arrive in a request.
func (e *composerEnv) realPatches(ps []CPatch) []patch.Patch {
	l := make([]interface{}, len(ps))
	for i := range ps {
		l[i] = e.patchJSON(&ps[i])
	}

	raw, _ := json.Marshal(l)

	var out []patch.Patch
	if err := json.Unmarshal(raw, &out); err != nil {
		fatalf("patches do not unmarshal: %v", err)
	}

	return out
}

var reOther = regexp.MustCompile(`^o([0-9]+)$`)

// project maps a real document to the abstract record; members nobody asked for are reported.
func (e *composerEnv) project(doc document.Document, nOther int) (CDoc, []string) {
	d := CDoc{}

	var extras []string

	list := func(v interface{}, name string) []interface{} {
		if v == nil {
			return nil
		}

		l, ok := v.([]interface{})
		if !ok {
			extras = append(extras, name+": not a list")
		}

		return l
	}

	e.mu.Lock()
	defer e.mu.Unlock()

	for _, k := range list(doc["publicKey"], "publicKey") {
		ent, ok := e.keyDig[digestJSON(k)]
		if !ok {
			ent = CEnt{ID: -1, Ver: -1}
			if m, isMap := k.(map[string]interface{}); isMap {
				if s, isStr := m["id"].(string); isStr && len(s) > 1 && s[0] == 'k' {
					ent.ID = atoi(s[1:])
				}
			}
		}

		d.Keys = append(d.Keys, ent)
	}

	for _, s := range list(doc["service"], "service") {
		ent, ok := e.svcDig[digestJSON(s)]
		if !ok {
			ent = CEnt{ID: -1, Ver: -1}
			if m, isMap := s.(map[string]interface{}); isMap {
				if id, isStr := m["id"].(string); isStr && len(id) > 1 && id[0] == 's' {
					ent.ID = atoi(id[1:])
				}
			}
		}

		d.Svcs = append(d.Svcs, ent)
	}

	for _, u := range list(doc["alsoKnownAs"], "alsoKnownAs") {
		s, _ := u.(string)
		d.Aka = append(d.Aka, uriID(s))
	}

	d.norm(nOther)

	decoys := e.decoysLocked()
	present := 0

	for name := range decoys {
		if _, ok := doc[name]; ok {
			present++
		}
	}

	for name, v := range doc {
		switch name {
		case "publicKey", "service", "alsoKnownAs":
			continue
		}

		// decoy members (VERIF_DECOYS): all there and untouched, or all gone (a replace patch starts a new document)
		if dv, isDecoy := decoys[name]; isDecoy {
			if present != len(decoys) || digestJSON(v) != digestJSON(generic(dv)) {
				extras = append(extras, name+" (a member that only resembles keys / services was changed)")
			}

			continue
		}

		oid := otherID(name)
		if oid < 1 || oid > nOther {
			extras = append(extras, name)
			continue
		}

		cv := CVal{T: "bad"}

		switch t := v.(type) {
		case nil:
			cv = CVal{T: "null"}
		case float64:
			cv = CVal{T: "int", V: int(t)}
		case map[string]interface{}:
			if len(t) == 0 {
				cv = CVal{T: "obj", V: 0}
			} else if f, ok := t["n"].(float64); ok && len(t) == 1 {
				cv = CVal{T: "obj", V: int(f)}
			}
		}

		d.Other[oid-1] = cv
	}

	sort.Strings(extras)

	return d, extras
}

// decoys: members of the initial document that resemble the key and service lists without being them (the names the
// resolved document uses, plurals, other letter case) - only with VERIF_DECOYS=1
var withDecoys = os.Getenv("VERIF_DECOYS") == "1"

func (e *composerEnv) decoys() map[string]interface{} {
	e.mu.Lock()
	defer e.mu.Unlock()

	return e.decoysLocked()
}

func (e *composerEnv) decoysLocked() map[string]interface{} {
	if !withDecoys {
		return nil
	}

	vm := func(id string, n int) map[string]interface{} {
		k := e.pool.Get("p256", fmt.Sprintf("decoy%d", n))

		return map[string]interface{}{"id": id, "type": "JsonWebKey2020", "purposes": []interface{}{"authentication"},
			"publicKeyJwk": map[string]interface{}{"kty": "EC", "crv": "P-256", "x": k.JWK.X, "y": k.JWK.Y}}
	}

	svc := map[string]interface{}{"id": "s1", "type": "Decoy", "serviceEndpoint": "https://decoy.example/"}

	return map[string]interface{}{
		"verificationMethod": []interface{}{vm("vm1", 1), vm("k1", 2), vm("k2", 3)},
		"publicKeys":         []interface{}{vm("k1", 4)},
		"services":           []interface{}{svc},
		"Service":            []interface{}{svc},
		"authentication":     []interface{}{"k1", "#k2"},
	}
}

type cdocState struct {
	doc    document.Document
	digest string
}

type compStep struct {
	next     *cdocState
	ok       bool
	mutated  string
	partial  bool
	panicked string
}

func (e *composerEnv) step(cs *cdocState, ps []CPatch) (res compStep) {
	patches := e.realPatches(ps)
	pd := digestJSON(patches)

	// a copy through bytes (what the patches were decoded from): equal to the patches value for value and type for
	// type before the call - and afterwards
	var snap []patch.Patch

	if raw, merr := json.Marshal(patches); merr == nil {
		_ = json.Unmarshal(raw, &snap)
	}

	typed := reflect.DeepEqual(patches, snap)

	defer func() {
		if r := recover(); r != nil {
			res = compStep{next: cs, panicked: fmt.Sprint(r)}
		}
	}()

	out, err := e.composer.ApplyPatches(cs.doc, patches)

	if digestJSON(patches) != pd {
		res.mutated = "patch values"
	} else if typed && !reflect.DeepEqual(patches, snap) {
		res.mutated = "patch values (same JSON, other Go types: something was written into the patch)"
	}

	if digestJSON(cs.doc) != cs.digest {
		res.mutated = "input document"
	}

	if err != nil {
		res.partial = out != nil
		res.next = cs

		return res
	}

	res.ok = true
	res.next = &cdocState{doc: out, digest: digestJSON(out)}

	return res
}

// CStep is one earlier ApplyPatches call of a witness path, with the specification's verdict.
type CStep struct {
	Ps []CPatch `json:"ps"`
	Ok bool     `json:"ok"`
}

type cedge struct {
	Path    []CStep  `json:"path"`
	Patches []CPatch `json:"patches"`
	Ok      bool     `json:"ok"`
	Why     string   `json:"why"`
	Post    CDoc     `json:"post"`
}

type docCache struct {
	mu sync.Mutex
	m  map[string]*cdocState
}

func (e *composerEnv) stateFor(c *docCache, path []CStep) *cdocState {
	kb, _ := json.Marshal(path)
	k := string(kb)

	c.mu.Lock()
	cs, ok := c.m[k]
	c.mu.Unlock()

	if ok {
		return cs
	}

	if len(path) == 0 {
		d := document.Document{}

		for name, v := range e.decoys() {
			d[name] = v
		}

		cs = &cdocState{doc: d, digest: digestJSON(d)}
	} else {
		// a step the specification says fails leaves the document as it was; what the code does
		// with that list is judged on that list's own edge, not on every edge behind it
		prev := e.stateFor(c, path[:len(path)-1])
		cs = prev

		if last := path[len(path)-1]; last.Ok {
			cs = e.step(prev, last.Ps).next
		}
	}

	c.mu.Lock()
	if old, ok := c.m[k]; ok {
		cs = old
	} else {
		c.m[k] = cs
	}
	c.mu.Unlock()

	return cs
}

func patchListKey(kind string, ps []CPatch, why ...string) string {
	s := kind
	if len(why) > 0 && why[0] != "" {
		// only an ietf-json-patch can fail to apply in the specification
		return s + ":ietf-json-patch:" + why[0]
	}

	for _, p := range ps {
		s += fmt.Sprintf(":%s(%d,%d,%d", p.A, len(p.Ents), len(p.Ents2), len(p.IDs))
		for _, j := range p.Ops {
			s += "," + j.Op
			if j.Path.Sub {
				s += "/n"
			}
		}

		s += ")"
	}

	return s
}

func composerReplay(args []string) {
	fl := parseFlags(args)
	seed := int64(fl.int("seed", envInt("VERIF_SEED", 1)))
	env := newComposerEnv(seed)
	sharedCache := &docCache{m: map[string]*cdocState{}}
	privateStates := fl.bool("private-states")
	col := newCollector("composer", fl.str("only", ""))
	lines := make(chan []byte, 1024)

	var (
		wg         sync.WaitGroup
		okN, failN int64
		first      int32
	)

	for w := 0; w < runtime.NumCPU(); w++ {
		wg.Add(1)

		go func() {
			defer wg.Done()

			cache := sharedCache
			if privateStates {
				cache = &docCache{m: map[string]*cdocState{}}
			}

			for line := range lines {
				var ed cedge
				if err := json.Unmarshal(line, &ed); err != nil {
					fatalf("bad edge line: %v: %.300s", err, line)
				}

				// (twin URIs: a list naming both spellings in one patch is refused by validation - not in the alphabet)
				if twinURIs {
					skip := twinInvalid(ed.Patches)
					for _, st := range ed.Path {
						skip = skip || twinInvalid(st.Ps)
					}

					if skip {
						continue
					}
				}

				nOther := len(ed.Post.Other)
				ed.Post.norm(nOther)

				pre := env.stateFor(cache, ed.Path)
				res := env.step(pre, ed.Patches)
				got, extras := env.project(res.next.doc, nOther)

				atomic.AddInt64(&col.nCases, 1)

				if res.ok {
					atomic.AddInt64(&okN, 1)
				} else {
					atomic.AddInt64(&failN, 1)
				}

				if atomic.CompareAndSwapInt32(&first, 0, 1) {
					if f := fl.str("first-edge", ""); f != "" {
						_ = os.WriteFile(f, append(line, '\n'), 0o644)
					}
				}

				cs := map[string]interface{}{"path": ed.Path, "patches": ed.Patches}
				rp := map[string]interface{}{"cmd": append([]string{"composer-replay"}, args...), "stdin": string(line)}
				col.sample(map[string]interface{}{"path": ed.Path, "patches": ed.Patches, "ok": ed.Ok, "post": ed.Post})
				col.kind(patchListKey("", ed.Patches))

				conc := func() interface{} {
					raw, _ := json.Marshal(env.realPatches(ed.Patches))
					return map[string]interface{}{"document": pre.doc, "patches": json.RawMessage(raw), "result": res.next.doc}
				}

				switch {
				case res.panicked != "":
					col.report(mismatch{Kind: "panic", Key: patchListKey("panic", ed.Patches), Case: cs, Detail: res.panicked, Concrete: conc(), Replay: rp})
				case res.mutated != "":
					col.report(mismatch{Kind: "input-mutated", Key: patchListKey("input-mutated", ed.Patches), Case: cs, Detail: res.mutated, Concrete: conc(), Replay: rp})
				case res.partial:
					col.report(mismatch{Kind: "error-with-state", Key: patchListKey("error-with-state", ed.Patches), Case: cs, Concrete: conc(), Replay: rp})
				case res.ok && !ed.Ok && col.only != nil && col.only["failure-swallowed"]:
					// (C12: a list one of whose patches fails yields an error - reported under this name when asked for)
					col.report(mismatch{Kind: "failure-swallowed", Key: patchListKey("failure-swallowed", ed.Patches, ed.Why), Case: cs,
						Detail: "a patch of the list fails (" + ed.Why + ") and the call returns a document and no error", Concrete: conc(), Replay: rp})
				case res.ok != ed.Ok:
					col.report(mismatch{Kind: "verdict", Key: patchListKey("verdict", ed.Patches, ed.Why), Case: cs,
						Expected: map[string]interface{}{"applies": ed.Ok}, Actual: map[string]interface{}{"applies": res.ok}, Concrete: conc(), Replay: rp})
				case len(extras) > 0:
					col.report(mismatch{Kind: "document", Key: patchListKey("document", ed.Patches), Case: cs, Detail: fmt.Sprintf("unexpected members %v", extras), Expected: ed.Post, Actual: got, Concrete: conc(), Replay: rp})
				case !reflect.DeepEqual(got, ed.Post):
					col.report(mismatch{Kind: "document", Key: patchListKey("document", ed.Patches), Case: cs, Expected: ed.Post, Actual: got, Concrete: conc(), Replay: rp})
				}
			}
		}()
	}

	save := newSaver(fl.str("save", ""))
	readTagged(os.Stdin, "EDGE", fl.str("tlclog", ""), func(line []byte) { save.line(line); lines <- line })
	save.close()
	close(lines)
	wg.Wait()

	col.sum.Extra["applied"] = okN
	col.sum.Extra["failed_lists"] = failN
	col.sum.Extra["concrete_documents"] = len(sharedCache.m)
	col.sum.Extra["seed"] = seed
	col.finish()
}

// ---------------------------------------------------------------------------------------------
// trace driver: random validated patch sequences on the real composer

func randomPatch(r *rand.Rand, nK, nKV, nS, nSV, nU, nO int) CPatch {
	ents := func(nID, nVer, max int) []CEnt {
		n := 1 + r.Intn(max)
		seen := map[int]bool{}

		var out []CEnt

		for len(out) < n {
			id := 1 + r.Intn(nID)
			if seen[id] {
				if len(seen) >= nID {
					break
				}

				continue
			}

			seen[id] = true
			out = append(out, CEnt{ID: id, Ver: 1 + r.Intn(nVer)})
		}

		return out
	}

	ids := func(nID, max int, unknown bool) []int {
		n := 1 + r.Intn(max)
		seen := map[int]bool{}

		var out []int

		for len(out) < n && len(seen) < nID+1 {
			id := 1 + r.Intn(nID)
			if unknown && r.Float64() < 0.2 {
				id = 0
			}

			if seen[id] {
				continue
			}

			seen[id] = true
			out = append(out, id)
		}

		return out
	}

	p := CPatch{Ents: []CEnt{}, Ents2: []CEnt{}, IDs: []int{}, Ops: []CJOp{}}

	switch r.Intn(9) {
	case 0, 1:
		p.A, p.Ents = "add-public-keys", ents(nK, nKV, 3)
	case 2:
		p.A, p.IDs = "remove-public-keys", ids(nK, 3, true)
	case 3:
		p.A, p.Ents = "add-services", ents(nS, nSV, 3)
	case 4:
		p.A, p.IDs = "remove-services", ids(nS, 2, true)
	case 5:
		p.A, p.IDs = "add-also-known-as", ids(nU, 3, false)
	case 6:
		p.A, p.IDs = "remove-also-known-as", ids(nU, 3, true)
	case 7:
		p.A = "replace"
		if r.Float64() < 0.8 {
			p.Ents = ents(nK, nKV, 3)
		}

		if r.Float64() < 0.6 {
			p.Ents2 = ents(nS, nSV, 2)
		}

		if r.Float64() < 0.7 { // replace is rarer, it wipes the state
			p = randomPatch(r, nK, nKV, nS, nSV, nU, nO)
		}
	case 8:
		p.A = "ietf-json-patch"
		n := 1 + r.Intn(3)

		for i := 0; i < n; i++ {
			j := CJOp{Op: []string{"add", "add", "remove", "replace", "move", "copy", "test"}[r.Intn(7)]}
			j.Path = CPath{Name: 1 + r.Intn(nO), Sub: r.Float64() < 0.3}
			j.From = j.Path
			j.Val = CVal{T: "int", V: 1 + r.Intn(3)}

			if !j.Path.Sub && r.Float64() < 0.4 {
				j.Val = CVal{T: "obj", V: r.Intn(3)}
			}

			if j.Op == "move" || j.Op == "copy" {
				j.From = CPath{Name: 1 + r.Intn(nO), Sub: j.Path.Sub}
				j.Val = CVal{T: "int", V: 0}
			}

			if j.Op == "remove" {
				j.Val = CVal{T: "int", V: 0}
			}

			p.Ops = append(p.Ops, j)
		}
	}

	return p
}

func composerTrace(args []string) {
	fl := parseFlags(args)
	seed := int64(fl.int("seed", envInt("VERIF_SEED", 1)))
	n, maxLen := fl.int("n", 100), fl.int("maxlen", 12)
	nO := fl.int("onames", 2)
	out := fl.str("o", "-")

	env := newComposerEnv(seed)
	r := rand.New(rand.NewSource(seed))

	w := bufio.NewWriter(os.Stdout)
	if out != "-" {
		f, err := os.Create(out)
		if err != nil {
			fatalf("%v", err)
		}

		defer f.Close()

		w = bufio.NewWriter(f)
	}

	defer w.Flush()

	enc := json.NewEncoder(w)
	events := 0

	for h := 0; h < n; h++ {
		d := document.Document{}
		cs := &cdocState{doc: d, digest: digestJSON(d)}

		_ = enc.Encode(map[string]interface{}{"event": "Reset"})
		events++

		l := 1 + r.Intn(maxLen)
		for i := 0; i < l; i++ {
			np := 1
			if r.Float64() < 0.3 {
				np = 2 + r.Intn(2)
			}

			ps := make([]CPatch, np)
			for j := range ps {
				ps[j] = randomPatch(r, 4, 3, 3, 3, 4, nO)
			}

			avoidKnownDeviations(ps, cs.doc)

			res := env.step(cs, ps)
			post, extras := env.project(res.next.doc, nO)

			bad := ""

			switch {
			case res.panicked != "":
				bad = "panic: " + res.panicked
			case res.mutated != "":
				bad = "mutated: " + res.mutated
			case res.partial:
				bad = "error with document"
			case len(extras) > 0:
				bad = fmt.Sprintf("unexpected members %v", extras)
			}

			_ = enc.Encode(map[string]interface{}{"event": "Apply", "patches": ps, "ok": res.ok, "post": post, "bad": bad})
			events++

			cs = res.next
		}
	}

	fmt.Fprintf(os.Stderr, "composer trace: %d histories, %d events\n", n, events)
}

// avoidKnownDeviations rewrites the two operation shapes listed in known_findings.txt
// (evanphx/json-patch v4.1.0 lets "replace" of a missing member and "copy" from a missing member
// succeed) into "test" operations when the generator is about to produce one against the
// current real document: a rejected trace step cannot be skipped, and both shapes are covered
// exhaustively - and reported as KNOWN-FINDING - by the replay of the TLC-generated edges.
func avoidKnownDeviations(ps []CPatch, doc document.Document) {
	exists := func(p CPath) bool {
		v, ok := doc[otherName(p.Name)]
		if !ok {
			return false
		}

		if !p.Sub {
			return true
		}

		m, isMap := v.(map[string]interface{})
		if !isMap {
			return false
		}

		_, ok = m["n"]

		return ok
	}

	toTest := func(j *CJOp) {
		j.Op = "test"
		j.From = j.Path

		if j.Val.V == 0 && j.Val.T == "int" {
			j.Val.V = 1
		}
	}

	for i := range ps {
		if ps[i].A != "ietf-json-patch" {
			continue
		}

		for k := range ps[i].Ops {
			j := &ps[i].Ops[k]

			if j.Op == "replace" || j.Op == "copy" {
				// in a longer list the document an operation meets is not the current one: be conservative
				if len(ps) > 1 || len(ps[i].Ops) > 1 || (j.Op == "replace" && !exists(j.Path)) || (j.Op == "copy" && !exists(j.From)) {
					toTest(j)
				}
			}

			// "test" against a non-empty object: the pinned library compares objects as subsets
			if j.Op == "test" && j.Val.T == "obj" && j.Val.V != 0 {
				j.Val = CVal{T: "int", V: j.Val.V}
			}
		}
	}
}
