module verif/harness

go 1.22

require (
	github.com/btcsuite/btcd/btcec/v2 v2.1.3
	github.com/go-jose/go-jose/v3 v3.0.1
	github.com/trustbloc/bbs-signature-go v1.0.2
	github.com/trustbloc/did-go v1.2.1
	github.com/trustbloc/kms-go v1.1.2
	github.com/trustbloc/sidetree-go v0.0.0
)

require (
	github.com/IBM/mathlib v0.0.3-0.20231011094432-44ee0eb539da // indirect
	github.com/bits-and-blooms/bitset v1.7.0 // indirect
	github.com/btcsuite/btcutil v1.0.3-0.20201208143702-a53e38424cce // indirect
	github.com/cenkalti/backoff/v4 v4.1.3 // indirect
	github.com/consensys/bavard v0.1.13 // indirect
	github.com/consensys/gnark-crypto v0.12.1 // indirect
	github.com/decred/dcrd/dcrec/secp256k1/v4 v4.0.1 // indirect
	github.com/evanphx/json-patch v4.1.0+incompatible // indirect
	github.com/google/uuid v1.3.0 // indirect
	github.com/hyperledger/fabric-amcl v0.0.0-20230602173724-9e02669dceb2 // indirect
	github.com/kilic/bls12-381 v0.1.1-0.20210503002446-7b7597926c69 // indirect
	github.com/minio/blake2b-simd v0.0.0-20160723061019-3f5f724cb5b1 // indirect
	github.com/minio/sha256-simd v0.1.1 // indirect
	github.com/mitchellh/mapstructure v1.5.0 // indirect
	github.com/mmcloughlin/addchain v0.4.0 // indirect
	github.com/mr-tron/base58 v1.2.0 // indirect
	github.com/multiformats/go-base32 v0.1.0 // indirect
	github.com/multiformats/go-base36 v0.1.0 // indirect
	github.com/multiformats/go-multibase v0.1.1 // indirect
	github.com/multiformats/go-multihash v0.0.14 // indirect
	github.com/multiformats/go-varint v0.0.6 // indirect
	github.com/piprate/json-gold v0.5.1-0.20230111113000-6ddbe6e6f19f // indirect
	github.com/pkg/errors v0.9.1 // indirect
	github.com/pquerna/cachecontrol v0.1.0 // indirect
	github.com/spaolacci/murmur3 v1.1.0 // indirect
	github.com/teserakt-io/golang-ed25519 v0.0.0-20210104091850-3888c087a4c8 // indirect
	github.com/xeipuuv/gojsonpointer v0.0.0-20190905194746-02993c407bfb // indirect
	github.com/xeipuuv/gojsonreference v0.0.0-20180127040603-bd5ef7bd5415 // indirect
	github.com/xeipuuv/gojsonschema v1.2.0 // indirect
	golang.org/x/crypto v0.17.0 // indirect
	golang.org/x/sys v0.15.0 // indirect
	rsc.io/tmplfunc v0.0.3 // indirect
)

replace github.com/trustbloc/sidetree-go => /repo
