package main

// Jws family: C15 (signatures verify iff matching key over the same bytes), C16 (JWK encodings).

import (
	"bytes"
	"crypto/ecdsa"
	"crypto/ed25519"
	"crypto/sha256"
	"crypto/sha512"
	"encoding/asn1"
	"encoding/json"
	"fmt"
	"math/big"
	"os"
	"runtime"
	"strings"
	"sync"

	"github.com/trustbloc/sidetree-go/pkg/api/protocol"
	"github.com/trustbloc/sidetree-go/pkg/commitment"
	"github.com/trustbloc/sidetree-go/pkg/document"
	"github.com/trustbloc/sidetree-go/pkg/jws"
	"github.com/trustbloc/sidetree-go/pkg/jwsutil"
	"github.com/trustbloc/sidetree-go/pkg/util/ecsigner"
	"github.com/trustbloc/sidetree-go/pkg/util/edsigner"
	"github.com/trustbloc/sidetree-go/pkg/util/pubkey"
	"github.com/trustbloc/sidetree-go/pkg/util/signutil"
	"github.com/trustbloc/sidetree-go/pkg/versions/1_0/doctransformer/didtransformer"
)

type jwsCaseIn struct {
	Kind   string `json:"kind"`
	Kt     string `json:"kt"`
	Shape  string `json:"shape"`
	Tamper string `json:"tamper"`
	Mod    string `json:"mod"`
}

type jwsExpected struct {
	Ok    bool   `json:"ok"`
	Width int    `json:"width"`
	Kty   string `json:"kty"`
	Crv   string `json:"crv"`
}

type jwsCase struct {
	C        jwsCaseIn   `json:"c"`
	Expected jwsExpected `json:"expected"`
}

// signShaped signs with the LIBRARY's signer until the signature has the wanted shape.
func signShaped(k *Key, payload []byte, shape string) (string, error) {
	signer := librarySigner(k)
	w := 0

	if k.KT != "ed" {
		w = (curveOf(k.KT).Params().BitSize + 7) / 8
	}

	for i := 0; i < 20000; i++ {
		s, err := signutil.SignPayload(payload, signer)
		if err != nil {
			return "", err
		}

		if shape == "any" || shape == "normal" && i > 3 {
			return s, nil
		}

		sig, _ := b64dec(strings.Split(s, ".")[2])
		if len(sig) != 2*w {
			return "", fmt.Errorf("signature of %d bytes, expected %d", len(sig), 2*w)
		}

		switch shape {
		case "normal":
			if sig[0] != 0 && sig[w] != 0 {
				return s, nil
			}
		case "r_leading_zero":
			if sig[0] == 0 {
				return s, nil
			}
		case "s_leading_zero":
			if sig[w] == 0 {
				return s, nil
			}
		}
	}

	return "", fmt.Errorf("no signature of shape %s found", shape)
}

// tamperings returns the concrete (jws, key) pairs of a tamper class.
func tamperings(pool *KeyPool, k *Key, good string, tamper string) (out []struct {
	desc string
	jws  string
	key  *jws.JWK
}) {
	add := func(desc, s string, key *jws.JWK) {
		out = append(out, struct {
			desc string
			jws  string
			key  *jws.JWK
		}{desc, s, key})
	}

	parts := strings.Split(good, ".")
	hdr, _ := b64dec(parts[0])
	payload, _ := b64dec(parts[1])
	sig, _ := b64dec(parts[2])
	join := func(h, p, s []byte) string { return b64(h) + "." + b64(p) + "." + b64(s) }

	switch tamper {
	case "none":
		add("untouched", good, k.JWK)
	case "header_reserialized":
		var h map[string]interface{}

		_ = json.Unmarshal(hdr, &h)
		// same decoded content: white space, member order reversed
		alt := fmt.Sprintf("{ \"kid\" : %q ,\n \"alg\" : %q }", h["kid"], h["alg"])
		add("white space and member order", b64([]byte(alt))+"."+parts[1]+"."+parts[2], k.JWK)
	case "header_content":
		for i := 0; i < len(hdr)*8; i++ {
			h := append([]byte(nil), hdr...)
			h[i/8] ^= 1 << uint(i%8)

			// a flipped bit that only touches insignificant white space does not change the content
			var a, b interface{}
			if json.Unmarshal(h, &a) == nil && json.Unmarshal(hdr, &b) == nil && digestJSON(a) == digestJSON(b) {
				continue
			}

			add(fmt.Sprintf("header bit %d", i), join(h, payload, sig), k.JWK)
		}
		// a member added under a name the header already has (before and after the genuine one) - the decoded
		// content is not what was signed - and a further member
		var names map[string]interface{}

		_ = json.Unmarshal(hdr, &names)
		body := strings.TrimSpace(string(hdr))

		if strings.HasPrefix(body, "{") && strings.HasSuffix(body, "}") && len(names) > 0 {
			inner := body[1 : len(body)-1]
			for name := range names {
				for _, v := range []string{`"none"`, `null`, `17`} {
					add(fmt.Sprintf("member %s repeated in front with value %s", name, v), join([]byte(fmt.Sprintf("{%q:%s,%s}", name, v, inner)), payload, sig), k.JWK)
				}
			}

			// bytes after the header object: a second object, a brace, a letter, a NUL byte, a line feed and a second object
			for _, tail := range []string{`{"alg":"none"}`, `}`, `x`, "\x00", "\n" + `{"kid":"other"}`, `,`, `]`} {
				add(fmt.Sprintf("header object followed by %q", tail), join([]byte(body+tail), payload, sig), k.JWK)
			}

			// a further member whose value is null (behind and in front of the genuine ones): the decoded content changed
			for _, name := range []string{"crit", "x5u", "typ", "zz"} {
				add("further member "+name+" with value null", join([]byte(`{`+inner+`,"`+name+`":null}`), payload, sig), k.JWK)
				add("further member "+name+" with value null in front", join([]byte(`{"`+name+`":null,`+inner+`}`), payload, sig), k.JWK)
			}

			add("further member crit", join([]byte(`{`+inner+`,"crit":["b64"],"b64":true}`), payload, sig), k.JWK)
			add("further member b64 true", join([]byte(`{`+inner+`,"b64":true}`), payload, sig), k.JWK)
			add("further member x", join([]byte(`{`+inner+`,"x":1}`), payload, sig), k.JWK)
		}
	case "payload_byte":
		for i := range payload {
			p := append([]byte(nil), payload...)
			p[i] ^= 1 << uint(i%8)
			add(fmt.Sprintf("payload byte %d", i), join(hdr, p, sig), k.JWK)
		}
	case "signature_bit":
		for i := 0; i < len(sig)*8; i++ {
			s := append([]byte(nil), sig...)
			s[i/8] ^= 1 << uint(i%8)
			add(fmt.Sprintf("signature bit %d", i), join(hdr, payload, s), k.JWK)
		}
	case "other_key_same_type":
		for i := 0; i < 3; i++ {
			add(fmt.Sprintf("another %s key %d", k.KT, i), good, pool.Get(k.KT, fmt.Sprintf("jws-other-%d", i)).JWK)
		}

		if pk, ok := k.Pub.(*ecdsa.PublicKey); ok {
			// the mirrored point (x, p - y): same x, a valid key, not the signer's
			m := cloneJWK(k.JWK)
			y := new(big.Int).Sub(pk.Curve.Params().P, pk.Y)
			buf := make([]byte, (pk.Curve.Params().BitSize+7)/8)
			m.Y = b64(y.FillBytes(buf))
			add("mirrored point (same x)", good, m)
		}
	case "other_key_other_type":
		for _, kt := range allKTs {
			if kt != k.KT {
				add("a "+kt+" key", good, pool.Get(kt, "jws-other").JWK)
			}
		}
	case "signature_truncated":
		add("last byte dropped", join(hdr, payload, sig[:len(sig)-1]), k.JWK)
		add("first byte dropped", join(hdr, payload, sig[1:]), k.JWK)
		add("half", join(hdr, payload, sig[:len(sig)/2]), k.JWK)
		add("one byte", join(hdr, payload, sig[:1]), k.JWK)
	case "signature_padded":
		w := len(sig) / 2
		add("zero appended", join(hdr, payload, append(append([]byte(nil), sig...), 0)), k.JWK)
		add("zero prepended", join(hdr, payload, append([]byte{0}, sig...)), k.JWK)
		add("both halves zero-extended", join(hdr, payload, append(append(append([]byte{0}, sig[:w]...), 0), sig[w:]...)), k.JWK)
		add("both halves zero-extended by 2", join(hdr, payload, append(append(append([]byte{0, 0}, sig[:w]...), 0, 0), sig[w:]...)), k.JWK)
		add("doubled", join(hdr, payload, append(append([]byte(nil), sig...), sig...)), k.JWK)
	case "signature_der":
		// the same (r, s) in ASN.1 DER (what crypto/ecdsa and most HSMs emit): not the fixed-width form JWS uses
		type rs struct{ R, S *big.Int }

		if k.KT == "ed" {
			der, _ := asn1.Marshal(sig)
			add("signature wrapped in a DER octet string", join(hdr, payload, der), k.JWK)
		} else {
			w := len(sig) / 2
			der, _ := asn1.Marshal(rs{new(big.Int).SetBytes(sig[:w]), new(big.Int).SetBytes(sig[w:])})
			add("DER SEQUENCE{r, s}", join(hdr, payload, der), k.JWK)
		}
	case "signature_plus_order":
		if k.KT == "ed" {
			// S + L, little endian (S < 2^253, L < 2^253: the sum fits the 32 bytes)
			l, _ := new(big.Int).SetString("7237005577332262213973186563042994240857116359379907606001950938285454250989", 10)
			le := func(b []byte) []byte {
				o := make([]byte, len(b))
				for i := range b {
					o[len(b)-1-i] = b[i]
				}

				return o
			}
			sum := new(big.Int).Add(new(big.Int).SetBytes(le(sig[32:])), l)

			if sum.BitLen() <= 256 {
				add("S + L", join(hdr, payload, append(append([]byte(nil), sig[:32]...), le(sum.FillBytes(make([]byte, 32)))...)), k.JWK)
			}

			break
		}

		{
			c := curveOf(k.KT)
			n := c.Params().N
			w := len(sig) / 2
			fits := func(v *big.Int) bool { return v.BitLen() <= 8*w }
			put := func(r, s2 *big.Int) []byte {
				return append(r.FillBytes(make([]byte, w)), s2.FillBytes(make([]byte, w))...)
			}
			r0, s0 := new(big.Int).SetBytes(sig[:w]), new(big.Int).SetBytes(sig[w:])

			if v := new(big.Int).Add(s0, n); fits(v) {
				add("(r, s + n) of the genuine signature", join(hdr, payload, put(r0, v)), k.JWK)
			}

			if v := new(big.Int).Add(r0, n); fits(v) {
				add("(r + n, s) of the genuine signature", join(hdr, payload, put(v, s0)), k.JWK)
			}

			// a key chosen so that (R, 1) signs this very input: d = (1*k - z) / R mod n
			input := []byte(parts[0] + "." + parts[1])

			var z *big.Int

			switch k.KT {
			case "p384":
				d := sha512.Sum384(input)
				z = new(big.Int).SetBytes(d[:])
			case "p521":
				d := sha512.Sum512(input)
				z = new(big.Int).SetBytes(d[:])
				// (512 bits: shorter than the order, used as it is)
			default:
				d := sha256.Sum256(input)
				z = new(big.Int).SetBytes(d[:])
			}

			for _, small := range []int64{1, 2, 77} {
				kk := new(big.Int).SetBytes(seedBytes(int64(small), "plus-order/"+k.Name, w))
				kk.Mod(kk, new(big.Int).Sub(n, big.NewInt(1))).Add(kk, big.NewInt(1))
				rx, _ := c.ScalarBaseMult(kk.Bytes())
				r := new(big.Int).Mod(rx, n)

				if r.Sign() == 0 {
					continue
				}

				sv := big.NewInt(small)
				d := new(big.Int).Mul(sv, kk)
				d.Sub(d, z).Mod(d, n)
				d.Mul(d, new(big.Int).ModInverse(r, n)).Mod(d, n)

				if d.Sign() == 0 {
					continue
				}

				px, py := c.ScalarBaseMult(d.Bytes())
				pub := &ecdsa.PublicKey{Curve: c, X: px, Y: py}

				j, err := pubkey.GetPublicKeyJWK(pub)
				if err != nil {
					continue
				}

				// (the genuine pair first: it must verify, or the construction is wrong - reported as such)
				add(fmt.Sprintf("control: (R, %d) made for a chosen key", small), join(hdr, payload, put(r, sv)), j)

				if v := new(big.Int).Add(sv, n); fits(v) {
					add(fmt.Sprintf("(R, %d + n) for a chosen key", small), join(hdr, payload, put(r, v)), j)
				}
			}
		}
	case "signature_empty":
		add("empty signature segment", parts[0]+"."+parts[1]+".", k.JWK)
	case "unsupported_kty":
		for _, kty := range []string{"RSA", "oct", "", "ec"} {
			m := cloneJWK(k.JWK)
			m.Kty = kty
			add("kty "+kty, good, m)
		}

		m := cloneJWK(k.JWK)
		m.Crv = "P-999"
		add("crv P-999", good, m)

		// the same material under the name of a curve of the same family that is not supported (or is another curve)
		for _, crv := range []string{"X25519", "Ed448", "ed25519", "P-256K", "p-256", "secp256r1", "BLS12381_G2"} {
			if crv != k.JWK.Crv {
				m2 := cloneJWK(k.JWK)
				m2.Crv = crv
				add("crv "+crv, good, m2)
			}
		}
	case "two_segments":
		add("header.payload", parts[0]+"."+parts[1], k.JWK)
		add("payload.signature", parts[1]+"."+parts[2], k.JWK)
	case "four_segments":
		add("extra segment", good+"."+parts[2], k.JWK)
		add("trailing dot", good+".", k.JWK)
	case "empty_payload_segment":
		add("empty payload", parts[0]+".."+parts[2], k.JWK)
	case "bad_base64_header":
		add("+ in header", "+"+parts[0][1:]+"."+parts[1]+"."+parts[2], k.JWK)
		add("padded header", parts[0]+"=."+parts[1]+"."+parts[2], k.JWK)
	case "bad_base64_payload":
		add("/ in payload", parts[0]+"./"+parts[1][1:]+"."+parts[2], k.JWK)
	case "bad_base64_signature":
		add("+ in signature", parts[0]+"."+parts[1]+".+"+parts[2][1:], k.JWK)
		add("padded signature", good+"=", k.JWK)
	case "header_not_json":
		add("header is not JSON", b64([]byte("not json"))+"."+parts[1]+"."+parts[2], k.JWK)
		add("header is a JSON array", b64([]byte(`["alg","ES256"]`))+"."+parts[1]+"."+parts[2], k.JWK)
	default:
		fatalf("tamper %s", tamper)
	}

	return out
}

func raw0(j *jws.JWK) []byte {
	b, _ := json.Marshal(j)

	return b
}

var jwsPayloads = [][]byte{
	[]byte(`{"deltaHash":"EiA","updateKey":{"kty":"EC"}}`),
	[]byte("x"),
	{0, 1, 2, 0xff, 0xfe, 0x80, 0, 0},
	bytes.Repeat([]byte("long payload "), 40),
	// JSON texts that are not in canonical form, and text with periods: the payload is bytes, not a model
	[]byte("{ \"b\" : 1.0, \"a\" : [1e2, \"\\u0041\"] }\n"),
	[]byte("[1.0,2]"),
	[]byte("a.b.c"),
}

// disturb sends requests that the library refuses (or serves) on paths that ordinary signing never takes, right before
// a signature is made or verified: what they leave behind must not reach the next call.
func disturb(k *Key) {
	for _, d := range disturbances(k) {
		d()
	}
}

// disturbances returns the single requests of disturb, each of which is to be followed by a regular use.
func disturbances(k *Key) (out []func()) {
	guard := func(f func()) func() {
		return func() {
			defer func() { _ = recover() }()
			f()
		}
	}

	for _, payload := range [][]byte{[]byte("a.b"), []byte("."), {}} {
		for _, h := range []jws.Headers{{"alg": k.Alg, "b64": false, "crit": []interface{}{"b64"}}, {"alg": k.Alg, "b64": false}, {"alg": k.Alg, "b64": "no"},
			{"b64": false}, {"alg": 7}} {
			h, payload := h, payload
			hb, _ := json.Marshal(h)

			out = append(out,
				guard(func() { _, _ = jwsutil.NewJWS(h, nil, payload, librarySigner(k)) }),
				guard(func() { _, _ = jwsutil.VerifyJWS(b64(hb)+"."+b64(payload)+"."+b64([]byte("sig")), k.JWK) }),
				guard(func() {
					_, _ = jwsutil.VerifyJWS(b64(hb)+".."+b64([]byte("sig")), k.JWK, jwsutil.WithJWSDetachedPayload(payload))
				}),
				guard(func() { _, _ = jwsutil.ParseJWS(b64(hb) + "." + string(payload) + "." + b64([]byte("sig"))) }))
		}
	}

	return out
}

var shapedCache sync.Map

// shapedKey finds a key whose coordinates have the wanted shape (searching on all cores for the
// rare shapes).
func shapedKey(pool *KeyPool, kt, shape string) (*Key, error) {
	ck := fmt.Sprintf("%d/%s/%s", pool.seed, kt, shape)
	if k, ok := shapedCache.Load(ck); ok {
		return k.(*Key), nil
	}

	if shape == "x_two_leading_zeros" || shape == "both_leading_zero" {
		found := make(chan *Key, 64)
		stop := make(chan struct{})

		var wg sync.WaitGroup

		nw := runtime.NumCPU()
		for w := 0; w < nw; w++ {
			wg.Add(1)

			go func(w int) {
				defer wg.Done()

				for i := w; i < 4000000; i += nw {
					select {
					case <-stop:
						return
					default:
					}

					k := newKeyNoJWK(pool.seed, kt, fmt.Sprintf("c16-%s-%d", shape, i))
					pk := k.Pub.(*ecdsa.PublicKey)
					wd := (pk.Curve.Params().BitSize + 7) / 8
					x, y := pk.X.FillBytes(make([]byte, wd)), pk.Y.FillBytes(make([]byte, wd))

					if (shape == "x_two_leading_zeros" && x[0] == 0 && x[1] == 0) || (shape == "both_leading_zero" && x[0] == 0 && y[0] == 0) {
						found <- newKey(pool.seed, kt, fmt.Sprintf("c16-%s-%d", shape, i))
						return
					}
				}
			}(w)
		}

		k := <-found
		close(stop)
		wg.Wait()
		shapedCache.Store(ck, k)

		return k, nil
	}

	for i := 0; i < 40000; i++ {
		k := newKey(pool.seed, kt, fmt.Sprintf("c16-%s-%d", shape, i))

		pk, isEC := k.Pub.(*ecdsa.PublicKey)
		if !isEC {
			return k, nil
		}

		w := (pk.Curve.Params().BitSize + 7) / 8
		x, y := pk.X.FillBytes(make([]byte, w)), pk.Y.FillBytes(make([]byte, w))

		switch shape {
		case "normal":
			if x[0] != 0 && y[0] != 0 {
				return k, nil
			}
		case "x_leading_zero":
			if x[0] == 0 {
				return k, nil
			}
		case "y_leading_zero":
			if y[0] == 0 {
				return k, nil
			}
		default:
			return k, nil
		}
	}

	return nil, fmt.Errorf("no %s key of shape %s found", kt, shape)
}

func jwsReplay(args []string) {
	fl := parseFlags(args)
	seed := int64(fl.int("seed", envInt("VERIF_SEED", 1)))
	pool := newKeyPool(seed)
	col := newCollector("jws", fl.str("only", ""))
	kinds := fl.str("kinds", "jws,jwk")
	seen := map[string]bool{}
	first := true

	var instances int64

	readTagged(os.Stdin, "CASE", fl.str("tlclog", ""), func(line []byte) {
		if seen[string(line)] {
			return
		}

		seen[string(line)] = true

		var jc jwsCase
		if err := json.Unmarshal(line, &jc); err != nil {
			fatalf("bad case: %v: %.300s", err, line)
		}

		c := jc.C
		if !strings.Contains(kinds, c.Kind) {
			return
		}

		if first {
			first = false

			if f := fl.str("first-edge", ""); f != "" {
				_ = os.WriteFile(f, append(line, '\n'), 0o644)
			}
		}

		col.nCases++

		k := fmt.Sprintf("%s:%s:%s:%s%s", c.Kind, c.Kt, c.Shape, c.Tamper, c.Mod)
		col.kind(k)

		rp := map[string]interface{}{"cmd": append([]string{"jws-replay"}, args...), "stdin": string(line)}
		failed := false
		fail := func(kind, detail string, e, a interface{}, conc interface{}) {
			if failed {
				return
			}

			failed = true
			col.report(mismatch{Kind: kind, Key: kind + ":" + k, Case: jc.C, Detail: detail, Expected: e, Actual: a, Concrete: conc, Replay: rp})
		}

		defer func() {
			if r := recover(); r != nil {
				fail("panic", fmt.Sprint(r), nil, nil, nil)
			}
		}()

		if c.Kind == "jws" {
			key := pool.Get(c.Kt, "jws-signer")

			for pi, payload := range jwsPayloads {
				disturb(key)

				good, err := signShaped(key, payload, c.Shape)
				if err != nil {
					fail("sign-error", err.Error(), nil, nil, nil)
					return
				}

				if pi%2 == 0 {
					disturb(key)
				}

				// each refused request on its own, directly followed by a signature and by a verification, on one
				// processor (what a pool hands out next is then what was put back last)
				if pi == 0 && c.Tamper == "none" {
					prev := runtime.GOMAXPROCS(1)

					for di, d := range disturbances(key) {
						d()

						s1, e1 := signutil.SignPayload(payload, librarySigner(key))

						d()

						var e2 error

						if e1 == nil {
							var back *jwsutil.JSONWebSignature

							if back, e2 = jwsutil.VerifyJWS(s1, key.JWK); e2 == nil && !bytes.Equal(back.Payload, payload) {
								e2 = fmt.Errorf("another payload comes back")
							}
						}

						if e1 != nil || e2 != nil {
							runtime.GOMAXPROCS(prev)
							fail("matching-key-does-not-verify", fmt.Sprintf("right after refused request %d: sign: %v, verify: %v", di, e1, e2), "verifies", nil, s1)

							return
						}
					}

					runtime.GOMAXPROCS(prev)
				}

				// positive control: the matching key verifies and returns the payload unchanged
				parsed, verr := jwsutil.VerifyJWS(good, key.JWK)
				if verr != nil || !bytes.Equal(parsed.Payload, payload) {
					fail("matching-key-does-not-verify", fmt.Sprint(verr), "verifies", nil, good)
					return
				}

				// the same signature with the payload handed over separately (detached): verifies, and every
				// malformed split of the compact form is still refused
				{
					gp := strings.Split(good, ".")
					detached := gp[0] + ".." + gp[2]

					if dp, derr := jwsutil.VerifyJWS(detached, key.JWK, jwsutil.WithJWSDetachedPayload(payload)); derr != nil || !bytes.Equal(dp.Payload, payload) {
						fail("matching-key-does-not-verify", "detached payload: "+fmt.Sprint(derr), "verifies", nil, detached)
						return
					}

					// another payload handed over with a JWS - detached, or carrying its own payload segment: whatever is returned
					// as the payload is what the signature was verified over
					other := append(append([]byte(nil), payload...), 'x')

					for _, text := range []string{detached, good} {
						if dp, derr := jwsutil.VerifyJWS(text, key.JWK, jwsutil.WithJWSDetachedPayload(other)); derr == nil {
							fail("verify-verdict", "verified with ANOTHER payload handed over separately; payload returned: "+string(dp.Payload), map[string]interface{}{"verifies": false},
								map[string]interface{}{"verifies": true}, text)
							return
						}
					}

					for _, bad := range []string{gp[0] + "." + gp[1] + "." + gp[1] + "." + gp[2], gp[0] + "..." + gp[2], gp[0] + ".a.b.c." + gp[2],
						gp[0] + "." + gp[2], gp[0] + ".." + gp[2] + ".", "." + gp[0] + ".." + gp[2]} {
						if _, derr := jwsutil.VerifyJWS(bad, key.JWK, jwsutil.WithJWSDetachedPayload(payload)); derr == nil {
							fail("verify-verdict", "malformed compact form accepted with a detached payload", map[string]interface{}{"verifies": false},
								map[string]interface{}{"verifies": true}, bad)
							return
						}
					}
				}

				// a key id with characters that HTML-minded JSON writers escape, and a payload of 20 kB and of 1 MB: what the library's
				// signer signs, the library verifies
				if pi == 0 {
					var big1 libSigner

					kid := "did:example:123?service=files&relativeRef=<a>#key-1"

					switch pk := key.Priv.(type) {
					case ed25519.PrivateKey:
						big1 = edsigner.New(pk, key.Alg, kid)
					case *ecdsa.PrivateKey:
						big1 = ecsigner.New(pk, key.Alg, kid)
					}

					for _, pl := range [][]byte{payload, bytes.Repeat([]byte("0123456789abcdef"), 1280), bytes.Repeat([]byte{0xfb, 0xff}, 1<<19)} {
						s1, e1 := signutil.SignPayload(pl, big1)
						if e1 != nil {
							fail("sign-error", e1.Error(), nil, nil, nil)
							return
						}

						if back, verr := jwsutil.VerifyJWS(s1, key.JWK); verr != nil || !bytes.Equal(back.Payload, pl) {
							fail("matching-key-does-not-verify", fmt.Sprintf("key id %q, payload of %d bytes: %v", kid, len(pl), verr), "verifies", nil, s1[:200])
							return
						}
					}
				}

				// two signatures made with ONE signer object: the first is still the first afterwards
				if pi == 0 {
					signer := librarySigner(key)
					hdr := jws.Headers{"alg": key.Alg}

					j1, e1 := jwsutil.NewJWS(hdr, nil, payload, signer)
					j2, e2 := jwsutil.NewJWS(hdr, nil, append([]byte("another payload: "), payload...), signer)

					if e1 != nil || e2 != nil {
						fail("sign-error", fmt.Sprint(e1, e2), nil, nil, nil)
						return
					}

					s1, _ := j1.SerializeCompact(false)
					s2, _ := j2.SerializeCompact(false)

					if p1, verr := jwsutil.VerifyJWS(s1, key.JWK); verr != nil || !bytes.Equal(p1.Payload, payload) {
						fail("matching-key-does-not-verify", "the first of two JWS made with one signer: "+fmt.Sprint(verr), "verifies", nil, s1)
						return
					}

					if _, verr := jwsutil.VerifyJWS(s2, key.JWK); verr != nil {
						fail("matching-key-does-not-verify", "the second of two JWS made with one signer: "+fmt.Sprint(verr), "verifies", nil, s2)
						return
					}

					// a batch signed with ONE header map that the caller changes from item to item, serialized afterwards:
					// each JWS is the one that was signed (its own header, its own payload)
					{
						batchHdr := jws.Headers{}
						for name, v := range signer.Headers() {
							batchHdr[name] = v
						}

						type item struct {
							j   *jwsutil.JSONWebSignature
							cty string
							pl  []byte
						}

						var batch []item

						for bi, cty := range []string{"application/a", "application/b", "application/c"} {
							batchHdr["cty"] = cty
							pl := append([]byte(fmt.Sprintf("item %d: ", bi)), payload...)

							bj, be := jwsutil.NewJWS(batchHdr, nil, pl, signer)
							if be != nil {
								fail("sign-error", be.Error(), nil, nil, nil)
								return
							}

							batch = append(batch, item{bj, cty, pl})
						}

						for bi, it := range batch {
							bs, _ := it.j.SerializeCompact(false)

							back, verr := jwsutil.VerifyJWS(bs, key.JWK)
							if verr != nil || !bytes.Equal(back.Payload, it.pl) {
								fail("matching-key-does-not-verify", fmt.Sprintf("item %d of a batch signed with one header map: %v", bi, verr), "verifies", nil, bs)
								return
							}

							if got, _ := back.ProtectedHeaders["cty"].(string); got != it.cty {
								fail("matching-key-does-not-verify", fmt.Sprintf("item %d of a batch signed with one header map carries the header of another item", bi), it.cty, got, bs)
								return
							}
						}
					}

					// a JWS whose protected header carries a key of its own (the signer's): it verifies under the signer's key,
					// and under no other - the key to verify with is the caller's, not the sender's
					for _, hname := range []string{"publicKeyJwk", "jwk"} {
						ej, ee := jwsutil.NewJWS(jws.Headers{"alg": key.Alg, hname: jwkMap(key.JWK)}, nil, payload, signer)
						if ee != nil {
							continue // (a library may refuse the header)
						}

						es, se := ej.SerializeCompact(false)
						if se != nil {
							continue
						}

						for _, okt := range allKTs {
							other := pool.Get(okt, "jws-other-embedded")

							if _, verr := jwsutil.VerifyJWS(es, other.JWK); verr == nil {
								fail("verify-verdict", "a JWS that carries the signer's key in its header ("+hname+") verifies under another key ("+okt+")",
									map[string]interface{}{"verifies": false}, map[string]interface{}{"verifies": true}, es)
								return
							}
						}
					}

					// the b64 header (RFC 7797), true and false, with payloads that hold periods: what the library serializes it
					// reads back, verified, with the payload unchanged
					for _, b64v := range []bool{true, false} {
						for _, pl := range [][]byte{payload, []byte(`{"amount":1.5}`), []byte("a.b.c"), []byte(".")} {
							bj, be := jwsutil.NewJWS(jws.Headers{"alg": key.Alg, "b64": b64v, "crit": []interface{}{"b64"}}, nil, pl, signer)
							if be != nil {
								continue // (a library may refuse the header or the payload: then there is no JWS to read back)
							}

							bs, se := bj.SerializeCompact(false)
							if se != nil {
								continue
							}

							if back, verr := jwsutil.VerifyJWS(bs, key.JWK); verr != nil || !bytes.Equal(back.Payload, pl) {
								fail("matching-key-does-not-verify", fmt.Sprintf("b64 = %v, payload %q: %v", b64v, pl, verr), "verifies", nil, bs)
								return
							}
						}
					}

					// a key whose coordinate starts with a zero byte signs and verifies like any other
					if key.KT != "ed" {
						rk := pool.Get(key.KT, "rare:jws-signer")

						rs, rerr := signutil.SignPayload(payload, librarySigner(rk))
						if rerr != nil {
							fail("sign-error", rerr.Error(), nil, nil, nil)
							return
						}

						if rp, verr := jwsutil.VerifyJWS(rs, rk.JWK); verr != nil || !bytes.Equal(rp.Payload, payload) {
							fail("matching-key-does-not-verify", "key with a leading zero byte in a coordinate: "+fmt.Sprint(verr), "verifies", nil,
								map[string]interface{}{"jws": rs, "key": rk.JWK})
							return
						}
					}
				}

				for _, tm := range tamperings(pool, key, good, c.Tamper) {
					instances++

					var (
						res  *jwsutil.JSONWebSignature
						terr error
					)

					func() {
						defer func() {
							if r := recover(); r != nil {
								terr = fmt.Errorf("panic: %v", r)
								fail("panic", fmt.Sprint(r), nil, nil, tm.jws)
							}
						}()

						res, terr = jwsutil.VerifyJWS(tm.jws, tm.key)
					}()

					wantOk := jc.Expected.Ok
					if strings.HasPrefix(tm.desc, "control:") {
						wantOk = true // (a genuine signature of the chosen key: the counterpart of the changed one that follows)
					}

					if (terr == nil) != wantOk {
						fail("verify-verdict", fmt.Sprintf("payload %d, %s: %v", pi, tm.desc, terr), map[string]interface{}{"verifies": wantOk},
							map[string]interface{}{"verifies": terr == nil}, map[string]interface{}{"jws": tm.jws, "key": tm.key})
						return
					}

					if terr == nil && !bytes.Equal(res.Payload, payload) {
						fail("payload-changed", tm.desc, payload, res.Payload, tm.jws)
						return
					}

					// the matching key keeps verifying afterwards (nothing is remembered from the failed attempt)
					if _, again := jwsutil.VerifyJWS(good, key.JWK); again != nil {
						fail("matching-key-does-not-verify", "after "+tm.desc+": "+again.Error(), "verifies", nil, good)
						return
					}
				}

				if pi == 0 {
					col.sample(map[string]interface{}{"case": c, "jws": good, "key": key.JWK})
				}

				if c.Tamper != "none" && c.Tamper != "header_reserialized" && pi >= 1 && c.Tamper != "payload_byte" {
					break // the classes that do not depend on the payload are expanded for two payloads
				}
			}

			return
		}

		// ---- C16 ------------------------------------------------------------------------------
		if c.Mod == "x_plus_p" && c.Kt != "p521" {
			// a point of the curve whose x is small enough for x + p to fit the width (nobody's key, but a public key)
			if c.Shape != "normal" {
				return
			}

			curve := curveOf(c.Kt)
			prm := curve.Params()
			w := (prm.BitSize + 7) / 8
			a := big.NewInt(-3)

			if c.Kt == "k1" {
				a = big.NewInt(0)
			}

			for xi := int64(1); xi < 2000; xi++ {
				x := big.NewInt(xi)
				rhs := new(big.Int).Exp(x, big.NewInt(3), prm.P)
				rhs.Add(rhs, new(big.Int).Mul(a, x)).Add(rhs, prm.B).Mod(rhs, prm.P)

				y := new(big.Int).ModSqrt(rhs, prm.P)
				if y == nil {
					continue
				}

				crv := map[string]string{"p256": "P-256", "p384": "P-384", "k1": "secp256k1"}[c.Kt]
				enc := func(v *big.Int) string { return b64(v.FillBytes(make([]byte, w))) }
				genuine := fmt.Sprintf(`{"kty":"EC","crv":%q,"x":%q,"y":%q}`, crv, enc(x), enc(y))
				shifted := fmt.Sprintf(`{"kty":"EC","crv":%q,"x":%q,"y":%q}`, crv, enc(new(big.Int).Add(x, prm.P)), enc(y))

				var g, sft jwsutil.JWK

				if e := g.UnmarshalJSON([]byte(genuine)); e != nil {
					fail("jwk-round-trip", "a point of the curve is refused: "+e.Error(), "accepted", nil, genuine)
					return
				}

				instances++
				col.sample(map[string]interface{}{"case": c, "jwk": shifted})

				if e := sft.UnmarshalJSON([]byte(shifted)); e == nil {
					fail("modified-jwk-accepted", "x + p (the same residue, not a field element) is read as a key: one key, two JWKs, two commitments", "rejected",
						map[string]interface{}{"read_accepted": true}, shifted)
				}

				return
			}

			fail("no-instance", "no point with a small x found", nil, nil, nil)

			return
		}

		key, err := shapedKey(pool, c.Kt, c.Shape)
		if err != nil {
			fail("no-instance", err.Error(), nil, nil, nil)
			return
		}

		j, err := pubkey.GetPublicKeyJWK(key.Pub)
		if err != nil {
			fail("jwk-error", err.Error(), nil, nil, nil)
			return
		}

		w := jc.Expected.Width
		x, _ := b64dec(j.X)
		y, _ := b64dec(j.Y)

		// the reference encoding: coordinates at the curve's full byte width
		want := map[string]interface{}{"kty": jc.Expected.Kty, "crv": jc.Expected.Crv}

		switch pk := key.Pub.(type) {
		case *ecdsa.PublicKey:
			want["x"], want["y"] = b64(pk.X.FillBytes(make([]byte, w))), b64(pk.Y.FillBytes(make([]byte, w)))
		case ed25519.PublicKey:
			want["x"], want["y"] = b64(pk), ""
		}

		got := map[string]interface{}{"kty": j.Kty, "crv": j.Crv, "x": j.X, "y": j.Y}
		col.sample(map[string]interface{}{"case": c, "jwk": j})

		if digestJSON(got) != digestJSON(want) || len(x) != w || (c.Kt != "ed" && len(y) != w) {
			fail("jwk-encoding", "type / curve / fixed-width coordinates", want, got, nil)
			return
		}

		// commitments and reveal values are the same wherever they are computed
		for _, alg := range []int{sha2_256, sha2_512} {
			cm, e1 := commitment.GetCommitment(j, uint(alg))
			rv, e2 := commitment.GetRevealValue(j, uint(alg))

			if e1 != nil || e2 != nil || cm != refCommitment(want, alg) || rv != refReveal(want, alg) {
				fail("commitment-of-key", fmt.Sprint(e1, e2), map[string]interface{}{"commitment": refCommitment(want, alg), "reveal": refReveal(want, alg)},
					map[string]interface{}{"commitment": cm, "reveal": rv}, j)
				return
			}
		}

		// one key OBJECT that is given another key's value between two conversions (a key rotated in place), and a
		// result that the caller changes: every conversion answers for the value the object has at that moment
		if c.Mod == "none" {
			if pk, isEC := key.Pub.(*ecdsa.PublicKey); isEC {
				other := pool.Get(c.Kt, "c16-rotated").Pub.(*ecdsa.PublicKey)
				slot := *other

				j1, e1 := pubkey.GetPublicKeyJWK(&slot)
				if e1 == nil {
					j1.Nonce = "a nonce of the caller's"
				}

				slot = *pk

				j2, e2 := pubkey.GetPublicKeyJWK(&slot)
				j3, e3 := pubkey.GetPublicKeyJWK(&slot)

				if e1 != nil || e2 != nil || e3 != nil || j2.X != j.X || j2.Y != j.Y || j2.Nonce != "" || j3.Nonce != "" || j3.X != j.X {
					fail("jwk-encoding", fmt.Sprintf("a key object that was given another value between two conversions (%v %v %v)", e1, e2, e3), j, []interface{}{j2, j3}, nil)
					return
				}
			}
		}

		// secp256k1: a point whose x lies between the group order n and the field prime p is a public key like any other
		if c.Mod == "none" && c.Kt == "k1" && c.Shape == "normal" {
			curve := curveOf("k1")
			prm := curve.Params()

			for d := int64(0); d < 2000; d++ {
				x := new(big.Int).Add(prm.N, big.NewInt(d))
				if x.Cmp(prm.P) >= 0 {
					break
				}

				rhs := new(big.Int).Exp(x, big.NewInt(3), prm.P)
				rhs.Add(rhs, prm.B).Mod(rhs, prm.P)

				y := new(big.Int).ModSqrt(rhs, prm.P)
				if y == nil {
					continue
				}

				pj, perr := pubkey.GetPublicKeyJWK(&ecdsa.PublicKey{Curve: curve, X: x, Y: y})
				if perr != nil {
					fail("jwk-error", "a point with n <= x < p: "+perr.Error(), nil, nil, nil)
					return
				}

				praw, _ := json.Marshal(pj)

				var pback jwsutil.JWK

				if e := pback.UnmarshalJSON(praw); e != nil {
					fail("jwk-round-trip", "a secp256k1 key whose x lies between the group order and the field prime is not read back: "+e.Error(), "same key", nil, string(praw))
					return
				}

				if bk, ok := pback.Key.(*ecdsa.PublicKey); !ok || bk.X.Cmp(x) != 0 || bk.Y.Cmp(y) != 0 {
					fail("jwk-round-trip", "a secp256k1 key whose x lies between the group order and the field prime reads back as another key", "same key", nil, string(praw))
					return
				}

				instances++

				break
			}
		}

		// a JWK of this key that fails as JSON (a member of the wrong type), then JWKs of the same type without
		// coordinates: nothing of the first may be found in the second (on one processor: see disturbances)
		if c.Mod == "none" {
			full, _ := json.Marshal(j)
			broken := append(append([]byte(nil), full[:len(full)-1]...), []byte(`,"use":7}`)...)
			prev := runtime.GOMAXPROCS(1)

			for _, empty := range []string{fmt.Sprintf(`{"kty":%q,"crv":%q,"x":"","y":""}`, j.Kty, j.Crv), fmt.Sprintf(`{"kty":%q,"crv":%q}`, j.Kty, j.Crv),
				fmt.Sprintf(`{"kty":%q,"crv":%q,"x":""}`, j.Kty, j.Crv), `{}`} {
				var first, second jwsutil.JWK

				_ = first.UnmarshalJSON(broken)

				if e := second.UnmarshalJSON([]byte(empty)); e == nil && second.Key != nil {
					runtime.GOMAXPROCS(prev)
					fail("modified-jwk-accepted", "a JWK without coordinates, read right after a JWK that failed to decode, is read as a key", "rejected",
						map[string]interface{}{"read_accepted": true}, empty)

					return
				}
			}

			runtime.GOMAXPROCS(prev)
		}

		mod := cloneJWK(j)

		switch c.Mod {
		case "none":
		case "off_curve":
			yy := append([]byte(nil), y...)
			yy[len(yy)-1] ^= 1
			mod.Y = b64(yy)
		case "x_short":
			mod.X = b64(x[1:])
		case "x_long":
			mod.X = b64(append([]byte{0}, x...))
		case "y_short":
			mod.Y = b64(y[1:])
		case "y_long":
			mod.Y = b64(append([]byte{0}, y...))
		case "x_empty":
			mod.X = ""
		case "wrong_crv_name", "wrong_crv_name_alg_hint":
			mod.Crv = map[string]string{"P-256": "P-384", "P-384": "P-521", "P-521": "P-256", "secp256k1": "P-256"}[j.Crv]

			if c.Kt == "p256" && c.Mod == "wrong_crv_name_alg_hint" {
				mod.Crv = "secp256k1" // (the same width: only the curve equation tells them apart)
			}
		case "alg_of_other_curve":
		case "x_not_base64":
			mod.X = "+" + j.X[1:]
		case "x_short_shadowed":
			mod.X = b64(x[1:])
		case "x_short_linebreak":
			t := b64(x[1:])
			mod.X = t[:len(t)/2] + "\n" + t[len(t)/2:]
			if len(mod.X)%4 == 1 {
				mod.X = t[:len(t)/2] + "\r\n" + t[len(t)/2:]
			}
		case "x_short_name_case":
			mod.X = b64(x[1:])
			mod.Crv = map[string]string{"Ed25519": "ed25519", "P-256": "p-256", "P-384": "p-384", "P-521": "p-521", "secp256k1": "SECP256K1"}[j.Crv]
			if len(x)%2 == 0 {
				mod.Kty = strings.ToLower(j.Kty)
			}
		case "x_escaped_text":
			// (the first character written as a JSON escape, as text: no base64url character)
			mod.X = fmt.Sprintf("\\u%04x", j.X[0]) + j.X[1:]
		case "x_long_256":
			mod.X = b64(append(make([]byte, 256), x...))
			if c.Kt == "ed" {
				mod.X = b64(append(append([]byte(nil), x...), make([]byte, 256)...)) // (what a truncating reader would cut back to the key)
			}
		case "x_short_y_long":
			mod.X = b64(x[1:])
			mod.Y = b64(append([]byte{0}, y...))
		case "x_plus_p":
			// (P-521: every x + p fits the 66 bytes)
			pk := key.Pub.(*ecdsa.PublicKey)
			mod.X = b64(new(big.Int).Add(pk.X, pk.Curve.Params().P).FillBytes(make([]byte, w)))
		default:
			fatalf("mod %s", c.Mod)
		}

		raw, _ := json.Marshal(mod)

		switch c.Mod {
		case "wrong_crv_name_alg_hint":
			// ... followed by an alg member that names the curve the point really lies on
			raw = append(append(raw[:len(raw)-1:len(raw)-1], fmt.Sprintf(`,"alg":%q`, key.Alg)...), '}')
		case "alg_of_other_curve":
			// ... followed by an alg member that names another curve
			raw = append(append(raw[:len(raw)-1:len(raw)-1], fmt.Sprintf(`,"alg":%q`, map[string]string{"p256": "ES256K", "k1": "ES256", "p384": "ES512", "p521": "ES384"}[c.Kt])...), '}')
		}

		if c.Mod == "x_short_shadowed" {
			// ... followed by a member "X" with the full-width coordinate
			raw = append(append(raw[:len(raw)-1:len(raw)-1], fmt.Sprintf(`,"X":%q`, j.X)...), '}')
		}

		var back jwsutil.JWK

		uerr := back.UnmarshalJSON(raw)
		sameKey := false

		if uerr == nil {
			switch pk := key.Pub.(type) {
			case *ecdsa.PublicKey:
				if bk, ok := back.Key.(*ecdsa.PublicKey); ok {
					sameKey = bk.X.Cmp(pk.X) == 0 && bk.Y.Cmp(pk.Y) == 0
				}
			case ed25519.PublicKey:
				if bk, err := jwsutil.GetED25519PublicKey(mod); err == nil {
					sameKey = bytes.Equal(bk, pk)
				} else {
					uerr = err
				}
			}
		}

		// a signature by the key must (not) verify under the (modified) JWK
		good, serr := signShaped(key, jwsPayloads[0], "any")
		if serr != nil {
			fail("sign-error", serr.Error(), nil, nil, nil)
			return
		}

		_, verr := jwsutil.VerifyJWS(good, mod)
		instances++

		// the other reader of Ed25519 JWKs: a document key of the Ed25519 suites held as JWK is converted when the document
		// is resolved - the key as it is, or no resolution at all for a JWK that is no Ed25519 key
		if c.Kt == "ed" && c.Mod != "x_short_shadowed" {
			for _, suite := range []string{"Ed25519VerificationKey2018", "Ed25519VerificationKey2020"} {
				var jm map[string]interface{}

				_ = json.Unmarshal(raw0(mod), &jm)
				doc := document.Document{"publicKey": []interface{}{map[string]interface{}{"id": "key-1", "type": suite, "purposes": []interface{}{"authentication"}, "publicKeyJwk": jm}}}

				var (
					res  *document.ResolutionResult
					terr error
				)

				func() {
					defer func() {
						if r := recover(); r != nil {
							terr = fmt.Errorf("panic: %v", r)
						}
					}()

					res, terr = didtransformer.New().TransformDocument(&protocol.ResolutionModel{Doc: doc}, protocol.TransformationInfo{"id": "did:sidetree:abc", "published": true})
				}()

				if jc.Expected.Ok {
					want := ""
					if terr == nil {
						gd, _ := generic(res.Document).(map[string]interface{})
						vm, _ := gd["verificationMethod"].([]interface{})
						if len(vm) == 1 {
							m, _ := vm[0].(map[string]interface{})
							want, _ = m["publicKeyBase58"].(string)

							if suite == "Ed25519VerificationKey2020" {
								mb, _ := m["publicKeyMultibase"].(string)
								want = strings.TrimPrefix(mb, "z")
							}
						}
					}

					if terr != nil || want != refBase58([]byte(key.Pub.(ed25519.PublicKey))) {
						fail("jwk-round-trip", "resolved as "+suite+": "+fmt.Sprint(terr), refBase58([]byte(key.Pub.(ed25519.PublicKey))), want, string(raw))
						return
					}
				} else if terr == nil {
					fail("modified-jwk-accepted", "a document key of type "+suite+" with this JWK is resolved", "rejected", generic(res.Document), string(raw))
					return
				}
			}
		}

		if jc.Expected.Ok {
			if uerr != nil || !sameKey || verr != nil {
				fail("jwk-round-trip", fmt.Sprint(uerr, " / ", verr), "same key, verifies", map[string]interface{}{"same_key": sameKey}, string(raw))
				return
			}

			// ... and writes under the key type and curve name it was read under
			{
				out, merr := back.MarshalJSON()

				var written struct {
					Kty string `json:"kty"`
					Crv string `json:"crv"`
				}

				_ = json.Unmarshal(out, &written)

				if merr != nil || written.Kty != j.Kty || written.Crv != j.Crv {
					fail("jwk-round-trip", fmt.Sprintf("written back as kty %q crv %q (%v)", written.Kty, written.Crv, merr), map[string]interface{}{"kty": j.Kty, "crv": j.Crv}, string(out), string(raw))
					return
				}
			}

			// read into a variable that held a key of another kind before: it is this key now, and writes as this key
			for _, prevKT := range []string{"k1", "p256", "ed"} {
				if prevKT == c.Kt {
					continue
				}

				var reused jwsutil.JWK

				prev, _ := json.Marshal(pool.Get(prevKT, "c16-previous").JWK)
				if e := reused.UnmarshalJSON(prev); e != nil {
					fail("jwk-round-trip", "previous key: "+e.Error(), nil, nil, string(prev))
					return
				}

				e1 := reused.UnmarshalJSON(raw)
				out, e2 := reused.MarshalJSON()

				var fresh jwsutil.JWK

				_ = fresh.UnmarshalJSON(raw)
				want, _ := fresh.MarshalJSON()

				if e1 != nil || e2 != nil || reused.Kty != fresh.Kty || reused.Crv != fresh.Crv || digestJSON(json.RawMessage(out)) != digestJSON(json.RawMessage(want)) {
					fail("jwk-round-trip", fmt.Sprintf("read into a variable that held a %s key before: %v %v", prevKT, e1, e2), string(want), string(out), string(raw))
					return
				}
			}

			// the compressed point of a secp256k1 key: 02 / 03 (parity of y) and x at full width
			if pk, isEC := key.Pub.(*ecdsa.PublicKey); isEC && c.Kt == "k1" {
				got, perr := back.PublicKeyBytes()
				want := append([]byte{byte(2 + pk.Y.Bit(0))}, pk.X.FillBytes(make([]byte, 32))...)

				if perr != nil || !bytes.Equal(got, want) {
					fail("public-key-bytes", fmt.Sprint(perr), fmt.Sprintf("%x", want), fmt.Sprintf("%x", got), string(raw))
				}
			}

			return
		}

		if uerr == nil || verr == nil {
			fail("modified-jwk-accepted", fmt.Sprintf("read: %v, verify: %v", uerr, verr), "rejected",
				map[string]interface{}{"read_accepted": uerr == nil, "verify_accepted": verr == nil}, string(raw))
		}
	})

	col.sum.Extra["instances"] = instances
	col.finish()
}
