package main

// CompactJws family (extension specification CompactJws.tla): NewJWS / SerializeCompact / ParseJWS / VerifyJWS.

import (
	"bytes"
	"encoding/json"
	"fmt"
	"os"
	"reflect"
	"strings"

	"github.com/trustbloc/sidetree-go/pkg/jws"
	"github.com/trustbloc/sidetree-go/pkg/jwsutil"
)

type cjCase struct {
	C struct {
		Prot     string `json:"prot"`
		Signer   string `json:"signer"`
		Payload  string `json:"payload"`
		Detached bool   `json:"detached"`
		Opt      string `json:"opt"`
	} `json:"c"`
	Res     string `json:"res"`
	Headers struct {
		Alg string `json:"alg"`
		Kid string `json:"kid"`
		B64 string `json:"b64"`
	} `json:"headers"`
	Segment string `json:"segment"`
	Payload string `json:"payload"`
}

func compactjwsReplay(args []string) {
	fl := parseFlags(args)
	seed := int64(fl.int("seed", envInt("VERIF_SEED", 1)))
	pool := newKeyPool(seed)
	col := newCollector("compactjws", fl.str("only", ""))
	seen := map[string]bool{}
	first := true

	readTagged(os.Stdin, "CASE", fl.str("tlclog", ""), func(line []byte) {
		if seen[string(line)] {
			return
		}

		seen[string(line)] = true

		var cc cjCase
		if err := json.Unmarshal(line, &cc); err != nil {
			fatalf("bad case: %v: %.300s", err, line)
		}

		if first {
			first = false

			if f := fl.str("first-edge", ""); f != "" {
				_ = os.WriteFile(f, append(line, '\n'), 0o644)
			}
		}

		c := cc.C
		col.nCases++

		k := fmt.Sprintf("compactjws:prot=%s:signer=%s:payload=%s:detached=%v:opt=%s", c.Prot, c.Signer, c.Payload, c.Detached, c.Opt)
		col.kind(k)

		rp := map[string]interface{}{"cmd": append([]string{"compactjws-replay"}, args...), "stdin": string(line)}
		fail := func(kind, detail string, e, a interface{}) {
			col.report(mismatch{Kind: kind, Key: kind + ":" + strings.TrimPrefix(k, "compactjws:"), Case: c, Detail: detail, Expected: e, Actual: a, Replay: rp})
		}

		defer func() {
			if r := recover(); r != nil {
				fail("panic", fmt.Sprint(r), nil, nil)
			}
		}()

		key := pool.Get(allKTs[int(col.nCases)%len(allKTs)], "compact-jws")
		name := func(s string) string {
			if s == "signer-alg" {
				return key.Alg
			}

			return s
		}

		var prot jws.Headers

		switch c.Prot {
		case "none":
		case "alg_same":
			prot = jws.Headers{"alg": key.Alg}
		case "alg_other":
			prot = jws.Headers{"alg": "other-alg"}
		case "kid_other":
			prot = jws.Headers{"kid": "other-kid"}
		case "b64_false":
			prot = jws.Headers{"b64": false}
		case "b64_true":
			prot = jws.Headers{"b64": true}
		case "b64_text":
			prot = jws.Headers{"b64": "text"}
		default:
			fatalf("protected %q", c.Prot)
		}

		sh := jws.Headers{}

		switch c.Signer {
		case "alg":
			sh["alg"] = key.Alg
		case "alg_kid":
			sh["alg"], sh["kid"] = key.Alg, "signer-kid"
		case "kid_only":
			sh["kid"] = "signer-kid"
		default:
			fatalf("signer %q", c.Signer)
		}

		payloads := map[string][]byte{"text": []byte(`{"a":1}`), "dots": []byte("a.b.c"), "empty": {}, "other": []byte("other")}
		payload := payloads[c.Payload]

		protBefore, shBefore := digestJSON(prot), digestJSON(sh)
		made, err := jwsutil.NewJWS(prot, nil, payload, &bSigner{inner: librarySigner(key), headers: sh})

		if digestJSON(prot) != protBefore || digestJSON(sh) != shBefore {
			fail("input-changed", "NewJWS wrote into the header maps it was given", nil, map[string]interface{}{"protected": prot, "signer": sh})
			return
		}

		if (err != nil) != (cc.Res == "make-refused") {
			fail("outcome", "NewJWS", cc.Res, fmt.Sprint(err))
			return
		}

		if err != nil {
			return
		}

		want := map[string]interface{}{}
		if cc.Headers.Alg != "" {
			want["alg"] = name(cc.Headers.Alg)
		}

		if cc.Headers.Kid != "" {
			want["kid"] = cc.Headers.Kid
		}

		if cc.Headers.B64 != "" {
			want["b64"] = cc.Headers.B64 == "true"
		}

		if !reflect.DeepEqual(generic(made.ProtectedHeaders), generic(want)) {
			fail("headers", "the signer's headers, overridden member by member by the protected headers handed in", want, made.ProtectedHeaders)
			return
		}

		text, err := made.SerializeCompact(c.Detached)
		if err != nil {
			fail("outcome", "SerializeCompact", "three segments", err.Error())
			return
		}

		parts := strings.Split(text, ".")
		if len(parts) != 3 || (parts[1] == "") != (cc.Segment == "empty") {
			fail("segments", "", cc.Segment, text)
			return
		}

		col.sample(map[string]interface{}{"case": c, "jws": text})

		var opts []jwsutil.ParseOpt

		switch c.Opt {
		case "none":
		case "same":
			opts = append(opts, jwsutil.WithJWSDetachedPayload(payload))
		case "other":
			opts = append(opts, jwsutil.WithJWSDetachedPayload(payloads["other"]))
		case "empty":
			opts = append(opts, jwsutil.WithJWSDetachedPayload([]byte{}))
		default:
			fatalf("option %q", c.Opt)
		}

		parsed, perr := jwsutil.ParseJWS(text, opts...)
		if (perr != nil) != (cc.Res == "parse-refused") {
			fail("outcome", "ParseJWS", cc.Res, fmt.Sprint(perr))
			return
		}

		verified, verr := jwsutil.VerifyJWS(text, key.JWK, opts...)

		got := "verified"

		switch {
		case perr != nil:
			got = "parse-refused"
		case verr != nil:
			got = "verify-refused"
		}

		if perr != nil && verr == nil {
			fail("outcome", "VerifyJWS accepts what ParseJWS refuses", cc.Res, "verified")
			return
		}

		if got != cc.Res {
			fail("outcome", "VerifyJWS: "+fmt.Sprint(verr), cc.Res, got)
			return
		}

		if perr == nil && !reflect.DeepEqual(generic(parsed.ProtectedHeaders), generic(want)) {
			fail("headers", "headers read back", want, parsed.ProtectedHeaders)
			return
		}

		if got == "verified" && !bytes.Equal(verified.Payload, payloads[cc.Payload]) {
			fail("payload", "payload of the verified JWS", string(payloads[cc.Payload]), string(verified.Payload))
		}
	})

	col.finish()
}
