package main

// Concretizer: abstract (resolved) operations of Applier.tla -> real anchored operations.

import (
	"bytes"
	"encoding/asn1"
	"encoding/json"
	"fmt"
	"github.com/trustbloc/sidetree-go/pkg/hashing"
	"hash/fnv"
	"math"
	"math/big"
	"strconv"
	"strings"
	"sync"

	"github.com/trustbloc/sidetree-go/pkg/api/operation"
	"github.com/trustbloc/sidetree-go/pkg/api/protocol"
	"github.com/trustbloc/sidetree-go/pkg/jws"
)

// Delta is the abstract delta of Applier.tla.
type Delta struct {
	K string `json:"k"`
	I int    `json:"i"`
}

// ROp is a resolved abstract operation (Resolve(a, p) in Applier.tla).
type ROp struct {
	Type   string `json:"type"`
	Wf     string `json:"wf"`
	Reveal string `json:"reveal"`
	Sig    string `json:"sig"`
	Dhash  bool   `json:"dhash"`
	Dv     string `json:"dv"`
	Sfx    bool   `json:"sfx"`
	Delta  Delta  `json:"delta"`
	From   int64  `json:"from"`
	Until  int64  `json:"until"`
	T      uint64 `json:"t"`
	N      uint64 `json:"n"`
	Pv     uint64 `json:"pv"`
	Ref    int    `json:"ref"`
	Eq     int    `json:"eq"`
	Nu     int    `json:"nu"`
	Nr     int    `json:"nr"`
	Ao     int    `json:"ao"`
	Nuv    string `json:"nuv"`
	Kt     string `json:"kt"`
	H      int    `json:"h"`

	// set by the harness from a configuration record, never by the specification
	KeyNonce bool `json:"keynonce,omitempty"`
	// DhOtherAlg: the delta hash is computed with the other configured hash algorithm (a hash of another length)
	DhOtherAlg bool `json:"dhotheralg,omitempty"`
	// SuffixPrefix: text in front of the suffix a non-create request names (a suffix is any text the request says)
	SuffixPrefix string `json:"suffixprefix,omitempty"`
	// ForceWay > 0: the concrete shape of this operation's failure classes is shape ForceWay-1 (modulo the
	// number of shapes) instead of the one picked by rotation
	ForceWay int `json:"forceway,omitempty"`
}

func (o *ROp) key() string {
	b, _ := json.Marshal(o)
	return string(b)
}

// way picks one of n concrete shapes of a failure class for this operation (stable per operation, varied
// across the operations of a run).
func (o *ROp) way(n int) int {
	if o.ForceWay > 0 {
		return (o.ForceWay - 1) % n
	}

	h := fnv.New32a()
	h.Write([]byte(o.key()))

	return int(h.Sum32() % uint32(n))
}

// respell returns another base64url spelling of the same bytes and the same length (the unused low bits of the
// last character set); a string without unused bits is returned as it is.
func respell(s string) string {
	const alphabet = "ABCDEFGHIJKLMNOPQRSTUVWXYZabcdefghijklmnopqrstuvwxyz0123456789-_"

	if len(s)%4 == 0 || len(s) == 0 {
		return s
	}

	i := strings.IndexByte(alphabet, s[len(s)-1])

	return s[:len(s)-1] + string(alphabet[i|1])
}

// all numeric limits pairwise distinct, so that a confusion between two limits cannot hide
func testProtocol(td uint64) protocol.Protocol {
	return protocol.Protocol{
		GenesisTime:                  11,
		MultihashAlgorithms:          []uint{sha2_256, sha2_512},
		MaxOperationCount:            7,
		MaxOperationSize:             9000,
		MaxOperationHashLength:       100,
		MaxDeltaSize:                 1700,
		MaxCasURILength:              93,
		CompressionAlgorithm:         "GZIP",
		MaxCoreIndexFileSize:         1100,
		MaxProofFileSize:             1200,
		MaxProvisionalIndexFileSize:  1300,
		MaxChunkFileSize:             1400,
		Patches:                      []string{"replace", "add-public-keys", "remove-public-keys", "add-services", "remove-services", "ietf-json-patch", "add-also-known-as"},
		SignatureAlgorithms:          []string{"EdDSA", "ES256", "ES384", "ES512", "ES256K"},
		KeyAlgorithms:                []string{"Ed25519", "P-256", "P-384", "P-521", "secp256k1"},
		MaxOperationTimeDelta:        td,
		NonceSize:                    16,
		MaxMemoryDecompressionFactor: 3,
	}
}

// Concretizer builds real operations; it owns the tables that map real values back to
// abstract ids (the projector uses them).
type Concretizer struct {
	pool *KeyPool
	seed int64

	mu       sync.Mutex
	commitID map[string]int // real commitment string -> abstract commitment id
	docKey   map[int]string // key id -> digest of the key's JSON content
	opCache  map[string]*operation.AnchoredOperation
}

func newConcretizer(seed int64) *Concretizer {
	return &Concretizer{
		pool: newKeyPool(seed), seed: seed,
		commitID: map[string]int{}, docKey: map[int]string{}, opCache: map[string]*operation.AnchoredOperation{},
	}
}

// commitment string of abstract commitment id (0 = none) under hash h.
func (c *Concretizer) commitment(id, h int) string {
	if id == 0 {
		return ""
	}

	k := c.pool.Get("p256", fmt.Sprintf("c%d", id))
	s := refCommitment(k.JWK, algCode(h))

	c.mu.Lock()
	c.commitID[s] = id
	c.mu.Unlock()

	return s
}

func (c *Concretizer) commitmentID(s string) int {
	if s == "" {
		return 0
	}

	c.mu.Lock()
	defer c.mu.Unlock()

	if id, ok := c.commitID[s]; ok {
		return id
	}

	return -1
}

func (c *Concretizer) docKeyJSON(i int) map[string]interface{} {
	k := c.pool.Get("p256", fmt.Sprintf("doc%d", i))

	return map[string]interface{}{
		"id":       fmt.Sprintf("k%d", i),
		"type":     "JsonWebKey2020",
		"purposes": []interface{}{"authentication"},
		"publicKeyJwk": map[string]interface{}{
			"kty": k.JWK.Kty, "crv": k.JWK.Crv, "x": k.JWK.X, "y": k.JWK.Y,
		},
	}
}

func jsonPatch(ops ...map[string]interface{}) map[string]interface{} {
	l := make([]interface{}, len(ops))
	for i, o := range ops {
		l[i] = o
	}

	return map[string]interface{}{"action": "ietf-json-patch", "patches": l}
}

// patchesFor returns the generic-JSON patch list of an abstract delta.
func (c *Concretizer) patchesFor(d Delta) []interface{} {
	addKey := func(i int) map[string]interface{} {
		return map[string]interface{}{"action": "add-public-keys", "publicKeys": []interface{}{c.docKeyJSON(i)}}
	}

	switch d.K {
	case "addkey":
		return []interface{}{addKey(d.I)}
	case "remkey":
		return []interface{}{map[string]interface{}{"action": "remove-public-keys", "ids": []interface{}{fmt.Sprintf("k%d", d.I)}}}
	case "replace":
		return []interface{}{map[string]interface{}{"action": "replace",
			"document": map[string]interface{}{"publicKeys": []interface{}{c.docKeyJSON(d.I)}}}}
	case "addmem":
		// (the value holds characters that encoding/json escapes and the canonical form does not, and numbers
		// that only the ECMAScript rules format correctly)
		return []interface{}{jsonPatch(map[string]interface{}{"op": "add", "path": fmt.Sprintf("/m%d", d.I),
			"value": memValue(d.I)})}
	case "remmem":
		return []interface{}{jsonPatch(map[string]interface{}{"op": "remove", "path": fmt.Sprintf("/m%d", d.I)})}
	case "addkey_remmem":
		return []interface{}{addKey(d.I), jsonPatch(map[string]interface{}{"op": "remove", "path": "/m1"})}
	case "renmem_addkey":
		// (the member named  t~1/x : its pointer token is t~01~1x)
		return []interface{}{jsonPatch(map[string]interface{}{"op": "move", "from": "/m1", "path": "/t~01~1x"},
			map[string]interface{}{"op": "move", "from": "/t~01~1x", "path": "/m1"}), addKey(d.I)}
	case "remmem_replace":
		return []interface{}{jsonPatch(map[string]interface{}{"op": "remove", "path": "/m1"}),
			map[string]interface{}{"action": "replace", "document": map[string]interface{}{"publicKeys": []interface{}{c.docKeyJSON(d.I)}}}}
	}

	panic("harness: unknown delta kind " + d.K)
}

// memValue is the value of document member m<i>.
func memValue(i int) interface{} {
	return map[string]interface{}{"s": fmt.Sprintf("v%d?a=1&b=<2>\u2028\u00e9", i), "n": []interface{}{float64(i), 1e21, 9007199254740993.0, 1e-7},
		"\uff21": 1.0, "\U0001f600": 2.0, "": 3.0, "n ": 4.0}
}

func anchorOrigin(ao int) interface{} {
	switch {
	case ao == 0:
		return nil
	case ao >= 100:
		// (member names whose UTF-16 order differs from their UTF-8 / code point order)
		// ... and a number that Go and ECMAScript write differently (2.5e-07 / 2.5e-7)
		// ... a minus zero, and control characters whose escapes contain hexadecimal letters
		return map[string]interface{}{"o": ao - 100, "\ufb01": 1, "\U0001f600": 2.5e-7, "z": math.Copysign(0, -1),
			// (the boundaries of the number formats: 1e-6 and 1e21 are the first values written the other way)
			"b": []interface{}{1e-6, 1e-7, 1e21, 1e20, 999999999999999900000.0, 295147905179352830000.0, 1.5e-6},
			// (whole numbers that requests may spell digit by digit although a double does not hold them: see spellDigits)
			"big": []interface{}{9007199254740992.0, 1e22},
			// (names of which one is the other followed by a blank / an exclamation mark - characters below the quote)
			"o ": 3, "o!": 4,
			// (a run of one control character that differs from origin to origin)
			"c\x0b\x1f": "\x0e\x1a\x1b\x7f\x01" + strings.Repeat(string(rune(1+ao%7)), 30)}
	default:
		return fmt.Sprintf("origin-%d", ao)
	}
}

// timeOffset (flag -toffset): every time of the model (anchorFrom / anchorUntil where set, every anchoring time) is moved up by
// this much - an order-preserving map, so every verdict of the model stays what it is. With 2^53 the times are whole
// numbers that a double does not hold exactly.
var timeOffset uint64

// (anchoring times: all of them, 0 included - the anchoring time 0 is a time like any other; a signed bound of 0 is
// "not set" and stays)
func offT(t uint64) uint64 { return t + timeOffset }

func unoffT(t uint64) uint64 {
	if timeOffset > 0 && t >= timeOffset {
		return t - timeOffset
	}

	return t
}

// spellDigits re-spells, in a request text, two numbers of the structured anchor origin digit by digit: another spelling
// of the same doubles (9007199254740993 is 2^53, 10000000000000000000000 is 1e22), hence the same JSON value.
func spellDigits(text []byte) []byte {
	text = bytes.Replace(text, []byte("9007199254740992"), []byte("9007199254740993"), -1)

	return bytes.Replace(text, []byte("1e+22"), []byte("10000000000000000000000"), -1)
}

func canonRef(ref int) string {
	if ref == 0 {
		return ""
	}

	return fmt.Sprintf("canon-%d", ref)
}

func equivRefs(eq int) []string {
	if eq == 0 {
		return nil
	}

	// (a slice with spare capacity, as a JSON decoder or append leaves it)
	out := make([]string, 0, 8)

	// odd ids: a repeated entry followed by another one (the list is carried as given)
	if eq%2 == 1 {
		return append(out, fmt.Sprintf("eq-%d-a", eq), fmt.Sprintf("eq-%d-a", eq), fmt.Sprintf("eq-%d-b", eq))
	}

	return append(out, fmt.Sprintf("eq-%d-a", eq), fmt.Sprintf("eq-%d-b", eq))
}

// notAMultihash: a string where a multihash is expected that is none, in one of several shapes (by rotation):
// arbitrary bytes; the code of a configured algorithm followed by a digest that is shorter than the length
// byte says, by a full digest with bytes after it, or by nothing at all.
func (o *ROp) notAMultihash(alg int) string {
	digest := refHash(alg, []byte("some value"))

	switch o.way(4) {
	case 1:
		return b64(refMultihash(alg, digest)[:len(digest)-10])
	case 2:
		return b64(append(refMultihash(alg, digest), 1, 2, 3))
	case 3:
		return b64([]byte{byte(alg)})
	}

	return "bm90IGEgbXVsdGloYXNo"
}

// an encoded multihash that is well formed but names an unsupported algorithm (sha3-256)
func unsupportedMultihash() string {
	return b64(refMultihash(0x16, make([]byte, 32)))
}

// a decodable multihash of a configured algorithm that is longer than MaxOperationHashLength
func longMultihash() string {
	return b64(refMultihash(sha2_256, make([]byte, 80)))
}

const testSuffix = "EiDyOQbbZAa3aiRzeCkV7LOx3SERjjH93EXoIM3UoN4oWg"

func jwkMap(j interface{}) map[string]interface{} {
	raw, _ := json.Marshal(j)

	var m map[string]interface{}

	_ = json.Unmarshal(raw, &m)

	return m
}

// compactJWS builds header.payload.signature with the harness's own signer.
// compactJWS signs once per (headers, payload, key) and process: the tampered instances of an operation are
// then derived from the very JWS that the untampered operation carries (a verifier that remembers what it
// has verified must not be led to accept them).
func compactJWS(headers map[string]interface{}, payload []byte, signer *Key) string {
	hb, _ := json.Marshal(headers)
	input := b64(hb) + "." + b64(payload)
	k := signer.KT + "/" + signer.Name + "/" + input

	if v, ok := jwsCache.Load(k); ok {
		return v.(string)
	}

	v, _ := jwsCache.LoadOrStore(k, input+"."+b64(signer.Sign([]byte(input))))

	return v.(string)
}

var jwsCache sync.Map

// Build concretizes a resolved abstract operation (variant 0 of its tamper class).
func (c *Concretizer) Build(o *ROp) *operation.AnchoredOperation {
	a, _ := c.BuildVariant(o, 0)
	return a
}

// BuildVariant concretizes the given concrete instance of the operation's tamper class and
// reports how many instances the class has for this operation.
func (c *Concretizer) BuildVariant(o *ROp, variant int) (*operation.AnchoredOperation, int) {
	if variant == 0 {
		return c.build0(o), c.variants(o)
	}

	req, n := c.buildRequest(o, variant)

	return c.anchored(o, req), n
}

func (c *Concretizer) variants(o *ROp) int {
	if o.Sig == "ok" || o.Type == "create" || o.Type == "bogus" {
		return 1
	}

	_, n := c.buildRequest(o, 0)

	return n
}

func (c *Concretizer) anchored(o *ROp, req []byte) *operation.AnchoredOperation {
	// a third of the anchored requests are spelled with insignificant white space (whatever bytes were anchored
	// are the operation: nobody may tidy them up in place)
	if o.way(3) == 2 {
		var buf bytes.Buffer
		if json.Indent(&buf, req, "", "  ") == nil {
			req = buf.Bytes()
		}
	}

	return &operation.AnchoredOperation{
		Type:                 operation.Type(o.Type),
		UniqueSuffix:         testSuffix,
		OperationRequest:     req,
		TransactionTime:      offT(o.T),
		TransactionNumber:    o.N,
		ProtocolVersion:      o.Pv,
		CanonicalReference:   canonRef(o.Ref),
		EquivalentReferences: equivRefs(o.Eq),
		AnchorOrigin:         anchorOrigin(o.Ao),
	}
}

func (c *Concretizer) build0(o *ROp) *operation.AnchoredOperation {
	ck := o.key()

	c.mu.Lock()
	cached, ok := c.opCache[ck]
	c.mu.Unlock()

	if ok {
		cp := *cached
		cp.OperationRequest = append([]byte(nil), cached.OperationRequest...)

		return &cp
	}

	req, _ := c.buildRequest(o, 0)
	anch := c.anchored(o, req)

	c.mu.Lock()
	c.opCache[ck] = anch
	c.mu.Unlock()

	cp := *anch
	cp.OperationRequest = append([]byte(nil), anch.OperationRequest...)

	return &cp
}

// buildDelta returns the generic JSON of the operation's delta (nil: no delta member).
func (c *Concretizer) buildDelta(o *ROp) map[string]interface{} {
	var delta map[string]interface{}

	hasDelta := o.Type == "create" || o.Type == "update" || o.Type == "recover" || o.Type == "bogus"
	if hasDelta {
		delta = map[string]interface{}{
			"updateCommitment": c.commitment(o.Nu, o.H),
			"patches":          c.patchesFor(o.Delta),
		}

		switch o.Dv {
		case "ok":
		case "nodelta":
			delta = nil
		case "nopatches":
			delta["patches"] = []interface{}{}
		case "disabled":
			// remove-also-known-as is valid but not enabled in the test protocol
			delta["patches"] = []interface{}{map[string]interface{}{"action": "remove-also-known-as", "uris": []interface{}{"https://a.example/x"}}}
		case "invalidpatch":
			// (an invalid patch has many shapes: an id with characters that are not allowed, the empty id, an id one
			// character too long, a removal that names the empty id, a key without a type, a purpose nobody knows, a
			// service whose endpoint is no URI, the same id twice)
			bad := c.docKeyJSON(1)
			delta["patches"] = []interface{}{map[string]interface{}{"action": "add-public-keys", "publicKeys": []interface{}{bad}}}

			switch o.way(8) {
			case 0:
				bad["id"] = "bad id!"
			case 1:
				bad["id"] = ""
			case 2:
				bad["id"] = strings.Repeat("k", 51)
			case 3:
				delta["patches"] = []interface{}{map[string]interface{}{"action": "remove-public-keys", "ids": []interface{}{""}}}
			case 4:
				delete(bad, "type")
			case 5:
				bad["purposes"] = []interface{}{"authentication", "signing"}
			case 6:
				delta["patches"] = []interface{}{map[string]interface{}{"action": "add-services", "services": []interface{}{
					map[string]interface{}{"id": "svc", "type": "T", "serviceEndpoint": "not a uri"}}}}
			case 7:
				delta["patches"] = []interface{}{map[string]interface{}{"action": "add-public-keys", "publicKeys": []interface{}{c.docKeyJSON(1), c.docKeyJSON(1)}}}
			}
		case "noaction":
			delta["patches"] = []interface{}{map[string]interface{}{"publicKeys": []interface{}{c.docKeyJSON(1)}}}
		case "upd_mh":
			delta["updateCommitment"] = o.notAMultihash(algCode(o.H))
		case "expanding":
			// numbers whose canonical form is longer than their spelling in the request: the canonical delta is larger
			// than the request that carries it
			var nums []interface{}
			for i := 0; i < 80; i++ {
				nums = append(nums, 1e20) // (spelled 1e20 in the request: see sizeLimitsReplay)
			}

			delta["patches"] = append(c.patchesFor(o.Delta), jsonPatch(map[string]interface{}{"op": "add", "path": "/big", "value": nums}))
		case "toolarge":
			delta["patches"] = append(c.patchesFor(o.Delta),
				jsonPatch(map[string]interface{}{"op": "add", "path": "/big", "value": strings.Repeat("x", 1800)}))
		default:
			panic("harness: unknown dv " + o.Dv)
		}
	}

	// a patch that is not allowed stays not allowed when a replace patch (which starts the document anew) follows it
	if delta != nil && (o.Dv == "disabled" || o.Dv == "invalidpatch" || o.Dv == "noaction") && o.way(2) == 1 {
		if l, ok := delta["patches"].([]interface{}); ok {
			delta["patches"] = append(l, map[string]interface{}{"action": "replace", "document": map[string]interface{}{"publicKeys": []interface{}{c.docKeyJSON(2)}}})
		}
	}

	if (o.Nuv == "reuse_signing" || o.Nuv == "reuse_signing_other_alg") && delta != nil {
		// the next update commitment is the commitment of the key that signs this operation
		signer := c.pool.Get(o.Kt, fmt.Sprintf("sig%d", o.Nr))
		jwk := cloneJWK(signer.JWK)

		if o.KeyNonce {
			jwk.Nonce = b64(seedBytes(c.seed, "nonce/"+signer.Name, 16))
		}

		a := algCode(o.H)
		if o.Nuv == "reuse_signing_other_alg" {
			a = sha2_256 + sha2_512 - a
		}

		delta["updateCommitment"] = refCommitment(jwkMap(jwk), a)
	}

	return delta
}

func (c *Concretizer) buildRequest(o *ROp, variant int) ([]byte, int) {
	alg := algCode(o.H)

	delta := c.buildDelta(o)

	var (
		deltaHash   string
		shadowDelta map[string]interface{}
	)

	// appendShadow adds the member "Delta" after all others (see the unbound-delta shapes below)
	appendShadow := func(raw []byte) []byte {
		if shadowDelta == nil || len(raw) == 0 || raw[len(raw)-1] != '}' {
			return raw
		}

		sh, _ := json.Marshal(shadowDelta)

		return append(append(append(raw[:len(raw)-1:len(raw)-1], `,"Delta":`...), sh...), '}')
	}

	{
		var dv interface{} = delta
		if !o.Dhash {
			dv = map[string]interface{}{"updateCommitment": "other", "patches": []interface{}{}}
		}

		deltaHash = refModelHash(dv, alg)

		if o.DhOtherAlg {
			deltaHash = refModelHash(dv, sha2_256+sha2_512-alg)
		}

		// a delta hash that does not bind the delta comes in several spellings (one per operation, by rotation):
		// the hash of another delta, the right hash in a non-canonical base64 spelling, a multihash of the
		// right algorithm that carries no digest / only the first digest byte
		if !o.Dhash && delta != nil {
			right := refHash(alg, refJCSSimple(delta))

			switch o.way(6) {
			case 5:
				// the signed hash IS the hash of the "delta" member, but a member "Delta" follows it: the JSON decoder
				// matches member names case-insensitively and the last one wins, so the delta of this request is
				// the other one - which nobody signed
				if o.Dv == "ok" {
					deltaHash = refModelHash(delta, alg)
					sh := deepCopyGeneric(generic(delta)).(map[string]interface{})
					sh["patches"] = append(sh["patches"].([]interface{}), generic(jsonPatch(map[string]interface{}{"op": "add", "path": "/shadow", "value": 1})))
					shadowDelta = sh
				}
			case 1:
				if r := respell(refModelHash(delta, alg)); r != refModelHash(delta, alg) {
					deltaHash = r
				}
			case 2:
				deltaHash = b64(refMultihash(alg, nil))
			case 3:
				deltaHash = b64(refMultihash(alg, right[:1]))
			case 4:
				// the hash of a delta that differs from the one carried in a single large whole number
				if o.Dv == "ok" {
					withBig := func(n float64) map[string]interface{} {
						d := deepCopyGeneric(generic(delta)).(map[string]interface{})
						d["patches"] = append(d["patches"].([]interface{}), generic(jsonPatch(map[string]interface{}{"op": "add", "path": "/big", "value": n})))

						return d
					}

					// (signed the way a client of this library signs it: with the library's own model hash)
					if h, err := hashing.CalculateModelMultihash(withBig(1e19), uint(alg)); err == nil {
						deltaHash = h
						delta = withBig(6e20)
					}
				}
			}
		}
	}

	if o.Wf == "dh_mh" {
		deltaHash = unsupportedMultihash()
	}

	recCommit := c.commitment(o.Nr, o.H)
	if o.Wf == "rc_mh" {
		recCommit = o.notAMultihash(alg)
	}

	if o.Wf == "rc_long" {
		recCommit = longMultihash()
	}

	// ---- create ----------------------------------------------------------------
	if o.Type == "create" || o.Type == "bogus" {
		sd := map[string]interface{}{"deltaHash": deltaHash, "recoveryCommitment": recCommit}
		if ao := anchorOrigin(o.Ao); ao != nil {
			sd["anchorOrigin"] = ao
		}

		req := map[string]interface{}{"type": o.Type, "suffixData": sd}
		if delta != nil {
			req["delta"] = delta
		}

		// a request of no known type: an unknown type string, no type member, an empty string, null
		if o.Type == "bogus" {
			switch o.way(4) {
			case 1:
				delete(req, "type")
			case 2:
				req["type"] = ""
			case 3:
				req["type"] = nil
			}
		}

		switch o.Wf {
		case "ok", "rc_mh", "dh_mh", "rc_long":
		case "nosuffixdata":
			delete(req, "suffixData")
		case "badjson":
			raw, _ := json.Marshal(req)
			return raw[:len(raw)/2], 1
		default:
			panic("harness: unknown create wf " + o.Wf)
		}

		raw, _ := json.Marshal(req)

		return appendShadow(raw), 1
	}

	// ---- signed operations -----------------------------------------------------
	signer := c.pool.Get(o.Kt, fmt.Sprintf("sig%d", o.Nr))
	other := c.pool.Get(o.Kt, fmt.Sprintf("sig%d-other", o.Nr))

	jwk := cloneJWK(signer.JWK)

	switch o.Wf {
	case "crv":
		jwk.Crv = "P-999"
	case "badkey":
		jwk.X = ""
	case "nonce":
		// a nonce of the wrong size, or no base64url at all although as long as a right one would be
		switch o.way(5) {
		case 0:
			jwk.Nonce = b64(make([]byte, 8))
		case 1:
			jwk.Nonce = strings.Repeat("!", 22)
		case 2:
			jwk.Nonce = strings.Repeat("+/", 11)
		case 3:
			jwk.Nonce = strings.Repeat("A", 20) + "=="
		case 4:
			jwk.Nonce = b64(make([]byte, 17))
		}
	case "reuse":
		// the next recovery commitment is the commitment of the key that signs this operation
		recCommit = refCommitment(jwk, alg)
	case "reuse_other_alg":
		// ... computed with the other configured algorithm
		recCommit = refCommitment(jwk, sha2_256+sha2_512-alg)
	case "rsakey":
		// an RSA key: well formed, but RSA is not among the allowed key algorithms
		jwk = &jws.JWK{Kty: "RSA", N: "sXchDaQebHnPiGvyDOAT4saGEUetSyo9MKLOoWFsueri23bOdgWp4Dy1WlUzewbgBHod5pcM9H95GQRV3JDXboIRROSBigeC5yjU1hGzHHyXss8UDprecbAYxknTcQkhslANGRUZmdTOQ5qTRsLAt6BTYuyvVRdhS8exSZEy_c4gs_7svlJJQ4H9_NxsiIoLwAEk7-Q3UXERGYw_75IDrGA84-lA_-Ct4eTlXHBIY2EaV7t7LjJaynVJCpkv4LKjTTAumiGUIuQhrNhZLuF_RJLqHpM2kgWFLU7-VTdL1VbC2tejvcI2BlMkEpk1BzBZI0KQB0GaDWFLN-aEAw3vRw", E: "AQAB"}
	}

	if o.KeyNonce && o.Wf != "nonce" {
		jwk.Nonce = b64(seedBytes(c.seed, "nonce/"+signer.Name, 16))

		// the re-used commitment is that of the key as signed, nonce included
		switch o.Wf {
		case "reuse":
			recCommit = refCommitment(jwk, alg)
		case "reuse_other_alg":
			recCommit = refCommitment(jwk, sha2_256+sha2_512-alg)
		}
	}

	keyName := "updateKey"
	if o.Type != "update" {
		keyName = "recoveryKey"
	}

	signed := map[string]interface{}{keyName: jwkMap(jwk)}

	// (moved-up times are written digit for digit after canonicalization: a canonical number is a double, and these are
	// whole numbers that a double does not hold - a request is what its bytes say, canonical or not)
	exactTimes := map[string]string{}

	if o.From != 0 {
		signed["anchorFrom"] = o.From

		if timeOffset > 0 {
			signed["anchorFrom"] = "@@anchorFrom@@"
			exactTimes[`"@@anchorFrom@@"`] = strconv.FormatInt(o.From+int64(timeOffset), 10)
		}
	}

	if o.Until != 0 {
		signed["anchorUntil"] = o.Until

		if timeOffset > 0 {
			signed["anchorUntil"] = "@@anchorUntil@@"
			exactTimes[`"@@anchorUntil@@"`] = strconv.FormatInt(o.Until+int64(timeOffset), 10)
		}
	}

	reqSuffix := o.SuffixPrefix + testSuffix

	switch o.Type {
	case "update":
		signed["deltaHash"] = deltaHash
	case "recover":
		signed["deltaHash"] = deltaHash
		signed["recoveryCommitment"] = recCommit

		if ao := anchorOrigin(o.Ao); ao != nil {
			signed["anchorOrigin"] = ao
		}
	case "deactivate":
		signed["didSuffix"] = reqSuffix
		if !o.Sfx {
			// the signed suffix is not the request's: another suffix, no suffix member at all (the shape of the
			// signed data of a recover), an empty string
			// ... the request's suffix behind a namespace / another segment, in front of one, in another letter case
			switch o.way(6) {
			case 0:
				signed["didSuffix"] = "EiAnotherSuffixAnotherSuffixAnotherSuffixAnoth"
			case 1:
				delete(signed, "didSuffix")
				signed["deltaHash"] = deltaHash
				signed["recoveryCommitment"] = recCommit
			case 2:
				signed["didSuffix"] = ""
			case 3:
				signed["didSuffix"] = "did:test:" + testSuffix
			case 4:
				signed["didSuffix"] = testSuffix + ":x"
			case 5:
				signed["didSuffix"] = strings.ToLower(testSuffix)
			}
		}

		// the signed data of every other deactivate also carries a revealValue member (a field of the model that
		// nothing reads): it decides nothing - the reveal value is the request's. It is the signer's own hash
		// where the request's is wrong, and another key's hash where the request's is right.
		if o.way(2) == 1 {
			if o.Reveal == "other" {
				signed["revealValue"] = refReveal(jwkMap(jwk), alg)
			} else {
				signed["revealValue"] = refReveal(jwkMap(other.JWK), alg)
			}
		}
	}

	if o.Wf == "nokey" {
		delete(signed, keyName)
	}

	payload := refJCSSimple(signed)
	for mark, digits := range exactTimes {
		payload = bytes.Replace(payload, []byte(mark), []byte(digits), 1)
	}

	if o.Wf == "payloadjson" {
		payload = []byte("this is not json")
	}

	headers := map[string]interface{}{"alg": signer.Alg, "kid": "key-1"}

	switch o.Wf {
	case "extrahdr":
		// (a registered header name, or one that nobody has registered)
		switch o.way(4) {
		case 0:
			headers["typ"] = "JWT"
		case 1:
			headers["extra"] = "x"
		case 2:
			headers["nonce"] = "AAAA"
		case 3:
			headers["anchorOrigin"] = "https://origin.example/"
		}

		// (a third of the foreign members have the value null: a member all the same)
		if o.way(3) == 1 {
			for name := range headers {
				if name != "alg" && name != "kid" {
					headers[name] = nil
				}
			}
		}

		// (every other such header has no kid: alg and the foreign member are all there is)
		if o.way(2) == 1 {
			delete(headers, "kid")
		}
	case "extrahdr_b64true":
		headers["b64"] = true
	case "extrahdr_b64false":
		headers["b64"] = false // RFC 7797: the signature then covers the raw payload
	case "extrahdr_crit":
		headers["crit"] = []interface{}{"exp"}
		headers["exp"] = 1
	case "algnone":
		headers["alg"] = "none"
	case "algdisallowed":
		// (an algorithm that is not allowed: another family, or an allowed name in another letter case - names are
		// compared as they are)
		switch o.way(3) {
		case 0:
			headers["alg"] = "RS256"
		case 1:
			headers["alg"] = strings.ToLower(signer.Alg)
		case 2:
			alt := signer.Alg[:1] + strings.ToLower(signer.Alg[1:2]) + signer.Alg[2:]
			if alt == signer.Alg {
				alt = strings.ToUpper(signer.Alg)
			}

			if alt == signer.Alg {
				alt = "RS256"
			}

			headers["alg"] = alt
		}
	case "noalg":
		delete(headers, "alg")
	}

	signWith := signer
	if o.Sig == "otherkey" {
		signWith = other

		// every other such operation names BOTH keys in its payload: the attacker's under the member name proper,
		// then the owner's under the same name in another letter case (a decoder that matches names
		// case-insensitively takes the last one, a lookup by exact name the first)
		if o.way(2) == 1 && o.Wf == "ok" {
			if _, has := signed[keyName]; has {
				rest := map[string]interface{}{}
				for k, v := range signed {
					if k != keyName {
						rest[k] = v
					}
				}

				att, _ := json.Marshal(jwkMap(other.JWK))
				own, _ := json.Marshal(signed[keyName])
				restB := refJCSSimple(rest)
				sep := ","

				if string(restB) == "{}" {
					sep = ""
				}

				payload = []byte(fmt.Sprintf(`{"%s":%s,"%s":%s%s%s`, keyName, att, strings.ToUpper(keyName[:1])+keyName[1:], own, sep, restB[1:]))
			}
		}
	}

	signedData := compactJWS(headers, payload, signWith)
	if o.Wf == "extrahdr_b64false" {
		// signed as RFC 7797 prescribes, so that only the header rule stands between it and acceptance
		hb, _ := json.Marshal(headers)
		sig := signWith.Sign([]byte(b64(hb) + "." + string(payload)))
		signedData = b64(hb) + "." + b64(payload) + "." + b64(sig)
	}

	nVariants := 1

	if o.Sig != "ok" && o.Sig != "otherkey" {
		tv := variant
		if variant == 0 && o.Sig == "hdr_changed" {
			tv = o.way(5) // (without expansion: the shapes of a changed header by rotation)
		}

		if variant == 0 && o.Sig == "pad" {
			tv = o.way(5)
		}

		if variant == 0 && o.Sig == "payload_field" {
			tv = o.way(40) // (any of the field changes / re-encodings)
		}

		signedData, nVariants = tamperJWS(signedData, o.Sig, tv)
	}

	if o.Wf == "badjws" {
		signedData = strings.Replace(signedData, ".", "", 1)
	}

	reveal := refReveal(jwkMap(jwk), alg)
	if o.Reveal == "other" {
		reveal = refReveal(jwkMap(other.JWK), alg)

		// a reveal value the signing key does not hash to, in several shapes (by rotation): another key's
		// reveal value, the right one in a non-canonical base64 spelling, a multihash without / with one digest byte
		right := refHash(alg, refJCSSimple(jwkMap(jwk)))

		switch o.way(4) {
		case 1:
			if r := respell(refReveal(jwkMap(jwk), alg)); r != refReveal(jwkMap(jwk), alg) {
				reveal = r
			}
		case 2:
			reveal = b64(refMultihash(alg, nil))
		case 3:
			reveal = b64(refMultihash(alg, right[:1]))
		}
	}

	if o.Wf == "reveal_mh" {
		reveal = o.notAMultihash(alg)
	}

	if o.Wf == "reveal_long" {
		reveal = longMultihash()
	}

	req := map[string]interface{}{
		"type": o.Type, "didSuffix": reqSuffix, "revealValue": reveal, "signedData": signedData,
	}

	if o.Type != "deactivate" && delta != nil {
		req["delta"] = delta
	}

	switch o.Wf {
	case "noreveal":
		switch o.way(3) {
		case 0:
			delete(req, "revealValue")
		case 1:
			req["revealValue"] = ""
		case 2:
			req["revealValue"] = nil
		}
	case "nosuffix":
		delete(req, "didSuffix")
	case "nosigneddata":
		delete(req, "signedData")
	case "badjson":
		raw, _ := json.Marshal(req)
		return raw[:len(raw)/2], nVariants
	}

	raw, _ := json.Marshal(req)

	return appendShadow(raw), nVariants
}

// tamperJWS applies concrete instance `variant` of tamper class `kind` to a valid compact
// JWS without re-signing, and reports how many instances the class has.
func tamperJWS(sd, kind string, variant int) (string, int) {
	parts := strings.Split(sd, ".")
	hdr, _ := b64dec(parts[0])
	payload, _ := b64dec(parts[1])
	sig, _ := b64dec(parts[2])

	join := func(h, p, s string) string { return h + "." + p + "." + s }

	switch kind {
	case "bitflip":
		n := 8 * len(sig)
		bit := variant
		if variant == 0 {
			bit = 8*(len(sig)/3) + 2 // an arbitrary representative
		} else {
			bit = variant - 1
		}

		bit %= n
		sig[bit/8] ^= 1 << uint(bit%8)

		return join(parts[0], parts[1], b64(sig)), n + 1
	case "trunc":
		switch variant % 3 {
		case 0:
			sig = sig[:len(sig)-1]
		case 1:
			sig = sig[1:]
		case 2:
			sig = sig[:len(sig)/2]
		}

		return join(parts[0], parts[1], b64(sig)), 3
	case "pad":
		switch variant % 5 {
		case 0:
			sig = append(sig, 0)
		case 1:
			sig = append([]byte{0}, sig...)
		case 2:
			sig = append(sig, sig...)
		case 3, 4:
			// the same (r, s) in ASN.1 DER - what most signing hardware emits, not what a JWS carries - alone and followed
			// by bytes of the sender's choice (Ed25519: the signature wrapped in an octet string)
			type rs struct{ R, S *big.Int }

			w := len(sig) / 2
			der, _ := asn1.Marshal(rs{new(big.Int).SetBytes(sig[:w]), new(big.Int).SetBytes(sig[w:])})

			if len(sig) == 64 && strings.Contains(string(hdr), "EdDSA") {
				der, _ = asn1.Marshal(sig)
			}

			if variant%5 == 4 {
				der = append(der, []byte("trailing bytes")...)
			}

			sig = der
		}

		return join(parts[0], parts[1], b64(sig)), 5
	case "payload_field":
		var m map[string]interface{}

		_ = json.Unmarshal(payload, &m)
		if m == nil {
			// the payload is not a JSON object (another deviation of the same operation)
			m = map[string]interface{}{}
		}

		names := make([]string, 0, len(m))
		for k := range m {
			names = append(names, k)
		}

		sortStrings(names)

		// every field re-encoded with another value, plus a field added, plus a field dropped, plus the SAME fields in other
		// bytes (white space, members in descending order, a member repeated, an escaped letter): the signature is over bytes
		n := 2*len(names) + 5
		v := variant % n

		switch {
		case v < len(names):
			m[names[v]] = alterValue(m[names[v]])
		case v < 2*len(names):
			delete(m, names[v-len(names)])
		case v == 2*len(names):
			m["extra"] = "x"
		case v == 2*len(names)+1:
			var buf bytes.Buffer

			_ = json.Indent(&buf, payload, "", " ")

			return join(parts[0], b64(buf.Bytes()), parts[2]), n
		case v == 2*len(names)+2:
			// (members in descending order)
			var sb strings.Builder

			sb.WriteString("{")

			for i := len(names) - 1; i >= 0; i-- {
				sb.WriteString(fmt.Sprintf("%q:%s", names[i], refJCSSimple(m[names[i]])))

				if i > 0 {
					sb.WriteString(",")
				}
			}

			sb.WriteString("}")

			return join(parts[0], b64([]byte(sb.String())), parts[2]), n
		case v == 2*len(names)+3:
			// (the first member once more at the end, with the same value)
			if len(names) > 0 && len(payload) > 2 {
				dup := fmt.Sprintf(",%q:%s}", names[0], refJCSSimple(m[names[0]]))
				return join(parts[0], b64(append(append([]byte(nil), payload[:len(payload)-1]...), dup...)), parts[2]), n
			}
		default:
			// (the first letter of the first member name written as an escape)
			if len(names) > 0 && len(names[0]) > 0 {
				esc := strings.Replace(string(payload), `"`+names[0]+`"`, fmt.Sprintf(`"\\u%04x%s"`, names[0][0], names[0][1:]), 1)
				return join(parts[0], b64([]byte(esc)), parts[2]), n
			}
		}

		return join(parts[0], b64(refJCSSimple(m)), parts[2]), n
	case "hdr_changed":
		var h map[string]interface{}

		_ = json.Unmarshal(hdr, &h)
		if h == nil {
			h = map[string]interface{}{}
		}

		switch variant % 6 {
		case 0, 5:
			h["kid"] = "key-2"
		case 1:
			delete(h, "kid")
		case 2:
			// another allowed algorithm label, not re-signed
			if h["alg"] == "ES256" {
				h["alg"] = "ES256K"
			} else {
				h["alg"] = "ES256"
			}
		case 3, 4:
			// a member put in front under a name the header already has (the genuine one comes last)
			body := strings.TrimSpace(string(hdr))
			if strings.HasPrefix(body, "{") && len(body) > 2 {
				front := `"alg":"none",`
				if variant%6 == 4 {
					front = `"kid":"somebody-else",`
				}

				return join(b64([]byte("{"+front+body[1:])), parts[1], parts[2]), 6
			}
		}

		hb, _ := json.Marshal(h)

		return join(b64(hb), parts[1], parts[2]), 6
	case "seg_hdr":
		switch variant % 3 {
		case 0:
			return join(parts[0][:len(parts[0])-1], parts[1], parts[2]), 3
		case 1:
			return join(parts[0]+"A", parts[1], parts[2]), 3
		default:
			return join("", parts[1], parts[2]), 3
		}
	case "seg_payload":
		switch variant % 3 {
		case 0:
			return join(parts[0], parts[1][:len(parts[1])-1], parts[2]), 3
		case 1:
			return join(parts[0], parts[1]+"A", parts[2]), 3
		default:
			return join(parts[0], "", parts[2]), 3
		}
	case "seg_extra":
		// a fourth segment, a trailing dot, and segments carrying base64 padding (the compact form has none)
		pad := func(x string) string {
			if len(x)%4 == 0 {
				return x + "====" // (nothing to pad: a whole group of padding characters)
			}

			return x + strings.Repeat("=", 4-len(x)%4)
		}

		switch variant % 5 {
		case 0:
			return sd + ".AAAA", 5
		case 1:
			return sd + ".", 5
		case 2:
			return join(parts[0], parts[1], pad(parts[2])), 5
		case 3:
			return join(parts[0], pad(parts[1]), parts[2]), 5
		default:
			return join(pad(parts[0]), pad(parts[1]), pad(parts[2])), 5
		}
	case "seg_missing":
		switch variant % 3 {
		case 0:
			return parts[0] + "." + parts[1], 3
		case 1:
			return parts[0] + "." + parts[1] + ".", 3
		default:
			return parts[1] + "." + parts[2], 3
		}
	}

	panic("harness: unknown sig tamper " + kind)
}

func sortStrings(s []string) {
	for i := 1; i < len(s); i++ {
		for j := i; j > 0 && s[j] < s[j-1]; j-- {
			s[j], s[j-1] = s[j-1], s[j]
		}
	}
}

// alterValue returns a JSON value of the same type that differs from v.
func alterValue(v interface{}) interface{} {
	switch t := v.(type) {
	case string:
		if t == "" {
			return "x"
		}

		b := []byte(t)
		if b[len(b)/2] == 'A' {
			b[len(b)/2] = 'B'
		} else {
			b[len(b)/2] = 'A'
		}

		return string(b)
	case float64:
		return t + 1
	case map[string]interface{}:
		c := map[string]interface{}{}
		for k, e := range t {
			c[k] = e
		}

		if x, ok := c["x"]; ok {
			c["x"] = alterValue(x)
		} else {
			c["changed"] = true
		}

		return c
	case bool:
		return !t
	}

	return "changed"
}
