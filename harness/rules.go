package main

// PatchRules family (C13): feature records of PatchRules.tla -> real patches -> patchvalidator.Validate.

import (
	"bufio"
	"encoding/json"
	"fmt"
	"math/rand"
	"os"
	"sort"
	"strings"

	"github.com/trustbloc/sidetree-go/pkg/patch"
	"github.com/trustbloc/sidetree-go/pkg/versions/1_0/docvalidator/didvalidator"
	"github.com/trustbloc/sidetree-go/pkg/versions/1_0/docvalidator/docvalidator"
	"github.com/trustbloc/sidetree-go/pkg/versions/1_0/operationparser/patchvalidator"
)

type rID struct {
	Present bool   `json:"present"`
	Len     int    `json:"len"`
	Chars   string `json:"chars"`
}

type rPP struct {
	Present bool     `json:"present"`
	Set     []string `json:"set"`
	Unknown bool     `json:"unknown"`
	Sixth   bool     `json:"sixth"`
}

type rKey struct {
	ID       rID    `json:"id"`
	Type     string `json:"type"`
	Material string `json:"material"`
	Jwk      string `json:"jwk"`
	PP       rPP    `json:"pp"`
	Extra    string `json:"extra"`
}

type rLen struct {
	Present bool `json:"present"`
	Len     int  `json:"len"`
}

type rSvc struct {
	ID       rID    `json:"id"`
	Type     rLen   `json:"type"`
	Endpoint string `json:"endpoint"`
	Extra    string `json:"extra"`
}

type rOrig struct {
	Validator string `json:"validator"`
	ID        bool   `json:"id"`
	Context   bool   `json:"context"`
	BadJSON   bool   `json:"badjson"`
}

type rCase struct {
	Kind   string `json:"kind"`
	K      *rKey  `json:"k,omitempty"`
	S      *rSvc  `json:"s,omitempty"`
	Wrap   string `json:"wrap,omitempty"`
	Dup    bool   `json:"dup"`
	Action string `json:"action,omitempty"`
	V      string `json:"v,omitempty"`
	O      *rOrig `json:"o,omitempty"`
}

type rLine struct {
	C     rCase    `json:"c"`
	Muts  []string `json:"muts"`
	Valid bool     `json:"valid"`
}

func idString(id rID, prefix string) (string, bool) {
	if !id.Present {
		return "", false
	}

	if id.Len == 0 {
		return "", true
	}

	s := prefix + strings.Repeat("a", 400)
	s = s[:id.Len]

	// (kelvin sign and long s: what a case-insensitive [a-z] matches by Unicode case folding; a line feed at
	// the end: what a '$' that also matches before a final line break lets through)
	bad := map[string]string{"space": " ", "dot": ".", "nonascii": "é", "slash": "/", "kelvin": "\u212a", "longs": "\u017f", "linefeed": "\n",
		"hash_first": "#", "space_last": " "}
	if b, ok := bad[id.Chars]; ok {
		// keep the byte length, put the offending character inside
		if id.Len == 1 {
			s = b // a single character
		} else if id.Chars == "hash_first" {
			s = b + s[1:]
		} else if id.Chars == "linefeed" || id.Chars == "space_last" {
			s = s[:id.Len-1] + b
		} else {
			s = s[:id.Len/2] + b + s[id.Len/2+len(b):]
		}
	}

	return s, true
}

func jwkValue(kind string) interface{} {
	ec := map[string]interface{}{"kty": "EC", "crv": "P-256", "x": "pJ4TN9IqCV8KUtzzIwhQpHat0noUoeHXcpXwescMaoY", "y": "qe1ZO8bSdcnp1-Jyq-VsyZoouJhD8AjUOsguXSEudYs"}
	rsa := map[string]interface{}{"kty": "RSA", "n": "sXchDaQebHnPiGvyDOAT4saGEUetSyo9MKLOoWFsueri23bOdgWp4Dy1WlUzewbgBHod5pcM9H95GQRV3JDXboIRROSBigeC5yjU1hGzHHyXss8UDprecbAYxknTcQkhslANGRUZmdTOQ5qTRsLAt6BTYuyvVRdhS8exSZEy_c4gs_7svlJJQ4H9_NxsiIoLwAEk7-Q3UXERGYw_75IDrGA84-lA_-Ct4eTlXHBIY2EaV7t7LjJaynVJCpkv4LKjTTAumiGUIuQhrNhZLuF_RJLqHpM2kgWFLU7-VTdL1VbC2tejvcI2BlMkEpk1BzBZI0KQB0GaDWFLN-aEAw3vRw", "e": "AQAB"}

	del := func(m map[string]interface{}, k string) map[string]interface{} {
		delete(m, k)
		return m
	}

	switch kind {
	case "ec":
		return ec
	case "okp":
		return map[string]interface{}{"kty": "OKP", "crv": "Ed25519", "x": "o1bG1U7G3CNbtALMafUiFOq8ODraTyVTmPtRDO1QUWg"}
	case "rsa":
		return rsa
	case "okp_x25519":
		return map[string]interface{}{"kty": "OKP", "crv": "X25519", "x": "o1bG1U7G3CNbtALMafUiFOq8ODraTyVTmPtRDO1QUWg"}
	case "okp_nocrv":
		return map[string]interface{}{"kty": "OKP", "x": "o1bG1U7G3CNbtALMafUiFOq8ODraTyVTmPtRDO1QUWg"}
	case "okp_nox":
		return map[string]interface{}{"kty": "OKP", "crv": "Ed25519"}
	case "okp_crv_empty":
		return map[string]interface{}{"kty": "OKP", "crv": "", "x": "o1bG1U7G3CNbtALMafUiFOq8ODraTyVTmPtRDO1QUWg"}
	case "ec_crv_empty":
		m := del(ec, "crv")
		m["crv"] = ""

		return m
	case "nokty":
		return del(ec, "kty")
	case "nocrv":
		return del(ec, "crv")
	case "nox":
		return del(ec, "x")
	case "rsa_non":
		return del(rsa, "n")
	case "rsa_noe":
		return del(rsa, "e")
	case "notobject":
		return "not an object"
	}

	panic("harness: jwk kind " + kind)
}

func keyRecordJSON(k *rKey, idPrefix string) map[string]interface{} {
	m := map[string]interface{}{}

	if id, ok := idString(k.ID, idPrefix); ok {
		m["id"] = id
	}

	switch k.Type {
	case "missing":
	case "empty":
		m["type"] = ""
	case "number":
		m["type"] = 7
	case "null":
		m["type"] = nil
	default:
		m["type"] = k.Type
	}

	if k.Material == "jwk" || k.Material == "both" {
		m["publicKeyJwk"] = jwkValue(k.Jwk)
	}

	if k.Material == "b58" || k.Material == "both" {
		m["publicKeyBase58"] = "36d8RkFy2SdabnGzcZ3LcCSDA8NP5T4bsoADwuXtoN3B"
	}

	if k.PP.Present {
		l := []interface{}{}
		set := append([]string(nil), k.PP.Set...)
		sort.Strings(set)

		for _, p := range set {
			l = append(l, p)
		}

		if k.PP.Unknown {
			// (a purpose nobody knows: a word, the empty string, a known purpose in another letter case)
			l = append(l, []string{"signing", "", "Authentication"}[(k.ID.Len+len(set))%3])
		}

		if k.PP.Sixth && len(set) > 0 {
			l = append(l, set[0])
		}

		m["purposes"] = l
	}

	switch k.Extra {
	case "none":
	case "controller":
		m["controller"] = "did:example:123"
	case "foo":
		m["foo"] = 1
	case "publicKeyMultibase":
		m["publicKeyMultibase"] = "z6MkhaXgBZDvotDkL5257faiztiGiC2QtKLGpbnnEGta2doK"
	case "foo_null":
		m["foo"] = nil
	case "controller_null":
		m["controller"] = nil
	case "other_material_null":
		if _, has := m["publicKeyJwk"]; has {
			m["publicKeyBase58"] = nil
		} else {
			m["publicKeyJwk"] = nil
		}
	case "purposes_null":
		m["purposes"] = nil
	default:
		panic("harness: key extra " + k.Extra)
	}

	return m
}

func endpointValue(kind string) (interface{}, bool) {
	const ok1, ok2, bad = "https://a.example/x", "did:example:123", "://bad"

	obj := map[string]interface{}{"origins": []interface{}{"https://o.example/"}}

	switch kind {
	case "absent":
		return nil, false
	case "null":
		return nil, true
	case "str_ok":
		return ok1, true
	case "str_did":
		return ok2, true
	case "str_empty":
		return "", true
	case "str_bad":
		return bad, true
	case "str_blank_front":
		return " " + ok1, true
	case "str_newline_end":
		return "https://svc.example \n", true
	case "list_blank_front_second":
		return []interface{}{ok1, "\t" + ok1}, true
	case "list_ok":
		return []interface{}{ok1, ok2, "https://b.example/y"}, true
	case "list_one":
		return []interface{}{ok1}, true
	case "obj":
		return obj, true
	case "list_objs":
		return []interface{}{obj, obj}, true
	case "list_mixed_ok":
		return []interface{}{obj, ok1}, true
	case "list_bad_first":
		return []interface{}{bad, ok1}, true
	case "list_bad_second":
		return []interface{}{ok1, "%zz", ok2}, true
	case "list_bad_last":
		return []interface{}{ok1, ok2, "http://[::1"}, true
	case "list_empty_second":
		return []interface{}{ok1, ""}, true
	case "list_mixed_bad_after_obj":
		return []interface{}{obj, bad}, true
	}

	panic("harness: endpoint kind " + kind)
}

func svcRecordJSON(s *rSvc, idPrefix string) map[string]interface{} {
	m := map[string]interface{}{}

	if id, ok := idString(s.ID, idPrefix); ok {
		m["id"] = id
	}

	if s.Type.Present {
		m["type"] = strings.Repeat("T", s.Type.Len)
	}

	if v, present := endpointValue(s.Endpoint); present {
		m["serviceEndpoint"] = v
	}

	switch s.Extra {
	case "none":
	case "priority":
		m["priority"] = 1
	case "routingKeys":
		m["routingKeys"] = []interface{}{"did:example:123#key-1"}
	default:
		panic("harness: service extra " + s.Extra)
	}

	return m
}

var baseKeyRec = rKey{ID: rID{true, 1, "ok"}, Type: "JsonWebKey2020", Material: "jwk", Jwk: "ec", PP: rPP{Present: true, Set: []string{"authentication"}}, Extra: "none"}
var baseSvcRec = rSvc{ID: rID{true, 1, "ok"}, Type: rLen{true, 1}, Endpoint: "str_ok", Extra: "none"}

// rulePatchJSON builds the generic JSON of the patch (or document) a case describes.
func rulePatchJSON(c *rCase) (interface{}, string) {
	switch c.Kind {
	case "key":
		list := []interface{}{keyRecordJSON(c.K, "k")}
		if c.Dup {
			dup := baseKeyRec
			dup.ID = c.K.ID

			if ruleVariant > 0 {
				dup.Type, dup.Material = "Ed25519VerificationKey2018", "b58"
			}

			// (a third, unrelated key stands between the two in every other variant: the two need not be neighbours)
			between := baseKeyRec
			between.ID = rID{true, 7, "ok"}

			switch ruleVariant {
			case 2:
				list = append([]interface{}{keyRecordJSON(&dup, "k"), keyRecordJSON(&between, "k")}, list...)
			case 1:
				list = append(list, keyRecordJSON(&dup, "k"))
			default:
				list = append(list, keyRecordJSON(&between, "k"), keyRecordJSON(&dup, "k"))
			}
		}

		if c.Wrap == "replace" {
			d := map[string]interface{}{"publicKeys": list}
			if ruleVariant == 1 {
				d["services"] = []interface{}{svcRecordJSON(&baseSvcRec, "s")}
			}

			return map[string]interface{}{"action": "replace", "document": d}, "patch"
		}

		return map[string]interface{}{"action": "add-public-keys", "publicKeys": list}, "patch"
	case "svc":
		list := []interface{}{svcRecordJSON(c.S, "s")}
		if c.Dup {
			dup := baseSvcRec
			dup.ID = c.S.ID

			between := baseSvcRec
			between.ID = rID{true, 7, "ok"}

			if ruleVariant == 1 {
				list = append(list, svcRecordJSON(&dup, "s"))
			} else {
				list = append(list, svcRecordJSON(&between, "s"), svcRecordJSON(&dup, "s"))
			}
		}

		if c.Wrap == "replace" {
			d := map[string]interface{}{"services": list}
			if ruleVariant == 1 {
				d["publicKeys"] = []interface{}{keyRecordJSON(&baseKeyRec, "k")}
			}

			return map[string]interface{}{"action": "replace", "document": d}, "patch"
		}

		return map[string]interface{}{"action": "add-services", "services": list}, "patch"
	case "list":
		key := "ids"
		ok1, ok2, bad := "k1", "k2", "bad id!"

		if strings.HasSuffix(c.Action, "also-known-as") {
			key = "uris"
			ok1, ok2, bad = "https://a.example/x", "did:example:123", "%zz"
		}

		m := map[string]interface{}{"action": c.Action}

		switch c.V {
		case "ok_one":
			m[key] = []interface{}{ok1}
		case "ok_two":
			m[key] = []interface{}{ok1, ok2}
		case "ok_many":
			if key == "uris" {
				m[key] = []interface{}{"identityURI", "#alice", "?q=1", "../x", "example.com/alice"}
			} else {
				m[key] = []interface{}{"K_-9", strings.Repeat("Z", 50), "0", "_", "-"}
			}
		case "empty":
			m[key] = []interface{}{}
		case "not_array":
			m[key] = ok1
		case "missing_value":
		case "bad_entry_first":
			m[key] = []interface{}{bad, ok1}
		case "bad_entry_last":
			m[key] = []interface{}{ok1, ok2, bad}
		case "empty_entry_last":
			m[key] = []interface{}{ok1, ""}
		case "empty_entry_only":
			m[key] = []interface{}{""}
		case "dup":
			m[key] = []interface{}{ok1, ok2, ok1}
		case "dup_respelled":
			if key == "uris" {
				m[key] = []interface{}{ok1, ok2, "HTTPS://a.example/x"}
			} else {
				m[key] = []interface{}{ok1, ok2, "K1"}
			}
		default:
			panic("harness: list value " + c.V)
		}

		return m, "patch"
	case "replace":
		keys := []interface{}{keyRecordJSON(&baseKeyRec, "k")}
		svcs := []interface{}{svcRecordJSON(&baseSvcRec, "s")}
		m := map[string]interface{}{"action": "replace"}

		switch c.V {
		case "empty":
			m["document"] = map[string]interface{}{}
		case "keys_only":
			m["document"] = map[string]interface{}{"publicKeys": keys}
		case "services_only":
			m["document"] = map[string]interface{}{"services": svcs}
		case "both":
			m["document"] = map[string]interface{}{"publicKeys": keys, "services": svcs}
		case "extra_member":
			m["document"] = map[string]interface{}{"publicKeys": keys, "services": svcs, "alsoKnownAs": []interface{}{"https://a.example/x"}}
		case "extra_id":
			m["document"] = map[string]interface{}{"publicKeys": keys, "id": "did:example:123"}
		case "not_object":
			m["document"] = "a string"
		case "missing_value":
		default:
			panic("harness: replace value " + c.V)
		}

		return m, "patch"
	case "jsonpatch":
		m := map[string]interface{}{"action": "ietf-json-patch"}
		okOp := map[string]interface{}{"op": "add", "path": "/o1", "value": 1}

		switch c.V {
		case "ok":
			m["patches"] = []interface{}{okOp}
		case "empty":
			m["patches"] = []interface{}{}
		case "not_array":
			m["patches"] = okOp
		case "missing_value":
		case "no_path":
			m["patches"] = []interface{}{map[string]interface{}{"op": "add", "value": 1}}
		case "path_not_string":
			m["patches"] = []interface{}{map[string]interface{}{"op": "add", "path": 5, "value": 1}}
		default:
			panic("harness: json patch value " + c.V)
		}

		return m, "patch"
	case "origdoc":
		m := map[string]interface{}{
			"publicKey": []interface{}{keyRecordJSON(&baseKeyRec, "k")},
			"service":   []interface{}{svcRecordJSON(&baseSvcRec, "s")},
		}

		if c.O.ID {
			m["id"] = "did:example:123"
		}

		if c.O.Context {
			m["@context"] = []interface{}{"https://www.w3.org/ns/did/v1"}
		}

		return m, "origdoc-" + c.O.Validator
	}

	panic("harness: case kind " + c.Kind)
}

func ruleKey(l *rLine) string {
	c := &l.C
	parts := []string{"verdict", c.Kind}

	val := func(f string) string {
		var v interface{}

		switch {
		case c.Kind == "key" && f == "id":
			v = c.K.ID
		case c.Kind == "key" && f == "type":
			v = c.K.Type
		case c.Kind == "key" && f == "material":
			v = c.K.Material
		case c.Kind == "key" && f == "jwk":
			v = c.K.Jwk
		case c.Kind == "key" && f == "pp":
			v = c.K.PP
		case c.Kind == "key" && f == "extra":
			v = c.K.Extra
		case c.Kind == "svc" && f == "id":
			v = c.S.ID
		case c.Kind == "svc" && f == "type":
			v = c.S.Type
		case c.Kind == "svc" && f == "endpoint":
			v = c.S.Endpoint
		case c.Kind == "svc" && f == "extra":
			v = c.S.Extra
		case f == "dup":
			v = c.Dup
		case f == "v" && c.O != nil:
			v = c.O
		case f == "v":
			v = c.Action + "/" + c.V
		}

		b, _ := json.Marshal(v)

		return strings.NewReplacer(`"`, "", " ", "").Replace(string(b))
	}

	for _, f := range l.Muts {
		parts = append(parts, f+"="+val(f))
	}

	return strings.Join(parts, ":")
}

// ruleVariant selects among the concrete forms of one case (see rulePatchJSON): a duplicate is a second JWK key, a
// base58 key behind, or a base58 key in front; a replace document holds the judged section alone or next to a valid
// other section.  All forms of a case have the case's verdict.
var ruleVariant int

// evalRule runs the real validator on every concrete form of a case; it answers with the first form whose verdict
// differs from the first form's, if there is one.
func evalRule(c *rCase) (valid bool, panicked string, raw []byte) {
	ruleVariant = 0
	valid, panicked, raw = evalRuleVariant(c)

	if (c.Kind == "key" || c.Kind == "svc") && (c.Dup || c.Wrap == "replace") {
		for ruleVariant = 1; ruleVariant <= 2; ruleVariant++ {
			if v2, p2, r2 := evalRuleVariant(c); v2 != valid || p2 != panicked {
				// (all forms of a case have the case's verdict: one of the two is wrong, whichever the case's verdict is)
				msg := fmt.Sprintf("forms-differ: form 0 valid=%v %s / form %d valid=%v %s: %s", valid, panicked, ruleVariant, v2, p2, raw)
				ruleVariant = 0

				return v2, msg, r2
			}
		}
	}

	ruleVariant = 0

	return valid, panicked, raw
}

func evalRuleVariant(c *rCase) (valid bool, panicked string, raw []byte) {
	v, how := rulePatchJSON(c)
	raw, _ = json.Marshal(v)

	if how != "patch" && c.O.BadJSON {
		raw = raw[:len(raw)/2]
	}

	var err error

	func() {
		defer func() {
			if r := recover(); r != nil {
				panicked = fmt.Sprint(r)
			}
		}()

		switch how {
		case "patch":
			var p patch.Patch
			if e := json.Unmarshal(raw, &p); e != nil {
				fatalf("patch does not unmarshal: %v", e)
			}

			err = patchvalidator.Validate(p)
		case "origdoc-doc":
			err = docvalidator.New().IsValidOriginalDocument(raw)
		case "origdoc-did":
			err = didvalidator.New().IsValidOriginalDocument(raw)
		}
	}()

	return err == nil && panicked == "", panicked, raw
}

func pickS(r *rand.Rand, base string, pBase float64, vals ...string) string {
	if r.Float64() < pBase {
		return base
	}

	return vals[r.Intn(len(vals))]
}

func randomID(r *rand.Rand) rID {
	switch {
	case r.Float64() < 0.75:
		return rID{true, []int{1, 50}[r.Intn(2)], "ok"}
	case r.Float64() < 0.3:
		return rID{false, 0, "ok"}
	case r.Float64() < 0.5:
		return rID{true, []int{0, 51, 256, 306}[r.Intn(4)], "ok"}
	default:
		return rID{true, []int{1, 50}[r.Intn(2)], []string{"space", "dot", "nonascii", "slash", "kelvin", "longs", "linefeed", "hash_first", "space_last"}[r.Intn(9)]}
	}
}

var allPurposes = []string{"authentication", "assertionMethod", "keyAgreement", "capabilityDelegation", "capabilityInvocation"}
var allKeyTypes = []string{"Bls12381G2Key2020", "JsonWebKey2020", "EcdsaSecp256k1VerificationKey2019", "X25519KeyAgreementKey2019", "Ed25519VerificationKey2018", "Ed25519VerificationKey2020"}

// randomRule draws a case from the full product of the feature values (any number of deviations).
func randomRule(r *rand.Rand) rCase {
	switch r.Intn(10) {
	case 0, 1, 2, 3:
		k := rKey{ID: randomID(r), Extra: pickS(r, "none", 0.85, "controller", "foo", "publicKeyMultibase", "foo_null", "controller_null", "other_material_null", "purposes_null")}
		k.Type = pickS(r, allKeyTypes[r.Intn(len(allKeyTypes))], 0.9, "Unknown2099", "missing", "empty", "number", "null")
		k.Material = pickS(r, "jwk", 0.6, "b58", "b58", "both", "none")
		k.Jwk = pickS(r, "ec", 0.5, "okp", "okp_x25519", "rsa", "nokty", "nocrv", "nox", "rsa_non", "rsa_noe", "notobject", "okp_nocrv", "okp_nox", "okp_crv_empty", "ec_crv_empty")
		k.PP.Set = []string{}

		if r.Float64() < 0.85 {
			k.PP.Present = true

			for _, p := range allPurposes {
				if r.Float64() < 0.4 {
					k.PP.Set = append(k.PP.Set, p)
				}
			}

			k.PP.Unknown = r.Float64() < 0.08
			k.PP.Sixth = len(k.PP.Set) > 0 && r.Float64() < 0.15
		} else if k.Type == "Unknown2099" {
			// (absent purposes, unknown type) is not in the catalogue: the statement is silent
			k.Type = "JsonWebKey2020"
		}

		return rCase{Kind: "key", K: &k, Wrap: pickS(r, "add", 0.6, "replace"), Dup: r.Float64() < 0.07}
	case 4, 5, 6:
		s := rSvc{ID: randomID(r), Extra: pickS(r, "none", 0.7, "priority", "routingKeys")}
		s.Type = rLen{true, []int{1, 30}[r.Intn(2)]}

		if r.Float64() < 0.2 {
			s.Type = []rLen{{false, 0}, {true, 0}, {true, 31}}[r.Intn(3)]
		}

		s.Endpoint = pickS(r, "str_ok", 0.3, "str_did", "list_ok", "list_one", "obj", "list_objs", "list_mixed_ok",
			"absent", "null", "str_empty", "str_bad", "str_blank_front", "str_newline_end", "list_blank_front_second", "list_bad_first", "list_bad_second", "list_bad_last",
			"list_empty_second", "list_mixed_bad_after_obj")

		return rCase{Kind: "svc", S: &s, Wrap: pickS(r, "add", 0.6, "replace"), Dup: r.Float64() < 0.07}
	case 7:
		a := []string{"remove-public-keys", "remove-services", "add-also-known-as", "remove-also-known-as"}[r.Intn(4)]
		v := []string{"ok_one", "ok_two", "ok_many", "empty", "not_array", "missing_value", "bad_entry_first", "bad_entry_last", "dup", "dup_respelled", "empty_entry_last", "empty_entry_only"}[r.Intn(12)]

		return rCase{Kind: "list", Action: a, V: v}
	case 8:
		if r.Intn(2) == 0 {
			return rCase{Kind: "replace", V: []string{"empty", "keys_only", "services_only", "both", "extra_member", "extra_id", "not_object", "missing_value"}[r.Intn(8)]}
		}

		return rCase{Kind: "jsonpatch", V: []string{"ok", "empty", "not_array", "missing_value", "no_path", "path_not_string"}[r.Intn(6)]}
	default:
		return rCase{Kind: "origdoc", O: &rOrig{Validator: []string{"doc", "did"}[r.Intn(2)], ID: r.Float64() < 0.3, Context: r.Float64() < 0.3, BadJSON: r.Float64() < 0.1}}
	}
}

func rulesTrace(args []string) {
	fl := parseFlags(args)
	seed := int64(fl.int("seed", envInt("VERIF_SEED", 1)))
	n := fl.int("n", 1000)
	r := rand.New(rand.NewSource(seed))

	f, err := os.Create(fl.str("o", "rules_trace.ndjson"))
	if err != nil {
		fatalf("%v", err)
	}

	defer f.Close()

	w := bufio.NewWriter(f)
	defer w.Flush()

	enc := json.NewEncoder(w)

	for i := 0; i < n; i++ {
		c := randomRule(r)
		valid, panicked, _ := evalRule(&c)
		_ = enc.Encode(map[string]interface{}{"event": "Validate", "c": c, "valid": valid, "bad": panicked})
	}
}

func rulesReplay(args []string) {
	fl := parseFlags(args)
	col := newCollector("patchrules", fl.str("only", ""))
	first := true

	readTagged(os.Stdin, "CASE", fl.str("tlclog", ""), func(line []byte) {
		var l rLine
		if err := json.Unmarshal(line, &l); err != nil {
			fatalf("bad case line: %v: %.300s", err, line)
		}

		if first {
			first = false

			if f := fl.str("first-edge", ""); f != "" {
				_ = os.WriteFile(f, append(line, '\n'), 0o644)
			}
		}

		col.nCases++

		valid, panicked, raw := evalRule(&l.C)

		col.kind(ruleKey(&l))
		col.sample(map[string]interface{}{"case": l.C, "mutated": l.Muts, "expected_valid": l.Valid, "concrete": json.RawMessage(raw)})

		rp := map[string]interface{}{"cmd": append([]string{"rules-replay"}, args...), "stdin": string(line)}
		cs := map[string]interface{}{"case": l.C, "mutated": l.Muts}

		switch {
		case strings.HasPrefix(panicked, "forms-differ"):
			col.report(mismatch{Kind: "verdict", Key: ruleKey(&l) + ":forms", Case: cs, Detail: panicked,
				Expected: map[string]interface{}{"valid": l.Valid}, Concrete: string(raw), Replay: rp})
		case panicked != "":
			col.report(mismatch{Kind: "panic", Key: "panic:" + ruleKey(&l), Case: cs, Detail: panicked, Concrete: string(raw), Replay: rp})
		case valid != l.Valid:
			col.report(mismatch{Kind: "verdict", Key: ruleKey(&l), Case: cs,
				Expected: map[string]interface{}{"valid": l.Valid}, Actual: map[string]interface{}{"valid": valid},
				Concrete: string(raw), Replay: rp})
		}
	})

	col.finish()
}
