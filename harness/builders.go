package main

// Builders family (extension specification Builders.tla): the four request builders of pkg/versions/1_0/client over
// valid and invalid inputs.

import (
	"encoding/json"
	"fmt"
	"os"
	"reflect"
	"sort"
	"strings"

	"github.com/trustbloc/sidetree-go/pkg/jws"
	"github.com/trustbloc/sidetree-go/pkg/patch"
	"github.com/trustbloc/sidetree-go/pkg/versions/1_0/client"
)

type bCaseIn struct {
	B       string `json:"b"`
	Suffix  string `json:"suffix"`
	Reveal  string `json:"reveal"`
	Doc     string `json:"doc"`
	Patches string `json:"patches"`
	Code    string `json:"code"`
	Rc      string `json:"rc"`
	Uc      string `json:"uc"`
	Key     string `json:"key"`
	Signer  string `json:"signer"`
	Next    string `json:"next"`
	Win     string `json:"win"`
	Ao      bool   `json:"ao"`
	Ty      bool   `json:"ty"`
}

type bCase struct {
	C     bCaseIn  `json:"c"`
	Ok    bool     `json:"ok"`
	Top   []string `json:"top"`
	Bound []string `json:"bound"`
}

// a signer whose protected headers are what the case says
type bSigner struct {
	inner   libSigner
	headers jws.Headers
}

func (s *bSigner) Sign(data []byte) ([]byte, error) { return s.inner.Sign(data) }
func (s *bSigner) Headers() jws.Headers             { return s.headers }

func buildersReplay(args []string) {
	fl := parseFlags(args)
	seed := int64(fl.int("seed", envInt("VERIF_SEED", 1)))
	pool := newKeyPool(seed)
	col := newCollector("builders", fl.str("only", ""))
	seen := map[string]bool{}
	first := true

	readTagged(os.Stdin, "CASE", fl.str("tlclog", ""), func(line []byte) {
		if seen[string(line)] {
			return
		}

		seen[string(line)] = true

		var bc bCase
		if err := json.Unmarshal(line, &bc); err != nil {
			fatalf("bad case: %v: %.300s", err, line)
		}

		if first {
			first = false

			if f := fl.str("first-edge", ""); f != "" {
				_ = os.WriteFile(f, append(line, '\n'), 0o644)
			}
		}

		c := bc.C
		col.nCases++

		k := fmt.Sprintf("builders:%s:suffix=%s:reveal=%s:doc=%s%s:code=%s:rc=%s:uc=%s:key=%s:signer=%s:next=%s:win=%s:ao=%v:ty=%v",
			c.B, c.Suffix, c.Reveal, c.Doc, c.Patches, c.Code, c.Rc, c.Uc, c.Key, c.Signer, c.Next, c.Win, c.Ao, c.Ty)
		col.kind(k)

		rp := map[string]interface{}{"cmd": append([]string{"builders-replay"}, args...), "stdin": string(line)}
		fail := func(kind, detail string, e, a interface{}) {
			col.report(mismatch{Kind: kind, Key: kind + ":" + strings.TrimPrefix(k, "builders:"), Case: c, Detail: detail, Expected: e, Actual: a, Replay: rp})
		}

		defer func() {
			if r := recover(); r != nil {
				fail("panic", fmt.Sprint(r), nil, nil)
			}
		}()

		// key types and algorithms go round with the cases
		kts := []string{"p256", "ed", "k1", "p384"}
		kt := kts[int(col.nCases)%len(kts)]
		alg := []int{sha2_256, sha2_512}[int(col.nCases/4)%2]
		other := sha2_256 + sha2_512 - alg
		cur := pool.Get(kt, "builders-current")
		nextUpd := pool.Get(kt, "builders-next-update")
		nextRec := pool.Get(kts[(int(col.nCases)+1)%len(kts)], "builders-next-recovery")

		commitOf := func(kind string, key *Key) string {
			switch kind {
			case "ok":
				return refCommitment(jwkMap(key.JWK), alg)
			case "other_alg":
				return refCommitment(jwkMap(key.JWK), other)
			case "garbage":
				return "not-a-multihash"
			}

			fatalf("commitment kind %q", kind)

			return ""
		}

		var theKey *jws.JWK

		switch c.Key {
		case "ok", "":
			theKey = cloneJWK(cur.JWK)
		case "nil":
		case "no_kty":
			theKey = cloneJWK(cur.JWK)
			theKey.Kty = ""
		case "no_crv":
			theKey = cloneJWK(cur.JWK)
			theKey.Crv = ""
		case "no_x":
			theKey = cloneJWK(cur.JWK)
			theKey.X = ""
		case "rsa_ok":
			theKey = &jws.JWK{Kty: "RSA", N: "sXchDaQebHnPiGvyDOAT4saGEUetSyo9MKLOoWFsueri23bOdgWp4Dy1WlUzewbgBHod5pcM9H95GQRV3JDXboIRROSBigeC5yjU1hGzHHyXss8UDprecbAYxknTcQkhslANGRUZmdTOQ5qTRsLAt6BTYuyvVRdhS8exSZEy_c4gs_7svlJJQ4H9_NxsiIoLwAEk7-Q3UXERGYw_75IDrGA84-lA_-Ct4eTlXHBIY2EaV7t7LjJaynVJCpkv4LKjTTAumiGUIuQhrNhZLuF_RJLqHpM2kgWFLU7-VTdL1VbC2tejvcI2BlMkEpk1BzBZI0KQB0GaDWFLN-aEAw3vRw", E: "AQAB"}
		case "rsa_no_n":
			theKey = &jws.JWK{Kty: "RSA", E: "AQAB"}
		default:
			fatalf("key kind %q", c.Key)
		}

		var signer client.Signer

		switch c.Signer {
		case "ok":
			signer = &bSigner{inner: librarySigner(cur), headers: jws.Headers{"alg": cur.Alg}}
		case "kid_too":
			signer = &bSigner{inner: librarySigner(cur), headers: jws.Headers{"alg": cur.Alg, "kid": "key-1"}}
		case "nil", "":
		case "nil_headers":
			signer = &bSigner{inner: librarySigner(cur), headers: nil}
		case "no_alg":
			signer = &bSigner{inner: librarySigner(cur), headers: jws.Headers{"kid": "key-1"}}
		case "empty_alg":
			signer = &bSigner{inner: librarySigner(cur), headers: jws.Headers{"alg": ""}}
		case "extra_header":
			signer = &bSigner{inner: librarySigner(cur), headers: jws.Headers{"alg": cur.Alg, "kid": "key-1", "typ": "JWT"}}
		default:
			fatalf("signer kind %q", c.Signer)
		}

		str := func(kind string) string {
			if kind == "empty" {
				return ""
			}

			return "EiDyOQbbZAa3aiRzeCkV7LOx3SERjjH93EXoIM3UoN4oWg"
		}

		var from, until int64

		switch c.Win {
		case "from":
			from = 1700000000
		case "until":
			until = 1700000600
		case "both":
			from, until = 1700000000, 1700000600
		}

		mkPatches := func() []patch.Patch {
			p, err := patch.NewAddServiceEndpointsPatch(`[{"id":"svc","type":"T","serviceEndpoint":"https://svc.example/"}]`)
			if err != nil {
				fatalf("patch: %v", err)
			}

			return []patch.Patch{p}
		}

		var (
			opaque  string
			patches []patch.Patch
		)

		switch c.Doc {
		case "opaque":
			opaque = `{"service":[{"id":"svc","type":"T","serviceEndpoint":"https://svc.example/"}]}`
		case "patches":
			patches = mkPatches()
		case "both":
			opaque = `{"service":[{"id":"svc","type":"T","serviceEndpoint":"https://svc.example/"}]}`
			patches = mkPatches()
		case "opaque_with_id":
			opaque = `{"id":"did:example:1","service":[{"id":"svc","type":"T","serviceEndpoint":"https://svc.example/"}]}`
		}

		if c.Patches == "some" {
			patches = mkPatches()
		}

		var ao interface{}
		if c.Ao {
			ao = "https://origin.example/"
		}

		var (
			req []byte
			err error
		)

		switch c.B {
		case "create":
			code := uint(alg)
			if c.Code == "unsupported" {
				code = 55
			}

			rc := commitOf(c.Rc, nextRec)
			uc := rc

			if c.Uc != "equal_rc" {
				uc = commitOf(c.Uc, nextUpd)
			}

			info := &client.CreateRequestInfo{OpaqueDocument: opaque, Patches: patches, RecoveryCommitment: rc, UpdateCommitment: uc, AnchorOrigin: ao, MultihashCode: code}
			if c.Ty {
				info.Type = "0001"
			}

			req, err = client.NewCreateRequest(info)
		case "update":
			uc := commitOf("ok", nextUpd)
			if c.Next == "reuse" && theKey != nil {
				uc = refCommitment(jwkMap(theKey), alg)
			}

			req, err = client.NewUpdateRequest(&client.UpdateRequestInfo{DidSuffix: str(c.Suffix), RevealValue: str(c.Reveal), Patches: patches, UpdateCommitment: uc,
				UpdateKey: theKey, MultihashCode: uint(alg), Signer: signer, AnchorFrom: from, AnchorUntil: until})
		case "recover":
			rc := commitOf("ok", nextRec)
			if c.Next == "reuse" && theKey != nil {
				rc = refCommitment(jwkMap(theKey), alg)
			}

			req, err = client.NewRecoverRequest(&client.RecoverRequestInfo{DidSuffix: str(c.Suffix), RevealValue: str(c.Reveal), OpaqueDocument: opaque, Patches: patches,
				RecoveryKey: theKey, RecoveryCommitment: rc, UpdateCommitment: commitOf("ok", nextUpd), AnchorOrigin: ao, AnchorFrom: from, AnchorUntil: until,
				MultihashCode: uint(alg), Signer: signer})
		case "deactivate":
			req, err = client.NewDeactivateRequest(&client.DeactivateRequestInfo{DidSuffix: str(c.Suffix), RevealValue: str(c.Reveal), RecoveryKey: theKey, Signer: signer,
				AnchorFrom: from, AnchorUntil: until})
		default:
			fatalf("builder %q", c.B)
		}

		if (err == nil) != bc.Ok {
			fail("verdict", "", map[string]interface{}{"built": bc.Ok}, map[string]interface{}{"built": err == nil, "error": fmt.Sprint(err), "request": string(req)})
			return
		}

		if err != nil {
			if len(req) != 0 {
				fail("error-with-request", "a refused input yields an error and nothing else", nil, string(req))
			}

			return
		}

		var top map[string]interface{}
		if e := json.Unmarshal(req, &top); e != nil {
			fail("members", "the request is not a JSON object: "+e.Error(), nil, string(req))
			return
		}

		col.sample(map[string]interface{}{"case": c, "request": string(req)})

		names := func(m map[string]interface{}) []string {
			var out []string
			for n := range m {
				out = append(out, n)
			}

			sort.Strings(out)

			return out
		}

		sorted := func(l []string) []string {
			o := append([]string{}, l...)
			sort.Strings(o)

			return o
		}

		if !reflect.DeepEqual(names(top), sorted(bc.Top)) {
			fail("members", "members of the request", sorted(bc.Top), names(top))
			return
		}

		if top["type"] != c.B {
			fail("members", "type of the request", c.B, top["type"])
			return
		}

		// the part that binds the request: the suffix data, or the payload of the signed data
		var bound map[string]interface{}

		if c.B == "create" {
			bound, _ = top["suffixData"].(map[string]interface{})
		} else {
			sd, _ := top["signedData"].(string)
			parts := strings.Split(sd, ".")

			if len(parts) != 3 {
				fail("members", "signed data is not a compact JWS", nil, sd)
				return
			}

			raw, e := b64dec(parts[1])
			if e != nil || json.Unmarshal(raw, &bound) != nil {
				fail("members", "payload of the signed data", nil, sd)
				return
			}

			// protected header: what the signer gave, nothing else
			hraw, _ := b64dec(parts[0])

			var hdr map[string]interface{}

			_ = json.Unmarshal(hraw, &hdr)

			want := map[string]interface{}{"alg": cur.Alg}
			if c.Signer == "kid_too" {
				want["kid"] = "key-1"
			}

			if !reflect.DeepEqual(hdr, want) {
				fail("members", "protected header of the signed data", want, hdr)
				return
			}

			if top["didSuffix"] != str("ok") || top["revealValue"] != str("ok") {
				fail("members", "suffix / reveal value as given", str("ok"), top)
				return
			}
		}

		if !reflect.DeepEqual(names(bound), sorted(bc.Bound)) {
			fail("members", "members of the suffix data / signed payload", sorted(bc.Bound), names(bound))
			return
		}

		if c.B == "deactivate" && (bound["didSuffix"] != str("ok") || bound["revealValue"] != "") {
			fail("members", "signed payload of a deactivate: the suffix as given, the reveal value member left empty", nil, bound)
			return
		}

		// the delta is bound by its hash under the request's algorithm
		if d, has := top["delta"]; has {
			if got, want := bound["deltaHash"], refModelHash(d, alg); got != want {
				fail("members", "delta hash of the request", want, got)
				return
			}
		}

		if from != 0 && bound["anchorFrom"] != float64(from) || until != 0 && bound["anchorUntil"] != float64(until) {
			fail("members", "window bounds as given", []int64{from, until}, bound)
		}
	})

	col.finish()
}
