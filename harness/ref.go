package main

// Reference primitives: an independent evaluator for the symbolic terms of the
// specification (ideal hash = SHA-2 from the standard library, own multihash framing, own
// JCS for the value subset the harness itself constructs).  Nothing here calls the
// library under test.

import (
	"bytes"
	"crypto/sha256"
	"crypto/sha512"
	"encoding/json"
	"fmt"
	"math"
	"sort"
	"strconv"
	"strings"
	"unicode/utf16"
)

const (
	sha2_256 = 18
	sha2_512 = 19
)

func refHash(alg int, data []byte) []byte {
	switch alg {
	case sha2_256:
		d := sha256.Sum256(data)
		return d[:]
	case sha2_512:
		d := sha512.Sum512(data)
		return d[:]
	}

	panic(fmt.Sprintf("harness: refHash: alg %d", alg))
}

// refMultihash frames a digest: varint(code) varint(len) digest (codes and lengths < 128).
func refMultihash(alg int, digest []byte) []byte {
	out := []byte{byte(alg), byte(len(digest))}
	return append(out, digest...)
}

func algCode(h int) int {
	if h == 512 {
		return sha2_512
	}

	return sha2_256
}

// refJCSSimple canonicalizes a JSON-marshallable value with the harness's own RFC 8785 serializer (refJCS).
func refJCSSimple(v interface{}) []byte {
	raw, err := json.Marshal(v)
	if err != nil {
		panic(err)
	}

	out, err := refJCSFromJSON(raw)
	if err != nil {
		panic(err)
	}

	return out
}

func writeJCSSimple(buf *bytes.Buffer, g interface{}) {
	switch t := g.(type) {
	case map[string]interface{}:
		keys := make([]string, 0, len(t))
		for k := range t {
			keys = append(keys, k)
		}

		sort.Strings(keys)
		buf.WriteByte('{')

		for i, k := range keys {
			if i > 0 {
				buf.WriteByte(',')
			}

			writeJSONString(buf, k)
			buf.WriteByte(':')
			writeJCSSimple(buf, t[k])
		}

		buf.WriteByte('}')
	case []interface{}:
		buf.WriteByte('[')

		for i, e := range t {
			if i > 0 {
				buf.WriteByte(',')
			}

			writeJCSSimple(buf, e)
		}

		buf.WriteByte(']')
	case string:
		writeJSONString(buf, t)
	case json.Number:
		buf.WriteString(t.String())
	case bool:
		if t {
			buf.WriteString("true")
		} else {
			buf.WriteString("false")
		}
	case nil:
		buf.WriteString("null")
	default:
		panic(fmt.Sprintf("harness: writeJCSSimple: %T", g))
	}
}

func writeJSONString(buf *bytes.Buffer, s string) {
	var b bytes.Buffer

	e2 := json.NewEncoder(&b)
	e2.SetEscapeHTML(false)

	if err := e2.Encode(s); err != nil {
		panic(err)
	}

	buf.Write(bytes.TrimRight(b.Bytes(), "\n"))
}

// refModelHash = B64(MH(alg, H(alg, JCS(v)))).
func refModelHash(v interface{}, alg int) string {
	return b64(refMultihash(alg, refHash(alg, refJCSSimple(v))))
}

// refCommitment = B64(MH(alg, H(alg, H(alg, JCS(jwk))))).
func refCommitment(jwk interface{}, alg int) string {
	return b64(refMultihash(alg, refHash(alg, refHash(alg, refJCSSimple(jwk)))))
}

// refReveal = B64(MH(alg, H(alg, JCS(jwk)))).
func refReveal(jwk interface{}, alg int) string {
	return refModelHash(jwk, alg)
}

// ---------------------------------------------------------------------------------------------
// A full, independent RFC 8785 serializer (reference for C05 / C06): members sorted by UTF-16
// code units, minimal escaping, ECMAScript number layout applied to strconv's shortest digits.

func refJCS(v interface{}) ([]byte, error) {
	var buf bytes.Buffer
	if err := refJCSWrite(&buf, v); err != nil {
		return nil, err
	}

	return buf.Bytes(), nil
}

// refJCSFromJSON parses JSON text (numbers kept as text, then read as IEEE-754 doubles).
func refJCSFromJSON(text []byte) ([]byte, error) {
	dec := json.NewDecoder(bytes.NewReader(text))
	dec.UseNumber()

	var g interface{}
	if err := dec.Decode(&g); err != nil {
		return nil, err
	}

	return refJCS(g)
}

func utf16Less(a, b string) bool {
	ua, ub := utf16.Encode([]rune(a)), utf16.Encode([]rune(b))
	for i := 0; i < len(ua) && i < len(ub); i++ {
		if ua[i] != ub[i] {
			return ua[i] < ub[i]
		}
	}

	return len(ua) < len(ub)
}

func refJCSWrite(buf *bytes.Buffer, g interface{}) error {
	switch t := g.(type) {
	case map[string]interface{}:
		keys := make([]string, 0, len(t))
		for k := range t {
			keys = append(keys, k)
		}

		sort.Slice(keys, func(i, j int) bool { return utf16Less(keys[i], keys[j]) })
		buf.WriteByte('{')

		for i, k := range keys {
			if i > 0 {
				buf.WriteByte(',')
			}

			refJCSString(buf, k)
			buf.WriteByte(':')

			if err := refJCSWrite(buf, t[k]); err != nil {
				return err
			}
		}

		buf.WriteByte('}')
	case []interface{}:
		buf.WriteByte('[')

		for i, e := range t {
			if i > 0 {
				buf.WriteByte(',')
			}

			if err := refJCSWrite(buf, e); err != nil {
				return err
			}
		}

		buf.WriteByte(']')
	case string:
		refJCSString(buf, t)
	case json.Number:
		f, err := strconv.ParseFloat(t.String(), 64)
		if err != nil {
			return err
		}

		s, err := es6Number(f)
		if err != nil {
			return err
		}

		buf.WriteString(s)
	case float64:
		s, err := es6Number(t)
		if err != nil {
			return err
		}

		buf.WriteString(s)
	case int:
		buf.WriteString(strconv.Itoa(t))
	case bool:
		if t {
			buf.WriteString("true")
		} else {
			buf.WriteString("false")
		}
	case nil:
		buf.WriteString("null")
	default:
		return fmt.Errorf("refJCS: unsupported %T", g)
	}

	return nil
}

func refJCSString(buf *bytes.Buffer, s string) {
	buf.WriteByte('"')

	for _, r := range s {
		switch {
		case r == '"':
			buf.WriteString(`\"`)
		case r == '\\':
			buf.WriteString(`\\`)
		case r == '\b':
			buf.WriteString(`\b`)
		case r == '\f':
			buf.WriteString(`\f`)
		case r == '\n':
			buf.WriteString(`\n`)
		case r == '\r':
			buf.WriteString(`\r`)
		case r == '\t':
			buf.WriteString(`\t`)
		case r < 0x20:
			fmt.Fprintf(buf, `\u%04x`, r)
		default:
			buf.WriteRune(r)
		}
	}

	buf.WriteByte('"')
}

// es6Digits returns the shortest round-trip decimal digits d1..dk and the exponent n such that
// the value is 0.d1..dk x 10^n (digits from strconv, which is trusted only as a digit source).
func es6Digits(f float64) (digits string, n int) {
	s := strconv.FormatFloat(math.Abs(f), 'e', -1, 64) // d.ddddde±xx
	mant, exp, _ := strings.Cut(s, "e")
	e, _ := strconv.Atoi(exp)
	digits = strings.Replace(mant, ".", "", 1)
	digits = strings.TrimRight(digits, "0")

	if digits == "" {
		digits = "0"
	}

	return digits, e + 1
}

// es6Layout is ECMA-262 Number::toString for digits d1..dk and exponent n (value = 0.d1..dk x 10^n).
func es6Layout(digits string, n int) string {
	k := len(digits)

	switch {
	case k <= n && n <= 21:
		return digits + strings.Repeat("0", n-k)
	case 0 < n && n <= 21:
		return digits[:n] + "." + digits[n:]
	case -6 < n && n <= 0:
		return "0." + strings.Repeat("0", -n) + digits
	}

	e := n - 1
	sign := "+"

	if e < 0 {
		sign = "-"
		e = -e
	}

	if k == 1 {
		return digits + "e" + sign + strconv.Itoa(e)
	}

	return digits[:1] + "." + digits[1:] + "e" + sign + strconv.Itoa(e)
}

func es6Number(f float64) (string, error) {
	if math.IsNaN(f) || math.IsInf(f, 0) {
		return "", fmt.Errorf("refJCS: not a finite number")
	}

	if f == 0 {
		return "0", nil
	}

	d, n := es6Digits(f)
	s := es6Layout(d, n)

	if f < 0 {
		s = "-" + s
	}

	return s, nil
}
