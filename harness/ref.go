package main

// Reference primitives: an independent evaluator for the symbolic terms of the
// specification (ideal hash = SHA-2 from the standard library, own multihash framing, own
// JCS for the value subset the harness itself constructs).  Nothing here calls the
// library under test.

import (
	"bytes"
	"crypto/sha256"
	"crypto/sha512"
	"encoding/json"
	"fmt"
	"sort"
)

const (
	sha2_256 = 18
	sha2_512 = 19
)

func refHash(alg int, data []byte) []byte {
	switch alg {
	case sha2_256:
		d := sha256.Sum256(data)
		return d[:]
	case sha2_512:
		d := sha512.Sum512(data)
		return d[:]
	}

	panic(fmt.Sprintf("harness: refHash: alg %d", alg))
}

// refMultihash frames a digest: varint(code) varint(len) digest (codes and lengths < 128).
func refMultihash(alg int, digest []byte) []byte {
	out := []byte{byte(alg), byte(len(digest))}
	return append(out, digest...)
}

func algCode(h int) int {
	if h == 512 {
		return sha2_512
	}

	return sha2_256
}

// refJCSSimple canonicalizes a JSON-marshallable value whose strings need no escaping
// beyond what encoding/json and RFC 8785 agree on and whose numbers are integers: members
// sorted (ASCII names), no whitespace, no HTML escaping.
func refJCSSimple(v interface{}) []byte {
	raw, err := json.Marshal(v)
	if err != nil {
		panic(err)
	}

	dec := json.NewDecoder(bytes.NewReader(raw))
	dec.UseNumber()

	var g interface{}
	if err := dec.Decode(&g); err != nil {
		panic(err)
	}

	var buf bytes.Buffer

	writeJCSSimple(&buf, g)

	return buf.Bytes()
}

func writeJCSSimple(buf *bytes.Buffer, g interface{}) {
	switch t := g.(type) {
	case map[string]interface{}:
		keys := make([]string, 0, len(t))
		for k := range t {
			keys = append(keys, k)
		}

		sort.Strings(keys)
		buf.WriteByte('{')

		for i, k := range keys {
			if i > 0 {
				buf.WriteByte(',')
			}

			writeJSONString(buf, k)
			buf.WriteByte(':')
			writeJCSSimple(buf, t[k])
		}

		buf.WriteByte('}')
	case []interface{}:
		buf.WriteByte('[')

		for i, e := range t {
			if i > 0 {
				buf.WriteByte(',')
			}

			writeJCSSimple(buf, e)
		}

		buf.WriteByte(']')
	case string:
		writeJSONString(buf, t)
	case json.Number:
		buf.WriteString(t.String())
	case bool:
		if t {
			buf.WriteString("true")
		} else {
			buf.WriteString("false")
		}
	case nil:
		buf.WriteString("null")
	default:
		panic(fmt.Sprintf("harness: writeJCSSimple: %T", g))
	}
}

func writeJSONString(buf *bytes.Buffer, s string) {
	var b bytes.Buffer

	e2 := json.NewEncoder(&b)
	e2.SetEscapeHTML(false)

	if err := e2.Encode(s); err != nil {
		panic(err)
	}

	buf.Write(bytes.TrimRight(b.Bytes(), "\n"))
}

// refModelHash = B64(MH(alg, H(alg, JCS(v)))).
func refModelHash(v interface{}, alg int) string {
	return b64(refMultihash(alg, refHash(alg, refJCSSimple(v))))
}

// refCommitment = B64(MH(alg, H(alg, H(alg, JCS(jwk))))).
func refCommitment(jwk interface{}, alg int) string {
	return b64(refMultihash(alg, refHash(alg, refHash(alg, refJCSSimple(jwk)))))
}

// refReveal = B64(MH(alg, H(alg, JCS(jwk)))).
func refReveal(jwk interface{}, alg int) string {
	return refModelHash(jwk, alg)
}
