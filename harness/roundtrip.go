package main

// C14: documents -> patches -> document; patch constructors; patch byte encodings.

import (
	"encoding/json"
	"fmt"
	"os"
	"reflect"
	"sort"
	"strings"
	"sync"

	"github.com/trustbloc/sidetree-go/pkg/document"
	"github.com/trustbloc/sidetree-go/pkg/patch"
	"github.com/trustbloc/sidetree-go/pkg/versions/1_0/operationparser/patchvalidator"
)

// docJSON concretizes an abstract document (with non-empty lists only, as PatchesFromDocument expects).
func (e *composerEnv) docJSON(d *CDoc) map[string]interface{} {
	m := map[string]interface{}{}

	if len(d.Keys) > 0 {
		l := []interface{}{}
		for _, k := range d.Keys {
			l = append(l, e.keyJSON(k))
		}

		m["publicKey"] = l
	}

	if len(d.Svcs) > 0 {
		l := []interface{}{}
		for _, s := range d.Svcs {
			l = append(l, e.svcJSON(s))
		}

		m["service"] = l
	}

	if len(d.Aka) > 0 {
		l := []interface{}{}
		for _, u := range d.Aka {
			l = append(l, uriOf(u))
		}

		m["alsoKnownAs"] = l
	}

	for i, v := range d.Other {
		if v.T != "abs" {
			m[otherName(i+1)] = valJSON(v)
		}
	}

	return m
}

// checkPatchCodec: serializing a patch and parsing it back gives an equal patch whose accessors
// agree with its content; returns a description of what is wrong, or "".
func checkPatchCodec(p patch.Patch) string {
	raw, err := p.Bytes()
	if err != nil {
		return "Bytes: " + err.Error()
	}

	back, err := patch.FromBytes(raw)
	if err != nil {
		return "FromBytes(Bytes()): " + err.Error()
	}

	a, _ := json.Marshal(p)
	b, _ := json.Marshal(back)

	var ga, gb interface{}

	_ = json.Unmarshal(a, &ga)
	_ = json.Unmarshal(b, &gb)

	if !reflect.DeepEqual(ga, gb) {
		return fmt.Sprintf("FromBytes(Bytes()) differs: %s vs %s", a, b)
	}

	var generic map[string]interface{}

	_ = json.Unmarshal(raw, &generic)

	act, err := back.GetAction()
	if err != nil || string(act) != generic["action"] {
		return fmt.Sprintf("GetAction = %q, %v; content says %v", act, err, generic["action"])
	}

	valueKeys := map[string]string{"replace": "document", "add-public-keys": "publicKeys", "remove-public-keys": "ids",
		"add-services": "services", "remove-services": "ids", "ietf-json-patch": "patches",
		"add-also-known-as": "uris", "remove-also-known-as": "uris"}

	val, err := back.GetValue()
	if err != nil {
		return "GetValue: " + err.Error()
	}

	va, _ := json.Marshal(val)
	vb, _ := json.Marshal(generic[valueKeys[string(act)]])

	var gva, gvb interface{}

	_ = json.Unmarshal(va, &gva)
	_ = json.Unmarshal(vb, &gvb)

	if !reflect.DeepEqual(gva, gvb) {
		return fmt.Sprintf("GetValue = %s; content says %s", va, vb)
	}

	return ""
}

// checkCodecInterleaved serializes every patch first and parses the byte strings afterwards:
// bytes handed out earlier must still denote their patch after later serializations.
func checkCodecInterleaved(ps []patch.Patch) string {
	raws := make([][]byte, len(ps))
	keep := make([]string, len(ps))

	for i, p := range ps {
		b, err := p.Bytes()
		if err != nil {
			return "Bytes: " + err.Error()
		}

		raws[i] = b
		keep[i] = string(b)
	}

	for i, p := range ps {
		if string(raws[i]) != keep[i] {
			return fmt.Sprintf("bytes of patch %d changed after later serializations", i)
		}

		back, err := patch.FromBytes(raws[i])
		if err != nil {
			return fmt.Sprintf("FromBytes of patch %d after later serializations: %v", i, err)
		}

		a, _ := json.Marshal(p)
		b, _ := json.Marshal(back)

		var ga, gb interface{}

		_ = json.Unmarshal(a, &ga)
		_ = json.Unmarshal(b, &gb)

		if !reflect.DeepEqual(ga, gb) {
			return fmt.Sprintf("patch %d parsed back after later serializations differs", i)
		}
	}

	return ""
}

// projectPatch maps a real patch back to the abstract patch of Composer.tla.
func (e *composerEnv) projectPatch(p patch.Patch) CPatch {
	out := CPatch{Ents: []CEnt{}, Ents2: []CEnt{}, IDs: []int{}, Ops: []CJOp{}}

	raw, _ := json.Marshal(p)

	var g map[string]interface{}

	_ = json.Unmarshal(raw, &g)

	out.A, _ = g["action"].(string)

	e.mu.Lock()
	defer e.mu.Unlock()

	ents := func(v interface{}, dig map[string]CEnt) []CEnt {
		r := []CEnt{}
		l, _ := v.([]interface{})

		for _, x := range l {
			ent, ok := dig[digestJSON(x)]
			if !ok {
				ent = CEnt{-1, -1}
			}

			r = append(r, ent)
		}

		return r
	}

	switch out.A {
	case "add-public-keys":
		out.Ents = ents(g["publicKeys"], e.keyDig)
	case "add-services":
		out.Ents = ents(g["services"], e.svcDig)
	case "add-also-known-as", "remove-also-known-as":
		l, _ := g["uris"].([]interface{})
		for _, u := range l {
			s, _ := u.(string)
			out.IDs = append(out.IDs, uriID(s))
		}
	case "ietf-json-patch":
		l, _ := g["patches"].([]interface{})
		for _, x := range l {
			m, _ := x.(map[string]interface{})
			j := CJOp{Val: CVal{T: "bad"}}
			j.Op, _ = m["op"].(string)

			path, _ := m["path"].(string)
			if len(path) > 1 && path[0] == '/' && otherID(path[1:]) > 0 {
				j.Path = CPath{Name: otherID(path[1:])}
				j.From = j.Path
			}

			switch t := m["value"].(type) {
			case nil:
				if _, has := m["value"]; has {
					j.Val = CVal{T: "null"}
				}
			case float64:
				j.Val = CVal{T: "int", V: int(t)}
			case map[string]interface{}:
				if len(t) == 0 {
					j.Val = CVal{T: "obj"}
				} else if f, ok := t["n"].(float64); ok && len(t) == 1 {
					j.Val = CVal{T: "obj", V: int(f)}
				}
			}

			out.Ops = append(out.Ops, j)
		}
	}

	return out
}

func patchSetKey(ps []CPatch) []string {
	var out []string

	for _, p := range ps {
		b, _ := json.Marshal(p)
		out = append(out, string(b))
	}

	sort.Strings(out)

	return out
}

type docLine struct {
	Doc     CDoc     `json:"doc"`
	Patches []CPatch `json:"patches"`
}

// roundtripReplay: one DOC line per document of the composer model.
func roundtripReplay(args []string) {
	fl := parseFlags(args)
	env := newComposerEnv(int64(fl.int("seed", envInt("VERIF_SEED", 1))))
	col := newCollector("roundtrip", "")
	seen := map[string]bool{}
	first := true

	var mu sync.Mutex

	readTagged(os.Stdin, "DOC", fl.str("tlclog", ""), func(line []byte) {
		mu.Lock()
		dup := seen[string(line)]
		seen[string(line)] = true
		mu.Unlock()

		if dup {
			return
		}

		var dl docLine
		if err := json.Unmarshal(line, &dl); err != nil {
			fatalf("bad doc line: %v: %.300s", err, line)
		}

		if first {
			first = false

			if f := fl.str("first-edge", ""); f != "" {
				_ = os.WriteFile(f, append(line, '\n'), 0o644)
			}
		}

		nOther := len(dl.Doc.Other)
		dl.Doc.norm(nOther)

		for i := range dl.Patches {
			p := &dl.Patches[i]
			if p.Ents == nil {
				p.Ents = []CEnt{}
			}

			if p.Ents2 == nil {
				p.Ents2 = []CEnt{}
			}

			if p.IDs == nil {
				p.IDs = []int{}
			}

			if p.Ops == nil {
				p.Ops = []CJOp{}
			}
		}

		col.nCases++
		col.kind(fmt.Sprintf("k%d-s%d-a%d-o%v", len(dl.Doc.Keys), len(dl.Doc.Svcs), len(dl.Doc.Aka), dl.Doc.Other))

		dj := env.docJSON(&dl.Doc)
		raw, _ := json.Marshal(dj)
		cs := map[string]interface{}{"doc": dl.Doc}
		rp := map[string]interface{}{"cmd": append([]string{"roundtrip-replay"}, args...), "stdin": string(line)}
		key := func(kind string) string {
			return fmt.Sprintf("%s:keys=%d,svcs=%d,aka=%d,other=%v", kind, len(dl.Doc.Keys), len(dl.Doc.Svcs), len(dl.Doc.Aka), dl.Doc.Other)
		}

		col.sample(map[string]interface{}{"doc": dl.Doc, "expected_patches": dl.Patches, "concrete_document": json.RawMessage(raw)})

		fail := func(kind, detail string, exp, act interface{}) {
			col.report(mismatch{Kind: kind, Key: key(kind), Case: cs, Detail: detail, Expected: exp, Actual: act,
				Concrete: map[string]interface{}{"document": json.RawMessage(raw)}, Replay: rp})
		}

		var (
			patches  []patch.Patch
			err      error
			panicked string
		)

		func() {
			defer func() {
				if r := recover(); r != nil {
					panicked = fmt.Sprint(r)
				}
			}()

			patches, err = patch.PatchesFromDocument(string(raw))
		}()

		if panicked != "" {
			fail("panic", panicked, nil, nil)
			return
		}

		if err != nil {
			fail("patches-from-document-refused", err.Error(), nil, nil)
			return
		}

		// the patches are the ones the specification derives (order is immaterial: they commute)
		var got []CPatch
		for _, p := range patches {
			got = append(got, env.projectPatch(p))
		}

		// (which patches a document is split into is the mechanism, not the statement: what counts is that they
		// are valid and reproduce the document, checked below)
		if !reflect.DeepEqual(patchSetKey(got), patchSetKey(dl.Patches)) {
			col.beyond("derived-patches", "the document is split into other patches than pinned", dl, dl.Patches, got)
		}

		for _, p := range patches {
			if verr := patchvalidator.Validate(p); verr != nil {
				fail("derived-patch-invalid", verr.Error(), nil, p)
				return
			}

			if msg := checkPatchCodec(p); msg != "" {
				fail("patch-codec", msg, nil, p)
				return
			}
		}

		if msg := checkCodecInterleaved(patches); msg != "" {
			fail("patch-codec", msg, nil, nil)
			return
		}

		// applying them to the empty document reproduces the document
		out, aerr := env.composer.ApplyPatches(document.Document{}, patches)
		if aerr != nil {
			fail("derived-patches-do-not-apply", aerr.Error(), nil, nil)
			return
		}

		back, extras := env.project(out, nOther)
		if len(extras) > 0 || !reflect.DeepEqual(back, dl.Doc) {
			fail("round-trip", fmt.Sprintf("extras %v", extras), dl.Doc, back)
			return
		}

		// ... as a JSON value, member for member (no member that was absent comes back as null)
		if digestJSON(out) != digestJSON(dj) {
			fail("round-trip", "the reproduced document is not the same JSON value", dj, out)
			return
		}

		// the same document with further members whose values are null / empty
		// (in three variants: top-level nulls / empties only, nested nulls only, everything)
		for variant := 0; variant < 3; variant++ {
			dn := deepCopyGeneric(generic(dj)).(map[string]interface{})

			if variant != 1 {
				dn["zz-null"] = nil
				dn["zz-empty-list"] = []interface{}{}
				dn["zz-empty-object"] = map[string]interface{}{}
				dn["zz-empty-string"] = ""
			}

			if variant != 0 {
				// ... nulls below the top level, and members under the names that resolved documents use
				dn["zz-nested"] = map[string]interface{}{"nickname": nil, "list": []interface{}{"a", nil, "b"}, "deep": map[string]interface{}{"x": nil}}
				dn["verificationMethod"] = []interface{}{env.keyJSON(CEnt{ID: 8, Ver: 1}), map[string]interface{}{"id": "vm1"}}
				dn["authentication"] = []interface{}{"k1"}

				// ... and a key whose JWK holds further members that are no strings (they are part of the key as given)
				if l, ok := dn["publicKey"].([]interface{}); ok && len(l) > 0 {
					if k0, ok := deepCopyGeneric(l[0]).(map[string]interface{}); ok {
						if j, ok := k0["publicKeyJwk"].(map[string]interface{}); ok {
							j["key_ops"], j["ext"], j["x5c"] = []interface{}{"verify"}, true, []interface{}{"MIIB"}
							k0["id"] = "kwithops"
							dn["publicKey"] = append(append([]interface{}{}, l...), k0)
						}
					}
				}
				// ... and strings whose TEXT looks like JSON / HTML escapes, next to the characters themselves
				dn["zz-text"] = map[string]interface{}{"snippet": "AT\\u0026T \\u003cb\\u003e \\n \\\\ \\\" \\", "plain": "AT&T <b> \u2028\u2029 \x01 \U0001F600 \" \\",
					"list": []interface{}{"\\u003e", "&amp;", "\\"}}
				// (no name that BEGINS with publicKey / service: the json patch validator refuses those by prefix)
			}

			rawN, _ := json.Marshal(dn)

			pn, en := patch.PatchesFromDocument(string(rawN))
			if en != nil {
				fail("patches-from-document-refused", "document with a null member: "+en.Error(), nil, nil)
				return
			}

			for _, p := range pn {
				if verr := patchvalidator.Validate(p); verr != nil {
					fail("derived-patch-invalid", "document with a null member: "+verr.Error(), nil, p)
					return
				}

				if msg := checkPatchCodec(p); msg != "" {
					fail("patch-codec", "document with further members: "+msg, nil, p)
					return
				}
			}

			on, an := env.composer.ApplyPatches(document.Document{}, pn)
			if an != nil || digestJSON(on) != digestJSON(dn) {
				fail("round-trip", "document with a null member: "+fmt.Sprint(an), dn, on)
				return
			}
		}

		// a document that carries an id is refused
		dj["id"] = "did:example:123"
		rawID, _ := json.Marshal(dj)

		if _, e2 := patch.PatchesFromDocument(string(rawID)); e2 == nil {
			fail("document-with-id-accepted", "", nil, nil)
		}
	})

	col.finish()
}

// constructorsReplay: EDGE lines of the composer model; every patch is built through the public
// constructors from its JSON value, must validate, survive the byte round trip and apply as specified.
func constructorsReplay(args []string) {
	fl := parseFlags(args)
	env := newComposerEnv(int64(fl.int("seed", envInt("VERIF_SEED", 1))))
	col := newCollector("constructors", "")
	cache := &docCache{m: map[string]*cdocState{}}
	first := true

	var prevBuilt []patch.Patch

	readTagged(os.Stdin, "EDGE", fl.str("tlclog", ""), func(line []byte) {
		var ed cedge
		if err := json.Unmarshal(line, &ed); err != nil {
			fatalf("bad edge line: %v: %.300s", err, line)
		}

		if first {
			first = false

			if f := fl.str("first-edge", ""); f != "" {
				_ = os.WriteFile(f, append(line, '\n'), 0o644)
			}
		}

		nOther := len(ed.Post.Other)
		ed.Post.norm(nOther)
		col.nCases++
		col.kind(patchListKey("", ed.Patches))

		cs := map[string]interface{}{"path": ed.Path, "patches": ed.Patches}
		rp := map[string]interface{}{"cmd": append([]string{"constructors-replay"}, args...), "stdin": string(line)}

		var built []patch.Patch

		for i := range ed.Patches {
			g := env.patchJSON(&ed.Patches[i])
			str := func(k string) string {
				b, _ := json.Marshal(g[k])
				return string(b)
			}

			var (
				p   patch.Patch
				err error
			)

			switch ed.Patches[i].A {
			case "add-public-keys":
				p, err = patch.NewAddPublicKeysPatch(str("publicKeys"))
			case "remove-public-keys":
				p, err = patch.NewRemovePublicKeysPatch(str("ids"))
			case "add-services":
				p, err = patch.NewAddServiceEndpointsPatch(str("services"))
			case "remove-services":
				p, err = patch.NewRemoveServiceEndpointsPatch(str("ids"))
			case "add-also-known-as":
				p, err = patch.NewAddAlsoKnownAs(str("uris"))
			case "remove-also-known-as":
				p, err = patch.NewRemoveAlsoKnownAs(str("uris"))
			case "replace":
				p, err = patch.NewReplacePatch(str("document"))
			case "ietf-json-patch":
				p, err = patch.NewJSONPatch(str("patches"))
			}

			k := patchListKey("constructor", ed.Patches[i:i+1])

			if err != nil {
				col.report(mismatch{Kind: "constructor-refuses-valid-input", Key: k, Case: cs, Detail: err.Error(), Replay: rp})
				return
			}

			// (a list that is refused half-way goes first - the same entries and one that no rule admits: what the refused
			// call leaves behind must not reach the next one)
			validateRefusedTwin(g)

			if verr := patchvalidator.Validate(p); verr != nil {
				col.report(mismatch{Kind: "constructed-patch-invalid", Key: k + ":invalid", Case: cs, Detail: verr.Error(), Actual: p, Replay: rp})
				return
			}

			if msg := checkPatchCodec(p); msg != "" {
				col.report(mismatch{Kind: "patch-codec", Key: k + ":codec", Case: cs, Detail: msg, Actual: p, Replay: rp})
				return
			}

			built = append(built, p)
		}

		col.sample(map[string]interface{}{"patches": ed.Patches, "constructed": built})

		// serialize this call's patches together with the previous call's, parse afterwards
		if msg := checkCodecInterleaved(append(append([]patch.Patch(nil), prevBuilt...), built...)); msg != "" {
			col.report(mismatch{Kind: "patch-codec", Key: patchListKey("codec-interleaved", ed.Patches), Case: cs, Detail: msg, Replay: rp})
			return
		}

		prevBuilt = built

		// the constructed patches apply exactly as the specification says
		pre := env.stateFor(cache, ed.Path)
		out, aerr := env.composer.ApplyPatches(pre.doc, built)

		// whether a list the specification says fails really fails is C10's business
		if !ed.Ok {
			return
		}

		if aerr != nil {
			col.report(mismatch{Kind: "verdict", Key: patchListKey("constructed-does-not-apply", ed.Patches), Case: cs,
				Detail: aerr.Error(), Replay: rp})

			return
		}

		if aerr == nil {
			got, extras := env.project(out, nOther)
			if len(extras) > 0 || !reflect.DeepEqual(got, ed.Post) {
				col.report(mismatch{Kind: "document", Key: patchListKey("document", ed.Patches), Case: cs, Expected: ed.Post, Actual: got, Replay: rp})
			}
		}
	})

	// valid inputs at the edges of what validation admits (PatchRules.tla, the valid side): each goes through its
	// constructor, validates and survives the byte round trip
	for name, in := range validEdgeInputs(env) {
		var (
			p   patch.Patch
			err error
		)

		switch in[0] {
		case "add-public-keys":
			p, err = patch.NewAddPublicKeysPatch(in[1])
		case "add-services":
			p, err = patch.NewAddServiceEndpointsPatch(in[1])
		case "remove-public-keys":
			p, err = patch.NewRemovePublicKeysPatch(in[1])
		case "remove-services":
			p, err = patch.NewRemoveServiceEndpointsPatch(in[1])
		case "ietf-json-patch":
			p, err = patch.NewJSONPatch(in[1])
		case "replace":
			p, err = patch.NewReplacePatch(in[1])
		}

		col.nCases++
		col.kind("edge:" + name)

		rp := map[string]interface{}{"cmd": append([]string{"constructors-replay"}, args...), "stdin": ""}

		if err != nil {
			col.report(mismatch{Kind: "constructor-refuses-valid-input", Key: "constructor:edge:" + name, Case: in, Detail: err.Error(), Replay: rp})
			continue
		}

		if verr := patchvalidator.Validate(p); verr != nil {
			col.report(mismatch{Kind: "constructed-patch-invalid", Key: "constructor:edge:" + name + ":invalid", Case: in, Detail: verr.Error(), Actual: p, Replay: rp})
			continue
		}

		if msg := checkPatchCodec(p); msg != "" {
			col.report(mismatch{Kind: "patch-codec", Key: "constructor:edge:" + name + ":codec", Case: in, Detail: msg, Actual: p, Replay: rp})
		}
	}

	col.finish()
}

// validateRefusedTwin validates a copy of the patch whose list got one further entry that no rule admits (the call is
// refused after the genuine entries were looked at).
func validateRefusedTwin(g map[string]interface{}) {
	defer func() { _ = recover() }()

	twin := deepCopyGeneric(generic(g)).(map[string]interface{})

	switch twin["action"] {
	case "add-services":
		twin["services"] = append(twin["services"].([]interface{}), map[string]interface{}{"id": "bad id!", "type": "T", "serviceEndpoint": "https://x.example/"})
	case "add-public-keys":
		twin["publicKeys"] = append(twin["publicKeys"].([]interface{}), map[string]interface{}{"id": "bad id!"})
	case "add-also-known-as", "remove-also-known-as":
		twin["uris"] = append(twin["uris"].([]interface{}), "::not a uri::")
	case "remove-public-keys", "remove-services":
		twin["ids"] = append(twin["ids"].([]interface{}), "bad id!")
	case "replace":
		d, _ := twin["document"].(map[string]interface{})
		if l, ok := d["services"].([]interface{}); ok {
			d["services"] = append(l, map[string]interface{}{"id": "bad id!", "type": "T", "serviceEndpoint": "https://x.example/"})
		} else if l, ok := d["publicKeys"].([]interface{}); ok {
			d["publicKeys"] = append(l, map[string]interface{}{"id": "bad id!"})
		}
	default:
		return
	}

	raw, _ := json.Marshal(twin)

	var p patch.Patch
	if json.Unmarshal(raw, &p) == nil {
		_ = patchvalidator.Validate(p)
	}
}

// validEdgeInputs: name -> (constructor, input text)
func validEdgeInputs(env *composerEnv) map[string][2]string {
	js := func(v interface{}) string {
		b, _ := json.Marshal(v)
		return string(b)
	}

	id50 := strings.Repeat("a", 49) + "Z"
	p256 := env.pool.Get("p256", "edge").JWK
	ed := env.pool.Get("ed", "edge").JWK
	bls := env.pool.Get("bls", "edge").JWK
	x25519 := map[string]interface{}{"kty": "OKP", "crv": "X25519", "x": ed.X}
	ecJWK := map[string]interface{}{"kty": p256.Kty, "crv": p256.Crv, "x": p256.X, "y": p256.Y}
	okpJWK := map[string]interface{}{"kty": ed.Kty, "crv": ed.Crv, "x": ed.X}
	key := func(id, typ string, jwk interface{}, purposes ...interface{}) map[string]interface{} {
		m := map[string]interface{}{"id": id, "type": typ, "publicKeyJwk": jwk}
		if len(purposes) > 0 {
			m["purposes"] = purposes
		}

		return m
	}
	svc := func(id, typ string, ep interface{}) map[string]interface{} {
		return map[string]interface{}{"id": id, "type": typ, "serviceEndpoint": ep}
	}

	return map[string][2]string{
		"key id of 50 characters":                 {"add-public-keys", js([]interface{}{key(id50, "JsonWebKey2020", ecJWK, "authentication")})},
		"key id of 1 character":                   {"add-public-keys", js([]interface{}{key("k", "JsonWebKey2020", ecJWK)})},
		"key ids - and _":                         {"add-public-keys", js([]interface{}{key("-_-", "JsonWebKey2020", ecJWK)})},
		"all five purposes":                       {"add-public-keys", js([]interface{}{key("k5", "JsonWebKey2020", ecJWK, "authentication", "assertionMethod", "keyAgreement", "capabilityDelegation", "capabilityInvocation")})},
		"X25519 JWK, key agreement":               {"add-public-keys", js([]interface{}{key("ka", "X25519KeyAgreementKey2019", x25519, "keyAgreement")})},
		"X25519 JWK as JsonWebKey2020":            {"add-public-keys", js([]interface{}{key("kj", "JsonWebKey2020", x25519, "keyAgreement")})},
		"Ed25519 JWK 2018":                        {"add-public-keys", js([]interface{}{key("ke", "Ed25519VerificationKey2018", okpJWK, "assertionMethod")})},
		"Ed25519 JWK 2020":                        {"add-public-keys", js([]interface{}{key("kf", "Ed25519VerificationKey2020", okpJWK, "authentication")})},
		"BLS12-381 G2 JWK":                        {"add-public-keys", js([]interface{}{key("kb", "Bls12381G2Key2020", map[string]interface{}{"kty": bls.Kty, "crv": bls.Crv, "x": bls.X}, "assertionMethod", "keyAgreement")})},
		"general-purpose keys":                    {"add-public-keys", js([]interface{}{key("g1", "X25519KeyAgreementKey2019", x25519), key("g2", "Ed25519VerificationKey2018", okpJWK)})},
		"service id of 50, type of 30 characters": {"add-services", js([]interface{}{svc(id50, strings.Repeat("T", 30), "https://svc.example/")})},
		"service endpoints of every shape": {"add-services", js([]interface{}{svc("s1", "T", "did:example:123"), svc("s2", "T", []interface{}{"https://a.example/", "urn:uuid:1"}),
			svc("s3", "T", map[string]interface{}{"uri": "https://a.example/", "accept": []interface{}{"didcomm/v2"}}),
			svc("s4", "T", []interface{}{map[string]interface{}{"uri": "https://a.example/"}, map[string]interface{}{"uri": "https://b.example/"}})})},
		"remove key ids of 50 and 1": {"remove-public-keys", js([]interface{}{id50, "k"})},
		"ids of all digits and letters": {"add-public-keys", js([]interface{}{key("0123456789", "JsonWebKey2020", ecJWK), key("k2019", "JsonWebKey2020", ecJWK), key("abcdefghijklmnopqrstuvwxyz", "JsonWebKey2020", ecJWK),
			key("ABCDEFGHIJKLMNOPQRSTUVWXYZ_-", "JsonWebKey2020", ecJWK)})},
		"remove ids named twice":         {"remove-public-keys", js([]interface{}{"key1", "key2", "key1"})},
		"remove service ids named twice": {"remove-services", js([]interface{}{"s9", "s9"})},
		"JWK with further members that are no strings": {"add-public-keys", js([]interface{}{key("kx", "JsonWebKey2020",
			map[string]interface{}{"kty": p256.Kty, "crv": p256.Crv, "x": p256.X, "y": p256.Y, "key_ops": []interface{}{"verify"}, "ext": true, "x5c": []interface{}{"MIIB"}, "use": "sig"}, "authentication")})},
		"remove service ids of 50":   {"remove-services", js([]interface{}{id50})},
		"json patch with test":       {"ietf-json-patch", js([]interface{}{map[string]interface{}{"op": "test", "path": "/note", "value": nil}, map[string]interface{}{"op": "replace", "path": "/note", "value": "x"}})},
		"replace with both sections": {"replace", js(map[string]interface{}{"publicKeys": []interface{}{key(id50, "JsonWebKey2020", ecJWK, "authentication")}, "services": []interface{}{svc(id50, "T", "https://svc.example/")}})},
	}
}

// codecReplay: CASE lines of PatchCodec.tla; which JSON objects FromBytes accepts as a patch.
func codecReplay(args []string) {
	fl := parseFlags(args)
	env := newComposerEnv(1)
	col := newCollector("patchcodec", "")
	seen := map[string]bool{}
	first := true

	sample := map[string]interface{}{
		"publicKeys": []interface{}{env.keyJSON(CEnt{1, 1})},
		"services":   []interface{}{env.svcJSON(CEnt{1, 1})},
		"ids":        []interface{}{"k1"},
		"uris":       []interface{}{"https://aka1.example/"},
		"patches":    []interface{}{map[string]interface{}{"op": "add", "path": "/o1", "value": 1}},
		"document":   map[string]interface{}{"publicKeys": []interface{}{env.keyJSON(CEnt{1, 1})}},
	}

	type shapeT struct {
		Action string   `json:"action"`
		Keys   []string `json:"keys"`
		AName  string   `json:"aname"`
		KName  string   `json:"kname"`
	}

	respellName := func(name, how string) string {
		switch how {
		case "capitalized":
			return strings.ToUpper(name[:1]) + name[1:]
		case "upper":
			return strings.ToUpper(name)
		}

		return name
	}

	type caseT struct {
		Shape  shapeT `json:"shape"`
		Accept bool   `json:"accept"`
	}

	readTagged(os.Stdin, "CASE", fl.str("tlclog", ""), func(line []byte) {
		if seen[string(line)] {
			return
		}

		seen[string(line)] = true

		var c caseT
		if err := json.Unmarshal(line, &c); err != nil {
			fatalf("bad case: %v: %.200s", err, line)
		}

		if first {
			first = false

			if f := fl.str("first-edge", ""); f != "" {
				_ = os.WriteFile(f, append(line, '\n'), 0o644)
			}
		}

		m := map[string]interface{}{}

		switch c.Shape.Action {
		case "missing":
		case "unknown":
			m["action"] = "add-private-keys"
		case "number":
			m["action"] = 7
		default:
			m["action"] = c.Shape.Action
		}

		for _, k := range c.Shape.Keys {
			m[respellName(k, c.Shape.KName)] = sample[k]
		}

		if a, ok := m["action"]; ok && c.Shape.AName != "exact" {
			delete(m, "action")
			m[respellName("action", c.Shape.AName)] = a
		}

		raw, _ := json.Marshal(m)

		var (
			err      error
			panicked string
		)

		func() {
			defer func() {
				if r := recover(); r != nil {
					panicked = fmt.Sprint(r)
				}
			}()

			_, err = patch.FromBytes(raw)
		}()

		col.nCases++
		sort.Strings(c.Shape.Keys)
		k := fmt.Sprintf("codec:%s:%v", c.Shape.Action, c.Shape.Keys)
		col.kind(k)
		col.sample(map[string]interface{}{"shape": c.Shape, "bytes": string(raw), "expected_accept": c.Accept})

		rp := map[string]interface{}{"cmd": append([]string{"codec-replay"}, args...), "stdin": string(line)}

		switch {
		case panicked != "":
			col.report(mismatch{Kind: "panic", Key: "panic:" + k, Case: c, Detail: panicked, Concrete: string(raw), Replay: rp})
		case (err == nil) != c.Accept:
			col.report(mismatch{Kind: "verdict", Key: k, Case: c, Expected: map[string]interface{}{"accepted": c.Accept},
				Actual: map[string]interface{}{"accepted": err == nil, "error": fmt.Sprint(err)}, Concrete: string(raw), Replay: rp})
		}
	})

	col.finish()
}
