#!/bin/sh
# Runs the quick check of each seeded change's property (plus any further checks given in
# seeded/<id>/also_checks) against the change and records the outcome in meta.json.
#   seed_detect.sh [seed name ...]      (default: all of /verif/seeded)
cd /verif/seeded || exit 2
[ $# -gt 0 ] && list="$*" || list=$(ls)
for s in $list; do
  [ -f "$s/patch.diff" ] || continue
  pid=${s%%-*}
  checks="$pid $(cat $s/also_checks 2>/dev/null)"
  det=""; miss=""
  for c in $checks; do
    out=$(/verif/selftest $c quick --patch /verif/seeded/$s/patch.diff 2>&1 | tail -1)
    case "$out" in DETECTED*) det="$det $c";; *) miss="$miss $c($out)";; esac
  done
  python3 - "$s" "$pid" "$det" "$miss" <<'PY'
import json,sys,os,re
s,pid,det,miss=sys.argv[1:5]
d='/verif/seeded/'+s
notes=open(d+'/NOTES.md').read() if os.path.exists(d+'/NOTES.md') else ''
meta={"seed":s,"breaks_property":pid,
 "needs_to_manifest":(re.sub(r'\s+',' ',notes)[:600] if notes else ''),
 "demo_package_dir":open(d+'/demo_package_dir').read().strip() if os.path.exists(d+'/demo_package_dir') else '',
 "confirmed":"seed_confirm.sh: clean tree + demo passes; with patch.diff: go build ./... ok, go test -vet=off ./pkg/... passes (pkg/util/json does not build its tests before or after), demo fails",
 "detected_by_quick_check":det.split(),"missed_by":miss.strip()}
json.dump(meta,open(d+'/meta.json','w'),indent=1)
print(s,"detected_by=",det.split(),"missed=",miss.strip())
PY
done
