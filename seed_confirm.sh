#!/bin/sh
# Confirms a seeded change produced by a sub-agent and files it under /verif/seeded/<id>-<n>/:
#   seed_confirm.sh <property> <n> <seed dir> [package dir of the demo]
# clean tree + demo passes; with the patch: builds, the repository suite passes, the demo fails.
set -u
pid=$1; n=$2; sd=$3; pkgdir=${4:-}
export GOFLAGS=-mod=mod GOPROXY=off GOSUMDB=off GOTOOLCHAIN=local
[ -f "$sd/patch.diff" ] && [ -f "$sd/demo_test.go" ] || { echo "$pid-$n: incomplete seed"; exit 2; }
if [ -z "$pkgdir" ]; then
  pk=$(sed -n 's/^package \([a-z0-9_]*\).*/\1/p' "$sd/demo_test.go" | head -1 | sed 's/_test$//')
  for cand in $(grep -o 'pkg/[A-Za-z0-9_/.]*' "$sd/NOTES.md" | sed 's#/[A-Za-z0-9_]*\.go$##; s#/$##' | awk '!s[$0]++'); do
    if [ -d "/repo/$cand" ] && ls /repo/$cand/*.go >/dev/null 2>&1 && grep -q "^package $pk\b" /repo/$cand/*.go 2>/dev/null; then pkgdir=$cand; break; fi
  done
fi
[ -n "$pkgdir" ] || { echo "$pid-$n: cannot find the demo's package dir"; exit 2; }
wt=/var/tmp/seedchk.$$
git -C /repo worktree add -q --detach "$wt" HEAD || exit 2
fin() { git -C /repo worktree remove --force "$wt" >/dev/null 2>&1; }
cd "$wt"
cp "$sd/demo_test.go" "$pkgdir/zz_seed_demo_test.go"
go test -vet=off -count=1 "./$pkgdir/" >"$wt.clean.log" 2>&1 || { echo "$pid-$n: demo FAILS on the clean tree (see $wt.clean.log)"; fin; exit 1; }
rm "$pkgdir/zz_seed_demo_test.go"
git apply "$sd/patch.diff" 2>/dev/null || patch -p1 -s -F3 < "$sd/patch.diff" || { echo "$pid-$n: patch does not apply to HEAD"; fin; exit 1; }
find . -name '*.orig' -delete; git add -A -N . >/dev/null 2>&1; git diff > "$wt.rebased.diff"
go build ./... || { echo "$pid-$n: does not build"; fin; exit 1; }
go test -vet=off -count=1 ./pkg/... 2>&1 | grep -E "^(FAIL[[:space:]]+github|--- FAIL)" | grep -v "pkg/util/json" > "$wt.suite.log"
[ -s "$wt.suite.log" ] && { echo "$pid-$n: the repository suite fails with the patch:"; head -5 "$wt.suite.log"; fin; exit 1; }
cp "$sd/demo_test.go" "$pkgdir/zz_seed_demo_test.go"
if go test -vet=off -count=1 "./$pkgdir/" >"$wt.mut.log" 2>&1; then echo "$pid-$n: demo PASSES with the patch"; fin; exit 1; fi
fin
dst=/verif/seeded/$pid-$n; mkdir -p "$dst"
cp "$sd/demo_test.go" "$dst/"; cp "$wt.rebased.diff" "$dst/patch.diff"; [ -f "$sd/NOTES.md" ] && cp "$sd/NOTES.md" "$dst/"
echo "$pkgdir" > "$dst/demo_package_dir"
rm -f "$wt".*.log "$wt.rebased.diff"
echo "$pid-$n: CONFIRMED (demo in $pkgdir)"
