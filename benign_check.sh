#!/bin/sh
# False-alarm self-test (not registered in MANIFEST): applies a property-PRESERVING change to a scratch
# copy of the repository and expects every affected quick check to exit 0.
#   benign_check.sh <patch file> [property ...]
# default properties: those whose anchor files the patch touches (plus C19 / C20, which touch everything)
set -u
patch=$1; shift
scratch=${TMPDIR:-/var/tmp}/vp-benign.$$
rm -rf "$scratch"; mkdir -p "$scratch"
(cd /repo && git ls-files -z | xargs -0 cp --parents -t "$scratch") || exit 2
(cd "$scratch" && patch -p1 -s < "$patch") || { echo "patch failed"; rm -rf "$scratch"; exit 2; }
(cd "$scratch" && GOFLAGS=-mod=mod GOPROXY=off GOSUMDB=off go build ./... ) || { echo "does not compile"; rm -rf "$scratch"; exit 2; }
if [ $# -gt 0 ]; then ids="$*"; else
ids=$(python3 - "$patch" <<'PY'
import json,re,sys
files=set(re.findall(r'^\+\+\+ b/(\S+)',open(sys.argv[1]).read(),re.M))
dirs={f.rsplit('/',1)[0] for f in files}
out=[]
for l in open('/verif/properties.jsonl'):
    p=json.loads(l)
    af=set(p['anchors']['files'])
    if af & files or {a.rsplit('/',1)[0] for a in af} & dirs or p['id'] in ('C19',):
        out.append(p['id'])
print(' '.join(out))
PY
)
fi
bad=0
for c in $ids; do
  VERIF_REPO="$scratch" VERIF_EVIDENCE_DIR="$scratch.ev" VERIF_REPLAYS_DIR="$scratch.rp" /verif/check "$c" quick > "$scratch.out" 2>&1; rc=$?
  if [ $rc -ne 0 ]; then bad=1; echo "ALARM $c rc=$rc: $(grep -E 'VIOLATION|INFRA' "$scratch.out" | head -2 | cut -c1-300)"; cp "$scratch.out" "/var/tmp/benign_alarm_$(basename $(dirname $patch))_$(basename $(dirname $(dirname $(dirname $patch))))_$c.txt" 2>/dev/null; python3 -c "
import json,sys
try:
  e=json.load(open('$scratch.ev/$c.json'))
  for v in (e.get('violations') or [])[:3]: print('   ',json.dumps(v)[:900])
except Exception as x: print('   (no evidence)',x)
"; else echo "quiet $c"; fi
done
rm -rf "$scratch" "$scratch.ev" "$scratch.rp" "$scratch.out"
exit $bad
