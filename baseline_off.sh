#!/bin/sh
# The repository's own test suite with the verification guard (build tag "verif") OFF.
# Prints go test -json on stdout; the last stderr line summarises pass / fail counts.
cd "${VERIF_REPO:-/repo}" || exit 2
export GOFLAGS=-mod=mod GOPROXY=off GOSUMDB=off GOTOOLCHAIN=local
go test -json -vet=off -count=1 -timeout 25m ./... 2>&1
